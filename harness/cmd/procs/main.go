package main

// procs <C16|C19> -tier quick|thorough -seed N -out FILE -repo DIR [-delay]
//
// Process-level checks: builds the real rtcmlogger / proxy binaries from the repository's
// current working tree and drives them over pipes and TCP loopback.

import (
	"bytes"
	"context"
	"crypto/ecdsa"
	"crypto/elliptic"
	crand "crypto/rand"
	"crypto/tls"
	"crypto/x509"
	"crypto/x509/pkix"
	"encoding/hex"
	"encoding/json"
	"flag"
	"fmt"
	"io"
	"math/big"
	"math/rand"
	"net"
	"net/http"
	"os"
	"os/exec"
	"path/filepath"
	"regexp"
	"strings"
	"sync"
	"syscall"
	"time"
)

type failure struct {
	Class  string `json:"class"`
	Op     string `json:"op"`
	Impl   string `json:"impl"`
	Detail string `json:"detail"`
}

type result struct {
	Property           string         `json:"property"`
	Tier               string         `json:"tier"`
	Seed               int64          `json:"seed"`
	Evaluations        int            `json:"evaluations"`
	DistinctNontrivial int            `json:"distinct_nontrivial"`
	Rule               string         `json:"rule"`
	Classes            map[string]int `json:"classes"`
	Outcomes           map[string]int `json:"outcomes"`
	Branches           map[string]int `json:"branches"`
	Samples            []string       `json:"samples"`
	Disagreements      []any          `json:"disagreements"`
	OracleFailures     []failure      `json:"oracle_failures"`
	Extra              map[string]any `json:"extra"`
	Exhaustive         bool           `json:"exhaustive"`
	WallS              float64        `json:"wall_s"`
	Notes              []string       `json:"notes"`
}

func (r *result) record(class, op, outcome string, nontrivial bool, fail string) {
	r.Evaluations++
	r.Classes[class]++
	r.Outcomes[outcome]++
	if nontrivial {
		r.DistinctNontrivial++
	}
	if r.Classes[class] == 1 && len(r.Samples) < 12 {
		s := op
		if len(s) > 200 {
			s = s[:200] + "…"
		}
		r.Samples = append(r.Samples, class+": "+s+" => "+outcome)
	}
	if fail != "" && len(r.OracleFailures) < 20 {
		if len(op) > 3000 {
			op = op[:3000]
		}
		r.OracleFailures = append(r.OracleFailures, failure{class, op, outcome, fail})
	}
}

var (
	tier  = flag.String("tier", "quick", "")
	seed  = flag.Int64("seed", 1, "")
	out   = flag.String("out", "", "")
	repo  = flag.String("repo", "/repo", "")
	delay = flag.Bool("delay", false, "C16: build rtcmlogger with a delay before the recorder's write (widens the race deterministically)")
)

func n(q, t int) int {
	if *tier == "thorough" {
		return t
	}
	return q
}

func goEnv() []string {
	env := os.Environ()
	return append(env, "GOFLAGS=-mod=mod", "GOPROXY=off", "GOSUMDB=off", "GOTOOLCHAIN=local")
}

func build(pkg, outBin string, overlay string) error {
	args := []string{"build", "-o", outBin}
	if overlay != "" {
		args = append(args, "-overlay", overlay)
	}
	args = append(args, pkg)
	cmd := exec.Command("go", args...)
	cmd.Dir = *repo
	cmd.Env = goEnv()
	b, err := cmd.CombinedOutput()
	if err != nil {
		return fmt.Errorf("go build %s: %v\n%s", pkg, err, b)
	}
	return nil
}

func main() {
	if len(os.Args) < 2 {
		fmt.Fprintln(os.Stderr, "usage: procs <C16|C19> [flags]")
		os.Exit(2)
	}
	prop := os.Args[1]
	flag.CommandLine.Parse(os.Args[2:])
	start := time.Now()
	res := &result{Property: prop, Tier: *tier, Seed: *seed, Classes: map[string]int{}, Outcomes: map[string]int{}, Branches: map[string]int{}, Extra: map[string]any{}}
	var err error
	switch prop {
	case "C16":
		err = runC16(res)
	case "C19":
		err = runC19(res)
	default:
		err = fmt.Errorf("unknown property %s", prop)
	}
	if err != nil {
		fmt.Fprintln(os.Stderr, "procs:", err)
		os.Exit(3)
	}
	res.WallS = time.Since(start).Seconds()
	b, _ := json.MarshalIndent(res, "", " ")
	if *out != "" {
		os.WriteFile(*out, b, 0o644)
	}
	fmt.Printf("procs %s: %d runs, %d failures, %.1fs\n", prop, res.Evaluations, len(res.OracleFailures), res.WallS)
}

// ---- C16 ---------------------------------------------------------------------------------

// delayedLoggerOverlay writes a copy of rtcmlogger's main.go with a sleep at the start of
// writeRTCMLog and returns the overlay file.
func delayedLoggerOverlay(tmp string) (string, error) {
	src := filepath.Join(*repo, "apps/rtcmlogger/main.go")
	b, err := os.ReadFile(src)
	if err != nil {
		return "", err
	}
	s := string(b)
	re := regexp.MustCompile(`(?s)(func writeRTCMLog\([^)]*\)\s*\{)`)
	if !re.MatchString(s) {
		return "", fmt.Errorf("writeRTCMLog not found in %s", src)
	}
	s = re.ReplaceAllString(s, "$1\n\tverifDelay()\n")
	s += "\nfunc verifDelay() { <-timeAfterVerif() }\n"
	extra := "package main\n\nimport \"time\"\n\nfunc timeAfterVerif() <-chan time.Time { return time.After(40 * time.Millisecond) }\n"
	mainCopy := filepath.Join(tmp, "main_delayed.go")
	extraFile := filepath.Join(tmp, "zz_verif_delay.go")
	os.WriteFile(mainCopy, []byte(s), 0o644)
	os.WriteFile(extraFile, []byte(extra), 0o644)
	ov := map[string]map[string]string{"Replace": {src: mainCopy, filepath.Join(*repo, "apps/rtcmlogger/zz_verif_delay.go"): extraFile}}
	ovb, _ := json.Marshal(ov)
	ovf := filepath.Join(tmp, "overlay.json")
	os.WriteFile(ovf, ovb, 0o644)
	return ovf, nil
}

// lockedBuffer is a bytes.Buffer that can be read while the process is still writing to it.
type lockedBuffer struct {
	mu sync.Mutex
	b  bytes.Buffer
}

func (l *lockedBuffer) Write(p []byte) (int, error) {
	l.mu.Lock()
	defer l.mu.Unlock()
	return l.b.Write(p)
}
func (l *lockedBuffer) Len() int { l.mu.Lock(); defer l.mu.Unlock(); return l.b.Len() }
func (l *lockedBuffer) Bytes() []byte {
	l.mu.Lock()
	defer l.mu.Unlock()
	return append([]byte{}, l.b.Bytes()...)
}

func runC16(res *result) error {
	res.Rule = "the real rtcmlogger binary built from /repo: stdin fed in random chunks (empty, shorter and longer than the 8096-byte block, binary; also long runs of one byte and a constant message written again and again, one per write; also standard input as a regular file of 64 KiB to 1 MiB; the event log switched on in half of the runs, with and without a directory configured for it; a burst of exactly 1, 2 or 4 read blocks followed by silence with the input still open, which must come out within 5 s), stdout and the day's record file compared with the " +
		"input after the process has exited; also a build with a 40 ms delay before the recorder's write (overlay), which makes a missing wait deterministic; non-trivial = non-empty input; distinct = distinct input"
	tmp, err := os.MkdirTemp("", "verif-c16")
	if err != nil {
		return err
	}
	defer os.RemoveAll(tmp)
	now := time.Now()
	if (now.Hour() == 23 && now.Minute() >= 58) || (now.Hour() == 0 && now.Minute() < 2) {
		res.Notes = append(res.Notes, "within two minutes of local midnight: the daily log rotates by design; process runs skipped")
		res.record("skipped-midnight", "-", "skipped", false, "")
		return nil
	}
	bins := map[string]string{}
	plain := filepath.Join(tmp, "rtcmlogger")
	if err := build("./apps/rtcmlogger", plain, ""); err != nil {
		return err
	}
	bins["plain"] = plain
	ovf, err := delayedLoggerOverlay(tmp)
	if err == nil {
		delayed := filepath.Join(tmp, "rtcmlogger-delayed")
		if err := build("./apps/rtcmlogger", delayed, ovf); err == nil {
			bins["delayed-recorder"] = delayed
		} else {
			res.Notes = append(res.Notes, "delayed build failed: "+err.Error())
		}
	} else {
		res.Notes = append(res.Notes, "delayed overlay not possible: "+err.Error())
	}
	r := rand.New(rand.NewSource(*seed))
	sizes := []int{0, 1, 100, 8095, 8096, 8097, 20000, 50000}
	runs := n(24, 240)
	for i := 0; i < runs; i++ {
		size := sizes[i%len(sizes)]
		if i >= len(sizes) {
			size = r.Intn(40000)
		}
		data := make([]byte, size)
		r.Read(data)
		// repeating content: a long run of one byte (every 8096-byte block equals the one before) and a
		// constant message sent again and again, one per write (a station's 1005, a stuck device)
		content, unit := "random", 0
		switch {
		case i%6 == 4 && i >= len(sizes):
			content = "one-byte-run"
			data = bytes.Repeat([]byte{byte(r.Intn(2) * 0xff)}, 8096*(2+r.Intn(3))+r.Intn(300))
		case i%6 == 5 && i >= len(sizes):
			content = "constant-message-per-write"
			msg := frame(append([]byte{0x3e, 0xd0}, make([]byte, 17)...))
			unit = len(msg)
			data = bytes.Repeat(msg, 5+r.Intn(20))
		}
		// standard input as a regular file (replaying a recorded session): every read returns as much as
		// the program asks for, whatever its buffer size
		fromFile := i%6 == 3 && i >= len(sizes)
		if fromFile {
			content = "from-file"
			data = make([]byte, []int{65536, 65537, 131072, 200000, 1 << 20}[r.Intn(5)])
			r.Read(data)
		}
		// a live source: a burst of exactly one, two or four read blocks, then silence with standard
		// input still open - the burst must come out of standard output without waiting for more input
		live := i%6 == 1 && i >= len(sizes)
		if live {
			content = "live-burst-then-silence"
			data = make([]byte, 8096*[]int{1, 2, 4}[r.Intn(3)])
			r.Read(data)
		}
		size = len(data)
		variant := "plain"
		if _, ok := bins["delayed-recorder"]; ok && i%2 == 1 {
			variant = "delayed-recorder"
		}
		dir := filepath.Join(tmp, fmt.Sprintf("run%d", i))
		os.MkdirAll(dir, 0o755)
		cfg := filepath.Join(dir, "cfg.json")
		logEvents := i%2 == 0 && i >= len(sizes)
		eventDir := dir
		if logEvents && i%4 == 2 {
			eventDir = "" // events on, no directory configured for them
		}
		os.WriteFile(cfg, []byte(fmt.Sprintf(`{"log_events": %v, "message_log_directory": %q, "event_log_directory": %q}`, logEvents, dir, eventDir)), 0o644)
		cmd := exec.Command(bins[variant], "-c", cfg)
		cmd.Dir = dir
		var stdin io.WriteCloser
		if fromFile {
			inPath := filepath.Join(dir, "input.bin")
			os.WriteFile(inPath, data, 0o644)
			f, _ := os.Open(inPath)
			defer f.Close()
			cmd.Stdin = f
		} else {
			stdin, _ = cmd.StdinPipe()
		}
		var stdout lockedBuffer
		cmd.Stdout = &stdout
		fail := ""
		liveFail := make(chan string, 1)
		if err := cmd.Start(); err != nil {
			return err
		}
		go func() {
			if fromFile {
				return
			}
			if live {
				stdin.Write(data)
				deadline := time.Now().Add(5 * time.Second)
				for stdout.Len() < len(data) && time.Now().Before(deadline) {
					time.Sleep(10 * time.Millisecond)
				}
				if n := stdout.Len(); n < len(data) {
					liveFail <- fmt.Sprintf("5 s after a burst of %d bytes, with standard input still open, standard output had received %d of them", len(data), n)
				}
				stdin.Close()
				return
			}
			rest := data
			for len(rest) > 0 {
				k := 1 + r.Intn(9000)
				if unit > 0 {
					k = unit
				}
				if k > len(rest) {
					k = len(rest)
				}
				stdin.Write(rest[:k])
				rest = rest[k:]
				if unit > 0 {
					time.Sleep(3 * time.Millisecond) // each copy arrives as a read of its own
				} else if r.Intn(4) == 0 {
					time.Sleep(time.Millisecond)
				}
			}
			stdin.Close()
		}()
		done := make(chan error, 1)
		go func() { done <- cmd.Wait() }()
		select {
		case err := <-done:
			if err != nil {
				fail = "rtcmlogger exited with " + err.Error()
			}
		case <-time.After(60 * time.Second):
			cmd.Process.Kill()
			fail = "rtcmlogger did not exit after end of input"
		}
		if fail == "" {
			files, _ := filepath.Glob(filepath.Join(dir, "rtcmlogger.*.rtcm"))
			var rec []byte
			for _, f := range files {
				b, _ := os.ReadFile(f)
				rec = append(rec, b...)
			}
			switch {
			case len(liveFail) > 0:
				fail = <-liveFail
			case !bytes.Equal(stdout.Bytes(), data):
				fail = fmt.Sprintf("standard output has %d bytes, standard input had %d", stdout.Len(), len(data))
			case !bytes.Equal(rec, data):
				fail = fmt.Sprintf("after exit the record file holds %d of %d bytes", len(rec), len(data))
			}
		}
		outcome := "ok"
		if fail != "" {
			outcome = "fail"
		}
		op := fmt.Sprintf("rtcmlogger variant=%s content=%s events=%v size=%d seed=%d run=%d", variant, content, logEvents, size, *seed, i)
		class := variant
		if logEvents {
			class += "/event-log-on"
		}
		if content != "random" {
			class += "/" + content
		}
		res.record(class, op, outcome, size > 0, fail)
		os.RemoveAll(dir)
	}
	return nil
}

// ---- C19 ---------------------------------------------------------------------------------

// freePorts returns two DIFFERENT free ports (both listeners are open at the same time before
// they are closed: two calls of freePort in a row can return the same number).
func freePorts() (int, int) {
	l1, _ := net.Listen("tcp", "127.0.0.1:0")
	l2, _ := net.Listen("tcp", "127.0.0.1:0")
	defer l1.Close()
	defer l2.Close()
	return l1.Addr().(*net.TCPAddr).Port, l2.Addr().(*net.TCPAddr).Port
}

func freePort() int {
	l, _ := net.Listen("tcp", "127.0.0.1:0")
	defer l.Close()
	return l.Addr().(*net.TCPAddr).Port
}

func crc24(data []byte) uint32 {
	var crc uint32
	for _, b := range data {
		crc ^= uint32(b) << 16
		for i := 0; i < 8; i++ {
			crc <<= 1
			if crc&0x1000000 != 0 {
				crc ^= 0x1864CFB
			}
		}
	}
	return crc & 0xFFFFFF
}

func frame(payload []byte) []byte {
	k := len(payload)
	f := []byte{0xd3, byte(k >> 8), byte(k)}
	f = append(f, payload...)
	c := crc24(f)
	return append(f, byte(c>>16), byte(c>>8), byte(c))
}

func traffic(r *rand.Rand, kind string, count int) []byte {
	var bs []byte
	types := []int{1005, 1006, 1074, 1077, 1084, 1087, 1094, 1097, 1124, 1127, 1230, 4000}
	for k := 0; k < count; k++ {
		switch kind {
		case "valid-frames":
			p := make([]byte, 1+r.Intn(200))
			r.Read(p)
			t := types[r.Intn(len(types))]
			p[0] = byte(t >> 4)
			if len(p) > 1 {
				p[1] = byte(t<<4) | p[1]&0xf
			}
			bs = append(bs, frame(p)...)
		case "malformed-crc-valid":
			// CRC-valid frames of decodable types whose payload is too short or inconsistent
			p := make([]byte, 1+r.Intn(12))
			r.Read(p)
			t := types[r.Intn(10)]
			p[0] = byte(t >> 4)
			if len(p) > 1 {
				p[1] = byte(t<<4) | p[1]&0xf
			}
			bs = append(bs, frame(p)...)
		case "markup":
			bs = append(bs, []byte("<script>alert(1)</script><b>x</b>")...)
			p := append([]byte{0x3e, 0xd0}, []byte("<img src=x onerror=alert(2)>")...)
			bs = append(bs, frame(p)...)
		default:
			p := make([]byte, 1+r.Intn(300))
			r.Read(p)
			bs = append(bs, p...)
		}
	}
	return bs
}

func runC19(res *result) error {
	res.Rule = "the real proxy binary built from /repo between a test client and a test upstream server on TCP loopback: client-to-server and server-to-client byte streams (valid frames, CRC-valid frames with " +
		"malformed content, random bytes, payloads and non-RTCM data containing '<' and '>') in random chunkings, as single bursts of several read buffers, and as single bursts of exactly 1..3 times 1024/2048/4096/8192 bytes followed by silence; every fourth run the server half-closes after its answer and the client sends afterwards; one run in eight has a server that stops reading for 3 s while 6 MiB are on their way (the proxy's writes block); one run in eight has a client that only listens while the server pauses for 12 s (thorough 65 s) in mid-answer; plus sessions through the proxy in TLS mode in which a TLS 1.2 client sends its last burst and hangs up at once; both directions compared byte for byte; in verbose runs the message log " +
		"(raw bytes of every message the parser produced, i.e. what the report lists) must be a prefix of the relayed client stream and, for streams of valid frames, all of it; /status/report fetched and the number of '<'/'>' in the body " +
		"compared with the number the page has when the traffic contains no markup at all; non-trivial = at least 100 bytes relayed; distinct = distinct traffic"
	tmp, err := os.MkdirTemp("", "verif-c19")
	if err != nil {
		return err
	}
	defer os.RemoveAll(tmp)
	bin := filepath.Join(tmp, "proxy")
	if err := build("./apps/proxy", bin, ""); err != nil {
		return err
	}
	r := rand.New(rand.NewSource(*seed))
	kinds := []string{"valid-frames", "malformed-crc-valid", "random-bytes", "markup"}
	runs := n(8, 60)
	baseline := -1
	retried := 0
	for i := 0; i < runs+1; i++ {
		kind := kinds[i%len(kinds)]
		if i == 0 {
			kind = "valid-frames" // the first run doubles as the markup baseline
		}
		fail := ""
		slowServer := i%8 == 1
		var up net.Listener
		if slowServer {
			// a small receive buffer on the server's side, so that the proxy's writes really block
			lc := net.ListenConfig{Control: func(network, address string, c syscall.RawConn) error {
				return c.Control(func(fd uintptr) { syscall.SetsockoptInt(int(fd), syscall.SOL_SOCKET, syscall.SO_RCVBUF, 4096) })
			}}
			up, _ = lc.Listen(context.Background(), "tcp", "127.0.0.1:0")
		} else {
			up, _ = net.Listen("tcp", "127.0.0.1:0")
		}
		upPort := up.Addr().(*net.TCPAddr).Port
		proxyPort, ctlPort := freePorts()
		dir := filepath.Join(tmp, fmt.Sprintf("run%d", i))
		os.MkdirAll(dir, 0o755)
		cfg := filepath.Join(dir, "proxy.json")
		os.WriteFile(cfg, []byte(fmt.Sprintf(`{"remote_host": "127.0.0.1:%d", "proxy_host": "127.0.0.1", "proxy_port": %d, "control_host": "127.0.0.1", "control_port": %d, "record_messages": true, "message_log_directory": %q}`,
			upPort, proxyPort, ctlPort, filepath.Join(dir, "logs"))), 0o644)
		// every second run: verbose, so that the message log (raw bytes of every parsed message) is written
		args := []string{"-c", cfg}
		logged := r.Intn(2) == 0 || i == 0
		if !logged {
			args = append(args, "-q")
		}
		burst := r.Intn(3) == 0 // the client writes everything in one call (several read buffers in flight)
		if slowServer {
			logged = false
			args = []string{"-c", cfg, "-q"}
		}
		cmd := exec.Command(bin, args...)
		cmd.Dir = dir
		var perr bytes.Buffer
		cmd.Stdout = io.Discard
		cmd.Stderr = &perr
		if err := cmd.Start(); err != nil {
			return err
		}
		// one run in eight: a client that sends its request and then only listens (an NTRIP rover),
		// while the server pauses for longer than any plausible idle limit and then goes on sending
		listening := i%8 == 5 && i < 16 // at most two such runs: each lasts as long as its pause
		idle := time.Duration(n(12, 65)) * time.Second
		count := 3 + r.Intn(8)
		if burst {
			count = 40 + r.Intn(40)
		}
		if listening {
			burst, count = false, 1
		}
		c2s := traffic(r, kind, count)
		// one run in eight: a server that stops reading for a while, with so much data on its way that
		// the proxy's writes block (back pressure) while the client keeps sending
		if slowServer {
			burst = true
			c2s = make([]byte, 6<<20)
			r.Read(c2s)
		}
		// every fourth run: one burst whose length is an exact multiple of a plausible read-buffer
		// size, after which the client stays quiet (it waits for the server's answer) - the bytes
		// must still arrive upstream
		aligned := i%4 == 2
		// every fourth run: the server sends its complete answer, shuts down its sending direction and
		// goes on reading; what the client sends after that must still arrive
		halfClose := i%4 == 3
		if aligned {
			burst = true
			size := []int{1024, 2048, 4096, 8192}[r.Intn(4)] * (1 + r.Intn(3))
			for len(c2s) < size {
				c2s = append(c2s, traffic(r, kind, 40)...)
			}
			c2s = c2s[:size]
		}
		s2c := traffic(r, kinds[r.Intn(len(kinds))], 3+r.Intn(8))
		gotUp := make(chan []byte, 1)
		go func() {
			conn, err := up.Accept()
			if err != nil {
				gotUp <- nil
				return
			}
			defer conn.Close()
			// send the server's data in chunks while reading the client's
			sent := make(chan bool, 1)
			defer func() { <-sent }()
			go func() {
				defer func() { sent <- true }()
				rest := s2c
				paused := false
				if listening && len(s2c) >= 2 {
					// first half, a long silence, second half
					conn.Write(s2c[:len(s2c)/2])
					time.Sleep(idle)
					rest, paused = s2c[len(s2c)/2:], true
				}
				for len(rest) > 0 {
					k := 1 + r.Intn(500)
					if k > len(rest) {
						k = len(rest)
					}
					conn.Write(rest[:k])
					rest = rest[k:]
					time.Sleep(time.Millisecond)
					if listening && !paused && len(rest) <= len(s2c)/2 && len(rest) > 0 {
						paused = true
						time.Sleep(idle)
					}
				}
				if tc, ok := conn.(*net.TCPConn); ok && halfClose {
					tc.CloseWrite()
				}
			}()
			var buf []byte
			tmpb := make([]byte, 4096)
			if slowServer {
				time.Sleep(3000 * time.Millisecond)
			}
			conn.SetReadDeadline(time.Now().Add(30 * time.Second))
			if slowServer {
				conn.SetReadDeadline(time.Now().Add(40 * time.Second))
			}
			for len(buf) < len(c2s) {
				k, err := conn.Read(tmpb)
				buf = append(buf, tmpb[:k]...)
				if err != nil {
					break
				}
			}
			gotUp <- buf
		}()
		// connect to the proxy (retry until it listens)
		var conn net.Conn
		for try := 0; try < 100; try++ {
			conn, err = net.Dial("tcp", fmt.Sprintf("127.0.0.1:%d", proxyPort))
			if err == nil {
				break
			}
			time.Sleep(30 * time.Millisecond)
		}
		if conn == nil && retried < 3 {
			// the proxy did not come up (most likely another process took one of its ports between our
			// choosing them and its binding them): the same run again, with new ports
			retried++
			cmd.Process.Kill()
			cmd.Wait()
			up.Close()
			os.RemoveAll(dir)
			i--
			continue
		}
		if conn == nil {
			fail = "cannot connect to the proxy: " + perr.String()
		} else {
			// in every third run the operator's status page is polled continuously while the traffic flows
			polled := i%3 == 1
			stopPoll := make(chan struct{})
			pollDone := make(chan int, 1)
			if polled {
				go func() {
					client := &http.Client{Timeout: 3 * time.Second}
					polls := 0
					for {
						select {
						case <-stopPoll:
							pollDone <- polls
							return
						default:
						}
						if resp, err := client.Get(fmt.Sprintf("http://127.0.0.1:%d/status/report", ctlPort)); err == nil {
							io.Copy(io.Discard, resp.Body)
							resp.Body.Close()
							polls++
						}
					}
				}()
			}
			gotAll := make(chan struct{})
			go func() {
				rest := c2s
				if halfClose {
					<-gotAll
					time.Sleep(150 * time.Millisecond)
				}
				if burst {
					conn.Write(rest)
					return
				}
				for len(rest) > 0 {
					k := 1 + r.Intn(700)
					if k > len(rest) {
						k = len(rest)
					}
					conn.Write(rest[:k])
					rest = rest[k:]
					time.Sleep(time.Millisecond)
				}
			}()
			var fromServer []byte
			tmpb := make([]byte, 4096)
			conn.SetReadDeadline(time.Now().Add(20 * time.Second))
			if listening {
				conn.SetReadDeadline(time.Now().Add(idle + 10*time.Second))
			}
			for len(fromServer) < len(s2c) {
				k, err := conn.Read(tmpb)
				fromServer = append(fromServer, tmpb[:k]...)
				if err != nil {
					break
				}
			}
			close(gotAll)
			upstream := <-gotUp
			if polled {
				close(stopPoll)
				res.Branches["status-polls-during-traffic"] += <-pollDone
				kind += "/polled"
			}
			switch {
			case !bytes.Equal(upstream, c2s):
				fail = fmt.Sprintf("the upstream server received %d bytes, the client sent %d (first difference at %d)", len(upstream), len(c2s), firstDiff(upstream, c2s))
			case !bytes.Equal(fromServer, s2c):
				fail = fmt.Sprintf("the client received %d bytes, the server sent %d", len(fromServer), len(s2c))
			}
			if fail == "" && logged {
				// the message log holds the raw bytes of every message the parser produced (and the report
				// lists): they must be the relayed stream itself, in order
				time.Sleep(200 * time.Millisecond)
				var logBytes []byte
				files, _ := filepath.Glob(filepath.Join(dir, "logs", "data.*.rtcm"))
				for _, f := range files {
					b, _ := os.ReadFile(f)
					logBytes = append(logBytes, b...)
				}
				marker := []byte("[*] Listening for Client call ...\n")
				if k := bytes.Index(logBytes, marker); k >= 0 {
					parsed := logBytes[k+len(marker):]
					switch {
					case !bytes.HasPrefix(c2s, parsed):
						fail = fmt.Sprintf("the messages parsed for the report and the message log are not the relayed stream: first difference at byte %d of %d parsed bytes (relayed %d)", firstDiff(parsed, c2s), len(parsed), len(c2s))
					case kind == "valid-frames" && !aligned && len(parsed) != len(c2s):
						fail = fmt.Sprintf("the message log holds %d of the %d relayed bytes of valid frames", len(parsed), len(c2s))
					}
				} else {
					res.Notes = append(res.Notes, "message log marker not found; parsed-stream comparison skipped")
				}
			}
			if fail == "" {
				time.Sleep(150 * time.Millisecond) // let the parser leg fill the queue
				// (a client with a time limit, and three attempts: the harness itself must never wait for ever)
				var resp *http.Response
				var err error
				for attempt := 0; attempt < 3; attempt++ {
					client := &http.Client{Timeout: 10 * time.Second}
					resp, err = client.Get(fmt.Sprintf("http://127.0.0.1:%d/status/report", ctlPort))
					if err == nil {
						break
					}
				}
				if err != nil {
					fail = "status report not available: " + err.Error()
				} else {
					body, _ := io.ReadAll(resp.Body)
					resp.Body.Close()
					lt := bytes.Count(body, []byte("<"))
					if baseline < 0 {
						baseline = lt
					} else if lt != baseline {
						fail = fmt.Sprintf("the status page has %d '<' characters; with markup-free traffic it has %d: relayed data injected markup", lt, baseline)
					}
					if bytes.Contains(body, []byte("<script>")) || bytes.Contains(body, []byte("<img src")) {
						fail = "relayed markup appears verbatim in the status page"
					}
				}
			}
			conn.Close()
		}
		cmd.Process.Kill()
		cmd.Wait()
		up.Close()
		if fail == "" && strings.Contains(perr.String(), "panic:") {
			fail = "the proxy panicked: " + lastLines(perr.String(), 6)
		}
		outcome := "ok"
		if fail != "" {
			outcome = "fail"
		}
		if burst {
			kind += "/burst"
		}
		if aligned {
			kind += fmt.Sprintf("/aligned-%d", len(c2s))
		}
		if halfClose {
			kind += "/server-half-close"
		}
		if listening {
			kind += fmt.Sprintf("/listening-client-%v", idle)
		}
		if slowServer {
			kind = "random-bytes/slow-server-6MiB"
		}
		if logged {
			kind += "/logged"
		}
		res.record(kind, fmt.Sprintf("proxy kind=%s c2s=%s s2c=%d bytes", kind, hex.EncodeToString(c2s[:min(len(c2s), 60)]), len(s2c)), outcome, len(c2s) >= 100, fail)
		os.RemoveAll(dir)
	}
	// TLS mode: the proxy terminates TLS towards the client (with a certificate it makes itself) and
	// speaks TLS to the server.  A TLS 1.2 peer that sends its last burst and hangs up at once
	// delivers the data and the end of the stream to the proxy in the same read.
	for k := 0; k < n(2, 6); k++ {
		runTLSSession(bin, tmp, res, r, k)
	}
	return nil
}

// selfSigned makes a throw-away certificate for the test upstream server.
func selfSigned() (tls.Certificate, error) {
	key, err := ecdsa.GenerateKey(elliptic.P256(), crand.Reader)
	if err != nil {
		return tls.Certificate{}, err
	}
	tmpl := x509.Certificate{SerialNumber: big.NewInt(1), Subject: pkix.Name{CommonName: "verif upstream"},
		NotBefore: time.Now().Add(-time.Hour), NotAfter: time.Now().Add(24 * time.Hour),
		KeyUsage: x509.KeyUsageDigitalSignature, ExtKeyUsage: []x509.ExtKeyUsage{x509.ExtKeyUsageServerAuth},
		IPAddresses: []net.IP{net.ParseIP("127.0.0.1")}}
	der, err := x509.CreateCertificate(crand.Reader, &tmpl, &tmpl, &key.PublicKey, key)
	if err != nil {
		return tls.Certificate{}, err
	}
	return tls.Certificate{Certificate: [][]byte{der}, PrivateKey: key}, nil
}

func runTLSSession(bin, tmp string, res *result, r *rand.Rand, k int) {
	cert, err := selfSigned()
	if err != nil {
		res.Notes = append(res.Notes, "TLS session skipped: "+err.Error())
		return
	}
	inner, _ := net.Listen("tcp", "127.0.0.1:0")
	up := tls.NewListener(inner, &tls.Config{Certificates: []tls.Certificate{cert}})
	defer up.Close()
	upPort := inner.Addr().(*net.TCPAddr).Port
	proxyPort, ctlPort := freePorts()
	dir := filepath.Join(tmp, fmt.Sprintf("tls%d", k))
	os.MkdirAll(dir, 0o755)
	defer os.RemoveAll(dir)
	cfg := filepath.Join(dir, "proxy.json")
	os.WriteFile(cfg, []byte(fmt.Sprintf(`{"remote_host": "127.0.0.1:%d", "proxy_host": "127.0.0.1", "proxy_port": %d, "control_host": "127.0.0.1", "control_port": %d, "tls": {"country": ["GB"], "org": ["verif"], "common_name": "127.0.0.1"}, "record_messages": true, "message_log_directory": %q}`,
		upPort, proxyPort, ctlPort, filepath.Join(dir, "logs"))), 0o644)
	cmd := exec.Command(bin, "-c", cfg, "-s", "-q")
	cmd.Dir = dir
	var perr bytes.Buffer
	cmd.Stdout = io.Discard
	cmd.Stderr = &perr
	if err := cmd.Start(); err != nil {
		res.Notes = append(res.Notes, "TLS session skipped: "+err.Error())
		return
	}
	defer func() { cmd.Process.Kill(); cmd.Wait() }()
	c2s := traffic(r, []string{"valid-frames", "random-bytes"}[k%2], 1+r.Intn(3))
	s2c := traffic(r, "valid-frames", 1)
	gotUp := make(chan []byte, 1)
	go func() {
		conn, err := up.Accept()
		if err != nil {
			gotUp <- nil
			return
		}
		defer conn.Close()
		conn.Write(s2c)
		conn.SetReadDeadline(time.Now().Add(10 * time.Second))
		b, _ := io.ReadAll(conn)
		gotUp <- b
	}()
	var conn *tls.Conn
	for try := 0; try < 150; try++ {
		conn, err = tls.Dial("tcp", fmt.Sprintf("127.0.0.1:%d", proxyPort), &tls.Config{InsecureSkipVerify: true, MaxVersion: tls.VersionTLS12})
		if err == nil {
			break
		}
		time.Sleep(30 * time.Millisecond)
	}
	fail := ""
	kind := fmt.Sprintf("tls-1.2-client-hangs-up-at-once/%d-bytes", len(c2s))
	if conn == nil {
		res.Notes = append(res.Notes, "TLS session skipped: cannot connect to the proxy in TLS mode: "+lastLines(perr.String(), 3))
		return
	}
	// read the server's greeting, then send the last burst and hang up at once
	conn.SetReadDeadline(time.Now().Add(10 * time.Second))
	greeting := make([]byte, len(s2c))
	if _, err := io.ReadFull(conn, greeting); err != nil || !bytes.Equal(greeting, s2c) {
		fail = fmt.Sprintf("the client did not receive the server's %d bytes through the TLS proxy (%v)", len(s2c), err)
	}
	conn.Write(c2s)
	conn.Close()
	upstream := <-gotUp
	if fail == "" && !bytes.Equal(upstream, c2s) {
		fail = fmt.Sprintf("the upstream server received %d bytes, the client sent %d and hung up (TLS 1.2: the last data and the end of the stream arrive together)", len(upstream), len(c2s))
	}
	outcome := "ok"
	if fail != "" {
		outcome = "fail"
	}
	res.record(kind, fmt.Sprintf("proxy-tls run=%d c2s=%s", k, hex.EncodeToString(c2s[:min(len(c2s), 60)])), outcome, true, fail)
}

func firstDiff(a, b []byte) int {
	for i := 0; i < len(a) && i < len(b); i++ {
		if a[i] != b[i] {
			return i
		}
	}
	return min(len(a), len(b))
}

func lastLines(s string, k int) string {
	ls := strings.Split(strings.TrimSpace(s), "\n")
	if len(ls) > k {
		ls = ls[len(ls)-k:]
	}
	return strings.Join(ls, " | ")
}
