package main

import (
	"fmt"
	"math/big"

	"github.com/goblimey/go-ntrip/rtcm/utils"
)

func init() {
	opTable["bitsu"] = func(t []string) *Obs {
		buf, pos, n := unhx(t[1]), atoi(t[2]), atoi(t[3])
		v := utils.GetBitsAsUint64(buf, uint(pos), uint(n))
		return &Obs{Line: fmt.Sprintf("ok %d", v), Data: v}
	}
	opTable["bitsi"] = func(t []string) *Obs {
		buf, pos, n := unhx(t[1]), atoi(t[2]), atoi(t[3])
		v := utils.GetBitsAsInt64(buf, uint(pos), uint(n))
		return &Obs{Line: fmt.Sprintf("ok %d", v), Data: v}
	}

	props["C14"] = &Prop{
		Rule: "ops bitsu/bitsi <buffer> <pos> <len>: all 8 alignments x all widths 1..64 (signed 2..64) x " +
			"pattern classes (zeros, ones, minimum value, alternating, random) with random surrounding bits; a 17,000-byte buffer with fields starting, ending and lying beyond bit 2^15, 2^16 and 2^17; " +
			"non-trivial = field inside the buffer; distinct = distinct op line",
		Gen:        genC14,
		Oracle:     oracleC14,
		NonTrivial: func(op string, o *Obs) bool { return o.Panic == "" },
	}
}

// fieldValue computes, independently of the code under test, the big-endian value of the
// addressed bits with math/big.
func fieldValue(buf []byte, pos, n int) *big.Int {
	v := new(big.Int)
	for i := pos; i < pos+n; i++ {
		bit := (buf[i/8] >> (7 - uint(i%8))) & 1
		v.Lsh(v, 1)
		if bit == 1 {
			v.Or(v, big.NewInt(1))
		}
	}
	return v
}

func oracleC14(op string, o *Obs) string {
	var kind, h string
	var pos, n int
	fmt.Sscanf(op, "%s %s %d %d", &kind, &h, &pos, &n)
	buf := unhx(h)
	inside := pos+n <= 8*len(buf)
	if !inside {
		return "" // outside the property's quantifier (the Go code panics)
	}
	if o.Panic != "" {
		return "panic on a field inside the buffer: " + o.Panic
	}
	want := fieldValue(buf, pos, n)
	if kind == "bitsi" {
		if n < 2 {
			return ""
		}
		if want.Bit(n-1) == 1 {
			want.Sub(want, new(big.Int).Lsh(big.NewInt(1), uint(n)))
		}
		got := big.NewInt(o.Data.(int64))
		if got.Cmp(want) != 0 {
			return fmt.Sprintf("signed value %v, two's complement of the addressed bits is %v", got, want)
		}
		return ""
	}
	got := new(big.Int).SetUint64(o.Data.(uint64))
	if got.Cmp(want) != 0 {
		return fmt.Sprintf("unsigned value %v, addressed bits are %v", got, want)
	}
	return ""
}

func genC14(c *Ctx, emit func(class, op string)) {
	patterns := []string{"zeros", "ones", "min", "alt", "random", "max"}
	rounds := c.N(1, 6)
	for r := 0; r < rounds; r++ {
		for align := 0; align < 8; align++ {
			for n := 1; n <= 64; n++ {
				for _, pat := range patterns {
					lead := c.Rng.Intn(3)
					pos := lead*8 + align
					total := (pos+n+7)/8 + c.Rng.Intn(3)
					buf := make([]byte, total)
					c.Rng.Read(buf)
					for i := 0; i < n; i++ {
						var bit byte
						switch pat {
						case "zeros":
							bit = 0
						case "ones":
							bit = 1
						case "min":
							if i == 0 {
								bit = 1
							}
						case "max":
							if i != 0 {
								bit = 1
							}
						case "alt":
							bit = byte(i & 1)
						default:
							bit = byte(c.Rng.Intn(2))
						}
						k := pos + i
						buf[k/8] &^= 1 << (7 - uint(k%8))
						buf[k/8] |= bit << (7 - uint(k%8))
					}
					emit("u-"+pat, fmt.Sprintf("bitsu %s %d %d", hx(buf), pos, n))
					if n >= 2 {
						emit("i-"+pat, fmt.Sprintf("bitsi %s %d %d", hx(buf), pos, n))
					}
				}
			}
		}
	}
	// big buffers: fields whose start or end lies at or beyond bit 2^15, 2^16 and 2^17 (a position
	// held in too narrow a type wraps there)
	{
		big := make([]byte, 17000)
		c.Rng.Read(big)
		h := hx(big)
		for _, edge := range []int{1 << 15, 1 << 16, 1 << 17} {
			for k := 0; k < c.N(6, 40); k++ {
				n := 1 + c.Rng.Intn(64)
				pos := edge - c.Rng.Intn(n+1) + c.Rng.Intn(3)*[]int{0, 1, 70}[c.Rng.Intn(3)]
				if k%3 == 0 {
					pos = edge - n // ends exactly at the edge
				}
				if k%3 == 1 {
					pos = edge + c.Rng.Intn(500) // starts beyond it
				}
				emit("big-buffer", fmt.Sprintf("bitsu %s %d %d", h, pos, n))
				if n >= 2 {
					emit("big-buffer", fmt.Sprintf("bitsi %s %d %d", h, pos, n))
				}
			}
		}
	}
	// fields that run off the end of the buffer: model and code must both panic
	for i := 0; i < c.N(40, 400); i++ {
		total := 1 + c.Rng.Intn(4)
		buf := make([]byte, total)
		c.Rng.Read(buf)
		n := 1 + c.Rng.Intn(64)
		pos := total*8 - c.Rng.Intn(n) // pos+n > 8*total
		if pos < 0 {
			pos = 0
			n = total*8 + 1 + c.Rng.Intn(8)
		}
		emit("u-overrun", fmt.Sprintf("bitsu %s %d %d", hx(buf), pos, n))
	}
}
