package main

// MSM decoding: ops msm4/msm7 <frame hex> [exp=<hex of the expected canonical line>],
// an independent Go encoder of well-formed MSM messages (the oracle of C04), and the
// generators of C04 and C07.

import (
	"encoding/hex"
	"fmt"
	"log/slog"
	"math/bits"
	"math/rand"
	"strings"

	"github.com/goblimey/go-ntrip/rtcm/header"
	msm4 "github.com/goblimey/go-ntrip/rtcm/type_msm4/message"
	msm7 "github.com/goblimey/go-ntrip/rtcm/type_msm7/message"
)

func msmErrClass(s string) string {
	switch {
	case strings.Contains(s, "bitstream is too short for an MSM header - got"):
		return "header-short"
	case strings.Contains(s, "is not an MSM4 or an MSM7"):
		return "not-msm"
	case strings.Contains(s, "cellMask is"):
		return "cellmask-too-long"
	case strings.Contains(s, "bitstream is too short for an MSM header with"):
		return "header-short-mask"
	case strings.Contains(s, "is not an MSM4"), strings.Contains(s, "is not an MSM7"):
		return "wrong-family"
	case strings.Contains(s, "satellite cells"):
		return "sat-overrun"
	case strings.Contains(s, "want at least one"):
		return "sig-overrun-multi"
	case strings.Contains(s, "overrun - want"):
		return "sig-overrun"
	}
	return "other(" + strings.ReplaceAll(s, " ", "_") + ")"
}

func boolRow(r []bool) string {
	var sb strings.Builder
	for _, b := range r {
		if b {
			sb.WriteByte('t')
		} else {
			sb.WriteByte('f')
		}
	}
	return sb.String()
}

func joinUints(xs []uint) string {
	var p []string
	for _, x := range xs {
		p = append(p, fmt.Sprint(x))
	}
	return strings.Join(p, ",")
}

func canonHeader(h *header.Header) string {
	var rows []string
	for _, r := range h.Cells {
		rows = append(rows, boolRow(r))
	}
	return fmt.Sprintf("hdr=%d,%d,%d,%v,%d,%d,%d,%d,%v,%d,%d,%d,%d,%d sats=%s sigs=%s cells=%s",
		h.MessageType, h.StationID, h.Timestamp, h.MultipleMessage, h.IssueOfDataStation, h.SessionTransmissionTime,
		h.ClockSteeringIndicator, h.ExternalClockSteeringIndicator, h.GNSSDivergenceFreeSmoothingIndicator,
		h.GNSSSmoothingInterval, h.SatelliteMask, h.SignalMask, h.CellMask, h.NumSignalCells,
		joinUints(h.Satellites), joinUints(h.Signals), strings.Join(rows, "/"))
}

func b2i(b bool) int {
	if b {
		return 1
	}
	return 0
}

func canonMSM4(m *msm4.Message) string {
	var sb strings.Builder
	var wls []string
	sb.WriteString("ok " + canonHeader(m.Header))
	for i := range m.Satellites {
		s := &m.Satellites[i]
		fmt.Fprintf(&sb, " sat=%d:%d:%d", s.ID, s.RangeWholeMillis, s.RangeFractionalMillis)
	}
	fmt.Fprintf(&sb, " nsigrows=%d", len(m.Signals))
	for i := range m.Signals {
		for j := range m.Signals[i] {
			c := &m.Signals[i][j]
			idx, sid := -1, -1
			for k := range m.Satellites {
				if c.Satellite == &m.Satellites[k] {
					idx = k
				}
			}
			if c.Satellite != nil {
				sid = int(c.Satellite.ID)
			}
			fmt.Fprintf(&sb, " sig=%d:%d:%d:%d:%d:%d:%d:%d", idx, sid, c.ID, c.RangeDelta, c.PhaseRangeDelta,
				c.LockTimeIndicator, b2i(c.HalfCycleAmbiguity), c.CarrierToNoiseRatio)
			wls = append(wls, f64fields(c.Wavelength))
		}
	}
	fmt.Fprintf(&sb, " const=%s wl=%s", strings.ReplaceAll(m.Header.Constellation, " ", "_"), strings.Join(wls, ","))
	return sb.String()
}

func canonMSM7(m *msm7.Message) string {
	var sb strings.Builder
	var wls []string
	sb.WriteString("ok " + canonHeader(m.Header))
	for i := range m.Satellites {
		s := &m.Satellites[i]
		fmt.Fprintf(&sb, " sat=%d:%d:%d:%d:%d", s.ID, s.RangeWholeMillis, s.ExtendedInfo, s.RangeFractionalMillis, s.PhaseRangeRate)
	}
	fmt.Fprintf(&sb, " nsigrows=%d", len(m.Signals))
	for i := range m.Signals {
		for j := range m.Signals[i] {
			c := &m.Signals[i][j]
			idx, sid := -1, -1
			for k := range m.Satellites {
				if c.Satellite == &m.Satellites[k] {
					idx = k
				}
			}
			if c.Satellite != nil {
				sid = int(c.Satellite.ID)
			}
			fmt.Fprintf(&sb, " sig=%d:%d:%d:%d:%d:%d:%d:%d:%d", idx, sid, c.ID, c.RangeDelta, c.PhaseRangeDelta,
				c.LockTimeIndicator, b2i(c.HalfCycleAmbiguity), c.CarrierToNoiseRatio, c.PhaseRangeRateDelta)
			wls = append(wls, f64fields(c.Wavelength))
		}
	}
	fmt.Fprintf(&sb, " const=%s wl=%s", strings.ReplaceAll(m.Header.Constellation, " ", "_"), strings.Join(wls, ","))
	return sb.String()
}

// ---- independent encoder -----------------------------------------------------------------

type bitWriter struct{ bits []byte }

func (w *bitWriter) put(v uint64, n int) {
	for i := n - 1; i >= 0; i-- {
		w.bits = append(w.bits, byte(v>>uint(i))&1)
	}
}
func (w *bitWriter) putS(v int64, n int) { w.put(uint64(v)&(1<<uint(n)-1), n) }
func (w *bitWriter) bytes() []byte {
	out := make([]byte, (len(w.bits)+7)/8)
	for i, b := range w.bits {
		out[i/8] |= b << (7 - uint(i%8))
	}
	return out
}

type msmSpec struct {
	seven               bool
	typ, station, ts    uint64
	multiple            bool
	iods, stt, clk, ext uint64
	smooth              bool
	interval            uint64
	sats, sigs          []uint // ids, ascending
	cells               [][]bool
	satVals             [][]int64 // per satellite, in column order
	sigVals             [][]int64 // per cell (row-major over the set cells), in column order
	pad                 int
}

var satW4, satW7 = []int{8, 10}, []int{8, 4, 10, 14}
var satS4, satS7 = []bool{false, false}, []bool{false, false, false, true}
var sigW4, sigW7 = []int{15, 22, 4, 1, 6}, []int{20, 24, 10, 1, 10, 15}
var sigS4, sigS7 = []bool{true, true, false, false, false}, []bool{true, true, false, false, false, true}

func (s *msmSpec) widths() (sw []int, ss []bool, gw []int, gs []bool) {
	if s.seven {
		return satW7, satS7, sigW7, sigS7
	}
	return satW4, satS4, sigW4, sigS4
}

func (s *msmSpec) numCells() int {
	n := 0
	for _, r := range s.cells {
		for _, b := range r {
			if b {
				n++
			}
		}
	}
	return n
}

// encode writes the message as the standard lays it out: header, masks, satellite data
// field-major, signal data field-major, zero bits to the byte boundary, pad zero bytes.
func (s *msmSpec) encode() []byte {
	w := &bitWriter{}
	w.put(s.typ, 12)
	w.put(s.station, 12)
	w.put(s.ts, 30)
	w.put(uint64(b2i(s.multiple)), 1)
	w.put(s.iods, 3)
	w.put(s.stt, 7)
	w.put(s.clk, 2)
	w.put(s.ext, 2)
	w.put(uint64(b2i(s.smooth)), 1)
	w.put(s.interval, 3)
	var sm uint64
	for _, id := range s.sats {
		sm |= 1 << (64 - id)
	}
	w.put(sm, 64)
	var gm uint64
	for _, id := range s.sigs {
		gm |= 1 << (32 - id)
	}
	w.put(gm, 32)
	for _, r := range s.cells {
		for _, b := range r {
			w.put(uint64(b2i(b)), 1)
		}
	}
	sw, ss, gw, gs := s.widths()
	for col := range sw {
		for i := range s.sats {
			if ss[col] {
				w.putS(s.satVals[i][col], sw[col])
			} else {
				w.put(uint64(s.satVals[i][col]), sw[col])
			}
		}
	}
	for col := range gw {
		for c := range s.sigVals {
			if gs[col] {
				w.putS(s.sigVals[c][col], gw[col])
			} else {
				w.put(uint64(s.sigVals[c][col]), gw[col])
			}
		}
	}
	p := w.bytes()
	p = append(p, make([]byte, s.pad)...)
	return p
}

// expected is the canonical line a correct decoder must produce for the spec.
func (s *msmSpec) expected() string {
	var sb strings.Builder
	var sm, gm, cm uint64
	for _, id := range s.sats {
		sm |= 1 << (64 - id)
	}
	for _, id := range s.sigs {
		gm |= 1 << (32 - id)
	}
	var rows []string
	for _, r := range s.cells {
		rows = append(rows, boolRow(r))
		for _, b := range r {
			cm = cm<<1 | uint64(b2i(b))
		}
	}
	fmt.Fprintf(&sb, "ok hdr=%d,%d,%d,%v,%d,%d,%d,%d,%v,%d,%d,%d,%d,%d sats=%s sigs=%s cells=%s",
		s.typ, s.station, s.ts, s.multiple, s.iods, s.stt, s.clk, s.ext, s.smooth, s.interval, sm, gm, cm, s.numCells(),
		joinUints(s.sats), joinUints(s.sigs), strings.Join(rows, "/"))
	for i, id := range s.sats {
		fmt.Fprintf(&sb, " sat=%d", id)
		for _, v := range s.satVals[i] {
			fmt.Fprintf(&sb, ":%d", v)
		}
	}
	fmt.Fprintf(&sb, " nsigrows=%d", len(s.sats))
	// the constellation of the type and, per cell, the carrier wavelength of its signal: the oracle's own
	// table of documented frequencies, c / f computed in float64 as the standard formula says
	constel := map[uint64]string{107: "GPS", 108: "Glonass", 109: "Galileo", 110: "SBAS", 111: "QZSS", 112: "Beidou", 113: "NavIC/IRNSS"}[s.typ/10]
	var wls []string
	c := 0
	for i := range s.cells {
		for j, b := range s.cells[i] {
			if !b {
				continue
			}
			fmt.Fprintf(&sb, " sig=%d:%d:%d", i, s.sats[i], s.sigs[j])
			for _, v := range s.sigVals[c] {
				fmt.Fprintf(&sb, ":%d", v)
			}
			wl := 0.0
			if f, ok := freqSpec[constel][s.sigs[j]]; ok {
				wl = 299792458.0 / f
			}
			wls = append(wls, f64fields(wl))
			c++
		}
	}
	fmt.Fprintf(&sb, " const=%s wl=%s", strings.ReplaceAll(constel, " ", "_"), strings.Join(wls, ","))
	return sb.String()
}

// encOp is the op that asks the Lean specification encoder for the same message.
func (s *msmSpec) encOp() string {
	var sm, gm, cm uint64
	for _, id := range s.sats {
		sm |= 1 << (64 - id)
	}
	for _, id := range s.sigs {
		gm |= 1 << (32 - id)
	}
	for _, r := range s.cells {
		for _, b := range r {
			cm = cm<<1 | uint64(b2i(b))
		}
	}
	k := "4"
	if s.seven {
		k = "7"
	}
	cols := func(vals [][]int64, ncol int) string {
		if len(vals) == 0 {
			// columns exist but are empty
			var parts []string
			for c := 0; c < ncol; c++ {
				parts = append(parts, "-")
			}
			return strings.Join(parts, ";")
		}
		var parts []string
		for c := 0; c < ncol; c++ {
			var vs []string
			for _, row := range vals {
				vs = append(vs, fmt.Sprint(row[c]))
			}
			parts = append(parts, strings.Join(vs, ","))
		}
		return strings.Join(parts, ";")
	}
	sw, _, gw, _ := s.widths()
	return fmt.Sprintf("msmenc %s %d %d,%d,%d,%d,%d,%d,%d,%d,%d,%d,%d,%d %d %s %s", k, s.pad, s.typ, s.station, s.ts, b2i(s.multiple),
		s.iods, s.stt, s.clk, s.ext, b2i(s.smooth), s.interval, sm, gm, cm, cols(s.satVals, len(sw)), cols(s.sigVals, len(gw)))
}

func pickIDs(r *rand.Rand, max, n int) []uint {
	perm := r.Perm(max)[:n]
	present := make([]bool, max+1)
	for _, p := range perm {
		present[p+1] = true
	}
	var ids []uint
	for i := 1; i <= max; i++ {
		if present[i] {
			ids = append(ids, uint(i))
		}
	}
	return ids
}

// fieldValue picks a value for a field: boundary values with high probability.
func fieldVal(r *rand.Rand, signed bool, w int, mode int) int64 {
	if signed {
		min, max := -(int64(1) << uint(w-1)), int64(1)<<uint(w-1)-1
		switch mode {
		case 0:
			return 0
		case 1:
			return min // the 'invalid' marker
		case 2:
			return max
		case 3:
			return -1
		case 4:
			return min + 1
		}
		return min + r.Int63n(max-min+1)
	}
	max := int64(1)<<uint(w) - 1
	switch mode {
	case 0:
		return 0
	case 1, 2:
		return max
	case 3:
		return 1
	}
	return r.Int63n(max + 1)
}

var msm4Types = []uint64{1074, 1084, 1094, 1104, 1114, 1124, 1134}
var msm7Types = []uint64{1077, 1087, 1097, 1107, 1117, 1127, 1137}

// randSpec makes a well-formed MSM message. shape selects the mask shape.
func randSpec(r *rand.Rand, seven bool, shape string) *msmSpec {
	s := &msmSpec{seven: seven}
	if seven {
		s.typ = msm7Types[r.Intn(7)]
	} else {
		s.typ = msm4Types[r.Intn(7)]
	}
	s.station = uint64(r.Intn(4096))
	s.ts = uint64(r.Intn(1 << 30))
	s.iods, s.stt, s.clk, s.ext, s.interval = uint64(r.Intn(8)), uint64(r.Intn(128)), uint64(r.Intn(4)), uint64(r.Intn(4)), uint64(r.Intn(8))
	s.smooth = r.Intn(2) == 0
	nsat, nsig := 0, 0
	switch shape {
	case "empty":
	case "1x64":
		nsat, nsig = 1, 32 // the signal mask has 32 bits: 1x32 and 2x32 are the widest rows
		if r.Intn(2) == 0 {
			nsat = 2
		}
	case "64x1":
		nsat, nsig = 64, 1
	case "8x8":
		nsat, nsig = 8, 8
	case "sats-only":
		nsat, nsig = 1+r.Intn(64), 0
	default:
		nsat = 1 + r.Intn(40)
		nsig = 1 + r.Intn(64/nsat)
		if nsig > 32 {
			nsig = 32
		}
	}
	s.sats, s.sigs = pickIDs(r, 64, nsat), pickIDs(r, 32, nsig)
	density := r.Intn(4) // 0 = no cells, 1 = sparse, 2 = half, 3 = all
	for i := 0; i < nsat; i++ {
		row := make([]bool, nsig)
		for j := range row {
			switch density {
			case 1:
				row[j] = r.Intn(6) == 0
			case 2:
				row[j] = r.Intn(2) == 0
			case 3:
				row[j] = true
			}
		}
		s.cells = append(s.cells, row)
	}
	sw, ss, gw, gs := s.widths()
	satMode := r.Intn(8)
	for i := 0; i < nsat; i++ {
		var vs []int64
		for col := range sw {
			m := satMode
			if m > 5 {
				m = r.Intn(8)
			}
			vs = append(vs, fieldVal(r, ss[col], sw[col], m))
		}
		s.satVals = append(s.satVals, vs)
	}
	sigMode := r.Intn(8)
	n := s.numCells()
	for c := 0; c < n; c++ {
		var vs []int64
		for col := range gw {
			m := sigMode
			if m > 5 {
				m = r.Intn(8)
			}
			if c == n-1 && r.Intn(3) == 0 {
				m = 0 // an all-zero last cell
			}
			vs = append(vs, fieldVal(r, gs[col], gw[col], m))
		}
		s.sigVals = append(s.sigVals, vs)
	}
	s.multiple = n > 0 && r.Intn(3) == 0
	return s
}

// reshape: another well-formed message with the same header values and the SAME cell-mask bits,
// regrouped into nsat x nsig (nsat*nsig must equal the old product); satellite values are drawn
// afresh, the signal values are kept.
func (s *msmSpec) reshape(r *rand.Rand, nsat, nsig int) *msmSpec {
	var flat []bool
	for _, row := range s.cells {
		flat = append(flat, row...)
	}
	t := *s
	t.sats, t.sigs = pickIDs(r, 64, nsat), pickIDs(r, 32, nsig)
	t.cells = nil
	for i := 0; i < nsat; i++ {
		t.cells = append(t.cells, append([]bool{}, flat[i*nsig:(i+1)*nsig]...))
	}
	sw, ss, _, _ := s.widths()
	t.satVals = nil
	for i := 0; i < nsat; i++ {
		var vs []int64
		for col := range sw {
			vs = append(vs, fieldVal(r, ss[col], sw[col], r.Intn(8)))
		}
		t.satVals = append(t.satVals, vs)
	}
	return &t
}

func (s *msmSpec) op(extra string) string {
	name := "msm4"
	if s.seven {
		name = "msm7"
	}
	f := mkFrame(s.encode())
	return fmt.Sprintf("%s %s exp=%s%s", name, hx(f), hex.EncodeToString([]byte(s.expected())), extra)
}

func genC04(c *Ctx, emit func(class, op string)) {
	r := c.Rng
	shapes := []string{"empty", "1x64", "64x1", "8x8", "sats-only", "random", "random", "random"}
	for i := 0; i < c.N(500, 8000); i++ {
		seven := i%2 == 0
		shape := shapes[r.Intn(len(shapes))]
		s := randSpec(r, seven, shape)
		base := len(s.encode())
		if base > 1023 {
			continue
		}
		// trailing zero bytes: 0..N up to the 1023-byte limit
		room := 1023 - base
		switch r.Intn(4) {
		case 0:
			s.pad = 0
		case 1:
			s.pad = r.Intn(12)
		case 2:
			s.pad = room
		default:
			s.pad = r.Intn(room + 1)
		}
		if s.pad > room {
			s.pad = room
		}
		emit("wellformed-"+shape, s.op(""))
		if i%3 == 0 {
			emit("spec-encoder", s.encOp()+" go="+hx(s.encode()))
		}
	}
	// exact fit: small shapes with 1..3 cells, multiple flag set and clear, no padding or one
	// byte — covers message bits ending exactly on a byte boundary with nothing to spare
	maxSat, maxSig := c.N(4, 7), c.N(5, 8)
	for nsat := 1; nsat <= maxSat; nsat++ {
		for nsig := 1; nsig <= maxSig; nsig++ {
			for ncell := 1; ncell <= 3 && ncell <= nsat*nsig; ncell++ {
				for _, seven := range []bool{false, true} {
					for _, multi := range []bool{false, true} {
						s := randSpec(r, seven, "empty")
						s.sats, s.sigs = pickIDs(r, 64, nsat), pickIDs(r, 32, nsig)
						s.cells = nil
						pos := r.Perm(nsat * nsig)[:ncell]
						set := map[int]bool{}
						for _, q := range pos {
							set[q] = true
						}
						for i := 0; i < nsat; i++ {
							row := make([]bool, nsig)
							for j := range row {
								row[j] = set[i*nsig+j]
							}
							s.cells = append(s.cells, row)
						}
						sw, ss, gw, gs := s.widths()
						s.satVals, s.sigVals = nil, nil
						for i := 0; i < nsat; i++ {
							var vs []int64
							for col := range sw {
								vs = append(vs, fieldVal(r, ss[col], sw[col], 7))
							}
							s.satVals = append(s.satVals, vs)
						}
						for k := 0; k < ncell; k++ {
							var vs []int64
							for col := range gw {
								vs = append(vs, fieldVal(r, gs[col], gw[col], 7))
							}
							s.sigVals = append(s.sigVals, vs)
						}
						s.multiple = multi
						for _, pad := range []int{0, 1} {
							s.pad = pad
							emit("exact-fit", s.op(""))
						}
					}
				}
			}
		}
	}
	// well-formed messages cut short at every byte length from the end of the fixed header
	// on: the decoders must agree with the model (error or partial decode), never crash
	for i := 0; i < c.N(12, 200); i++ {
		s := randSpec(r, i%2 == 0, "random")
		if len(s.sats) > 6 {
			s = randSpec(r, i%2 == 0, "8x8")
		}
		s.multiple = i%4 < 2 && s.numCells() > 0
		full := s.encode()
		if len(full) > 1023 {
			continue
		}
		name := "msm4"
		if s.seven {
			name = "msm7"
		}
		for n := 22; n < len(full); n++ {
			emit("cut-short", fmt.Sprintf("%s %s", name, hx(mkFrame(full[:n]))))
		}
	}
	// the same message with every padding 0..30: the result must not depend on it
	for i := 0; i < c.N(6, 60); i++ {
		s := randSpec(r, i%2 == 0, "random")
		if len(s.encode())+30 > 1023 {
			continue
		}
		for pad := 0; pad <= 30; pad++ {
			s.pad = pad
			emit("pad-sweep", s.op(""))
		}
	}
	// frames from the repository's own test data, and random CRC-valid MSM-typed payloads
	for i := 0; i < c.N(150, 3000); i++ {
		seven := r.Intn(2) == 0
		typ := msm4Types[r.Intn(7)]
		if seven {
			typ = msm7Types[r.Intn(7)]
		}
		n := 1 + r.Intn(120)
		p := payloadOfType(r, int(typ), n)
		if r.Intn(2) == 0 && n > 30 {
			// sparse masks so that the decoders get past the header
			for k := 12; k < 24 && k < n; k++ {
				p[k] &= byte(r.Intn(256)) & byte(r.Intn(256)) & byte(r.Intn(256))
			}
		}
		name := "msm4"
		if r.Intn(2) == 0 {
			name = "msm7"
		}
		emit("random-payload", fmt.Sprintf("%s %s", name, hx(mkFrame(p))))
	}
}

func oracleC04(op string, o *Obs) string {
	i := strings.Index(op, " exp=")
	if i < 0 {
		return ""
	}
	expHex := op[i+5:]
	if j := strings.IndexByte(expHex, ' '); j >= 0 {
		expHex = expHex[:j]
	}
	exp, _ := hex.DecodeString(expHex)
	if o.Panic != "" {
		return "decoder panicked on a well-formed message: " + o.Panic
	}
	if o.Line != string(exp) {
		return "well-formed message decoded as " + clip(o.Line, 500) + " — expected " + clip(string(exp), 500)
	}
	return ""
}

var _ = bits.Len

func init() {
	opTable["msmenc"] = func(t []string) *Obs {
		// the Go encoder's payload travels in the op (go=…); the model must produce the same bytes
		return &Obs{Line: strings.TrimPrefix(t[len(t)-1], "go=")}
	}
	opTable["msm4"] = func(t []string) *Obs {
		m, err := msm4.GetMessage(unhx(t[1]), slog.LevelDebug)
		if err != nil {
			return &Obs{Line: "err " + msmErrClass(err.Error()), Branch: msmErrClass(err.Error())}
		}
		return &Obs{Line: canonMSM4(m), Data: m, Branch: "ok"}
	}
	opTable["msm7"] = func(t []string) *Obs {
		m, err := msm7.GetMessage(unhx(t[1]), slog.LevelDebug)
		if err != nil {
			return &Obs{Line: "err " + msmErrClass(err.Error()), Branch: msmErrClass(err.Error())}
		}
		return &Obs{Line: canonMSM7(m), Data: m, Branch: "ok"}
	}
	props["C04"] = &Prop{
		Rule: "ops msm4/msm7 <frame> exp=<expected>: well-formed messages built by an independent Go encoder — 14 types x mask shapes (empty, 1x32/2x32, 64x1, 8x8, " +
			"satellites only, random sparse/half/full cell masks) x field values (0, minimum='invalid', maximum, -1, random; all-zero last cells) x multiple flag x " +
			"0..N trailing zero bytes up to the 1023-byte limit, plus a padding sweep 0..30 of the same message, plus random CRC-valid MSM-typed payloads (model/impl agreement " +
			"on ill-formed input); non-trivial = well-formed message with at least one satellite; distinct = distinct op line",
		Gen: genC04, Oracle: oracleC04,
		NonTrivial: func(op string, o *Obs) bool {
			return strings.Contains(op, " exp=") && strings.Contains(o.Line, " sat=")
		},
	}
}
