package main

// Framework of the correspondence harness: cases, the pipe to the Lean driver, the
// result file.  Every random choice comes from ctx.Rng (seeded from VERIF_SEED) so a
// disagreement replays exactly.

import (
	"bufio"
	"bytes"
	"encoding/hex"
	"encoding/json"
	"fmt"
	"math/rand"
	"os"
	"os/exec"
	"sort"
	"strings"
	"time"
)

// Case is one operation: the line sent to the model driver, what the real code
// answered (canonical form), and the verdict of the property's direct oracle.
type Case struct {
	Class      string // generator class
	Op         string // line for the driver
	Impl       string // canonical output of the real code
	Oracle     string // "" = property holds on this case; otherwise what failed
	NonTrivial bool   // counts towards distinct_nontrivial
	Branch     string // optional: which branch of the real code answered
	NoModel    bool   // the case has no model counterpart (oracle only)
}

type Disagreement struct {
	Class string `json:"class"`
	Op    string `json:"op"`
	Impl  string `json:"impl"`
	Model string `json:"model"`
}

type OracleFailure struct {
	Class  string `json:"class"`
	Op     string `json:"op"`
	Impl   string `json:"impl"`
	Detail string `json:"detail"`
}

type Result struct {
	Property           string            `json:"property"`
	Tier               string            `json:"tier"`
	Seed               int64             `json:"seed"`
	Evaluations        int               `json:"evaluations"`
	DistinctNontrivial int               `json:"distinct_nontrivial"`
	Rule               string            `json:"rule"`
	Classes            map[string]int    `json:"classes"`
	Outcomes           map[string]int    `json:"outcomes"`
	Branches           map[string]int    `json:"branches"`
	Samples            []string          `json:"samples"`
	Disagreements      []Disagreement    `json:"disagreements"`
	OracleFailures     []OracleFailure   `json:"oracle_failures"`
	Extra              map[string]any    `json:"extra"`
	Exhaustive         bool              `json:"exhaustive"`
	WallS              float64           `json:"wall_s"`
	Notes              []string          `json:"notes"`
	_                  map[string]string `json:"-"`
}

type Ctx struct {
	Prop   string
	Tier   string
	Seed   int64
	Rng    *rand.Rand
	Driver string
	Cases  []Case
	Res    *Result
	Replay string // op line to replay (from a replay file), "" otherwise
}

func (c *Ctx) Thorough() bool { return c.Tier == "thorough" }

// N picks the budget for the tier.
func (c *Ctx) N(quick, thorough int) int {
	if c.Thorough() {
		return thorough
	}
	return quick
}

func (c *Ctx) Add(cs Case) { c.Cases = append(c.Cases, cs) }

func (c *Ctx) Note(format string, a ...any) {
	c.Res.Notes = append(c.Res.Notes, fmt.Sprintf(format, a...))
}

func hx(b []byte) string {
	if len(b) == 0 {
		return "-"
	}
	return hex.EncodeToString(b)
}

func unhx(s string) []byte {
	if s == "-" {
		return []byte{}
	}
	b, err := hex.DecodeString(s)
	if err != nil {
		panic(err)
	}
	return b
}

// runDriver pipes the op lines through the Lean driver and returns its answers.
func runDriver(driver string, ops []string) ([]string, error) {
	if len(ops) == 0 {
		return nil, nil
	}
	cmd := exec.Command(driver)
	var in bytes.Buffer
	for _, o := range ops {
		if strings.ContainsAny(o, "\n\r") {
			return nil, fmt.Errorf("op contains a newline: %q", o)
		}
		in.WriteString(o)
		in.WriteByte('\n')
	}
	cmd.Stdin = &in
	var out bytes.Buffer
	cmd.Stdout = &out
	cmd.Stderr = os.Stderr
	if err := cmd.Run(); err != nil {
		return nil, fmt.Errorf("driver failed: %v", err)
	}
	sc := bufio.NewScanner(&out)
	sc.Buffer(make([]byte, 1<<20), 1<<28)
	var lines []string
	for sc.Scan() {
		lines = append(lines, sc.Text())
	}
	if len(lines) != len(ops) {
		return lines, fmt.Errorf("driver answered %d lines for %d ops", len(lines), len(ops))
	}
	return lines, nil
}

// finish runs the model on every case, compares and fills in the result.
func (c *Ctx) finish(start time.Time) error {
	r := c.Res
	var ops []string
	var idx []int
	for i, cs := range c.Cases {
		if !cs.NoModel {
			ops = append(ops, cs.Op)
			idx = append(idx, i)
		}
	}
	model, err := runDriver(c.Driver, ops)
	if err != nil {
		return err
	}
	seen := map[string]bool{}
	for i, cs := range c.Cases {
		r.Evaluations++
		r.Classes[cs.Class]++
		first := cs.Impl
		if k := strings.IndexByte(first, ' '); k >= 0 {
			first = first[:k]
		}
		if len(first) > 24 {
			first = first[:24]
		}
		r.Outcomes[first]++
		if cs.Branch != "" {
			r.Branches[cs.Branch]++
		}
		if cs.NonTrivial && !seen[cs.Op] {
			seen[cs.Op] = true
			r.DistinctNontrivial++
		}
		if cs.Oracle != "" && len(r.OracleFailures) < 50 {
			r.OracleFailures = append(r.OracleFailures, OracleFailure{cs.Class, cs.Op, clip(cs.Impl, 4000), cs.Oracle})
		}
		_ = i
	}
	for k, i := range idx {
		cs := c.Cases[i]
		if model[k] != cs.Impl && len(r.Disagreements) < 50 {
			r.Disagreements = append(r.Disagreements, Disagreement{cs.Class, cs.Op, clip(cs.Impl, 4000), clip(model[k], 4000)})
		}
	}
	// samples: the first case of each class, in a stable order
	classFirst := map[string]string{}
	for _, cs := range c.Cases {
		if _, ok := classFirst[cs.Class]; !ok {
			classFirst[cs.Class] = clip(cs.Op, 300) + " => " + clip(cs.Impl, 300)
		}
	}
	var keys []string
	for k := range classFirst {
		keys = append(keys, k)
	}
	sort.Strings(keys)
	for _, k := range keys {
		if len(r.Samples) < 40 {
			r.Samples = append(r.Samples, k+": "+classFirst[k])
		}
	}
	r.WallS = time.Since(start).Seconds()
	return nil
}

func clip(s string, n int) string {
	if len(s) <= n {
		return s
	}
	return s[:n] + fmt.Sprintf("…(%d bytes)", len(s))
}

func writeResult(path string, r *Result) error {
	b, err := json.MarshalIndent(r, "", " ")
	if err != nil {
		return err
	}
	return os.WriteFile(path, b, 0o644)
}
