package main

// C06 / C17: histories of MSM messages through the public GetMessage interface.

import (
	"fmt"
	"log/slog"
	"math/rand"
	"strings"
	"time"

	"github.com/goblimey/go-ntrip/rtcm/handler"
)

type constel struct {
	name   string
	types  [2]int        // MSM4, MSM7
	offset time.Duration // week start relative to Sunday 00:00 UTC
}

var constels = []constel{
	{"GPS", [2]int{1074, 1077}, -18 * time.Second},
	{"Glonass", [2]int{1084, 1087}, -3 * time.Hour},
	{"Galileo", [2]int{1094, 1097}, -18 * time.Second},
	{"Beidou", [2]int{1124, 1127}, -4 * time.Second},
}

// trueWeekStartOf computes, with the time package and independently of the code under
// test, the start of the constellation week containing u.
func trueWeekStartOf(c constel, u time.Time) time.Time {
	v := u.UTC().Add(-c.offset) // shift so that weeks start at Sunday 00:00
	day := time.Date(v.Year(), v.Month(), v.Day(), 0, 0, 0, 0, time.UTC)
	day = day.AddDate(0, 0, -int(day.Weekday()))
	return day.Add(c.offset)
}

func tsOf(c constel, u time.Time) uint {
	ms := uint(u.Sub(trueWeekStartOf(c, u)).Milliseconds())
	if c.name == "Glonass" {
		return (ms/86400000)<<27 | ms%86400000
	}
	return ms
}

// msmFrameWithTs is a CRC-valid frame of an MSM type with the given 30-bit timestamp and an
// otherwise empty (all-zero) MSM body.
func msmFrameWithTs(typ int, station uint, ts uint) []byte {
	// payload lengths from the shortest that holds the timestamp (7 bytes = 56 bits >= 54) upwards,
	// chosen by the timestamp so that the frame is a function of its arguments
	p := make([]byte, []int{7, 8, 9, 24, 24, 24}[ts%6])
	v := uint64(typ)<<52 | uint64(station&0xfff)<<40 | uint64(ts&0x3fffffff)<<10
	for i := 0; i < 8 && i < len(p); i++ {
		p[i] = byte(v >> (56 - 8*uint(i)))
	}
	return mkFrame(p)
}

var zones = []*time.Location{time.UTC, time.FixedZone("MSK", 3*3600), time.FixedZone("EST", -5*3600),
	time.FixedZone("IST", 5*3600+1800), time.FixedZone("NZDT", 13*3600), time.FixedZone("HST", -10*3600),
	civil("Europe/Moscow"), civil("America/New_York"), civil("Australia/Lord_Howe"), civil("Europe/London")}

// civil loads a real time zone with its history of offsets and summer time (UTC if the zone
// database is missing).
func civil(name string) *time.Location {
	if l, err := time.LoadLocation(name); err == nil {
		return l
	}
	return time.UTC
}

type histItem struct {
	c   int
	hi  int
	u   time.Time
	bad bool
	ts  uint
}

func (it histItem) token() string {
	c := constels[it.c]
	if it.bad {
		return fmt.Sprintf("-/%d:%s", it.c, hx(msmFrameWithTs(c.types[it.hi], 7, it.ts)))
	}
	return fmt.Sprintf("%d/%d:%s", it.u.UnixMilli(), it.c, hx(msmFrameWithTs(c.types[it.hi], 7, tsOf(c, it.u))))
}

func illegalTs(r *rand.Rand, c constel) uint {
	if c.name == "Glonass" {
		switch r.Intn(3) {
		case 0:
			return 7<<27 | uint(r.Intn(86400000)) // day 7
		case 1:
			return uint(r.Intn(7))<<27 | uint(86400000+r.Intn(1<<27-86400000)) // 24 h of ms or more
		default:
			return 7<<27 | uint(86400000+r.Intn(1000))
		}
	}
	return uint(604800000 + r.Intn(1<<30-604800000))
}

var gaps = []time.Duration{0, time.Millisecond, time.Second, 30 * time.Second, time.Hour, 24 * time.Hour,
	3 * 24 * time.Hour, 6*24*time.Hour - time.Millisecond}

// genHistory builds one history. anyStart: the first observation may precede T (C17).
func genHistory(r *rand.Rand, T time.Time, n int, anyStart bool) []histItem {
	var last [4]time.Time
	var seen [4]bool
	var items []histItem
	for k := 0; k < n; k++ {
		ci := r.Intn(4)
		c := constels[ci]
		hi := r.Intn(2)
		if r.Intn(12) == 0 {
			items = append(items, histItem{c: ci, hi: hi, bad: true, ts: illegalTs(r, c)})
			continue
		}
		var u time.Time
		if !seen[ci] {
			ws := trueWeekStartOf(c, T)
			we := ws.Add(7 * 24 * time.Hour)
			lo := ws
			if !anyStart {
				lo = T
				if lo.UnixMilli()*int64(time.Millisecond) != lo.UnixNano() {
					lo = time.UnixMilli(lo.UnixMilli() + 1) // first whole ms not earlier than T
				}
			}
			span := we.Sub(lo)
			if span <= 0 {
				continue
			}
			switch r.Intn(4) {
			case 0:
				u = lo
			case 1:
				u = we.Add(-time.Millisecond)
			default:
				u = lo.Add(time.Duration(r.Int63n(int64(span/time.Millisecond))) * time.Millisecond)
			}
			seen[ci] = true
		} else {
			g := gaps[r.Intn(len(gaps))]
			if r.Intn(2) == 0 {
				g = time.Duration(r.Int63n(int64(6*24*time.Hour/time.Millisecond))) * time.Millisecond
			}
			u = last[ci].Add(g)
		}
		last[ci] = u
		items = append(items, histItem{c: ci, hi: hi, u: u})
	}
	return items
}

func histOp(T time.Time, zone int, items []histItem) string {
	var sb strings.Builder
	fmt.Fprintf(&sb, "timehist %d %d", T.UnixMilli(), zone)
	for _, it := range items {
		sb.WriteByte(' ')
		sb.WriteString(it.token())
	}
	return sb.String()
}

func startTimes(c *Ctx, n int) []time.Time {
	r := c.Rng
	var ts []time.Time
	base := time.Date(2019, 1, 1, 0, 0, 0, 0, time.UTC)
	for i := 0; i < n; i++ {
		t := base.Add(time.Duration(r.Int63n(int64(12*365*24))) * time.Hour).Add(time.Duration(r.Int63n(3600000)) * time.Millisecond)
		if i%8 == 7 {
			// before the Unix epoch: instants whose millisecond count is negative
			t = time.Date(1950, 1, 1, 0, 0, 0, 0, time.UTC).Add(time.Duration(r.Int63n(int64(30*365*24))) * time.Hour).Add(time.Duration(r.Int63n(3600000)) * time.Millisecond)
		} else if i%4 >= 2 {
			// any era since the GPS epoch: civil time in Moscow (and everywhere else) has had other
			// offsets and summer time; system time scales have not
			t = time.Date(1980, 1, 6, 0, 0, 0, 0, time.UTC).Add(time.Duration(r.Int63n(int64(60*365*24))) * time.Hour).Add(time.Duration(r.Int63n(3600000)) * time.Millisecond)
		}
		if i%2 == 0 {
			// dense within +-30 s of a rollover: Sat 21:00:00, 23:59:42, 23:59:56 UTC
			sun := time.Date(t.Year(), t.Month(), t.Day(), 0, 0, 0, 0, time.UTC)
			sun = sun.AddDate(0, 0, -int(sun.Weekday()))
			edges := []time.Duration{-3 * time.Hour, -18 * time.Second, -4 * time.Second, 0}
			t = sun.Add(edges[r.Intn(4)]).Add(time.Duration(r.Intn(60001)-30000) * time.Millisecond)
		}
		ts = append(ts, t)
	}
	return ts
}

type histObs struct {
	msgs []*handler.Message
	errs []error
}

func oracleTimes(op string, o *Obs) string {
	d, ok := o.Data.(*histObs)
	if !ok {
		return "GetMessage panicked: " + o.Panic
	}
	toks := strings.Fields(op)[3:]
	for i, tok := range toks {
		head := tok[:strings.IndexByte(tok, ':')]
		parts := strings.Split(head, "/")
		ci := atoi(parts[1])
		m := d.msgs[i]
		if m == nil {
			return fmt.Sprintf("message %d: nil message", i)
		}
		if parts[0] == "-" {
			if d.errs[i] == nil || sentOf(m.SentAt) != "-" {
				return fmt.Sprintf("message %d: illegal timestamp %d not reported as an error (SentAt %q)", i, m.Timestamp, m.SentAt)
			}
			continue
		}
		u := time.UnixMilli(int64(atoi(parts[0]))).UTC()
		want := fmt.Sprint(u.UnixMilli())
		if got := sentOf(m.SentAt); got != want {
			return fmt.Sprintf("message %d (%s, true time %s): reported %q", i, constels[ci].name, u.Format(time.RFC3339Nano), m.SentAt)
		}
		ws := trueWeekStartOf(constels[ci], u)
		if got := sowOf(m.StartOfWeek); got != fmt.Sprint(ws.UnixMilli()) {
			return fmt.Sprintf("message %d (%s, true week start %s): reported %q", i, constels[ci].name, ws.Format(time.RFC3339), m.StartOfWeek)
		}
	}
	return ""
}

func init() {
	opTable["timehist"] = func(t []string) *Obs {
		msText, nsText := t[1], ""
		if k := strings.IndexByte(t[1], '+'); k > 0 {
			msText, nsText = t[1][:k], t[1][k+1:]
		}
		ms := int64(atoi(msText))
		// sub-millisecond part of the start time, derived from the op so that it replays (or given
		// explicitly as <ms>+<ns>)
		ns := (ms%1000003 + 1000003) % 1000000
		if nsText != "" {
			ns = int64(atoi(nsText))
		}
		start := time.Unix(0, ms*int64(time.Millisecond)+ns).In(zones[atoi(t[2])%len(zones)])
		h := handler.New(start, slog.LevelInfo)
		var parts []string
		obs := &histObs{}
		for _, tok := range t[3:] {
			f := unhx(tok[strings.IndexByte(tok, ':')+1:])
			m, err := h.GetMessage(f)
			parts = append(parts, canonGet(m, err))
			obs.msgs = append(obs.msgs, m)
			obs.errs = append(obs.errs, err)
		}
		return &Obs{Line: strings.Join(parts, " | "), Data: obs}
	}
	gen := func(anyStart bool) func(c *Ctx, emit func(class, op string)) {
		return func(c *Ctx, emit func(class, op string)) {
			r := c.Rng
			for i, T := range startTimes(c, c.N(300, 4000)) {
				n := 1 + r.Intn(c.N(40, 400))
				items := genHistory(r, T, n, anyStart)
				class := "random-start"
				if i%2 == 0 {
					class = "start-near-rollover"
				}
				emit(class, histOp(T, r.Intn(len(zones)), items))
			}
		}
	}
	// the last fraction of a millisecond of a constellation week: a start time that is rounded instead
	// of truncated lands in the next week
	lastInstant := func(c *Ctx, emit func(class, op string)) {
		r := c.Rng
		for i := 0; i < c.N(24, 120); i++ {
			T := startTimes(c, 1)[0]
			ci := r.Intn(4)
			we := trueWeekStartOf(constels[ci], T).Add(7 * 24 * time.Hour)
			ns := []int{999999, 999000, 600000, 500000, 499999, 1}[r.Intn(6)]
			start := we.Add(-time.Millisecond)
			// one or two observations of that constellation late in the week that is about to end
			var items []histItem
			u := start.Add(-time.Duration(1+r.Intn(3600000)) * time.Millisecond)
			items = append(items, histItem{c: ci, hi: r.Intn(2), u: u, ts: tsOf(constels[ci], u)})
			u2 := u.Add(time.Duration(r.Intn(500)) * time.Millisecond)
			items = append(items, histItem{c: ci, hi: r.Intn(2), u: u2, ts: tsOf(constels[ci], u2)})
			op := histOp(start, r.Intn(len(zones)), items)
			f := strings.Fields(op)
			f[1] = fmt.Sprintf("%s+%d", f[1], ns)
			emit("start-in-last-instant-of-week", strings.Join(f, " "))
		}
	}
	nontrivial := func(op string, o *Obs) bool { return len(strings.Fields(op)) > 4 }
	props["C06"] = &Prop{
		Rule: "op timehist <T ms> <zone> <true instant/constellation:frame>…: handler.New(T in a random zone, with a sub-ms part) then GetMessage on synthetic CRC-valid " +
			"MSM4/MSM7 frames of GPS/Glonass/Galileo/BeiDou whose timestamps are the true week positions of instants chosen per the precondition (first >= T in T's week, " +
			"gaps 0..6d-1ms incl. the boundary values), histories of 1..40 (thorough 400) messages spanning several weeks, start times dense within 30 s of each rollover, half of them from 2019-2031 and three eighths from any year 1980-2040 and one eighth from 1950-1980 (negative Unix times), in fixed-offset zones and civil zones with summer time (Moscow, New York, Lord Howe, London), " +
			"illegal timestamps inserted at random; non-trivial = at least two messages; distinct = distinct op line",
		Gen: gen(false), Oracle: oracleTimes, NonTrivial: nontrivial,
	}
	props["C17"] = &Prop{
		Rule: "as C06 (plus start times in the last fraction of a millisecond of a constellation week) but the first observation of each constellation lies anywhere in the constellation week of T (before, at or after T, incl. the first and last ms of the week); " +
			"non-trivial = at least two messages; distinct = distinct op line",
		Gen: func(c *Ctx, emit func(class, op string)) { gen(true)(c, emit); lastInstant(c, emit) }, Oracle: oracleTimes, NonTrivial: nontrivial,
	}
}
