package main

// C19 (report part, in-process): Sanitise against the model, and the real ReportFeed.Status
// with markup in the client buffer, the server buffer and the queued messages.

import (
	"bytes"
	"fmt"
	"io"
	"os"
	"strings"
	"time"

	circularQueue "github.com/goblimey/go-ntrip/apps/proxy/circular_queue"
	"github.com/goblimey/go-ntrip/apps/proxy/reportfeed"
	"github.com/goblimey/go-ntrip/rtcm/handler"
	"github.com/goblimey/go-tools/dailylogger"
)

type statusObs struct {
	lt, gt, baseLt, baseGt int
	verbatim               string
	msgs                   int
}

var markupPayloads = []string{"<script>alert(1)</script>", "<img src=x onerror=alert(2)>", "</pre><h1>x</h1>", "<<<>>>", "a<b>c", "<!--"}

func statusOf(bufC, bufS []byte, msgs []handler.Message) []byte {
	q := circularQueue.NewCircularQueue(20)
	for _, m := range msgs {
		q.Add(m)
	}
	lg := dailylogger.New(os.TempDir(), "verif-rf.", ".log")
	lg.DisableLogging()
	rf := reportfeed.New(lg, q)
	if bufC != nil {
		rf.RecordClientBuffer(&bufC, 7, len(bufC))
	}
	if bufS != nil {
		rf.RecordServerBuffer(&bufS, 7, len(bufS))
	}
	// Status chatters on stderr
	saved := os.Stderr
	if devnull, err := os.OpenFile(os.DevNull, os.O_WRONLY, 0); err == nil {
		os.Stderr = devnull
		defer func() { os.Stderr = saved; devnull.Close() }()
	}
	return rf.Status()
}

func init() {
	_ = io.Discard
	opTable["sanitise"] = func(t []string) *Obs {
		return &Obs{Line: "text " + hx([]byte(reportfeed.Sanitise(string(unhx(t[1])))))}
	}
	// status <client hex> <server hex> <stream hex>: the stream is framed by the real handler and queued
	opTable["status"] = func(t []string) *Obs {
		bufC, bufS, stream := unhx(t[1]), unhx(t[2]), unhx(t[3])
		sr := runHandleMessages(time.UnixMilli(1683979200000).UTC(), stream, 0, 0)
		if sr.Panic != "" {
			return &Obs{Panic: sr.Panic, NoModel: true}
		}
		ms := sr.Msgs
		base := statusOf(nil, nil, nil)
		page := statusOf(bufC, bufS, ms)
		o := &statusObs{lt: bytes.Count(page, []byte("<")), gt: bytes.Count(page, []byte(">")),
			baseLt: bytes.Count(base, []byte("<")), baseGt: bytes.Count(base, []byte(">")), msgs: len(ms)}
		for _, p := range markupPayloads {
			if bytes.Contains(page, []byte(p)) {
				o.verbatim = p
			}
		}
		return &Obs{Line: fmt.Sprintf("lt=%d gt=%d msgs=%d", o.lt, o.gt, o.msgs), Data: o, NoModel: true}
	}
	props["C19"] = &Prop{
		Rule: "op sanitise <hex>: reportfeed.Sanitise against the model on ASCII texts dense in '<', '>', '&' and on long texts with 2^8, 2^15, 2^16, 2^17 (and one fewer, one more) markup characters; op status <client> <server> <stream>: the real ReportFeed.Status with a real queue filled by the real " +
			"handler from a stream of valid frames, malformed CRC-valid frames and non-RTCM text, all carrying markup payloads, and client/server buffers carrying markup: the page must contain exactly as many " +
			"'<' and '>' as the page of an idle proxy and none of the payloads verbatim; non-trivial = text with a markup character / at least one queued message; distinct = distinct op line",
		Gen: func(c *Ctx, emit func(class, op string)) {
			r := c.Rng
			alphabet := []byte("<>&;ltg ab\n\"'/=")
			for i := 0; i < c.N(200, 3000); i++ {
				n := r.Intn(40)
				b := make([]byte, n)
				for j := range b {
					if r.Intn(3) == 0 {
						b[j] = byte(32 + r.Intn(95))
					} else {
						b[j] = alphabet[r.Intn(len(alphabet))]
					}
				}
				emit("sanitise", "sanitise "+hx(b))
			}
			for _, p := range markupPayloads {
				emit("sanitise", "sanitise "+hx([]byte(p)))
			}
			// long texts: exactly, one fewer and one more than 2^8, 2^15, 2^16 and 2^17 markup
			// characters (a count kept in too narrow a type comes round to zero there)
			for _, n := range []int{255, 256, 257, 32767, 32768, 65535, 65536, 65537, 131072} {
				b := []byte("<script>alert(1)</script>")
				k := bytes.Count(b, []byte("<")) + bytes.Count(b, []byte(">"))
				for ; k < n; k++ {
					b = append(b, "<>"[r.Intn(2)])
				}
				b = append(b, " tail"...)
				emit("sanitise-long", "sanitise "+hx(b))
			}
			for i := 0; i < c.N(60, 600); i++ {
				var stream []byte
				for k := 0; k < 1+r.Intn(6); k++ {
					p := markupPayloads[r.Intn(len(markupPayloads))]
					switch r.Intn(4) {
					case 0: // non-RTCM text
						stream = append(stream, []byte(p)...)
					case 1: // valid frame of a type that is not decoded, markup in the payload
						stream = append(stream, mkFrame(append([]byte{0x4c, 0xe0}, []byte(p)...))...)
					case 2: // CRC-valid frame of a decodable type with malformed content
						typ := []int{1005, 1006, 1074, 1077, 1087, 1127}[r.Intn(6)]
						stream = append(stream, mkFrame(append([]byte{byte(typ >> 4), byte(typ << 4)}, []byte(p)...))...)
					default:
						stream = append(stream, mkFrame(append([]byte{0x3e, 0xd0}, []byte(strings.Repeat(p, 1+r.Intn(3)))...))...)
					}
				}
				bufC := []byte(markupPayloads[r.Intn(len(markupPayloads))] + "xyz")
				bufS := []byte("abc" + markupPayloads[r.Intn(len(markupPayloads))])
				class := "status-markup"
				if r.Intn(6) == 0 {
					bufC, class = nil, "status-no-client-buffer"
				}
				emit(class, fmt.Sprintf("status %s %s %s", hx(bufC), hx(bufS), hx(stream)))
			}
		},
		Oracle: func(op string, ob *Obs) string {
			if ob.Panic != "" {
				return "panic: " + ob.Panic
			}
			if strings.HasPrefix(op, "sanitise") {
				out := unhx(strings.TrimPrefix(ob.Line, "text "))
				if bytes.ContainsAny(out, "<>") {
					return "Sanitise left a markup character in its result"
				}
				return ""
			}
			o := ob.Data.(*statusObs)
			if o.verbatim != "" {
				return fmt.Sprintf("the status page contains the relayed markup %q verbatim", o.verbatim)
			}
			if o.lt != o.baseLt || o.gt != o.baseGt {
				return fmt.Sprintf("the status page has %d '<' and %d '>'; the page of an idle proxy has %d and %d: relayed data added markup", o.lt, o.gt, o.baseLt, o.baseGt)
			}
			return ""
		},
		NonTrivial: func(op string, ob *Obs) bool {
			if strings.HasPrefix(op, "sanitise") {
				return bytes.ContainsAny(unhx(strings.Fields(op)[1]), "<>")
			}
			o, ok := ob.Data.(*statusObs)
			return ok && o.msgs > 0
		},
	}
}
