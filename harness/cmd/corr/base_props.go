package main

// C05: 1005/1006 decoding and display.

import (
	"encoding/hex"
	"fmt"
	"log/slog"
	"math"
	"math/rand"
	"strconv"
	"strings"

	"github.com/goblimey/go-ntrip/rtcm/type1005"
	"github.com/goblimey/go-ntrip/rtcm/type1006"
)

func baseErrClass(s string) string {
	switch {
	case strings.Contains(s, "overrun - expected"):
		return "base-overrun"
	case strings.Contains(s, "expected message type"):
		return "base-wrong-type"
	}
	return "other(" + strings.ReplaceAll(s, " ", "_") + ")"
}

type baseObs struct {
	debug, info string
}

// dec4 is the exact decimal of v/10^4 to four places, by integer arithmetic.
func dec4(v int64) string {
	sign := ""
	if v < 0 {
		sign = "-"
		v = -v
	}
	return fmt.Sprintf("%s%d.%04d", sign, v/10000, v%10000)
}

var baseW = []int{12, 12, 6, 4, 38, 2, 38, 2, 38, 16}
var baseS = []bool{false, false, false, false, true, false, true, false, true, false}

func encodeBase(vals []int64) []byte {
	w := &bitWriter{}
	for i, v := range vals {
		if baseS[i] {
			w.putS(v, baseW[i])
		} else {
			w.put(uint64(v), baseW[i])
		}
	}
	return w.bytes()
}

func coordVal(r *rand.Rand) int64 {
	switch r.Intn(8) {
	case 0:
		return -(1 << 37)
	case 1:
		return 1<<37 - 1
	case 2:
		return -1
	case 3:
		return 0
	case 4:
		return int64(r.Intn(20000)) - 10000
	case 5:
		// values whose product with 0.0001 sits near a rounding boundary of the 4th decimal
		return (int64(r.Intn(1<<27)) * 1000) + int64([]int{4999, 5000, 5001, 9999, 1}[r.Intn(5)])
	}
	return r.Int63n(1<<38) - (1 << 37)
}

func genC05(c *Ctx, emit func(class, op string)) {
	r := c.Rng
	// the float arithmetic of the display against the exact model: boundaries, small negatives,
	// every value in a window around zero, random values of the whole 38-bit range
	for _, n := range []int64{0, 1, -1, 5, -5, 9999, -9999, 10000, -10000, 1<<37 - 1, -(1 << 37), 65535, 4999, 5000, 5001} {
		emit("display-arithmetic", fmt.Sprintf("disp4 %d", n))
	}
	for i := 0; i < c.N(400, 20000); i++ {
		emit("display-arithmetic", fmt.Sprintf("disp4 %d", coordVal(r)))
	}
	// byte strings shorter than a leader plus CRC handed straight to the decoders (the length
	// arithmetic must not wrap): every length 0..8, prefixes of well-formed frames and random bytes
	for _, six := range []bool{false, true} {
		name, typ := "base5", int64(1005)
		if six {
			name, typ = "base6", 1006
		}
		vals := []int64{typ, 1, 2, 0, coordVal(r), 0, coordVal(r), 0, coordVal(r)}
		if six {
			vals = append(vals, 1234)
		}
		full := mkFrame(encodeBase(vals))
		for k := 0; k <= 8; k++ {
			emit("shorter-than-leader-and-crc", fmt.Sprintf("%s %s", name, hx(full[:k])))
			b := make([]byte, k)
			r.Read(b)
			emit("shorter-than-leader-and-crc", fmt.Sprintf("%s %s", name, hx(b)))
		}
	}
	for i := 0; i < c.N(600, 20000); i++ {
		six := i%2 == 1
		typ := int64(1005)
		name := "base5"
		if six {
			typ, name = 1006, "base6"
		}
		vals := []int64{typ, int64(r.Intn(4096)), int64(r.Intn(64)), int64(r.Intn(16)), coordVal(r), int64(r.Intn(4)),
			coordVal(r), int64(r.Intn(4)), coordVal(r)}
		if six {
			h := int64(r.Intn(65536))
			if r.Intn(4) == 0 {
				h = []int64{0, 65535, 1, 9999, 10000}[r.Intn(5)]
			}
			vals = append(vals, h)
		}
		payload := encodeBase(vals)
		class := "wellformed"
		switch r.Intn(6) {
		case 0:
			payload = append(payload, make([]byte, 1+r.Intn(8))...)
			class = "wellformed+trailing-zeros"
		case 1:
			extra := make([]byte, 1+r.Intn(8))
			r.Read(extra)
			payload = append(payload, extra...)
			class = "wellformed+trailing-bytes"
		}
		var parts []string
		for _, v := range vals {
			parts = append(parts, fmt.Sprint(v))
		}
		exp := "ok " + strings.Join(parts, " ")
		emit(class, fmt.Sprintf("%s %s exp=%s", name, hx(mkFrame(payload)), hex.EncodeToString([]byte(exp))))
		if i%10 == 0 {
			// every truncation length of the payload: rejected with an error, never a panic
			for k := 1; k < len(payload); k++ {
				emit("truncated", fmt.Sprintf("%s %s", name, hx(mkFrame(payload[:k]))))
			}
			// the wrong type for this decoder
			other := "base6"
			if six {
				other = "base5"
			}
			emit("wrong-type", fmt.Sprintf("%s %s", other, hx(mkFrame(append(payload, 0, 0)))))
			vals[0] = int64(r.Intn(4096))
			emit("wrong-type", fmt.Sprintf("%s %s", name, hx(mkFrame(encodeBase(vals)))))
		}
	}
}

func oracleC05(op string, o *Obs) string {
	if o.Panic != "" {
		return "decoder or display panicked: " + o.Panic
	}
	t := strings.Fields(op)
	if t[0] == "disp4" {
		n, _ := strconv.ParseInt(t[1], 10, 64)
		if f := strings.Fields(o.Line); len(f) != 5 || f[4] != dec4(n) {
			return "float64(n)*0.0001 printed with %.4f gives " + o.Line + ", the exact decimal is " + dec4(n)
		}
		return ""
	}
	if i := strings.Index(op, " exp="); i >= 0 {
		exp, _ := hex.DecodeString(strings.Fields(op[i+5:])[0])
		if o.Line != string(exp) {
			return "well-formed message decoded as " + clip(o.Line, 300) + " — expected " + string(exp)
		}
		// display: each coordinate and the height exactly the encoded integer times 0.0001
		var v []int64
		for _, f := range strings.Fields(string(exp))[1:] {
			var x int64
			fmt.Sscan(f, &x)
			v = append(v, x)
		}
		want := fmt.Sprintf("ECEF coords in metres (%s, %s, %s)\n", dec4(v[4]), dec4(v[6]), dec4(v[8]))
		d := o.Data.(*baseObs)
		for _, text := range []string{d.debug, d.info} {
			if !strings.Contains(text, want) {
				return "display does not contain " + strings.TrimSpace(want) + ": " + clip(text, 300)
			}
			if t[0] == "base6" && !strings.Contains(text, fmt.Sprintf("Antenna height %s metres\n", dec4(v[9]))) {
				return "display does not contain the height " + dec4(v[9]) + ": " + clip(text, 300)
			}
		}
		return ""
	}
	// ill-formed input: must be an error
	if !strings.HasPrefix(o.Line, "err ") {
		// a truncated or wrong-type message was accepted
		payloadBits := (len(unhx(t[1])) - 6) * 8
		need := 152
		if t[0] == "base6" {
			need = 168
		}
		if payloadBits < need {
			return fmt.Sprintf("message with %d payload bits (needs %d) accepted: %s", payloadBits, need, clip(o.Line, 200))
		}
		f := unhx(t[1])
		typ := typeOfFrame(f)
		if (t[0] == "base5" && typ != 1005) || (t[0] == "base6" && typ != 1006) {
			return fmt.Sprintf("message of type %d accepted by %s", typ, t[0])
		}
	}
	return ""
}

func init() {
	opTable["base5"] = func(t []string) *Obs {
		f := unhx(t[1])
		m, err := type1005.GetMessage(f, slog.LevelDebug)
		if err != nil {
			return &Obs{Line: "err " + baseErrClass(err.Error()), Branch: baseErrClass(err.Error())}
		}
		mi, _ := type1005.GetMessage(f, slog.LevelInfo)
		line := fmt.Sprintf("ok %d %d %d %d %d %d %d %d %d", m.MessageType, m.StationID, m.ITRFRealisationYear, m.Ignored1,
			m.AntennaRefX, m.Ignored2, m.AntennaRefY, m.Ignored3, m.AntennaRefZ)
		return &Obs{Line: line, Data: &baseObs{m.String(), mi.String()}, Branch: "ok"}
	}
	opTable["base6"] = func(t []string) *Obs {
		f := unhx(t[1])
		m, err := type1006.GetMessage(f, slog.LevelDebug)
		if err != nil {
			return &Obs{Line: "err " + baseErrClass(err.Error()), Branch: baseErrClass(err.Error())}
		}
		mi, _ := type1006.GetMessage(f, slog.LevelInfo)
		line := fmt.Sprintf("ok %d %d %d %d %d %d %d %d %d %d", m.MessageType, m.StationID, m.ITRFRealisationYear, m.Ignored1,
			m.AntennaRefX, m.Ignored2, m.AntennaRefY, m.Ignored3, m.AntennaRefZ, m.AntennaHeight)
		return &Obs{Line: line, Data: &baseObs{m.String(), mi.String()}, Branch: "ok"}
	}
	// disp4 <n>: the display arithmetic itself — float64(n) * 0.0001 on the hardware and fmt's %.4f,
	// against the exact binary64 model (IEEE fields and text)
	opTable["disp4"] = func(t []string) *Obs {
		n, _ := strconv.ParseInt(t[1], 10, 64)
		const scaleFactor = 0.0001
		x := float64(n) * scaleFactor
		bits := math.Float64bits(x)
		neg, e, mant := bits>>63 == 1, int((bits>>52)&0x7ff), bits&(1<<52-1)
		if e != 0 {
			mant |= 1 << 52
		}
		return &Obs{Line: fmt.Sprintf("f64 %v %d %d %s", neg, e, mant, fmt.Sprintf("%.4f", x)), Branch: "disp4"}
	}
	props["C05"] = &Prop{
		Rule: "ops base5/base6 <frame> [exp=]: well-formed 1005/1006 messages from an independent encoder (coordinates at -2^37, 2^37-1, -1, 0, near 4th-decimal rounding boundaries, random; " +
			"heights 0, 65535, random), with and without trailing payload bytes; op disp4 <n>: float64(n)*0.0001 on the hardware and fmt %.4f against the exact binary64 model (IEEE sign/exponent/significand and text); decode compared with the encoded values and the display (both log levels) with exact integer decimals; " +
			"every truncation length and wrong types must be rejected; non-trivial = well-formed message; distinct = distinct op line",
		Gen: genC05, Oracle: oracleC05,
		NonTrivial: func(op string, o *Obs) bool { return strings.Contains(op, " exp=") },
	}
}
