package main

// C07: no input can crash or hang framing, decoding or display.

import (
	"fmt"
	"log/slog"
	"strings"
	"time"

	"github.com/goblimey/go-ntrip/rtcm/handler"
	"github.com/goblimey/go-ntrip/rtcm/type1005"
	"github.com/goblimey/go-ntrip/rtcm/type1006"
	msm4 "github.com/goblimey/go-ntrip/rtcm/type_msm4/message"
	msm7 "github.com/goblimey/go-ntrip/rtcm/type_msm7/message"
)

type analyseObs struct {
	panics  []string
	slowest time.Duration
}

func safely(what string, o *analyseObs, f func()) {
	t0 := time.Now()
	defer func() {
		if r := recover(); r != nil {
			o.panics = append(o.panics, what+": "+fmt.Sprint(r))
		}
		if d := time.Since(t0); d > o.slowest {
			o.slowest = d
		}
	}()
	f()
}

func init() {
	opTable["analyse"] = func(t []string) *Obs {
		frame := unhx(t[2])
		o := &analyseObs{}
		line := "panic"
		safely("GetMessage", o, func() {
			h := handler.New(unixms(t[1]), slog.LevelInfo)
			m, err := h.GetMessage(frame)
			if m == nil {
				line = "empty"
				return
			}
			line = canonGet(m, err)
			// the dispatch of Analyse, looked at through a copy without the time-line error
			m2 := &handler.Message{MessageType: m.MessageType, RawData: m.RawData, LogLevel: slog.LevelDebug}
			an := "panic"
			safely("Analyse", o, func() {
				handler.Analyse(m2)
				switch m2.Readable.(type) {
				case *msm4.Message:
					an = "ok msm4"
				case *msm7.Message:
					an = "ok msm7"
				case *type1005.Message:
					an = "ok 1005"
				case *type1006.Message:
					an = "ok 1006"
				case string:
					an = "text"
				default:
					e := m2.ErrorMessage
					if c := msmErrClass(e); !strings.HasPrefix(c, "other(") {
						an = "err " + c
					} else {
						an = "err " + baseErrClass(e)
					}
				}
			})
			line += " analyse=" + an
			// display at both log levels, repeatedly
			safely("String(info)", o, func() { _ = m.String(); _ = m.String() })
			safely("String(debug)", o, func() {
				hd := handler.New(unixms(t[1]), slog.LevelDebug)
				md, _ := hd.GetMessage(frame)
				if md != nil {
					_ = md.String()
				}
			})
		})
		return &Obs{Line: line, Data: o, Panic: strings.Join(o.panics, "; ")}
	}
	props["C07"] = &Prop{
		Rule: "op analyse <T> <frame>: GetMessage + Analyse + String at both log levels under recover, on CRC-valid frames of payload length 1..1023 " +
			"(quick: 1..64 and a sample; thorough: every length) for the 16 decodable types with random payload bits, sparse masks (so that the decoders get past the header), " +
			"masks announcing more cells than fit, illegal timestamps; plus random and mixed streams through HandleMessages (ops stream); " +
			"non-trivial = a typed message was returned; distinct = distinct op line",
		Gen: func(c *Ctx, emit func(class, op string)) {
			r := c.Rng
			types := []int{1005, 1006, 1074, 1077, 1084, 1087, 1094, 1097, 1104, 1107, 1114, 1117, 1124, 1127, 1134, 1137}
			var lens []int
			if c.Thorough() {
				for n := 1; n <= 1023; n++ {
					lens = append(lens, n)
				}
			} else {
				for n := 1; n <= 64; n++ {
					lens = append(lens, n)
				}
				for i := 0; i < 24; i++ {
					lens = append(lens, 65+r.Intn(959))
				}
				lens = append(lens, 1021, 1022, 1023)
			}
			reps := c.N(1, 8)
			for _, n := range lens {
				for _, typ := range types {
					for k := 0; k < reps; k++ {
						p := payloadOfType(r, typ, n)
						class := "random-payload"
						switch r.Intn(4) {
						case 0:
							// sparse satellite/signal masks
							for i := 12; i < 24 && i < n; i++ {
								p[i] &= byte(r.Intn(256)) & byte(r.Intn(256)) & byte(r.Intn(256))
							}
							class = "sparse-masks"
						case 1:
							// all-ones masks: more cells than fit
							for i := 12; i < 24 && i < n; i++ {
								p[i] = 0xff
							}
							class = "dense-masks"
						case 2:
							// illegal timestamp
							if n >= 8 {
								p[3] |= 0x0f
								p[4], p[5], p[6] = 0xff, 0xff, 0xff
							}
							class = "illegal-timestamp"
						}
						emit(class, fmt.Sprintf("analyse %s %s", defaultStart, hx(mkFrame(p))))
					}
				}
			}
			// well-formed messages too (display of full content)
			for i := 0; i < c.N(60, 1500); i++ {
				s := randSpec(r, i%2 == 0, "random")
				if len(s.encode()) > 1023 {
					continue
				}
				emit("wellformed-msm", fmt.Sprintf("analyse %s %s", defaultStart, hx(mkFrame(s.encode()))))
			}
			// well-formed MSM messages cut short at every byte length, multiple flag set and clear
			for i := 0; i < c.N(10, 150); i++ {
				s := randSpec(r, i%2 == 0, "random")
				if len(s.sats) > 6 {
					s = randSpec(r, i%2 == 0, "8x8")
				}
				s.multiple = i%4 < 2 && s.numCells() > 0
				full := s.encode()
				if len(full) > 1023 {
					continue
				}
				for n := 20; n < len(full); n++ {
					emit("cut-short-msm", fmt.Sprintf("analyse %s %s", defaultStart, hx(mkFrame(full[:n]))))
				}
			}
			// byte strings of every length 0..12 handed straight to the four decoders (prefixes of
			// well-formed frames and random bytes): length arithmetic must not wrap
			for i := 0; i < c.N(2, 10); i++ {
				s4, s7 := randSpec(r, false, "8x8"), randSpec(r, true, "8x8")
				f4, f7 := mkFrame(s4.encode()), mkFrame(s7.encode())
				f5 := mkFrame(encodeBase([]int64{1005, 1, 2, 0, coordVal(r), 0, coordVal(r), 0, coordVal(r)}))
				f6 := mkFrame(encodeBase([]int64{1006, 1, 2, 0, coordVal(r), 0, coordVal(r), 0, coordVal(r), 99}))
				for k := 0; k <= 12; k++ {
					for _, pr := range []struct {
						op string
						f  []byte
					}{{"msm4", f4}, {"msm7", f7}, {"base5", f5}, {"base6", f6}} {
						emit("decoder-on-short-bytes", pr.op+" "+hx(pr.f[:k]))
						b := make([]byte, k)
						r.Read(b)
						emit("decoder-on-short-bytes", pr.op+" "+hx(b))
					}
				}
			}
			// random streams through the stream handler
			for i := 0; i < c.N(60, 1000); i++ {
				b := make([]byte, r.Intn(300))
				r.Read(b)
				emit("random-stream", "stream "+defaultStart+" "+hx(b))
			}
		},
		Oracle: func(op string, o *Obs) string {
			switch d := o.Data.(type) {
			case *analyseObs:
				if len(d.panics) > 0 {
					return "panic: " + strings.Join(d.panics, "; ")
				}
				if d.slowest > 5*time.Second {
					return fmt.Sprintf("took %v", d.slowest)
				}
			case *streamRun:
				if d.Panic != "" {
					return "HandleMessages panicked: " + d.Panic
				}
				if d.Hung || !d.Closed {
					return "HandleMessages did not finish"
				}
			default:
				if o.Panic != "" {
					return "panic: " + o.Panic
				}
			}
			return ""
		},
		NonTrivial: func(op string, o *Obs) bool {
			return strings.HasPrefix(o.Line, "msg err=none") || strings.HasPrefix(o.Line, "msgs")
		},
	}
}
