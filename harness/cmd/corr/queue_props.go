package main

// C18: the circular queue — sequential operation sequences against the model and the
// property, and concurrent histories checked for linearizability.

import (
	"fmt"
	"log/slog"
	"strings"
	"sync"
	"sync/atomic"
	"time"

	circularQueue "github.com/goblimey/go-ntrip/apps/proxy/circular_queue"
	"github.com/goblimey/go-ntrip/rtcm/handler"
)

var queueDeadlocked string

func msgID(m handler.Message) int { return int(m.Timestamp) }

func idMsg(id int) handler.Message {
	return handler.Message{MessageType: 1077, Timestamp: uint(id), RawData: []byte{byte(id), byte(id >> 8)}}
}

type snap struct {
	ids            []int
	held           int
	addsDoneBefore int64 // adds that had returned when the snapshot was invoked
	addsBegunAfter int64 // adds that had been invoked when the snapshot returned
}

type queueObs struct {
	cap   int
	snaps []snap
	added int
	// mutated: a snapshot whose contents changed after GetMessages had returned it (it shares
	// storage with the queue)
	mutated string
}

// slowSink is a log destination that takes its time.
type slowSink struct{}

func (slowSink) Write(p []byte) (int, error) { time.Sleep(200 * time.Microsecond); return len(p), nil }

// multiObs: a history with several concurrent adders.
type multiObs struct {
	cap       int
	total     int
	perReader [][]snap // per reader, in the order the reader took them
	final     []int
}

// checkMulti: the snapshots of a history with concurrent adders are windows of ONE addition order.
func checkMulti(o *multiObs) string {
	succ, pred := map[int]int{}, map[int]int{}
	window := func(who string, ids []int) string {
		if len(ids) > o.cap {
			return fmt.Sprintf("%s holds %d messages, capacity %d", who, len(ids), o.cap)
		}
		lastSeq := map[int]int{}
		seen := map[int]bool{}
		for j, id := range ids {
			if seen[id] {
				return fmt.Sprintf("%s holds message %#x twice: %x", who, id, ids)
			}
			seen[id] = true
			a, q := id>>20, id&0xfffff
			if a < 30 {
				if p, ok := lastSeq[a]; ok && q <= p {
					return fmt.Sprintf("%s shows the additions of one goroutine out of their order: %x", who, ids)
				}
				lastSeq[a] = q
			}
			if j > 0 {
				x := ids[j-1]
				if y, ok := succ[x]; ok && y != id {
					return fmt.Sprintf("%s has %#x directly followed by %#x, another snapshot had it directly followed by %#x: no single addition order explains both", who, x, id, y)
				}
				if x0, ok := pred[id]; ok && x0 != x {
					return fmt.Sprintf("%s has %#x directly preceded by %#x, another snapshot had it directly preceded by %#x: no single addition order explains both", who, id, x, x0)
				}
				succ[x], pred[id] = id, x
			}
		}
		return ""
	}
	for r, snaps := range o.perReader {
		for k, s := range snaps {
			who := fmt.Sprintf("snapshot %d of reader %d", k, r)
			if msg := window(who, s.ids); msg != "" {
				return msg
			}
			want := s.addsDoneBefore
			if want > int64(o.cap) {
				want = int64(o.cap)
			}
			if int64(len(s.ids)) < want || int64(len(s.ids)) > s.addsBegunAfter {
				return fmt.Sprintf("%s holds %d messages; %d additions had completed before it was invoked and %d had begun when it returned (capacity %d)", who, len(s.ids), s.addsDoneBefore, s.addsBegunAfter, o.cap)
			}
			if k > 0 {
				// the later window of the same reader: what it shares with the earlier one is the end of
				// the earlier and the beginning of the later one
				prev := snaps[k-1].ids
				in := map[int]int{}
				for i, id := range prev {
					in[id] = i
				}
				shared := 0
				for j, id := range s.ids {
					if i, ok := in[id]; ok {
						if j != shared || i != len(prev)-(countShared(prev, s.ids)-shared) {
							return fmt.Sprintf("reader %d saw %x and then %x: the second is not a later window of the same order", r, prev, s.ids)
						}
						shared++
					}
				}
			}
		}
	}
	if msg := window("the final snapshot", o.final); msg != "" {
		return msg
	}
	want := o.total
	if want > o.cap {
		want = o.cap
	}
	if len(o.final) != want {
		return fmt.Sprintf("after %d additions the queue holds %d messages, expected %d", o.total, len(o.final), want)
	}
	return ""
}

func countShared(a, b []int) int {
	in := map[int]bool{}
	for _, x := range a {
		in[x] = true
	}
	n := 0
	for _, x := range b {
		if in[x] {
			n++
		}
	}
	return n
}

func init() {
	// queue <cap> a0 a1 g a2 g …
	opTable["queue"] = func(t []string) *Obs {
		cp := atoi(t[1])
		q := circularQueue.NewCircularQueue(cp)
		o := &queueObs{cap: cp}
		var out []string
		var held [][]handler.Message
		for _, op := range t[2:] {
			if op == "g" {
				ms := q.GetMessages()
				held = append(held, ms)
				var ids []string
				s := snap{held: len(q.Items)}
				for _, m := range ms {
					ids = append(ids, fmt.Sprint(msgID(m)))
					s.ids = append(s.ids, msgID(m))
				}
				s.addsDoneBefore, s.addsBegunAfter = int64(o.added), int64(o.added)
				o.snaps = append(o.snaps, s)
				out = append(out, fmt.Sprintf("[%s]/%d", strings.Join(ids, ","), len(q.Items)))
			} else {
				q.Add(idMsg(atoi(op[1:])))
				o.added++
			}
		}
		// the snapshots taken earlier must still read as they did when they were returned
		for k, ms := range held {
			for j := range ms {
				if j < len(o.snaps[k].ids) && msgID(ms[j]) != o.snaps[k].ids[j] {
					o.mutated = fmt.Sprintf("snapshot %d read %v when it was returned; after later additions its element %d reads %d", k, o.snaps[k].ids, j, msgID(ms[j]))
				}
			}
		}
		return &Obs{Line: strings.Join(out, " "), Data: o}
	}
	// queuelong <cap> <n>: additions 0 … n-1, a snapshot after 2^k-1, 2^k, 2^k+1 (k = 3 … 17) and after n additions
	opTable["queuelong"] = func(t []string) *Obs {
		cp, n := atoi(t[1]), atoi(t[2])
		q := circularQueue.NewCircularQueue(cp)
		o := &queueObs{cap: cp}
		cps := map[int]bool{n: true}
		for k := 3; k < 22; k++ {
			for _, v := range []int{1<<uint(k) - 1, 1 << uint(k), 1<<uint(k) + 1} {
				cps[v] = true
			}
		}
		var out []string
		for i := 0; i < n; i++ {
			q.Add(idMsg(i))
			o.added++
			if cps[i+1] {
				s := snap{held: len(q.Items), addsDoneBefore: int64(o.added), addsBegunAfter: int64(o.added)}
				var ids []string
				for _, m := range q.GetMessages() {
					s.ids = append(s.ids, msgID(m))
					ids = append(ids, fmt.Sprint(msgID(m)))
				}
				o.snaps = append(o.snaps, s)
				out = append(out, fmt.Sprintf("%d:[%s]", i+1, strings.Join(ids, ",")))
			}
		}
		return &Obs{Line: strings.Join(out, " "), Data: o}
	}
	// queueconc <cap> <nadds> <nreaders> <procs>: one adder adds ids 0..n-1 while readers take snapshots
	opTable["queueconc"] = func(t []string) *Obs {
		cp, n, readers := atoi(t[1]), atoi(t[2]), atoi(t[3])
		q := circularQueue.NewCircularQueue(cp)
		o := &queueObs{cap: cp, added: n}
		var begun, done int64
		var mu sync.Mutex
		var wg sync.WaitGroup
		stop := make(chan struct{})
		for r := 0; r < readers; r++ {
			wg.Add(1)
			go func() {
				defer wg.Done()
				for {
					select {
					case <-stop:
						return
					default:
					}
					d := atomic.LoadInt64(&done)
					ms := q.GetMessages()
					b := atomic.LoadInt64(&begun)
					s := snap{addsDoneBefore: d, addsBegunAfter: b}
					for _, m := range ms {
						s.ids = append(s.ids, msgID(m))
					}
					mu.Lock()
					if len(o.snaps) < 20000 {
						o.snaps = append(o.snaps, s)
					}
					mu.Unlock()
				}
			}()
		}
		// watchdog: a lock-ordering mistake shows as adders and readers waiting for each other for ever
		if queueDeadlocked != "" {
			// an earlier case left goroutines stuck in this process; do not wait again
			return &Obs{Line: "deadlock", Data: o, Panic: queueDeadlocked, NoModel: true}
		}
		finished := make(chan struct{})
		go func() {
			for i := 0; i < n; i++ {
				atomic.AddInt64(&begun, 1)
				q.Add(idMsg(i))
				atomic.AddInt64(&done, 1)
				if i%64 == 0 {
					time.Sleep(50 * time.Microsecond)
				}
			}
			close(stop)
			wg.Wait()
			close(finished)
		}()
		select {
		case <-finished:
		case <-time.After(30 * time.Second):
			queueDeadlocked = fmt.Sprintf("deadlock: after 30 s only %d of %d additions had completed while %d readers were taking snapshots", atomic.LoadInt64(&done), n, readers)
			return &Obs{Line: "deadlock", Data: o, Panic: queueDeadlocked, NoModel: true}
		}
		final := q.GetMessages()
		s := snap{addsDoneBefore: int64(n), addsBegunAfter: int64(n), held: len(q.Items)}
		for _, m := range final {
			s.ids = append(s.ids, msgID(m))
		}
		o.snaps = append(o.snaps, s)
		return &Obs{Line: fmt.Sprintf("final %v", s.ids), Data: o, NoModel: true}
	}
	// queuemulti <cap> <adders> <perAdder> <readers> <parkRounds>: several goroutines add concurrently
	// (ids adder<<20|seq) while readers take snapshots; with parkRounds > 0 the run continues with
	// rounds in which one adder is made to wait at the queue's own lock while a second addition
	// overtakes it (the queue's exported Lock/Unlock, when it has them)
	opTable["queuemulti"] = func(t []string) *Obs {
		cp, adders, per, readers, park := atoi(t[1]), atoi(t[2]), atoi(t[3]), atoi(t[4]), atoi(t[5])
		if len(t) > 6 && t[6] == "debuglog" {
			// the process-wide logger at debug level, writing to a slow sink, for the length of this op
			old := slog.Default()
			slog.SetDefault(slog.New(slog.NewTextHandler(slowSink{}, &slog.HandlerOptions{Level: slog.LevelDebug})))
			defer slog.SetDefault(old)
		}
		q := circularQueue.NewCircularQueue(cp)
		o := &multiObs{cap: cp, perReader: make([][]snap, readers)}
		if queueDeadlocked != "" {
			return &Obs{Line: "deadlock", Data: o, Panic: queueDeadlocked, NoModel: true}
		}
		var begun, done int64
		var wg sync.WaitGroup
		stop := make(chan struct{})
		for r := 0; r < readers; r++ {
			wg.Add(1)
			go func(r int) {
				defer wg.Done()
				for {
					select {
					case <-stop:
						return
					default:
					}
					d := atomic.LoadInt64(&done)
					ms := q.GetMessages()
					b := atomic.LoadInt64(&begun)
					s := snap{addsDoneBefore: d, addsBegunAfter: b}
					for _, m := range ms {
						s.ids = append(s.ids, msgID(m))
					}
					if len(o.perReader[r]) < 20000 {
						o.perReader[r] = append(o.perReader[r], s)
					}
				}
			}(r)
		}
		add := func(id int) {
			atomic.AddInt64(&begun, 1)
			q.Add(idMsg(id))
			atomic.AddInt64(&done, 1)
		}
		finished := make(chan struct{})
		go func() {
			var aw sync.WaitGroup
			for a := 0; a < adders; a++ {
				aw.Add(1)
				go func(a int) {
					defer aw.Done()
					for i := 0; i < per; i++ {
						add((a+1)<<20 | i)
						if i%32 == a {
							time.Sleep(20 * time.Microsecond)
						}
					}
				}(a)
			}
			aw.Wait()
			o.total = adders * per
			if locker, ok := interface{}(q).(sync.Locker); ok {
				for k := 0; k < park; k++ {
					locker.Lock()
					aw.Add(1)
					go func() { defer aw.Done(); add(30<<20 | k) }()
					time.Sleep(200 * time.Microsecond) // the first adder reaches the lock and waits
					locker.Unlock()
					add(31<<20 | k) // overtakes it
					aw.Wait()
					o.total += 2
				}
			}
			close(stop)
			wg.Wait()
			close(finished)
		}()
		select {
		case <-finished:
		case <-time.After(40 * time.Second):
			queueDeadlocked = fmt.Sprintf("deadlock: after 40 s only %d additions had completed while %d readers were taking snapshots", atomic.LoadInt64(&done), readers)
			return &Obs{Line: "deadlock", Data: o, Panic: queueDeadlocked, NoModel: true}
		}
		for _, m := range q.GetMessages() {
			o.final = append(o.final, msgID(m))
		}
		return &Obs{Line: fmt.Sprintf("final %d", len(o.final)), Data: o, NoModel: true}
	}
	props["C18"] = &Prop{
		Rule: "op queuelong <cap> <n>: 70,000 (thorough 140,000) additions with snapshots around every power of two up to 2^17, one run of 1,100,000 (thorough 2,200,000); op queue <cap> a<id>… g…: operation sequences over capacities 1..8 — exhaustive add/snapshot interleavings to a bound (quick: length 8, thorough: 12) plus long runs far beyond the capacity — " +
			"against the model and the last-N oracle; op queueconc: one adder and 1..4 snapshot readers on the real queue, every snapshot must be a contiguous run of the addition order ending between " +
			"the adds completed before its invocation and the adds begun before its return, of the right length; op queuemulti: 2..4 concurrent adders and 1..3 readers (some runs with the process-wide logger at debug level on a slow sink), then rounds in which one adder waits at the queue's lock while another addition overtakes it - all snapshots must be windows of one addition order (no message with two different direct successors or predecessors, each reader's later window continues its earlier one, per-goroutine order kept, lengths between the additions completed and begun); non-trivial = more additions than the capacity; distinct = distinct op line",
		Gen: func(c *Ctx, emit func(class, op string)) {
			r := c.Rng
			// exhaustive add/snapshot patterns up to a bound, capacities 1..8
			bound := c.N(8, 12)
			for cp := 1; cp <= 8; cp++ {
				limit := 1 << uint(bound)
				step := 1
				if !c.Thorough() {
					step = 3
				}
				for mask := 0; mask < limit; mask += step {
					var ops []string
					id := 0
					for k := 0; k < bound; k++ {
						if mask>>uint(k)&1 == 1 {
							ops = append(ops, "g")
						} else {
							ops = append(ops, fmt.Sprintf("a%d", id))
							id++
						}
					}
					ops = append(ops, "g")
					emit("exhaustive-patterns", fmt.Sprintf("queue %d %s", cp, strings.Join(ops, " ")))
				}
			}
			// long runs far beyond the capacity
			for i := 0; i < c.N(40, 400); i++ {
				cp := 1 + r.Intn(8)
				if r.Intn(5) == 0 {
					cp = 20
				}
				n := cp*3 + r.Intn(200)
				var ops []string
				for id := 0; id < n; id++ {
					ops = append(ops, fmt.Sprintf("a%d", id))
					if r.Intn(10) == 0 {
						ops = append(ops, "g")
					}
				}
				ops = append(ops, "g")
				emit("long-run", fmt.Sprintf("queue %d %s", cp, strings.Join(ops, " ")))
			}
			// very long runs: the running index passes 2^8, 2^15, 2^16, 2^17
			for _, cp := range []int{1, 2, 3, 8} {
				emit("very-long-run", fmt.Sprintf("queuelong %d %d", cp, c.N(70000, 140000)))
			}
			// past 2^20 (thorough: 2^21) additions
			emit("very-long-run", fmt.Sprintf("queuelong 2 %d", c.N(1100000, 2200000)))
			for i := 0; i < c.N(6, 60); i++ {
				emit("concurrent", fmt.Sprintf("queueconc %d %d %d", 1+r.Intn(8), 2000+r.Intn(4000), 1+r.Intn(4)))
			}
			for i := 0; i < c.N(6, 40); i++ {
				emit("concurrent-adders", fmt.Sprintf("queuemulti %d %d %d %d %d", 1+r.Intn(8), 2+r.Intn(3), 500+r.Intn(1500), 1+r.Intn(3), 40+r.Intn(60)))
				if i%3 == 0 {
					emit("concurrent-adders-debug-logging", fmt.Sprintf("queuemulti %d %d %d %d %d debuglog", 1+r.Intn(8), 2+r.Intn(3), 200+r.Intn(300), 1+r.Intn(3), 20))
				}
			}
		},
		Oracle: func(op string, ob *Obs) string {
			if mo, ok := ob.Data.(*multiObs); ok {
				if ob.Panic != "" {
					return "panic or deadlock: " + ob.Panic
				}
				return checkMulti(mo)
			}
			o, ok := ob.Data.(*queueObs)
			if !ok || ob.Panic != "" {
				return "panic or deadlock: " + ob.Panic
			}
			if o.mutated != "" {
				return o.mutated
			}
			for k, s := range o.snaps {
				if len(s.ids) > o.cap {
					return fmt.Sprintf("snapshot %d holds %d messages, capacity %d", k, len(s.ids), o.cap)
				}
				if s.held > o.cap {
					return fmt.Sprintf("the queue holds %d messages, capacity %d", s.held, o.cap)
				}
				if len(s.ids) == 0 {
					if s.addsDoneBefore > 0 {
						return fmt.Sprintf("snapshot %d is empty although %d additions had completed", k, s.addsDoneBefore)
					}
					continue
				}
				for j := 1; j < len(s.ids); j++ {
					if s.ids[j] != s.ids[j-1]+1 {
						return fmt.Sprintf("snapshot %d is not a contiguous run of the addition order: %v", k, s.ids)
					}
				}
				last := int64(s.ids[len(s.ids)-1])
				// the snapshot reflects the first last+1 additions: all that completed before it was invoked, none begun after it returned
				if last+1 < s.addsDoneBefore || last+1 > s.addsBegunAfter {
					return fmt.Sprintf("snapshot %d ends at addition %d, but %d had completed before it was invoked and %d had begun when it returned", k, last, s.addsDoneBefore, s.addsBegunAfter)
				}
				want := int(last + 1)
				if want > o.cap {
					want = o.cap
				}
				if len(s.ids) != want {
					return fmt.Sprintf("snapshot %d after %d additions holds %d messages, expected min(N, added) = %d", k, last+1, len(s.ids), want)
				}
			}
			return ""
		},
		NonTrivial: func(op string, ob *Obs) bool {
			if mo, ok := ob.Data.(*multiObs); ok {
				return mo.total > mo.cap
			}
			o, ok := ob.Data.(*queueObs)
			return ok && o.added > o.cap
		},
	}
}
