package main

// Generators and direct oracles for the framing properties C01, C02, C03, C12.

import (
	"bytes"
	"fmt"
	"math/rand"
	"strings"

	"github.com/goblimey/go-ntrip/rtcm/handler"
)

const defaultStart = "1683979200000" // Sat 2023-05-13 12:00:00 UTC

var typePool = []int{1005, 1006, 1074, 1077, 1084, 1087, 1094, 1097, 1104, 1107, 1114, 1117, 1124, 1127, 1134, 1137, 1230, 1019, 4095, 0, 1, 1073, 1075}

func pickType(r *rand.Rand) int {
	if r.Intn(4) == 0 {
		return r.Intn(4096)
	}
	return typePool[r.Intn(len(typePool))]
}

var nmea = []string{"$GNGGA,123519.00,4807.038,N,01131.000,E,1,08,0.9,545.4,M,46.9,M,,*47\r\n",
	"$GPRMC,081836,A,3751.65,S,14507.36,E,000.0,360.0,130998,011.3,E*62\r\n", "\xb5\x62\x01\x07\x5c\x00\x10\x20", "\r\n", "x"}

// junkRun makes n bytes of other data without any 0xD3.
func junkRun(r *rand.Rand, n int) []byte {
	var b []byte
	for len(b) < n {
		switch r.Intn(3) {
		case 0:
			b = append(b, nmea[r.Intn(len(nmea))]...)
		default:
			k := 1 + r.Intn(8)
			x := make([]byte, k)
			r.Read(x)
			b = append(b, x...)
		}
	}
	b = b[:n]
	for i := range b {
		if b[i] == 0xd3 {
			b[i] = 0xd2
		}
	}
	return b
}

func randFrame(r *rand.Rand, n int) []byte {
	return mkFrame(payloadOfType(r, pickType(r), n))
}

func lengthsFor(c *Ctx) []int {
	var ls []int
	if c.Thorough() {
		for n := 1; n <= 1023; n++ {
			ls = append(ls, n)
		}
		return ls
	}
	for n := 1; n <= 40; n++ {
		ls = append(ls, n)
	}
	ls = append(ls, 255, 256, 257, 1021, 1022, 1023)
	for i := 0; i < 10; i++ {
		ls = append(ls, 41+c.Rng.Intn(980))
	}
	return ls
}

// ---- C01 -------------------------------------------------------------------------------

func genC01(c *Ctx, emit func(class, op string)) {
	r := c.Rng
	get := func(class string, b []byte) { emit(class, "getmsg "+defaultStart+" "+hx(b)) }
	for _, n := range lengthsFor(c) {
		f := randFrame(r, n)
		get("valid", f)
		// each CRC byte corrupted alone
		for k := 1; k <= 3; k++ {
			g := append([]byte{}, f...)
			g[len(g)-k] ^= byte(1 + r.Intn(255))
			get("crc-byte-corrupt", g)
		}
		// each reserved bit set alone
		for bit := 2; bit < 8; bit++ {
			g := append([]byte{}, f...)
			g[1] |= 1 << uint(bit)
			get("reserved-bit", g)
		}
		if n < 60 || r.Intn(20) == 0 {
			// length field off by one either way (the CRC is recomputed so only the length lies)
			for _, d := range []int{-1, 1} {
				m := n + d
				if m < 0 || m > 1023 {
					continue
				}
				g := append([]byte{}, f[:len(f)-3]...)
				g[1], g[2] = byte(m>>8), byte(m)
				cc := crc24(g)
				g = append(g, byte(cc>>16), byte(cc>>8), byte(cc))
				get("length-off-by-one", g)
			}
			// truncation at every position
			for k := 0; k < len(f); k++ {
				if len(f) > 30 && k > 8 && k < len(f)-5 && r.Intn(6) != 0 {
					continue
				}
				get("truncated", f[:k])
			}
			// wrong preamble
			g := append([]byte{}, f...)
			g[0] = byte(r.Intn(256))
			get("preamble", g)
			// a frame followed by other bytes, and the crafted "CRC over the over-long buffer"
			extra := make([]byte, 1+r.Intn(5))
			r.Read(extra)
			get("frame+trailing", append(append([]byte{}, f...), extra...))
			long := append(append([]byte{}, f[:len(f)-3]...), extra...)
			cc := crc24(long)
			get("crc-over-long-buffer", append(long, byte(cc>>16), byte(cc>>8), byte(cc)))
			// two frames back to back
			get("batch", append(append([]byte{}, f...), randFrame(r, 1+r.Intn(30))...))
		}
	}
	// zero length, explicit
	for _, typ := range []int{1005, 1077, 0, 4095} {
		g := []byte{0xd3, 0, 0, byte(typ >> 4), byte(typ << 4)}
		cc := crc24(g[:3])
		get("zero-length", append(g, byte(cc>>16), byte(cc>>8), byte(cc)))
	}
	get("empty", []byte{})
	// reserved bits set, and everything else consistent with reading the reserved bits as part of a
	// wider length field (11, 12 or 16 bits): payload of that length, CRC over all of it
	for i := 0; i < c.N(12, 80); i++ {
		hi := byte(1 << uint(2+r.Intn(6)))
		if r.Intn(3) == 0 {
			hi |= byte(r.Intn(4))
		}
		lo := byte([]int{0, 0, 1, 5, r.Intn(256)}[r.Intn(5)])
		for _, width := range []uint{11, 12, 16} {
			n := (int(hi)<<8 | int(lo)) & (1<<width - 1)
			if n == 0 || (width == 16 && !c.Thorough() && n > 9000) {
				continue
			}
			g := append([]byte{0xd3, hi, lo}, payloadOfType(r, pickType(r), n)...)
			cc := crc24(g)
			g = append(g, byte(cc>>16), byte(cc>>8), byte(cc))
			get("reserved-bits-as-length", g)
			emit("stream-reserved-bits-as-length", "stream "+defaultStart+" "+hx(append(append(randFrame(r, 1+r.Intn(20)), g...), randFrame(r, 1+r.Intn(20))...)))
		}
	}
	// the other way round: a length field of 256 or more, and everything else consistent with reading
	// only its low 8 or 9 bits: a payload of that many bytes, CRC over leader and that payload
	for i := 0; i < c.N(12, 80); i++ {
		hi := byte(1 + r.Intn(3))
		lo := byte([]int{1, 2, 5, 19, 1 + r.Intn(255)}[r.Intn(5)])
		for _, width := range []uint{8, 9} {
			n := (int(hi)<<8 | int(lo)) & (1<<width - 1)
			if n == 0 || n == int(hi)<<8|int(lo) {
				continue
			}
			g := append([]byte{0xd3, hi, lo}, payloadOfType(r, pickType(r), n)...)
			cc := crc24(g)
			g = append(g, byte(cc>>16), byte(cc>>8), byte(cc))
			get("length-read-too-narrow", g)
			get("length-read-too-narrow", append(append([]byte{}, g...), junkRun(r, 1100)...))
			emit("stream-length-read-too-narrow", "stream "+defaultStart+" "+hx(append(append(randFrame(r, 1+r.Intn(20)), g...), junkRun(r, 1100)...)))
		}
	}
	// a start byte followed by a zero length field, inside streams (any type bits after it)
	for i := 0; i < c.N(40, 400); i++ {
		typ := pickType(r)
		z := []byte{0xd3, 0, 0, byte(typ >> 4), byte(typ << 4)}
		var bs []byte
		if r.Intn(2) == 0 {
			bs = append(bs, randFrame(r, 1+r.Intn(30))...)
		}
		bs = append(bs, z...)
		switch r.Intn(3) {
		case 0:
			bs = append(bs, randFrame(r, 1+r.Intn(30))...)
		case 1:
			bs = append(bs, junkRun(r, 1+r.Intn(10))...)
		}
		emit("stream-zero-length-leader", "stream "+defaultStart+" "+hx(bs))
	}
	// streams: mixtures of frames, corrupted frames, junk with embedded 0xD3
	for i := 0; i < c.N(150, 1500); i++ {
		var bs []byte
		for k := 0; k < 1+r.Intn(6); k++ {
			switch r.Intn(5) {
			case 0:
				bs = append(bs, junkRun(r, 1+r.Intn(40))...)
			case 1:
				x := make([]byte, 1+r.Intn(20))
				r.Read(x)
				x[r.Intn(len(x))] = 0xd3
				bs = append(bs, x...)
			case 2:
				f := randFrame(r, 1+r.Intn(60))
				f[3+r.Intn(len(f)-3)] ^= 1 << uint(r.Intn(8))
				bs = append(bs, f...)
			default:
				bs = append(bs, randFrame(r, 1+r.Intn(80))...)
			}
		}
		if r.Intn(3) == 0 {
			bs = bs[:r.Intn(len(bs)+1)]
		}
		emit("stream-mixed", "stream "+defaultStart+" "+hx(bs))
	}
	// a valid frame followed by damaged copies of itself (payload bits changed, CRC bytes as sent),
	// and by frames that share its type, leading bytes and low length byte
	for i := 0; i < c.N(60, 600); i++ {
		var bs []byte
		for _, sg := range siblingSegs(r) {
			bs = append(bs, sg.b...)
			if sg.kind == 'f' && r.Intn(2) == 0 {
				g := append([]byte{}, sg.b...)
				g[3+r.Intn(len(g)-6)] ^= byte(1 << uint(r.Intn(8)))
				bs = append(bs, g...)
			}
		}
		emit("stream-damaged-retransmission", "stream "+defaultStart+" "+hx(bs))
	}
}

func oracleC01(op string, o *Obs) string {
	if o.Panic != "" {
		return "" // a crash is C07's business; here it only matters what is delivered
	}
	switch d := o.Data.(type) {
	case []any: // getmsg
		m, _ := d[0].(*handler.Message)
		err, _ := d[1].(error)
		in := d[2].([]byte)
		if m == nil || m.MessageType < 0 || err != nil {
			return ""
		}
		if !validFrame(m.RawData) {
			return fmt.Sprintf("typed message (type %d) without error whose raw bytes %s are not one valid frame", m.MessageType, hx(m.RawData))
		}
		if !bytes.HasPrefix(in, m.RawData) {
			return "raw bytes are not a prefix of the input"
		}
		if typeOfFrame(m.RawData) != m.MessageType {
			return fmt.Sprintf("type %d reported, first 12 payload bits are %d", m.MessageType, typeOfFrame(m.RawData))
		}
	case *streamRun:
		for i := range d.Msgs {
			m := &d.Msgs[i]
			if m.MessageType < 0 {
				continue
			}
			if !validFrame(m.RawData) {
				return fmt.Sprintf("delivered message %d has type %d but raw bytes %s are not one valid frame", i, m.MessageType, hx(m.RawData))
			}
			if typeOfFrame(m.RawData) != m.MessageType {
				return fmt.Sprintf("delivered message %d: type %d reported, first 12 payload bits are %d", i, m.MessageType, typeOfFrame(m.RawData))
			}
		}
	}
	return ""
}

// ---- C02 -------------------------------------------------------------------------------

func genC02(c *Ctx, emit func(class, op string)) {
	r := c.Rng
	st := func(class string, b []byte) { emit(class, "stream "+defaultStart+" "+hx(b)) }
	st("empty", nil)
	st("lone-d3", []byte{0xd3})
	for i := 0; i < c.N(12, 60); i++ {
		f := randFrame(r, 1+r.Intn(c.N(24, 200)))
		// the stream ends inside the leader, the payload, the CRC: every cut position
		for k := 1; k <= len(f); k++ {
			st("cut-frame", f[:k])
		}
		pre := junkRun(r, r.Intn(5))
		for k := 1; k <= len(f); k++ {
			if r.Intn(3) == 0 {
				st("junk+cut-frame", append(append([]byte{}, pre...), f[:k]...))
			}
		}
	}
	// 0xD3 at every position of junk runs of length 0..6, before a frame and at the end
	for n := 0; n <= 6; n++ {
		for pos := 0; pos <= n; pos++ {
			j := junkRun(r, n)
			x := append(append(append([]byte{}, j[:pos]...), 0xd3), j[pos:]...)
			st("d3-in-junk", x)
			st("d3-in-junk+frame", append(append([]byte{}, x...), randFrame(r, 1+r.Intn(20))...))
			st("frame+d3-in-junk", append(randFrame(r, 1+r.Intn(20)), x...))
		}
	}
	for i := 0; i < c.N(30, 300); i++ {
		typ := pickType(r)
		bs := append(junkRun(r, r.Intn(4)), 0xd3, 0, 0, byte(typ>>4), byte(typ<<4))
		if r.Intn(2) == 0 {
			bs = append(bs, randFrame(r, 1+r.Intn(30))...)
		}
		st("zero-length-leader", bs)
	}
	for i := 0; i < c.N(120, 1500); i++ {
		var bs []byte
		for k := 0; k < 1+r.Intn(8); k++ {
			switch r.Intn(6) {
			case 0:
				bs = append(bs, junkRun(r, 1+r.Intn(30))...)
			case 1:
				x := make([]byte, 1+r.Intn(12))
				r.Read(x)
				bs = append(bs, x...)
			case 2:
				bs = append(bs, 0xd3)
			case 3:
				f := randFrame(r, 1+r.Intn(40))
				f[r.Intn(len(f))] ^= byte(1 + r.Intn(255))
				bs = append(bs, f...)
			default:
				bs = append(bs, randFrame(r, 1+r.Intn(c.N(60, 1023)))...)
			}
		}
		if r.Intn(3) == 0 {
			bs = bs[:r.Intn(len(bs)+1)]
		}
		if r.Intn(2) == 0 {
			caps := []int{0, 1, 2, 64}
			emit("mixed-capacities", fmt.Sprintf("streamcap %s %s %d %d", defaultStart, hx(bs), caps[r.Intn(4)], caps[r.Intn(4)]))
		} else {
			st("mixed", bs)
		}
	}
}

func streamInput(op string) []byte {
	t := strings.Fields(op)
	switch t[0] {
	case "stream", "streamcap":
		return unhx(t[2])
	case "streamseg":
		var bs []byte
		for _, tok := range t[2:] {
			bs = append(bs, unhx(tok[2:])...)
		}
		return bs
	}
	return nil
}

func oracleC02(op string, o *Obs) string {
	d, ok := o.Data.(*streamRun)
	if !ok {
		return ""
	}
	if d.Panic != "" {
		return "HandleMessages panicked: " + d.Panic
	}
	if d.Hung {
		return "HandleMessages did not finish (output never closed)"
	}
	if !d.Closed {
		return "output channel not closed"
	}
	in := streamInput(op)
	var cat []byte
	for i := range d.Msgs {
		if len(d.Msgs[i].RawData) == 0 {
			return fmt.Sprintf("delivered message %d is empty", i)
		}
		cat = append(cat, d.Msgs[i].RawData...)
	}
	if !bytes.Equal(cat, in) {
		return fmt.Sprintf("concatenated raw bytes (%d) differ from the input (%d): %s", len(cat), len(in), hx(cat))
	}
	return ""
}

// ---- C03 / C12 -------------------------------------------------------------------------

type seg struct {
	kind byte // f, j, c, t
	b    []byte
}

func segOp(segs []seg) string {
	var sb strings.Builder
	sb.WriteString("streamseg " + defaultStart)
	for _, s := range segs {
		fmt.Fprintf(&sb, " %c:%s", s.kind, hx(s.b))
	}
	return sb.String()
}

func parseSegs(op string) []seg {
	var segs []seg
	for _, tok := range strings.Fields(op)[2:] {
		if tok[0] == 'o' {
			continue
		}
		segs = append(segs, seg{tok[0], unhx(tok[2:])})
	}
	return segs
}

// intactStream rebuilds, from an op whose corrupted frames are followed by their intact form
// (o:), the stream as it was before the corruption; ok = every victim has one.
func intactStream(op string) (bs []byte, ok bool) {
	toks := strings.Fields(op)[2:]
	ok = false
	for i, tok := range toks {
		switch {
		case tok[0] == 'o':
		case tok[0] == 'c':
			if i+1 >= len(toks) || toks[i+1][0] != 'o' {
				return nil, false
			}
			bs = append(bs, unhx(toks[i+1][2:])...)
			ok = true
		default:
			bs = append(bs, unhx(tok[2:])...)
		}
	}
	return bs, ok
}

// oracleC12 is the segment oracle plus the property's own comparison for streams that carry the
// intact form of their victims: every message other than the victim is the message the
// uncorrupted stream yields - type, bytes, error text, timestamp and the two time lines.  (Only
// emitted for streams whose MSM timestamps do not decrease, where the victim's own contribution
// to the handler's time state cannot matter.)
func oracleC12(op string, o *Obs) string {
	if msg := oracleSegs(op, o); msg != "" {
		return msg
	}
	intact, ok := intactStream(op)
	if !ok {
		return ""
	}
	d := o.Data.(*streamRun)
	ref := runHandleMessages(unixms(strings.Fields(op)[1]), intact, 0, 0)
	if ref.Panic != "" || ref.Hung || len(ref.Msgs) != len(d.Msgs) {
		return fmt.Sprintf("the uncorrupted stream yields %d messages, the corrupted one %d", len(ref.Msgs), len(d.Msgs))
	}
	for i := range d.Msgs {
		if !bytes.Equal(d.Msgs[i].RawData, ref.Msgs[i].RawData) {
			continue // the victim
		}
		if a, b := canonMsg(&d.Msgs[i]), canonMsg(&ref.Msgs[i]); a != b {
			return fmt.Sprintf("message %d differs from the one the uncorrupted stream yields: %s, without the corruption %s", i, clip(a, 300), clip(b, 300))
		}
	}
	return ""
}

// expectedOf is the property's statement: the segments, adjacent junk merged.
func expectedOf(segs []seg) (typs []int, raws [][]byte) {
	for i := 0; i < len(segs); i++ {
		s := segs[i]
		switch s.kind {
		case 'f':
			typs = append(typs, typeOfFrame(s.b))
			raws = append(raws, s.b)
		case 'j':
			b := append([]byte{}, s.b...)
			for i+1 < len(segs) && segs[i+1].kind == 'j' {
				i++
				b = append(b, segs[i].b...)
			}
			typs = append(typs, -1)
			raws = append(raws, b)
		default: // c, t
			typs = append(typs, -1)
			raws = append(raws, s.b)
		}
	}
	return
}

func oracleSegs(op string, o *Obs) string {
	d, ok := o.Data.(*streamRun)
	if !ok || !strings.HasPrefix(op, "streamseg") {
		return ""
	}
	if d.Panic != "" {
		return "HandleMessages panicked: " + d.Panic
	}
	if d.Hung || !d.Closed {
		return "HandleMessages did not finish"
	}
	typs, raws := expectedOf(parseSegs(op))
	if len(d.Msgs) != len(typs) {
		return fmt.Sprintf("%d messages delivered, %d segments expected: %s", len(d.Msgs), len(typs), clip(canonStream(d), 600))
	}
	for i := range typs {
		if d.Msgs[i].MessageType != typs[i] || !bytes.Equal(d.Msgs[i].RawData, raws[i]) {
			return fmt.Sprintf("segment %d: expected type %d raw %s, delivered type %d raw %s", i, typs[i], clip(hx(raws[i]), 200),
				d.Msgs[i].MessageType, clip(hx(d.Msgs[i].RawData), 200))
		}
	}
	return ""
}

// frameWithD3 forces payload and CRC bytes to 0xD3 where possible (searching for a payload
// whose CRC contains 0xD3).
func frameWithD3(r *rand.Rand, n int) []byte {
	var best []byte
	for try := 0; try < 300; try++ {
		p := payloadOfType(r, pickType(r), n)
		for k := 2; k < n; k++ {
			if r.Intn(3) == 0 {
				p[k] = 0xd3
			}
		}
		f := mkFrame(p)
		best = f
		if bytes.IndexByte(f[len(f)-3:], 0xd3) >= 0 {
			return f
		}
	}
	return best
}

func randSegs(c *Ctx, withCorrupt bool) []seg {
	r := c.Rng
	var segs []seg
	n := 1 + r.Intn(7)
	for k := 0; k < n; k++ {
		x := r.Intn(10)
		switch {
		case x < 3:
			ln := 1 + r.Intn(30)
			if r.Intn(4) == 0 {
				ln = 1
			}
			segs = append(segs, seg{'j', junkRun(r, ln)})
		case x < 4:
			segs = append(segs, seg{'f', frameWithD3(r, 3+r.Intn(40))})
		case x < 5 && withCorrupt:
			segs = append(segs, seg{'c', corruptFrame(r, randFrame(r, 1+r.Intn(c.N(60, 400))))})
		default:
			ln := 1 + r.Intn(c.N(80, 300))
			if r.Intn(8) == 0 {
				ln = 256 + r.Intn(768)
			}
			segs = append(segs, seg{'f', randFrame(r, ln)})
		}
	}
	return segs
}

func genC03(c *Ctx, emit func(class, op string)) {
	r := c.Rng
	for i := 0; i < c.N(250, 3000); i++ {
		segs := randSegs(c, false)
		class := "segments"
		if r.Intn(3) == 0 {
			f := randFrame(r, 1+r.Intn(40))
			segs = append(segs, seg{'t', f[:1+r.Intn(len(f)-1)]})
			class = "segments+truncated-tail"
		}
		emit(class, segOp(segs))
	}
	// truncation of the last frame at every byte position
	for i := 0; i < c.N(6, 40); i++ {
		f := randFrame(r, 1+r.Intn(30))
		head := randSegs(c, false)
		for k := 1; k < len(f); k++ {
			emit("truncated-at-every-position", segOp(append(append([]seg{}, head...), seg{'t', f[:k]})))
		}
	}
	// 0xD3 inside the leader / first message bytes of a valid frame: length byte 0xD3
	// (payload 211, 467, 723, 979), type 0xD3x, type with low nibble 0xD and next nibble 3
	for rep := 0; rep < c.N(2, 8); rep++ {
		for _, n := range []int{211, 467, 723, 979} {
			emit("d3-in-leader", segOp([]seg{{'f', randFrame(r, n)}, {'j', junkRun(r, 1+r.Intn(5))}, {'f', randFrame(r, 1+r.Intn(20))}}))
		}
		for typ := 3376; typ <= 3391; typ++ {
			emit("d3-in-leader", segOp([]seg{{'j', junkRun(r, 1+r.Intn(5))}, {'f', mkFrame(payloadOfType(r, typ, 2+r.Intn(30)))}, {'f', randFrame(r, 1+r.Intn(20))}}))
		}
		for _, typ := range []int{1005, 1021, 1037, 1085, 1117, 13, 4093} {
			p := payloadOfType(r, typ, 2+r.Intn(30))
			p[1] = 0xd3
			emit("d3-in-leader", segOp([]seg{{'f', mkFrame(p)}, {'f', randFrame(r, 1+r.Intn(20))}, {'j', junkRun(r, 1+r.Intn(5))}}))
		}
	}
	for i := 0; i < c.N(60, 600); i++ {
		emit("sibling-frames", segOp(siblingSegs(r)))
	}
	// long runs of other data (longer than the longest frame, longer than any plausible buffer):
	// still ONE message each
	for _, n := range []int{1028, 1029, 1030, 1031, 2048, 2500, 4096, 4097, 5000, 9000} {
		segs := []seg{{'f', randFrame(r, 1+r.Intn(30))}, {'j', junkRun(r, n)}, {'f', randFrame(r, 1+r.Intn(30))}}
		if r.Intn(2) == 0 {
			segs = append(segs, seg{'j', junkRun(r, n+r.Intn(100))})
		}
		emit("long-junk-runs", segOp(segs))
	}
	// every frame length back to back with a one-byte junk in front
	for _, n := range lengthsFor(c) {
		emit("all-lengths", segOp([]seg{{'j', junkRun(r, 1)}, {'f', randFrame(r, n)}, {'f', randFrame(r, 1+r.Intn(20))}}))
	}
}

// siblingSegs: consecutive frames that look alike to anything that remembers the previous frame -
// the same type and leading payload bytes, lengths that differ by a multiple of 256 (the same low
// length byte), by one, or not at all (verbatim retransmissions), with or without other data between.
func siblingSegs(r *rand.Rand) []seg {
	typ := pickType(r)
	base := 2 + r.Intn(254)
	head := payloadOfType(r, typ, 8)
	var segs []seg
	var prev []byte
	n := 2 + r.Intn(4)
	for k := 0; k < n; k++ {
		ln := base + []int{0, 256, 512, 768, 0, 1, -1}[r.Intn(7)]
		if ln < 2 {
			ln = 2
		}
		if ln > 1023 {
			ln -= 256
		}
		p := payloadOfType(r, typ, ln)
		copy(p, head[:2+r.Intn(7)])
		f := mkFrame(p)
		if prev != nil && r.Intn(4) == 0 {
			f = prev // retransmitted unchanged
		}
		segs = append(segs, seg{'f', f})
		prev = f
		if r.Intn(3) == 0 {
			segs = append(segs, seg{'j', junkRun(r, 1+r.Intn(10))})
		}
	}
	return segs
}

// corruptFrame alters payload/CRC bytes (never the leader) so that the CRC fails.
func corruptFrame(r *rand.Rand, f []byte) []byte {
	for {
		g := append([]byte{}, f...)
		body := len(g) - 3
		switch r.Intn(5) {
		case 0: // one bit
			k := 3 + r.Intn(body)
			g[k] ^= 1 << uint(r.Intn(8))
		case 1: // burst
			k := 3 + r.Intn(body)
			for j := k; j < len(g) && j < k+1+r.Intn(4); j++ {
				g[j] ^= byte(1 + r.Intn(255))
			}
		case 2: // write 0xD3 into payload / CRC
			k := 3 + r.Intn(body)
			if g[k] == 0xd3 {
				g[k] = 0
			} else {
				g[k] = 0xd3
			}
		case 3: // overwrite a CRC byte
			k := len(g) - 1 - r.Intn(3)
			g[k] ^= byte(1 + r.Intn(255))
		default: // several scattered bytes
			for j := 0; j < 1+r.Intn(4); j++ {
				k := 3 + r.Intn(body)
				g[k] = byte(r.Intn(256))
			}
		}
		if !validFrame(g) {
			return g
		}
	}
}

func genC12(c *Ctx, emit func(class, op string)) {
	r := c.Rng
	for i := 0; i < c.N(250, 3000); i++ {
		segs := randSegs(c, false)
		// choose a victim frame
		var idx []int
		for k, s := range segs {
			if s.kind == 'f' {
				idx = append(idx, k)
			}
		}
		if len(idx) == 0 {
			segs = append(segs, seg{'f', randFrame(r, 1+r.Intn(40))})
			idx = []int{len(segs) - 1}
		}
		v := idx[r.Intn(len(idx))]
		emit("intact", segOp(segs))
		segs[v] = seg{'c', corruptFrame(r, segs[v].b)}
		class := "one-victim"
		if r.Intn(3) == 0 {
			f := randFrame(r, 1+r.Intn(40))
			segs = append(segs, seg{'t', f[:1+r.Intn(len(f)-1)]})
			class = "one-victim+truncated-tail"
		}
		emit(class, segOp(segs))
	}
	for i := 0; i < c.N(60, 600); i++ {
		emit("several-victims", segOp(randSegs(c, true)))
	}
	// a frame, then the same frame again with some payload bits damaged on the way and its CRC
	// bytes intact (what a receiver that repeats its station messages produces on a noisy line)
	for i := 0; i < c.N(60, 600); i++ {
		segs := siblingSegs(r)
		var idx []int
		for k, sg := range segs {
			if sg.kind == 'f' {
				idx = append(idx, k)
			}
		}
		v := idx[r.Intn(len(idx))]
		orig := segs[v].b
		g := append([]byte{}, orig...)
		for {
			k := 5 + r.Intn(len(g)-3-5+1) // payload bytes after the type, CRC bytes untouched
			if k >= len(g)-3 {
				k = 3 + r.Intn(len(g)-6)
			}
			g[k] ^= byte(1 << uint(r.Intn(8)))
			if !bytes.Equal(mkFrame(g[3:len(g)-3]), g) {
				break
			}
		}
		out := append(append(append([]seg{}, segs[:v+1]...), seg{'c', g}), segs[v+1:]...)
		emit("corrupted-retransmission", segOp(out))
	}
	// MSM frames with non-decreasing timestamps, the victim's timestamp or type bits altered to
	// another plausible value; the intact frame rides along (o:) for the comparison of the
	// neighbours' derived times.
	for i := 0; i < c.N(80, 800); i++ {
		n := 3 + r.Intn(5)
		v := r.Intn(n)
		ts := map[int]uint{}
		var toks []string
		for k := 0; k < n; k++ {
			ci := r.Intn(len(constels))
			if r.Intn(2) == 0 {
				ci = 0
			}
			if _, seen := ts[ci]; !seen {
				ts[ci] = uint(r.Intn(40000000))
				if ci == 1 { // Glonass: day of week and millisecond of day
					ts[ci] = uint(r.Intn(7))<<27 | uint(r.Intn(40000000))
				}
			}
			ts[ci] += uint(r.Intn(30000))
			f := msmFrameWithTs(constels[ci].types[r.Intn(2)], uint(r.Intn(4096)), ts[ci])
			if k != v {
				toks = append(toks, "f:"+hx(f))
				if r.Intn(4) == 0 {
					toks = append(toks, "j:"+hx(junkRun(r, 1+r.Intn(12))))
				}
				continue
			}
			var g []byte
			for {
				g = append([]byte{}, f...)
				switch r.Intn(4) {
				case 0: // a later time of the week
					put30(g, ts[ci]+uint(1+r.Intn(500000000)))
				case 1: // an earlier one
					put30(g, uint(r.Intn(int(ts[ci]&0x7ffffff)+1)))
				case 2: // another constellation's MSM type
					t2 := constels[r.Intn(len(constels))].types[r.Intn(2)]
					g[3], g[4] = byte(t2>>4), byte(t2<<4)|g[4]&0x0f
				default:
					g = corruptFrame(r, f)
				}
				if !bytes.Equal(g, f) && !bytes.Equal(mkFrame(g[3:len(g)-3]), g) { // differs, and its CRC no longer matches
					break
				}
			}
			toks = append(toks, "c:"+hx(g), "o:"+hx(f))
		}
		emit("monotone-msm-times", "streamseg "+defaultStart+" "+strings.Join(toks, " "))
	}
}

// put30 overwrites the 30-bit MSM timestamp (payload bits 24..53) of a frame.
func put30(f []byte, ts uint) {
	ts &= 0x3fffffff
	for b := 0; b < 30; b++ {
		bit := 24 + 24 + b // leader + type and station
		mask := byte(0x80) >> uint(bit%8)
		if ts>>(29-uint(b))&1 == 1 {
			f[bit/8] |= mask
		} else {
			f[bit/8] &^= mask
		}
	}
}

func init() {
	opTable["streamcap"] = func(t []string) *Obs {
		bs := unhx(t[2])
		r := runHandleMessages(unixms(t[1]), bs, atoi(t[3]), atoi(t[4]))
		return &Obs{Line: canonStream(r), Data: r, Panic: r.Panic}
	}
	props["C01"] = &Prop{
		Rule: "ops getmsg/stream: valid frames of payload length 1..40,255..257,1021..1023+random (thorough: all 1..1023) and random types; " +
			"each CRC byte corrupted alone; each reserved bit set alone; length field off by one with matching CRC; length fields of 256 and more with a payload and CRC that fit a reading of their low 8 or 9 bits only; every truncation; wrong preamble; " +
			"frame + trailing bytes incl. the CRC-over-the-long-buffer input; batches; zero length; mixed streams with embedded 0xD3; frames followed by damaged copies of themselves (CRC bytes as sent) and by siblings with the same type, leading bytes and low length byte. " +
			"non-trivial = the real code returned at least one message; distinct = distinct op line",
		Gen: genC01, Oracle: oracleC01,
	}
	props["C02"] = &Prop{
		Rule: "ops stream/streamcap: empty, lone 0xD3, every cut position of frames (inside leader, payload, CRC), 0xD3 at every position of junk runs " +
			"of length 0..6 before/after frames, random mixtures of frames, corrupted frames, junk, stray 0xD3, with channel capacities 0,1,2,64; " +
			"non-trivial = non-empty input; distinct = distinct op line",
		Gen: genC02, Oracle: oracleC02,
		NonTrivial: func(op string, o *Obs) bool { return len(streamInput(op)) > 0 },
	}
	props["C03"] = &Prop{
		Rule: "op streamseg: random sequences of valid frames (all lengths, payload/CRC bytes forced to 0xD3, >255-byte payloads), 0xD3-free junk runs " +
			"(incl. one-byte runs and adjacent runs), optional truncated last frame cut at every position; expected messages computed from the segment list; " +
			"runs of other data of 1028 to 9000 bytes; sibling frames: same type and leading payload bytes, lengths equal (incl. verbatim repeats) or differing by 1 or by a multiple of 256; non-trivial = at least one frame segment; distinct = distinct op line",
		Gen: genC03, Oracle: oracleSegs,
		NonTrivial: func(op string, o *Obs) bool { return strings.Contains(op, " f:") },
	}
	props["C12"] = &Prop{
		Rule: "op streamseg with corrupted frames (c:): one victim per stream (1-bit flips, bursts, 0xD3 written into payload/CRC, CRC byte overwritten, " +
			"scattered bytes; leader untouched; CRC verified to mismatch) plus the intact stream, optional truncated tail, and streams with several victims; " +
			"sibling frames (same type and leading bytes, lengths equal or differing by 1 or by multiples of 256) with a damaged copy of one of them, its CRC bytes intact, right behind the original; MSM streams with non-decreasing timestamps whose victim has its timestamp or type bits altered to another plausible value, the neighbours compared in full " +
			"(type, bytes, error, timestamp, time lines) with the run of the uncorrupted stream; " +
			"non-trivial = contains a corrupted frame; distinct = distinct op line",
		Gen: genC12, Oracle: oracleC12,
		NonTrivial: func(op string, o *Obs) bool { return strings.Contains(op, " c:") },
	}
}
