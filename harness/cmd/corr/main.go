package main

// corr <property> -tier quick|thorough -seed N -driver PATH -out FILE [-replay OPFILE]
//
// Generates operations for the property, runs the real go-ntrip code on each, pipes the
// same operations through the Lean model driver, diffs the answers, and evaluates the
// property's direct oracle on what the real code returned.

import (
	"bufio"
	"flag"
	"fmt"
	"math/rand"
	"os"
	"path/filepath"
	"sort"
	"strings"
	"time"
)

// Prop describes how one property is exercised.
type Prop struct {
	// Gen emits (class, op) pairs.
	Gen func(c *Ctx, emit func(class, op string))
	// Oracle evaluates the property on the real code's observation for op.
	// It returns "" when the property holds on this case.
	Oracle func(op string, obs *Obs) string
	// NonTrivial says whether the case counts as non-trivial.
	NonTrivial func(op string, obs *Obs) bool
	Rule       string
	Exhaustive bool
}

var props = map[string]*Prop{}

func main() {
	if len(os.Args) < 2 {
		fmt.Fprintln(os.Stderr, "usage: corr <property> [flags]")
		os.Exit(2)
	}
	prop := os.Args[1]
	fs := flag.NewFlagSet("corr", flag.ExitOnError)
	tier := fs.String("tier", "quick", "quick|thorough")
	seed := fs.Int64("seed", 1, "PRNG seed")
	driver := fs.String("driver", "/verif/lean/.lake/build/bin/driver", "model driver")
	out := fs.String("out", "", "result file")
	replay := fs.String("replay", "", "file with op lines to replay instead of generating")
	noModel := fs.Bool("nomodel", false, "skip the model driver (direct oracle only)")
	corpus := fs.String("corpus", "/verif/corpus", "corpus directory")
	fs.Parse(os.Args[2:])

	p, ok := props[prop]
	if !ok {
		fmt.Fprintf(os.Stderr, "unknown property %s\n", prop)
		os.Exit(2)
	}
	if *out != "" {
		currentOpFile = *out + ".current"
		defer os.Remove(currentOpFile)
	}
	start := time.Now()
	res := &Result{Property: prop, Tier: *tier, Seed: *seed, Rule: p.Rule,
		Classes: map[string]int{}, Outcomes: map[string]int{}, Branches: map[string]int{},
		Extra: map[string]any{}, Exhaustive: p.Exhaustive}
	ctx := &Ctx{Prop: prop, Tier: *tier, Seed: *seed, Rng: rand.New(rand.NewSource(*seed)),
		Driver: *driver, Res: res}

	// Circuit breaker: when three cases have each taken seconds AND failed their oracle (a hang, a
	// deadlock, a reader that never gives up), the verdict is settled; the remaining cases are
	// skipped so that a run on a broken tree ends in minutes instead of one time-out per case.
	slowFailures, skipped := 0, 0
	emit := func(class, op string) {
		if slowFailures >= 3 && *replay == "" {
			skipped++
			res.Extra["skipped_after_repeated_slow_failures"] = skipped
			return
		}
		t0 := time.Now()
		obs := execOp(op)
		took := time.Since(t0)
		cs := Case{Class: class, Op: op, Impl: obs.Line, Branch: obs.Branch, NoModel: obs.NoModel || *noModel}
		if p.Oracle != nil {
			cs.Oracle = p.Oracle(op, obs)
		}
		if cs.Oracle != "" && took > 4*time.Second {
			slowFailures++
		}
		if p.NonTrivial != nil {
			cs.NonTrivial = p.NonTrivial(op, obs)
		} else {
			cs.NonTrivial = true
		}
		ctx.Add(cs)
	}

	if *replay != "" {
		for _, op := range readOps(*replay) {
			emit("replay", op)
		}
	} else {
		// corpus first
		files, _ := filepath.Glob(filepath.Join(*corpus, prop, "*.ops"))
		sort.Strings(files)
		for _, f := range files {
			for _, op := range readOps(f) {
				emit("corpus:"+filepath.Base(f), op)
			}
		}
		// a generator that calls into the code under test while it prepares a case must not take the
		// run down with it: the panic is recorded as a failing case of its own
		func() {
			defer func() {
				if r := recover(); r != nil {
					ctx.Add(Case{Class: "panic-while-preparing-a-case", Op: fmt.Sprintf("(generator of %s)", prop), Impl: "panic",
						NoModel: true, NonTrivial: true, Oracle: fmt.Sprintf("the code under test panicked while the harness was preparing its cases: %v", r)})
				}
			}()
			p.Gen(ctx, emit)
		}()
	}
	if err := ctx.finish(start); err != nil {
		fmt.Fprintln(os.Stderr, "corr:", err)
		os.Exit(3)
	}
	if *out != "" {
		if err := writeResult(*out, res); err != nil {
			fmt.Fprintln(os.Stderr, "corr:", err)
			os.Exit(3)
		}
	}
	fmt.Printf("corr %s: %d cases, %d distinct non-trivial, %d disagreements, %d oracle failures, %.1fs\n",
		prop, res.Evaluations, res.DistinctNontrivial, len(res.Disagreements), len(res.OracleFailures), res.WallS)
}

func readOps(path string) []string {
	f, err := os.Open(path)
	if err != nil {
		fmt.Fprintln(os.Stderr, "corr:", err)
		os.Exit(3)
	}
	defer f.Close()
	var ops []string
	sc := bufio.NewScanner(f)
	sc.Buffer(make([]byte, 1<<20), 1<<28)
	for sc.Scan() {
		l := strings.TrimSpace(sc.Text())
		if l == "" || strings.HasPrefix(l, "#") {
			continue
		}
		ops = append(ops, l)
	}
	return ops
}
