package main

// C08: ranges, phase ranges and range rates.

import (
	"fmt"
	"log/slog"
	"math"
	"math/big"
	"strconv"
	"strings"

	sat4 "github.com/goblimey/go-ntrip/rtcm/type_msm4/satellite"
	sig4 "github.com/goblimey/go-ntrip/rtcm/type_msm4/signal"
	sat7 "github.com/goblimey/go-ntrip/rtcm/type_msm7/satellite"
	sig7 "github.com/goblimey/go-ntrip/rtcm/type_msm7/signal"
	"github.com/goblimey/go-ntrip/rtcm/utils"
)

type rangeObs struct {
	w, f                        uint
	d7, p7, rate, rd, d4, p4    int
	r7, ph7, r4, ph4            uint64
	rr                          int64
	rangeM7, rangeM4            float64
	phase7, phase4, rateMS, dop float64
	wavelength                  float64
	constellation               string
	sig                         uint
	text7, text4, text7i        string
}

// documented carrier frequencies (Hz) per constellation and signal id — the oracle's own table
var freqSpec = map[string]map[uint]float64{
	"GPS": {2: 1575.42e6, 3: 1575.42e6, 4: 1575.42e6, 8: 1227.60e6, 9: 1227.60e6, 10: 1227.60e6, 15: 1227.60e6, 16: 1227.60e6, 17: 1227.60e6,
		22: 1176.45e6, 23: 1176.45e6, 24: 1176.45e6, 30: 1575.42e6, 31: 1575.42e6, 32: 1575.42e6},
	"Galileo": {2: 1575.42e6, 3: 1575.42e6, 4: 1575.42e6, 5: 1575.42e6, 6: 1575.42e6, 8: 1278.75e6, 9: 1278.75e6, 10: 1278.75e6, 11: 1278.75e6, 12: 1278.75e6,
		14: 1207.14e6, 15: 1207.14e6, 16: 1207.14e6, 18: 1191.795e6, 19: 1191.795e6, 20: 1191.795e6, 22: 1176.45e6, 23: 1176.45e6, 24: 1176.45e6},
	"Glonass": {2: 1602.0e6, 3: 1602.0e6, 8: 1246.0e6, 9: 1246.0e6},
	"Beidou":  {2: 1561.098e6, 3: 1561.098e6, 4: 1561.098e6, 8: 1268.52e6, 9: 1268.52e6, 10: 1268.52e6, 14: 1176.45e6, 15: 1176.45e6, 16: 1176.45e6},
}

// closeTo compares a float with an exact rational to within 8 ulp of the exact value.
func closeTo(got float64, want *big.Rat) bool {
	w, _ := want.Float64()
	if w == 0 {
		return math.Abs(got) < 1e-300
	}
	return math.Abs(got-w) <= 8*math.Abs(w)*math.Pow(2, -52)
}

// textShows: one of the numbers in the text equals v to three decimals.
func textShows(text string, v float64) bool {
	isNum := func(r rune) bool {
		return r >= '0' && r <= '9' || r == '.' || r == '-' || r == '+' || r == 'e' || r == 'E'
	}
	for _, tok := range strings.FieldsFunc(text, func(r rune) bool { return !isNum(r) }) {
		x, err := strconv.ParseFloat(tok, 64)
		if err == nil && math.Abs(x-v) <= 0.00051+math.Abs(v)*1e-15 {
			return true
		}
	}
	return false
}

func ratOf(f float64) *big.Rat { return new(big.Rat).SetFloat64(f) }

// f64fields prints the IEEE-754 fields of a float64 (sign, biased exponent, 53-bit significand)
// the way the Lean model prints them.
func f64fields(x float64) string {
	bits := math.Float64bits(x)
	neg, e, mant := bits>>63 == 1, int((bits>>52)&0x7ff), bits&(1<<52-1)
	if e != 0 {
		mant |= 1 << 52
	}
	if e == 0 && mant == 0 {
		neg = false
	}
	return fmt.Sprintf("%v/%d/%d", neg, e, mant)
}

func init() {
	cons := []string{"GPS", "Galileo", "Glonass", "Beidou", "SBAS"}
	opTable["range"] = func(t []string) *Obs {
		o := &rangeObs{w: uint(atoi(t[1])), f: uint(atoi(t[2])), d7: atoi(t[3]), p7: atoi(t[4]), rate: atoi(t[5]), rd: atoi(t[6]), d4: atoi(t[7]), p4: atoi(t[8])}
		// constellation and signal id ride along as extra tokens for the oracle (the model ignores them)
		o.constellation, o.sig = "GPS", 2
		if len(t) > 10 {
			o.constellation, o.sig = cons[atoi(t[9])%len(cons)], uint(atoi(t[10]))
		}
		o.wavelength = utils.GetSignalWavelength(o.constellation, o.sig)
		s7 := sat7.New(5, o.w, o.f, 0, o.rate, slog.LevelDebug)
		c7 := sig7.New(o.sig, s7, o.d7, o.p7, 1, false, 30, o.rd, o.wavelength, slog.LevelDebug)
		s4 := sat4.New(5, o.w, o.f, slog.LevelDebug)
		c4 := sig4.New(o.sig, s4, o.d4, o.p4, 1, false, 30, o.wavelength, slog.LevelDebug)
		o.r7, o.ph7, o.rr = c7.GetAggregateRange(), c7.GetAggregatePhaseRange(), c7.GetAggregatePhaseRangeRate()
		o.r4, o.ph4 = c4.GetAggregateRange(), c4.GetAggregatePhaseRange()
		o.rangeM7, o.rangeM4 = c7.RangeInMetres(), c4.RangeInMetres()
		o.phase7, o.phase4 = c7.PhaseRange(), c4.PhaseRange()
		o.rateMS, o.dop = c7.PhaseRangeRate(), c7.PhaseRangeRateDoppler()
		o.text7, o.text4 = c7.String(), c4.String()
		c7i := sig7.New(o.sig, s7, o.d7, o.p7, 1, false, 30, o.rd, o.wavelength, slog.LevelInfo)
		o.text7i = c7i.String()
		cyc7, cyc4, dop := "-", "-", "-"
		if o.wavelength != 0 {
			cyc7, cyc4, dop = f64fields(o.phase7), f64fields(o.phase4), f64fields(o.dop)
		}
		return &Obs{Line: fmt.Sprintf("r7=%d p7=%d rate=%d r4=%d p4=%d m7=%s m4=%s ms=%s c7=%s c4=%s dop=%s", o.r7, o.ph7, o.rr, o.r4, o.ph4,
			f64fields(o.rangeM7), f64fields(o.rangeM4), f64fields(o.rateMS), cyc7, cyc4, dop), Data: o}
	}
	props["C08"] = &Prop{
		Rule: "op range <whole> <frac> <fine7> <phase7> <rate> <ratedelta> <fine4> <phase4> <constellation> <signal>: whole 0..254 and 255; fractional 0,1,1023,random; every fine field at its minimum " +
			"('invalid'), min+1, -1, 0, 1, max, random; 4 constellations (+1 without wavelengths) x 32 signal ids; scaled integers compared with the model; range in metres, phase range in cycles (MSM4, MSM7), rate in m/s and Doppler in Hz compared BIT FOR BIT with the exact binary64 model; all floats with exact rational arithmetic; every valid value must appear to three decimals among the numbers of the cell's readable line (both MSM7 layouts, MSM4) " +
			"to 8 ulp, wavelengths with an independent table; non-trivial = valid rough range; distinct = distinct op line",
		Gen: func(c *Ctx, emit func(class, op string)) {
			r := c.Rng
			pick := func(bits int) int {
				min, max := -(1 << uint(bits-1)), 1<<uint(bits-1)-1
				switch r.Intn(8) {
				case 0:
					return min
				case 1:
					return min + 1
				case 2:
					return -1
				case 3:
					return 0
				case 4:
					return 1
				case 5:
					return max
				}
				return min + r.Intn(max-min+1)
			}
			for i := 0; i < c.N(3000, 60000); i++ {
				w := r.Intn(255)
				class := "valid"
				switch r.Intn(12) {
				case 0:
					w = 255
					class = "invalid-rough"
				case 1:
					w = 0
				case 2:
					w = 254
				}
				f := []int{0, 1, 1023, r.Intn(1024), r.Intn(1024)}[r.Intn(5)]
				if w == 0 && f == 0 {
					f = 1 + r.Intn(1023) // keep the true value non-negative whatever the fine part
				}
				emit(class, fmt.Sprintf("range %d %d %d %d %d %d %d %d %d %d", w, f, pick(20), pick(24), pick(14), pick(15), pick(15), pick(22), r.Intn(5), 1+r.Intn(32)))
			}
			// the same quantity in MSM4 and MSM7: fine7 = 32*fine4, phase7 = 4*phase4
			for i := 0; i < c.N(300, 5000); i++ {
				d4, p4 := pick(15), pick(22)
				if d4 == -16384 || p4 == -2097152 {
					continue
				}
				emit("msm4=msm7", fmt.Sprintf("range %d %d %d %d %d %d %d %d %d %d", 1+r.Intn(254), r.Intn(1024), 32*d4, 4*p4, pick(14), pick(15), d4, p4, r.Intn(4), 1+r.Intn(32)))
			}
			// every signal id of every constellation
			for ci := 0; ci < 5; ci++ {
				for sig := 0; sig <= 33; sig++ {
					emit("wavelength-table", fmt.Sprintf("range 80 512 100 200 3 4 5 6 %d %d", ci, sig))
				}
			}
		},
		Oracle: func(op string, ob *Obs) string {
			o, ok := ob.Data.(*rangeObs)
			if !ok {
				return "panic: " + ob.Panic
			}
			// wavelength table
			wantWl := 0.0
			if f, ok := freqSpec[o.constellation][o.sig]; ok {
				wantWl = 299792458.0 / f
			}
			if !closeTo(o.wavelength, ratOf(wantWl)) {
				return fmt.Sprintf("wavelength of %s signal %d is %v, documented %v", o.constellation, o.sig, o.wavelength, wantWl)
			}
			if o.w == 255 {
				if o.r7 != 0 || o.r4 != 0 || o.ph7 != 0 || o.ph4 != 0 || o.rangeM7 != 0 || o.rangeM4 != 0 {
					return "invalid rough range does not give zero values"
				}
				if !strings.Contains(o.text7, "invalid") || !strings.Contains(o.text4, "invalid") {
					return "invalid rough range not shown as 'invalid': " + o.text7 + " / " + o.text4
				}
			} else {
				rough29 := int64(o.w)<<29 + int64(o.f)<<19
				rough31 := int64(o.w)<<31 + int64(o.f)<<21
				chk := func(name string, got uint64, rough int64, fine int, invalid int, scale int64) string {
					want := rough
					if fine != invalid {
						want += int64(fine) * scale
					}
					if want < 0 {
						return "" // outside the property
					}
					if got != uint64(want) {
						return fmt.Sprintf("%s = %d, formula gives %d", name, got, want)
					}
					return ""
				}
				for _, e := range []string{
					chk("MSM7 scaled range", o.r7, rough29, o.d7, -524288, 1), chk("MSM4 scaled range", o.r4, rough29, o.d4, -16384, 32),
					chk("MSM7 scaled phase range", o.ph7, rough31, o.p7, -8388608, 1), chk("MSM4 scaled phase range", o.ph4, rough31, o.p4, -2097152, 4)} {
					if e != "" {
						return e
					}
				}
				// floats: c/1000 * scaled / 2^29 etc.
				cms := big.NewRat(299792458, 1000)
				if int64(o.r7) >= 0 && o.r7 < 1<<62 {
					want := new(big.Rat).Mul(cms, big.NewRat(int64(o.r7), 1<<29))
					if !closeTo(o.rangeM7, want) {
						return fmt.Sprintf("MSM7 range %v m, formula %s", o.rangeM7, want.FloatString(6))
					}
				}
				if int64(o.r4) >= 0 && o.r4 < 1<<62 {
					want := new(big.Rat).Mul(cms, big.NewRat(int64(o.r4), 1<<29))
					if !closeTo(o.rangeM4, want) {
						return fmt.Sprintf("MSM4 range %v m, formula %s", o.rangeM4, want.FloatString(6))
					}
				}
				if o.wavelength > 0 && o.ph7 < 1<<62 && o.ph4 < 1<<62 {
					wl := ratOf(o.wavelength)
					w7 := new(big.Rat).Quo(new(big.Rat).Mul(cms, big.NewRat(int64(o.ph7), 1<<31)), wl)
					w4 := new(big.Rat).Quo(new(big.Rat).Mul(cms, big.NewRat(int64(o.ph4), 1<<31)), wl)
					if !closeTo(o.phase7, w7) || !closeTo(o.phase4, w4) {
						return fmt.Sprintf("phase range %v / %v cycles, formula %s / %s", o.phase7, o.phase4, w7.FloatString(6), w4.FloatString(6))
					}
				}
			}
			// rate
			wantRate := int64(0)
			if o.rate != -8192 {
				wantRate = int64(o.rate) * 10000
				if o.rd != -16384 {
					wantRate += int64(o.rd)
				}
			}
			if o.rr != wantRate {
				return fmt.Sprintf("aggregate rate %d, formula %d", o.rr, wantRate)
			}
			if !closeTo(o.rateMS, big.NewRat(wantRate, 10000)) {
				return fmt.Sprintf("range rate %v m/s, formula %v/10000", o.rateMS, wantRate)
			}
			if o.wavelength > 0 {
				want := new(big.Rat).Neg(new(big.Rat).Quo(big.NewRat(wantRate, 10000), ratOf(o.wavelength)))
				if !closeTo(o.dop, want) {
					return fmt.Sprintf("doppler %v Hz, formula %s", o.dop, want.FloatString(6))
				}
			}
			if o.rate == -8192 && !strings.Contains(o.text7, "invalid") {
				return "invalid rough rate not shown as 'invalid'"
			}
			// the readable form reports those same values: each one appears, to three decimals, among
			// the numbers of the cell's line (both layouts of MSM7, and MSM4)
			if o.w != 255 {
				type shown struct {
					name string
					v    float64
					in   []string
				}
				list := []shown{{"MSM7 range in metres", o.rangeM7, []string{o.text7, o.text7i}}, {"MSM4 range in metres", o.rangeM4, []string{o.text4}}}
				if o.wavelength > 0 {
					list = append(list, shown{"MSM7 phase range in cycles", o.phase7, []string{o.text7, o.text7i}}, shown{"MSM4 phase range in cycles", o.phase4, []string{o.text4}})
				}
				if o.rate != -8192 && o.wavelength > 0 {
					list = append(list, shown{"range rate in m/s", o.rateMS, []string{o.text7, o.text7i}}, shown{"Doppler in Hz", o.dop, []string{o.text7, o.text7i}})
				}
				for _, sh := range list {
					for _, text := range sh.in {
						if !textShows(text, sh.v) {
							return fmt.Sprintf("%s is %v but the display does not show it: %q", sh.name, sh.v, text)
						}
					}
				}
			}
			return ""
		},
		NonTrivial: func(op string, ob *Obs) bool { o, ok := ob.Data.(*rangeObs); return ok && o.w != 255 },
	}
}
