package main

// C13: file_handler.Handle over a scripted reader (EOF / i/o timeout / other errors at
// chosen places), real tolerances.

import (
	"bufio"
	"errors"
	"fmt"
	"io"
	"log"
	"os"
	"strings"
	"time"

	filehandler "github.com/goblimey/go-ntrip/file_handler"
	"github.com/goblimey/go-ntrip/jsonconfig"
	"github.com/goblimey/go-ntrip/rtcm/handler"
)

type scriptedReader struct {
	items []string
	k     int
}

var errTimeout = errors.New("read /dev/ttyUSB0: i/o timeout")

// timeoutErr: the shapes in which a source reports a read timeout - a driver's text with the
// device in front, the bare deadline error of os and net ("i/o timeout" and nothing else), and
// that error wrapped in a PathError.
func timeoutErr(k int) error {
	switch k % 3 {
	case 1:
		return os.ErrDeadlineExceeded
	case 2:
		return &os.PathError{Op: "read", Path: "/dev/ttyUSB0", Err: os.ErrDeadlineExceeded}
	}
	return errTimeout
}

var errOther = errors.New("read /dev/ttyUSB0: input/output error")

func (s *scriptedReader) Read(p []byte) (int, error) {
	if s.k >= len(s.items) {
		return 0, io.EOF
	}
	it := s.items[s.k]
	switch {
	case it == "eof":
		s.k++
		return 0, io.EOF
	case it == "to":
		s.k++
		return 0, timeoutErr(s.k)
	case it == "err":
		s.k++
		return 0, errOther
	}
	// b:<hex> data; be:/bt:/bx:<hex> data returned TOGETHER with io.EOF / a timeout / another error
	// (allowed by the io.Reader contract)
	colon := strings.IndexByte(it, ':')
	kind := it[:colon]
	b := unhx(it[colon+1:])
	n := copy(p, b)
	if n < len(b) {
		s.items[s.k] = kind + ":" + hx(b[n:])
		return n, nil
	}
	s.k++
	switch kind {
	case "be":
		return n, io.EOF
	case "bt":
		return n, timeoutErr(s.k)
	case "bx":
		return n, errOther
	}
	return n, nil
}

// expandItems rewrites data-with-error items as data followed by the error, which is what
// the property (and bufio) make of them.
func expandItems(items []string) []string {
	var out []string
	for _, it := range items {
		switch {
		case strings.HasPrefix(it, "be:"):
			out = append(out, "b:"+it[3:], "eof")
		case strings.HasPrefix(it, "bt:"):
			out = append(out, "b:"+it[3:], "to")
		case strings.HasPrefix(it, "bx:"):
			out = append(out, "b:"+it[3:], "err")
		default:
			out = append(out, it)
		}
	}
	return out
}

type readerObs struct {
	msgs     []handler.Message
	err      error
	returned bool
	closed   bool
	supplied []byte // bytes of the script up to the point where the handler must stop
}

func init() {
	// reader <T> <tau ms> <omega ms> b:<hex>|eof|to|err …
	// The tolerance is measured on the real clock.  A scheduling hiccup of tens of milliseconds between
	// two scripted failures can make a correct handler give up where an ideal clock would not (seen once
	// in some 3,000 thorough cases with a 40 ms tolerance).  A run that stopped on the tolerance before
	// the script's data was through is therefore repeated, up to three times in all, and the first run
	// that did not stop that way counts; code that stops there for a reason other than the clock does so
	// every time.
	opTable["reader"] = func(t []string) *Obs {
		total := 0
		for _, it := range t[4:] {
			if it == "err" || strings.HasPrefix(it, "bx:") {
				break
			}
			if k := strings.IndexByte(it, ':'); k > 0 {
				total += len(it[k+1:]) / 2
			}
		}
		var ob *Obs
		for attempt := 0; attempt < 3; attempt++ {
			ob = readerOnce(t)
			o, ok := ob.Data.(*readerObs)
			if !ok || !strings.HasPrefix(ob.Line, "stop=tolerance-expired") {
				break
			}
			n := 0
			for i := range o.msgs {
				n += len(o.msgs[i].RawData)
			}
			if n >= total {
				break
			}
		}
		return ob
	}
	props["C13"] = c13Prop()
}

func readerOnce(t []string) *Obs {
	{
		start := unixms(t[1])
		cfg := jsonconfig.Config{TimeoutOnEOFMilliSeconds: uint(atoi(t[2])), WaitTimeOnEOFMilliseconds: uint(atoi(t[3]))}
		// the activity log is a configuration the reading must not depend on: it is switched on (its
		// text going nowhere) for every second script, chosen by the script itself so that it replays
		if len(strings.Join(t[4:], " "))%2 == 1 {
			cfg.SystemLog = log.New(io.Discard, "", 0)
		}
		items := append([]string{}, t[4:]...)
		ch := make(chan handler.Message)
		fh := filehandler.New(ch, &cfg)
		o := &readerObs{}
		done := make(chan error, 1)
		go func() {
			defer func() {
				if r := recover(); r != nil {
					done <- fmt.Errorf("panic: %v", r)
				}
			}()
			done <- fh.Handle(start, bufio.NewReader(&scriptedReader{items: items}))
		}()
		timeout := time.After(20 * time.Second)
	loop:
		for {
			select {
			case m, ok := <-ch:
				if !ok {
					o.closed = true
					break loop
				}
				o.msgs = append(o.msgs, m)
			case <-timeout:
				return &Obs{Line: "hang", Data: o, Panic: "Handle did not finish"}
			}
		}
		select {
		case o.err = <-done:
			o.returned = true
		case <-time.After(5 * time.Second):
		}
		if o.err != nil && strings.HasPrefix(o.err.Error(), "panic:") {
			return &Obs{Line: "panic", Data: o, Panic: o.err.Error()}
		}
		var fwd []byte
		for i := range o.msgs {
			fwd = append(fwd, o.msgs[i].RawData...)
		}
		stop := "tolerance-expired"
		switch {
		case o.err == errOther:
			stop = "other-error"
		case cfg.TimeoutOnEOFMilliSeconds == 0:
			stop = "no-tolerance"
		}
		return &Obs{Line: fmt.Sprintf("stop=%s fwd=%s %s", stop, hx(fwd), typRaw(o.msgs)), Data: o}
	}
}

func c13Prop() *Prop {
	return &Prop{
		Rule: "op reader <T> <tau> <omega> <script>: the real file_handler.Handle on a scripted io.Reader under bufio (chunks of bytes, single/double/triple EOF and i/o-timeout results (the timeout as a driver's text, as the bare deadline error and wrapped in a PathError) between and inside " +
			"frames at every byte offset of short streams, other errors anywhere, including directly after a tolerated interruption), hundreds of single interruptions and two or three separate double interruptions in one call, the activity log on for every second script, tolerances (0,0), (80 ms, wait 1 ms), (3 ms, wait 15 ms); forwarded bytes, stop reason and delivered messages compared with " +
			"the model run on an ideal clock and with the property (single interruptions invisible; a stop still delivers everything received, channel closed); non-trivial = the script contains an interruption; distinct = distinct op line",
		Gen: func(c *Ctx, emit func(class, op string)) {
			r := c.Rng
			mk := func(cfg [2]int, items []string) string {
				return fmt.Sprintf("reader %s %d %d %s", defaultStart, cfg[0], cfg[1], strings.Join(items, " "))
			}
			fail := func() string { return []string{"eof", "to"}[r.Intn(2)] }
			cfgs := [][2]int{{0, 0}, {80, 1}, {3, 15}}
			// configurations in which tolerance and retry pause are close together, equal, or the pause is set
			// without a tolerance: a single interruption is invisible whenever the tolerance is non-zero, a
			// double one whenever the second failure comes inside the tolerance, and zero tolerance stops at once
			for i := 0; i < c.N(4, 24); i++ {
				bs := append(randFrame(r, 2+r.Intn(8)), randFrame(r, 2+r.Intn(8))...)
				off := 1 + r.Intn(len(bs)-1)
				one := []string{"b:" + hx(bs[:off]), fail(), "b:" + hx(bs[off:])}
				two := []string{"b:" + hx(bs[:off]), fail(), fail(), "b:" + hx(bs[off:])}
				emit("tolerance-equals-pause", mk([2]int{20, 20}, one))
				emit("pause-without-tolerance", mk([2]int{0, 5}, one))
				emit("pause-over-half-tolerance", mk([2]int{120, 70}, one))
				if i%2 == 0 {
					emit("pause-over-half-tolerance", mk([2]int{120, 70}, two))
				}
			}

			for i := 0; i < c.N(10, 60); i++ {
				// a short stream: junk, frame, frame; one interruption at every byte offset
				bs := append(junkRun(r, r.Intn(3)), randFrame(r, 1+r.Intn(6))...)
				bs = append(bs, randFrame(r, 1+r.Intn(6))...)
				for off := 0; off <= len(bs); off++ {
					if !c.Thorough() && off%2 == 1 {
						continue
					}
					var items []string
					if off > 0 {
						items = append(items, "b:"+hx(bs[:off]))
					}
					items = append(items, fail())
					if off < len(bs) {
						items = append(items, "b:"+hx(bs[off:]))
					}
					emit("single-interruption", mk([2]int{80, 1}, items))
					if off > 0 && off%3 == 0 {
						// the same interruption reported together with the preceding data
						items2 := []string{[]string{"be:", "bt:"}[r.Intn(2)] + hx(bs[:off])}
						if off < len(bs) {
							items2 = append(items2, "b:"+hx(bs[off:]))
						}
						emit("single-interruption-with-data", mk([2]int{80, 1}, items2))
					}
				}
			}
			// a bursty live source: hundreds of single interruptions and two or three separate double interruptions in one call, each followed by data
			for i := 0; i < c.N(3, 20); i++ {
				bs := pipeStream(c)
				for len(bs) < 400 {
					bs = append(bs, pipeStream(c)...)
				}
				if len(bs) > 700 {
					bs = bs[:700]
				}
				var items []string
				for pos := 0; pos < len(bs); {
					n := 1 + r.Intn(3)
					if pos+n > len(bs) {
						n = len(bs) - pos
					}
					items = append(items, "b:"+hx(bs[pos:pos+n]), fail())
					pos += n
				}
				emit("many-single-interruptions", mk([2]int{80, 1}, items))
			}
			// several separate double interruptions in one call, each ridden out within the tolerance:
			// whatever the handler remembers of one must not count against the next
			for i := 0; i < c.N(6, 40); i++ {
				bs := append(append(randFrame(r, 2+r.Intn(8)), randFrame(r, 2+r.Intn(8))...), randFrame(r, 2+r.Intn(8))...)
				a := 1 + r.Intn(len(bs)/2-1)
				b := a + 1 + r.Intn(len(bs)-a-1)
				items := []string{"b:" + hx(bs[:a]), fail(), fail(), "b:" + hx(bs[a:b]), fail(), fail(), "b:" + hx(bs[b:])}
				if i%3 == 2 {
					items = append(items[:len(items)-1], "b:"+hx(bs[b:b+1]), fail(), fail(), "b:"+hx(bs[b+1:]))
				}
				emit("repeated-double-interruptions", mk([][2]int{{80, 1}, {120, 70}, {40, 5}}[i%3], items))
			}
			// another read error arriving while the handler is already retrying after a tolerated
			// end-of-file or timeout (no byte read in between): it stops there, whatever follows
			for i := 0; i < c.N(12, 120); i++ {
				bs := append(randFrame(r, 2+r.Intn(8)), randFrame(r, 2+r.Intn(8))...)
				off := 1 + r.Intn(len(bs)-1)
				items := []string{"b:" + hx(bs[:off]), fail()}
				if i%3 == 2 {
					items = append(items, fail())
				}
				if i%4 == 3 {
					items = append(items, "bx:"+hx(bs[off:off+1]), "b:"+hx(bs[off+1:]))
				} else {
					items = append(items, "err", "b:"+hx(bs[off:]))
				}
				emit("other-error-while-retrying", mk([][2]int{{80, 1}, {120, 70}, {20, 20}, {3, 15}}[i%4], items))
			}
			for i := 0; i < c.N(40, 600); i++ {
				bs := pipeStream(c)
				if len(bs) > 300 {
					bs = bs[:300]
				}
				cfg := cfgs[r.Intn(3)]
				var items []string
				class := "random-script"
				pos := 0
				for pos < len(bs) {
					n := 1 + r.Intn(40)
					if pos+n > len(bs) {
						n = len(bs) - pos
					}
					items = append(items, "b:"+hx(bs[pos:pos+n]))
					pos += n
					switch r.Intn(9) {
					case 8:
						// the failure is reported by the same Read call that returns the data
						items[len(items)-1] = []string{"be:", "bt:", "be:", "bx:"}[r.Intn(4)] + hx(bs[pos-n:pos])
						class = "data-with-error"
					case 0:
						items = append(items, fail())
					case 1:
						items = append(items, fail(), fail())
						class = "double-interruption"
					case 2:
						if r.Intn(4) == 0 {
							items = append(items, fail(), fail(), fail())
							class = "triple-interruption"
						}
					case 3:
						if r.Intn(6) == 0 {
							items = append(items, "err")
							class = "other-error"
						}
					}
				}
				emit(class, mk(cfg, items))
			}
		},
		Oracle: func(op string, ob *Obs) string {
			o, ok := ob.Data.(*readerObs)
			if !ok || ob.Panic != "" {
				return "panic or hang: " + ob.Panic
			}
			if !o.closed || !o.returned {
				return "the handler did not stop and close its output after the input ended"
			}
			t := strings.Fields(op)
			tau := atoi(t[2])
			omega := atoi(t[3])
			// the bytes the property says must be delivered: everything up to the stop point
			var want []byte
			run := 0
			stopped := false
			for _, it := range expandItems(t[4:]) {
				if strings.HasPrefix(it, "b:") {
					want = append(want, unhx(it[2:])...)
					run = 0
					continue
				}
				if it == "err" {
					stopped = true
					break
				}
				run++
				if tau == 0 || (run == 2 && omega > tau) || run >= 3 {
					stopped = true
					break
				}
			}
			_ = stopped
			var got []byte
			for i := range o.msgs {
				got = append(got, o.msgs[i].RawData...)
			}
			if hx(got) != hx(want) {
				return fmt.Sprintf("delivered bytes %s; the source supplied %s before the stop point", clip(hx(got), 300), clip(hx(want), 300))
			}
			// delivered messages = sequential framing of those bytes
			ref := runHandleMessages(unixms(t[1]), want, 0, 0)
			if typRaw(ref.Msgs) != typRaw(o.msgs) {
				return "delivered messages differ from those of the uninterrupted stream: " + clip(typRaw(o.msgs), 300) + " vs " + clip(typRaw(ref.Msgs), 300)
			}
			return ""
		},
		NonTrivial: func(op string, ob *Obs) bool {
			return strings.Contains(op, " eof") || strings.Contains(op, " to") || strings.Contains(op, " err") ||
				strings.Contains(op, " be:") || strings.Contains(op, " bt:") || strings.Contains(op, " bx:")
		},
	}
}
