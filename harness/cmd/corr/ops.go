package main

// execOp runs one operation of the line protocol against the real go-ntrip code.

import (
	"fmt"
	"os"
	"strconv"
	"strings"
)

// Obs is what the real code was observed to do for one op.
type Obs struct {
	Line    string // canonical result line, compared with the model's
	Branch  string // optional label for coverage statistics
	NoModel bool   // no model counterpart
	Panic   string // recovered panic text, "" if none
	Data    any    // structured observation for the property oracle
}

type opFn func(toks []string) *Obs

var opTable = map[string]opFn{}

// currentOpFile, when set, receives each op line before it is executed: if the code under test
// kills the process (a panic in a goroutine it started cannot be recovered here), the check reads
// the line back and has the crashing input.
var currentOpFile string

func execOp(op string) (obs *Obs) {
	if currentOpFile != "" {
		os.WriteFile(currentOpFile, []byte(op), 0o644)
	}
	toks := strings.Fields(op)
	if len(toks) == 0 {
		return &Obs{Line: "bad-op"}
	}
	f, ok := opTable[toks[0]]
	if !ok {
		return &Obs{Line: "bad-op"}
	}
	defer func() {
		if r := recover(); r != nil {
			obs = &Obs{Line: "panic", Panic: fmt.Sprint(r), Branch: "panic"}
		}
	}()
	return f(toks)
}

func atoi(s string) int {
	n, err := strconv.Atoi(s)
	if err != nil {
		panic("bad integer in op: " + s)
	}
	return n
}
