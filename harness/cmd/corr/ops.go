package main

// execOp runs one operation of the line protocol against the real go-ntrip code.

import (
	"fmt"
	"strconv"
	"strings"
)

// Obs is what the real code was observed to do for one op.
type Obs struct {
	Line    string // canonical result line, compared with the model's
	Branch  string // optional label for coverage statistics
	NoModel bool   // no model counterpart
	Panic   string // recovered panic text, "" if none
	Data    any    // structured observation for the property oracle
}

type opFn func(toks []string) *Obs

var opTable = map[string]opFn{}

func execOp(op string) (obs *Obs) {
	toks := strings.Fields(op)
	if len(toks) == 0 {
		return &Obs{Line: "bad-op"}
	}
	f, ok := opTable[toks[0]]
	if !ok {
		return &Obs{Line: "bad-op"}
	}
	defer func() {
		if r := recover(); r != nil {
			obs = &Obs{Line: "panic", Panic: fmt.Sprint(r), Branch: "panic"}
		}
	}()
	return f(toks)
}

func atoi(s string) int {
	n, err := strconv.Atoi(s)
	if err != nil {
		panic("bad integer in op: " + s)
	}
	return n
}
