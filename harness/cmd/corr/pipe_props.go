package main

// C09: the reader-to-sinks pipeline (file_handler + appcore + handler) under varied
// chunkings, consumer capacities and latencies, nil consumers, GOMAXPROCS.

import (
	"bufio"
	"bytes"
	"fmt"
	"io"
	"log"
	"runtime"
	"strings"
	"sync"
	"time"

	"github.com/goblimey/go-ntrip/apps/appcore"
	"github.com/goblimey/go-ntrip/jsonconfig"
	"github.com/goblimey/go-ntrip/rtcm/handler"
)

// chunkReader delivers data in the given chunk sizes (cycled), optionally pausing.
type chunkReader struct {
	data   []byte
	chunks []int
	k      int
	pause  time.Duration
	// eofWithData: the last chunk is returned together with io.EOF, as the io.Reader contract
	// allows (HTTP bodies, decompressors, iotest.DataErrReader do this)
	eofWithData bool
	// gaps > 0: the source is a live feed that pauses: between chunks it reports `gaps`
	// consecutive transient end-of-file results (tolerated when the configuration says so)
	// gaps == 9: a bursty live source - one transient end-of-file after EVERY chunk
	gaps    int
	pending int
	served  bool
	gapped  bool
}

func (c *chunkReader) Read(p []byte) (int, error) {
	if len(c.data) == 0 {
		return 0, io.EOF
	}
	if c.gaps == 9 && c.served && !c.gapped {
		c.gapped = true
		return 0, io.EOF
	}
	c.gapped = false
	if c.gaps > 0 && c.gaps != 9 && c.served && (c.k == 2 || (c.gaps == 1 && c.k%5 == 0)) {
		if c.pending < c.gaps {
			c.pending++
			return 0, io.EOF
		}
		c.pending = 0
	}
	c.served = true
	n := c.chunks[c.k%len(c.chunks)]
	c.k++
	if n > len(p) {
		n = len(p)
	}
	if n > len(c.data) {
		n = len(c.data)
	}
	if c.pause > 0 && c.k%7 == 0 {
		time.Sleep(c.pause)
	}
	copy(p, c.data[:n])
	c.data = c.data[n:]
	if c.eofWithData && len(c.data) == 0 {
		return n, io.EOF
	}
	return n, nil
}

type pipeObs struct {
	seqs     [][]handler.Message // per consumer (nil consumers: nil)
	isNil    []bool
	returned bool
	panicTxt string
	leaked   int
	ref      *streamRun
}

func typRaw(ms []handler.Message) string {
	var sb strings.Builder
	fmt.Fprintf(&sb, "msgs %d", len(ms))
	for i := range ms {
		fmt.Fprintf(&sb, " %d:%s", ms[i].MessageType, hx(ms[i].RawData))
	}
	return sb.String()
}

// pipe <T> <hex> chunks=a,b,c caps=0,2,nil,64 delays=0,1,0,0(ms) procs=N
func runPipe(t []string) *Obs {
	start := unixms(t[1])
	bs := unhx(t[2])
	kv := map[string]string{}
	for _, tok := range t[3:] {
		if i := strings.IndexByte(tok, '='); i > 0 {
			kv[tok[:i]] = tok[i+1:]
		}
	}
	var chunks []int
	for _, s := range strings.Split(kv["chunks"], ",") {
		chunks = append(chunks, atoi(s))
	}
	capsS := strings.Split(kv["caps"], ",")
	delaysS := strings.Split(kv["delays"], ",")
	procs := atoi(kv["procs"])
	// a consumer that stalls on purpose (negative delay) extends the time the call may take
	var stallAllowance time.Duration
	for _, ds := range delaysS {
		if d := atoi(ds); d < 0 {
			stallAllowance += time.Duration(-d) * time.Millisecond
		}
	}
	old := runtime.GOMAXPROCS(procs)
	defer runtime.GOMAXPROCS(old)

	o := &pipeObs{}
	n0 := runtime.NumGoroutine()
	channels := make([]chan handler.Message, len(capsS))
	o.seqs = make([][]handler.Message, len(capsS))
	o.isNil = make([]bool, len(capsS))
	var wg sync.WaitGroup
	var mu sync.Mutex
	for i, cs := range capsS {
		if cs == "nil" {
			o.isNil[i] = true
			continue
		}
		channels[i] = make(chan handler.Message, atoi(cs))
		d := time.Duration(atoi(delaysS[i%len(delaysS)])) * time.Millisecond
		wg.Add(1)
		go func(i int, ch chan handler.Message, d time.Duration) {
			defer wg.Done()
			first := true
			for m := range ch {
				if d > 0 {
					time.Sleep(d)
				}
				if d < 0 && first {
					// a negative delay: this consumer stalls once, on its first message, for that long
					time.Sleep(-d)
				}
				first = false
				mu.Lock()
				o.seqs[i] = append(o.seqs[i], m)
				mu.Unlock()
			}
		}(i, channels[i], d)
	}
	done := make(chan string, 1)
	go func() {
		defer func() {
			if r := recover(); r != nil {
				done <- fmt.Sprint(r)
			}
		}()
		var cfg jsonconfig.Config
		gaps := 0
		if kv["gaps"] != "" {
			// a live feed with pauses: the handler is configured to ride out end-of-file for 400 ms, polling every ms
			// (a second consecutive end-of-file makes Handle sleep for the whole timeout, so double gaps are placed once)
			gaps = atoi(kv["gaps"])
			cfg.TimeoutOnEOFMilliSeconds, cfg.WaitTimeOnEOFMilliseconds = 400, 1
		}
		if kv["syslog"] == "1" {
			// the activity log switched on (its text goes nowhere)
			cfg.SystemLog = log.New(io.Discard, "", 0)
		}
		ac := appcore.New(&cfg, channels)
		ac.HandleMessagesUntilEOF(start, bufio.NewReader(&chunkReader{data: append([]byte{}, bs...), chunks: chunks, pause: time.Millisecond, eofWithData: kv["eof"] == "with-data", gaps: gaps}))
		done <- ""
	}()
	select {
	case p := <-done:
		o.returned = p == ""
		o.panicTxt = p
	case <-time.After(30*time.Second + stallAllowance):
		o.panicTxt = fmt.Sprintf("HandleMessagesUntilEOF did not return within %v", 30*time.Second+stallAllowance)
	}
	if o.returned {
		// what the applications do next: close the consumer channels (a double close would panic)
		func() {
			defer func() {
				if r := recover(); r != nil {
					o.panicTxt = "closing a consumer channel: " + fmt.Sprint(r)
				}
			}()
			for _, ch := range channels {
				if ch != nil {
					close(ch)
				}
			}
		}()
		// the consumers end when their channels are closed; a consumer whose channel was never closed
		// (the list of channels was changed under the caller's feet) must not hold up the run for ever
		finished := make(chan struct{})
		go func() { wg.Wait(); close(finished) }()
		select {
		case <-finished:
		case <-time.After(10 * time.Second):
			if o.panicTxt == "" {
				o.panicTxt = "a consumer was still waiting on its channel 10 s after every channel in the caller's list had been closed"
			}
		}
		deadline := time.Now().Add(500 * time.Millisecond)
		for runtime.NumGoroutine() > n0 && time.Now().Before(deadline) {
			time.Sleep(2 * time.Millisecond)
		}
		if g := runtime.NumGoroutine(); g > n0 {
			o.leaked = g - n0
		}
	}
	o.ref = runHandleMessages(start, bs, 0, 0)
	line := "panic"
	if o.panicTxt == "" {
		line = "ok " + typRaw(o.ref.Msgs)
		for i := range o.seqs {
			if !o.isNil[i] && typRaw(o.seqs[i]) != typRaw(o.ref.Msgs) {
				line = fmt.Sprintf("consumer %d got %s", i, clip(typRaw(o.seqs[i]), 400))
				break
			}
		}
	}
	return &Obs{Line: line, Data: o, Panic: o.panicTxt}
}

func oraclePipe(op string, ob *Obs) string {
	o, ok := ob.Data.(*pipeObs)
	if !ok {
		return "panic: " + ob.Panic
	}
	if o.panicTxt != "" {
		return o.panicTxt
	}
	if !o.returned {
		return "the call did not return"
	}
	if o.ref.Panic != "" {
		return "sequential framing panicked: " + o.ref.Panic
	}
	want := typRaw(o.ref.Msgs)
	// the input itself, independent of any framing code: what every consumer holds at the end must
	// still concatenate to it (a message whose bytes change after delivery shows here)
	input := unhx(strings.Fields(op)[2])
	for i := range o.seqs {
		if o.isNil[i] {
			continue
		}
		var cat []byte
		for k := range o.seqs[i] {
			cat = append(cat, o.seqs[i][k].RawData...)
		}
		if !bytes.Equal(cat, input) {
			return fmt.Sprintf("the raw bytes consumer %d holds after the run concatenate to %s, the input was %s", i, clip(hx(cat), 300), clip(hx(input), 300))
		}
		if got := typRaw(o.seqs[i]); got != want {
			return fmt.Sprintf("consumer %d received %s; sequential framing gives %s", i, clip(got, 300), clip(want, 300))
		}
		for k := range o.seqs[i] {
			if !bytes.Equal(o.seqs[i][k].RawData, o.ref.Msgs[k].RawData) {
				return "raw bytes differ"
			}
		}
	}
	if o.leaked > 0 {
		return fmt.Sprintf("%d helper goroutine(s) still running after the call returned and the consumers finished", o.leaked)
	}
	return ""
}

func pipeStream(c *Ctx) []byte {
	r := c.Rng
	var bs []byte
	for k := 0; k < 1+r.Intn(6); k++ {
		switch r.Intn(6) {
		case 0:
			bs = append(bs, junkRun(r, 1+r.Intn(30))...)
		case 1:
			f := randFrame(r, 1+r.Intn(40))
			f[3+r.Intn(len(f)-3)] ^= byte(1 + r.Intn(255))
			bs = append(bs, f...)
		case 2:
			bs = append(bs, 0xd3)
		default:
			bs = append(bs, randFrame(r, 1+r.Intn(c.N(80, 600)))...)
		}
	}
	if r.Intn(4) == 0 {
		bs = bs[:r.Intn(len(bs)+1)]
	}
	return bs
}

func init() {
	opTable["pipe"] = runPipe
	props["C09"] = &Prop{
		Rule: "op pipe <T> <stream> chunks= caps= delays= procs=: the real file_handler.Handle + handler.HandleMessages + appcore.HandleMessagesUntilEOF on mixed streams (frames, corrupted frames, junk, " +
			"stray 0xD3, truncated tails) read through chunked readers (chunk sizes 1..4096, pauses, last bytes with or without the end-of-file error, one or two transient end-of-file results between chunks, a bursty source with one after every chunk - hundreds in one call), 1..4 consumers with capacities 0/1/2/64, latencies 0..2 ms and one consumer that stalls for 7 s (thorough 33 s) on its first message, nil entries, GOMAXPROCS 1/2/4/16, the activity log on or off; " +
			"every non-nil consumer's (type, raw) sequence is compared with sequential framing of the same bytes by the real code and with the model's segmentation; goroutines are counted before/after; " +
			"non-trivial = at least one non-nil consumer and a non-empty stream; distinct = distinct op line",
		Gen: func(c *Ctx, emit func(class, op string)) {
			r := c.Rng
			capsPool := []string{"0", "0", "1", "2", "64", "nil"}
			for i := 0; i < c.N(300, 2500); i++ {
				bs := pipeStream(c)
				k := 1 + r.Intn(4)
				var caps, delays []string
				for j := 0; j < k; j++ {
					caps = append(caps, capsPool[r.Intn(len(capsPool))])
					delays = append(delays, fmt.Sprint([]int{0, 0, 0, 1, 2}[r.Intn(5)]))
				}
				var chunks []string
				for j := 0; j < 1+r.Intn(4); j++ {
					chunks = append(chunks, fmt.Sprint([]int{1, 2, 3, 7, 64, 4096}[r.Intn(6)]))
				}
				class := "mixed"
				if strings.Contains(strings.Join(caps, ","), "nil") {
					class = "with-nil-consumer"
				}
				eof := "bare"
				if r.Intn(12) == 0 {
					// a paused live feed: one or two transient EOF results between chunks, tolerated by the configuration
					eof = fmt.Sprintf("bare gaps=%d", 1+r.Intn(2))
					if class == "mixed" {
						class = "transient-eof-between-chunks"
					}
				} else if r.Intn(3) == 0 {
					// the source returns its last bytes together with io.EOF
					eof = "with-data"
					if class == "mixed" {
						class = "eof-with-last-data"
					}
				}
				emit(class, fmt.Sprintf("pipe %s %s chunks=%s caps=%s delays=%s procs=%d eof=%s", defaultStart, hx(bs), strings.Join(chunks, ","),
					strings.Join(caps, ","), strings.Join(delays, ","), []int{1, 2, 4, 16}[r.Intn(4)], eof))
			}
			// a bursty live source: hundreds of single transient end-of-file results in one call, each
			// followed by more data
			for i := 0; i < c.N(3, 20); i++ {
				bs := pipeStream(c)
				for len(bs) < 400 {
					bs = append(bs, pipeStream(c)...)
				}
				emit("bursty-source-many-gaps", fmt.Sprintf("pipe %s %s chunks=%d caps=0,2 delays=0,0 procs=4 eof=bare gaps=9", defaultStart, hx(bs), 1+r.Intn(3)))
			}
			// one consumer stalls for seconds on its first message (a downstream reader that stops
			// reading for a while): it still gets every message, and so do the others
			for i := 0; i < c.N(1, 3); i++ {
				bs := pipeStream(c)
				emit("consumer-stalls-for-seconds", fmt.Sprintf("pipe %s %s chunks=64 caps=0,1 delays=-%d,0 procs=4 eof=bare", defaultStart, hx(bs), c.N(7000, 33000)))
			}
			// the activity log switched on, streams with long runs of other data and long damaged frames
			for i := 0; i < c.N(12, 120); i++ {
				bs := pipeStream(c)
				bs = append(bs, junkRun(r, 61+r.Intn(200))...)
				bs = append(bs, randFrame(r, 1+r.Intn(40))...)
				g := randFrame(r, 80+r.Intn(200))
				g[10] ^= 0x20
				bs = append(bs, g...)
				bs = append(bs, pipeStream(c)...)
				emit("activity-log-on", fmt.Sprintf("pipe %s %s chunks=%d caps=0,2 delays=0,1 procs=4 eof=bare syslog=1", defaultStart, hx(bs), []int{1, 7, 64, 4096}[r.Intn(4)]))
			}
			emit("empty", fmt.Sprintf("pipe %s - chunks=1 caps=0,nil delays=0 procs=2", defaultStart))
		},
		Oracle: oraclePipe,
		NonTrivial: func(op string, ob *Obs) bool {
			return !strings.Contains(op, " - ") && strings.Contains(ob.Line, "ok msgs")
		},
	}
}
