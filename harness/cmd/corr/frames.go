package main

// Helpers shared by the framing properties: frame construction, an independent CRC-24Q,
// canonical rendering of handler.Message, running the real HandleMessages.

import (
	"fmt"
	"log/slog"
	"math/rand"
	"strings"
	"time"

	"github.com/goblimey/go-crc24q/crc24q"
	"github.com/goblimey/go-ntrip/rtcm/handler"
	"github.com/goblimey/go-ntrip/rtcm/utils"
)

// crc24 is an independent bitwise CRC-24Q (polynomial 0x1864CFB, initial value 0).
func crc24(data []byte) uint32 {
	var crc uint32
	for _, b := range data {
		crc ^= uint32(b) << 16
		for i := 0; i < 8; i++ {
			crc <<= 1
			if crc&0x1000000 != 0 {
				crc ^= 0x1864CFB
			}
		}
	}
	return crc & 0xFFFFFF
}

// mkFrame wraps a payload (1..1023 bytes) into leader + payload + CRC.
func mkFrame(payload []byte) []byte {
	n := len(payload)
	f := []byte{0xd3, byte(n >> 8), byte(n)}
	f = append(f, payload...)
	c := crc24(f)
	return append(f, byte(c>>16), byte(c>>8), byte(c))
}

// payloadOfType makes a random payload of n bytes whose first 12 bits are typ.
func payloadOfType(r *rand.Rand, typ, n int) []byte {
	p := make([]byte, n)
	r.Read(p)
	p[0] = byte(typ >> 4)
	if n > 1 {
		p[1] = byte(typ<<4) | (p[1] & 0x0f)
	}
	return p
}

// validFrame is the property's own notion of "exactly one RTCM3 frame".
func validFrame(f []byte) bool {
	if len(f) < 7 || f[0] != 0xd3 || f[1]&0xfc != 0 {
		return false
	}
	n := int(f[1]&3)<<8 | int(f[2])
	if n == 0 || len(f) != n+6 {
		return false
	}
	c := crc24(f[:len(f)-3])
	return f[len(f)-3] == byte(c>>16) && f[len(f)-2] == byte(c>>8) && f[len(f)-1] == byte(c)
}

func typeOfFrame(f []byte) int { return int(f[3])<<4 | int(f[4])>>4 }

// errClass maps an error text of the library to a small enum (texts are not compared).
func errClass(s string) string {
	switch {
	case s == "":
		return "none"
	case strings.Contains(s, "too short to get the header"):
		return "short"
	case strings.Contains(s, "not 0xd3"), strings.Contains(s, "bits 8-13"):
		return "bad-leader"
	case strings.Contains(s, "zero length message, type"):
		return "zero-length"
	case strings.Contains(s, "incomplete message frame"):
		return "incomplete"
	case strings.Contains(s, "CRC check failed"):
		return "crc"
	case strings.Contains(s, "too short to contain a timestamp"):
		return "ts-short"
	case strings.Contains(s, "timestamp out of range"):
		return "time-range"
	case strings.Contains(s, "unknown message type"):
		return "unknown-constellation"
	case strings.Contains(s, "zero length message frame"):
		return "empty"
	}
	return "other(" + strings.ReplaceAll(s, " ", "_") + ")"
}

const sentLayout = "Time " + utils.DateLayout

// instantOf parses "Time 2023-05-13 13:59:42 +0000 UTC" back to Unix ms ("-" if no time).
func sentOf(s string) string {
	if s == "" {
		return "-"
	}
	t, err := time.Parse(sentLayout, s)
	if err != nil {
		return "-"
	}
	return fmt.Sprint(t.UnixMilli())
}

// sowOf parses "Start of GPS week 2023-05-07 … UTC[ plus …]" back to Unix ms.
func sowOf(s string) string {
	i := strings.Index(s, " week ")
	if i < 0 {
		return "-"
	}
	rest := strings.Fields(s[i+6:])
	if len(rest) < 4 {
		return "-"
	}
	t, err := time.Parse(utils.DateLayout, strings.Join(rest[:4], " "))
	if err != nil {
		return "-"
	}
	return fmt.Sprint(t.UnixMilli())
}

func canonMsg(m *handler.Message) string {
	return fmt.Sprintf("%d:%s:%s:%d:%s:%s", m.MessageType, hx(m.RawData), errClass(m.ErrorMessage),
		m.Timestamp, sentOf(m.SentAt), sowOf(m.StartOfWeek))
}

func canonGet(m *handler.Message, err error) string {
	if m == nil {
		return "empty"
	}
	e := ""
	if err != nil {
		e = err.Error()
	}
	return "msg err=" + errClass(e) + " " + canonMsg(m)
}

// streamRun is one execution of the real HandleMessages.
type streamRun struct {
	Msgs    []handler.Message
	Closed  bool   // the output channel was closed
	Panic   string // a panic in HandleMessages
	Hung    bool
	Elapsed time.Duration
}

// runHandleMessages feeds bs (then closes the input) to the real HandleMessages.
func runHandleMessages(start time.Time, bs []byte, capIn, capOut int) *streamRun {
	// the handler's log level is a configuration the framing must not depend on: the level is derived
	// from the input, so that every class of stream is framed at both levels (file_handler always
	// uses debug, the proxy info)
	level := slog.LevelInfo
	if len(bs)%2 == 1 {
		level = slog.LevelDebug
	}
	h := handler.New(start, level)
	in := make(chan byte, capIn)
	out := make(chan handler.Message, capOut)
	panicCh := make(chan string, 1)
	t0 := time.Now()
	go func() {
		for _, b := range bs {
			in <- b
		}
		close(in)
	}()
	go func() {
		defer func() {
			if r := recover(); r != nil {
				panicCh <- fmt.Sprint(r)
			}
		}()
		h.HandleMessages(in, out)
	}()
	res := &streamRun{}
	timeout := time.After(20 * time.Second)
	for {
		select {
		case m, ok := <-out:
			if !ok {
				res.Closed = true
				res.Elapsed = time.Since(t0)
				return res
			}
			res.Msgs = append(res.Msgs, m)
		case p := <-panicCh:
			res.Panic = p
			// drain the feeder so it does not leak
			go func() {
				for range in {
				}
			}()
			res.Elapsed = time.Since(t0)
			return res
		case <-timeout:
			res.Hung = true
			return res
		}
	}
}

func canonStream(r *streamRun) string {
	if r.Panic != "" {
		return "panic"
	}
	if r.Hung {
		return "hang"
	}
	var sb strings.Builder
	fmt.Fprintf(&sb, "msgs %d", len(r.Msgs))
	for i := range r.Msgs {
		sb.WriteByte(' ')
		sb.WriteString(canonMsg(&r.Msgs[i]))
	}
	return sb.String()
}

func unixms(s string) time.Time { return time.UnixMilli(int64(atoi(s))).UTC() }

func init() {
	opTable["crc"] = func(t []string) *Obs {
		b := unhx(t[1])
		v := crc24q.Hash(b)
		return &Obs{Line: fmt.Sprintf("ok %d", v), Data: v}
	}
	opTable["getmsg"] = func(t []string) *Obs {
		glevel := slog.LevelInfo
		if len(t[2])%4 == 2 {
			glevel = slog.LevelDebug
		}
		h := handler.New(unixms(t[1]), glevel)
		in := unhx(t[2])
		m, err := h.GetMessage(in)
		return &Obs{Line: canonGet(m, err), Data: []any{m, err, in}}
	}
	opTable["gethist"] = func(t []string) *Obs {
		h := handler.New(unixms(t[1]), slog.LevelInfo)
		var parts []string
		var ms []*handler.Message
		for _, hxs := range t[2:] {
			m, err := h.GetMessage(unhx(hxs))
			parts = append(parts, canonGet(m, err))
			ms = append(ms, m)
		}
		return &Obs{Line: strings.Join(parts, " | "), Data: ms}
	}
	opTable["stream"] = func(t []string) *Obs {
		bs := unhx(t[2])
		r := runHandleMessages(unixms(t[1]), bs, 0, 0)
		return &Obs{Line: canonStream(r), Data: r, Panic: r.Panic}
	}
	// streamseg T f:<hex> j:<hex> c:<hex> [o:<hex>] t:<hex> … : a stream described by its segments
	opTable["streamseg"] = func(t []string) *Obs {
		var bs []byte
		for _, tok := range t[2:] {
			if tok[0] == 'o' { // the intact form of the preceding corrupted frame: not part of the stream
				continue
			}
			bs = append(bs, unhx(tok[2:])...)
		}
		r := runHandleMessages(unixms(t[1]), bs, 0, 0)
		return &Obs{Line: canonStream(r), Data: r, Panic: r.Panic}
	}
}
