package main

import (
	"fmt"
	"log/slog"
	"strings"
	"time"

	"github.com/goblimey/go-ntrip/rtcm/handler"
	"github.com/goblimey/go-ntrip/rtcm/header"
	"github.com/goblimey/go-ntrip/rtcm/type1005"
	"github.com/goblimey/go-ntrip/rtcm/type1006"
	msm4 "github.com/goblimey/go-ntrip/rtcm/type_msm4/message"
	msm7 "github.com/goblimey/go-ntrip/rtcm/type_msm7/message"
	"github.com/goblimey/go-ntrip/rtcm/utils"
)

// syntheticFrame is a CRC-valid frame of the given type with an all-zero 40-byte payload
// (a well-formed empty MSM, and long enough for 1005/1006).
func syntheticFrame(typ int) []byte {
	p := make([]byte, 40)
	p[0] = byte(typ >> 4)
	p[1] = byte(typ << 4)
	return mkFrame(p)
}

type classObs struct {
	msm4, msm7, msm bool
	constellation   string
	hdr             bool
	analyse         string
	ts              bool
	title           bool
	displayed       bool
	displayPanic    string
	htype           int // the type the handler reports for a CRC-valid frame of this type
}

func classify(typ int) *classObs {
	o := &classObs{htype: typ}
	o.msm4, o.msm7, o.msm = utils.MSM4(typ), utils.MSM7(typ), utils.MSM(typ)
	o.constellation = utils.GetConstellation(typ)
	o.title = len(utils.GetTitleAndComment(typ).Title) > 0
	var m *handler.Message
	if typ >= 0 && typ < 4096 {
		f := syntheticFrame(typ)
		_, _, herr := header.GetMSMHeader(f, slog.LevelInfo)
		o.hdr = herr == nil || !strings.Contains(herr.Error(), "is not an MSM4 or an MSM7")
		h := handler.New(time.UnixMilli(1683979200000).UTC(), slog.LevelDebug)
		m, _ = h.GetMessage(f)
		o.ts = m != nil && m.SentAt != ""
		if m != nil {
			o.htype = m.MessageType
			// the message goes to Analyse as the handler delivered it - SBAS, QZSS and NavIC MSMs
			// carry a time-line error text, and are decoded all the same
		}
	} else {
		m = &handler.Message{MessageType: typ, RawData: []byte{1, 2, 3}}
	}
	if m != nil {
		handler.Analyse(m)
		switch m.Readable.(type) {
		case *msm4.Message:
			o.analyse = "msm4"
		case *msm7.Message:
			o.analyse = "msm7"
		case *type1005.Message:
			o.analyse = "1005"
		case *type1006.Message:
			o.analyse = "1006"
		case string:
			o.analyse = "text"
		default:
			o.analyse = "none(" + m.ErrorMessage + ")"
		}
		func() {
			defer func() {
				if r := recover(); r != nil {
					o.displayPanic = fmt.Sprint(r)
				}
			}()
			o.displayed = len(m.String()) > 0
		}()
	}
	return o
}

func init() {
	opTable["classify"] = func(t []string) *Obs {
		typ := atoi(t[1])
		o := classify(typ)
		line := fmt.Sprintf("msm4=%v msm7=%v msm=%v const=%s hdr=%v analyse=%s ts=%v title=%v htype=%d",
			o.msm4, o.msm7, o.msm, strings.ReplaceAll(o.constellation, " ", "_"), o.hdr, o.analyse, o.ts, o.title, o.htype)
		return &Obs{Line: line, Data: o}
	}
	props["C20"] = &Prop{
		Rule: "op classify <type>: ALL 4096 twelve-bit types plus the sentinels -1 and -2 through the real MSM4/MSM7/MSM/GetConstellation/" +
			"GetTitleAndComment, and a synthetic CRC-valid frame of every type through GetMSMHeader/GetMessage/Analyse/String; complete enumeration; " +
			"non-trivial = every case (each type is its own class); distinct = distinct type",
		Exhaustive: true,
		Gen: func(c *Ctx, emit func(class, op string)) {
			for t := -2; t < 4096; t++ {
				class := "other"
				switch {
				case t >= 1074 && t <= 1137 && (t%10 == 4 || t%10 == 7): // the harness's own statement, not utils.MSM
					class = "msm"
				case t == 1005 || t == 1006:
					class = "base"
				case t < 0:
					class = "sentinel"
				}
				emit(class, fmt.Sprintf("classify %d", t))
			}
		},
		Oracle: func(op string, o *Obs) string {
			d, ok := o.Data.(*classObs)
			if !ok {
				return "classification panicked: " + o.Panic
			}
			var typ int
			fmt.Sscanf(op, "classify %d", &typ)
			if d.htype != typ {
				return fmt.Sprintf("the handler reports type %d for a CRC-valid frame whose type field is %d", d.htype, typ)
			}
			is4 := typ >= 1074 && typ <= 1134 && typ%10 == 4
			is7 := typ >= 1077 && typ <= 1137 && typ%10 == 7
			names := map[int]string{107: "GPS", 108: "Glonass", 109: "Galileo", 110: "SBAS", 111: "QZSS", 112: "Beidou", 113: "NavIC/IRNSS"}
			wantName := "unknown constellation"
			if is4 || is7 {
				wantName = names[typ/10]
			}
			wantAnalyse := "text"
			switch {
			case is4:
				wantAnalyse = "msm4"
			case is7:
				wantAnalyse = "msm7"
			case typ == 1005:
				wantAnalyse = "1005"
			case typ == 1006:
				wantAnalyse = "1006"
			}
			var bad []string
			if d.msm4 != is4 || d.msm7 != is7 || d.msm != (is4 || is7) {
				bad = append(bad, fmt.Sprintf("MSM4/MSM7/MSM = %v/%v/%v", d.msm4, d.msm7, d.msm))
			}
			if d.constellation != wantName {
				bad = append(bad, "constellation "+d.constellation)
			}
			if typ >= 0 && d.hdr != (is4 || is7) {
				bad = append(bad, fmt.Sprintf("header accepts = %v", d.hdr))
			}
			if typ >= 0 && d.ts != (is4 || is7) {
				bad = append(bad, fmt.Sprintf("timestamp extracted = %v", d.ts))
			}
			if d.analyse != wantAnalyse {
				bad = append(bad, "full decoding by "+d.analyse+", expected "+wantAnalyse)
			}
			if !d.title {
				bad = append(bad, "empty title")
			}
			if d.displayPanic != "" || !d.displayed {
				bad = append(bad, "cannot be displayed: "+d.displayPanic)
			}
			return strings.Join(bad, "; ")
		},
	}
}
