package main

// C15: decoding and display are deterministic and free of hidden state.

import (
	"bytes"
	"fmt"
	"log/slog"
	"strings"
	"sync"
	"time"

	"github.com/goblimey/go-ntrip/rtcm/handler"
	"github.com/goblimey/go-ntrip/rtcm/type1005"
	"github.com/goblimey/go-ntrip/rtcm/type1006"
	msm4 "github.com/goblimey/go-ntrip/rtcm/type_msm4/message"
	msm7 "github.com/goblimey/go-ntrip/rtcm/type_msm7/message"
)

// stripTime removes the MSM time lines, which by design follow the handler's time history.
func stripTime(s string) string {
	var out []string
	for _, l := range strings.Split(s, "\n") {
		if strings.HasPrefix(l, "Time ") || strings.HasPrefix(l, "Start of ") {
			continue
		}
		out = append(out, l)
	}
	return strings.Join(out, "\n")
}

func analyseKind(m *handler.Message) string {
	m2 := &handler.Message{MessageType: m.MessageType, RawData: m.RawData, LogLevel: slog.LevelDebug}
	handler.Analyse(m2)
	switch m2.Readable.(type) {
	case *msm4.Message:
		return "ok msm4"
	case *msm7.Message:
		return "ok msm7"
	case *type1005.Message:
		return "ok 1005"
	case *type1006.Message:
		return "ok 1006"
	case string:
		return "text"
	}
	if c := msmErrClass(m2.ErrorMessage); !strings.HasPrefix(c, "other(") {
		return "err " + c
	}
	return "err " + baseErrClass(m2.ErrorMessage)
}

type view struct {
	typ  int
	raw  []byte
	text string // display without the time lines
	emsg string
	// the decoded object itself: every decoded field (wavelengths included) and its own readable form,
	// which the handler's display does not reach for the constellations it has no time conversion for
	decoded string
}

func viewOf(m *handler.Message) view {
	c := *m // display works on a copy, as a consumer would
	t := stripTime(c.String())
	e := c.ErrorMessage
	if strings.Contains(e, "timestamp out of range") || strings.Contains(e, "unknown message type") {
		e = "" // time-line errors follow the time history by design
	}
	d := ""
	switch rd := c.Readable.(type) {
	case *msm4.Message:
		d = canonMSM4(rd) + "\n" + rd.String()
	case *msm7.Message:
		d = canonMSM7(rd) + "\n" + rd.String()
	case *type1005.Message:
		d = rd.String()
	case *type1006.Message:
		d = rd.String()
	}
	return view{c.MessageType, append([]byte{}, c.RawData...), t, e, d}
}

func (v view) eq(w view) bool {
	return v.typ == w.typ && bytes.Equal(v.raw, w.raw) && v.text == w.text && v.emsg == w.emsg && v.decoded == w.decoded
}

func init() {
	// determ <T> <frame> <frame> …
	opTable["determ"] = func(t []string) *Obs {
		start := unixms(t[1])
		var frames [][]byte
		for _, h := range t[2:] {
			frames = append(frames, unhx(h))
		}
		var problems []string
		bad := func(format string, a ...any) {
			if len(problems) < 5 {
				problems = append(problems, fmt.Sprintf(format, a...))
			}
		}
		// (a) each frame by a fresh handler
		fresh := make([]view, len(frames))
		var parts []string
		for i, f := range frames {
			h := handler.New(start, slog.LevelDebug)
			orig := append([]byte{}, f...)
			m, _ := h.GetMessage(f)
			if m == nil {
				parts = append(parts, "empty")
				continue
			}
			fresh[i] = viewOf(m)
			parts = append(parts, fmt.Sprintf("%d:%s analyse=%s", m.MessageType, hx(m.RawData), analyseKind(m)))
			// repeated display gives identical text and never modifies the raw bytes
			t1 := m.String()
			t2 := m.String()
			if t1 != t2 {
				bad("frame %d: displaying twice gives different text", i)
			}
			if !bytes.Equal(f, orig) || !bytes.HasPrefix(orig, m.RawData) {
				bad("frame %d: display or decoding modified the raw bytes", i)
			}
			// a consumer's copy is unaffected by what another consumer does with its copy
			c1, c2 := *m, *m
			c1.Readable = nil
			_ = c1.String()
			c1.MessageType, c1.ErrorMessage, c1.Readable, c1.SentAt = 4095, "changed", nil, "x"
			if v := viewOf(&c2); !v.eq(fresh[i]) {
				bad("frame %d: a copy changed after another copy was displayed and modified", i)
			}
		}
		// (b) all frames through one handler, in order; (c) in reverse order
		for pass, order := range [][]int{seqOrder(len(frames), false), seqOrder(len(frames), true)} {
			h := handler.New(start, slog.LevelDebug)
			for _, i := range order {
				m, _ := h.GetMessage(frames[i])
				if m == nil {
					continue
				}
				if v := viewOf(m); !v.eq(fresh[i]) {
					bad("frame %d decoded after other frames (pass %d) differs from decoding it first:\n%s\n---\n%s", i, pass, clip(v.text, 300), clip(fresh[i].text, 300))
				}
			}
		}
		// (d) several handlers and display calls in parallel goroutines
		var wg sync.WaitGroup
		var mu sync.Mutex
		for g := 0; g < 4; g++ {
			wg.Add(1)
			go func(g int) {
				defer wg.Done()
				h := handler.New(start, slog.LevelDebug)
				for k := range frames {
					i := (k + g) % len(frames)
					m, _ := h.GetMessage(frames[i])
					if m == nil {
						continue
					}
					if v := viewOf(m); !v.eq(fresh[i]) {
						mu.Lock()
						bad("frame %d decoded by a concurrent handler differs", i)
						mu.Unlock()
					}
				}
			}(g)
		}
		wg.Wait()
		// (e) the same frames as ONE stream through HandleMessages, with a start byte followed by
		// something that is not a leader in front of each (the framer hands those five bytes out as a
		// message of their own): what a message holds and displays when it is delivered is what it
		// still holds and displays after the rest of the stream has been read
		var stream []byte
		for i, f := range frames {
			if i%2 == 0 {
				stream = append(stream, 0xd3, 0xff, byte(i), 0x02, 0x03)
			}
			stream = append(stream, f...)
		}
		{
			h := handler.New(start, slog.LevelDebug)
			in := make(chan byte)
			out := make(chan handler.Message)
			go func() {
				defer func() { recover() }()
				for _, b := range stream {
					in <- b
				}
				close(in)
			}()
			go func() {
				defer func() {
					if r := recover(); r != nil {
						close(out)
					}
				}()
				h.HandleMessages(in, out)
			}()
			var got []handler.Message
			var then []view
			deadline := time.After(20 * time.Second)
		collect:
			for {
				select {
				case m, ok := <-out:
					if !ok {
						break collect
					}
					got = append(got, m)
					then = append(then, viewOf(&m))
				case <-deadline:
					bad("HandleMessages did not finish on the frames as one stream")
					break collect
				}
			}
			for k := range got {
				if v := viewOf(&got[k]); !v.eq(then[k]) {
					bad("message %d of the stream held %s when it was delivered and holds %s after the rest of the stream was read", k, clip(hx(then[k].raw), 60), clip(hx(v.raw), 60))
				}
			}
		}
		return &Obs{Line: strings.Join(parts, " | "), Data: problems}
	}
	props["C15"] = &Prop{
		Rule: "op determ <T> <frames…>: each frame (all decodable types, well-formed MSM/1005/1006, random CRC-valid payloads, corrupted frames, non-RTCM) decoded by a fresh handler, after all the others in order " +
			"and in reverse order through one handler, and by four concurrent handlers; decoded fields and readable text (without the MSM time lines) must be identical; displaying twice identical; raw bytes " +
			"unchanged; look-alike sets (MSM messages with the same cell-mask bits in different satellite x signal shapes; frames sharing type, leading bytes and low length byte); a consumer's copy unaffected by another copy being displayed and modified; the frames as one stream (with false frame starts between them): every delivered message still holds and displays the same after the rest of the stream has been read; non-trivial = at least two frames; distinct = distinct op line",
		Gen: func(c *Ctx, emit func(class, op string)) {
			r := c.Rng
			// FIRST in the process: messages of the constellations without a frequency table (SBAS, QZSS,
			// NavIC), each decoded before and after a GPS message that uses the same signal ids - state kept
			// at package level by the decoders would show as a difference between the two decodings
			for _, typ := range []uint64{1104, 1107, 1114, 1117, 1134, 1137} {
				rare := randSpec(r, typ%10 == 7, "8x8")
				rare.typ = typ
				gps := randSpec(r, typ%10 == 7, "8x8")
				gps.typ = 1074 + (typ%10 - 4)
				gps.sigs = append([]uint{}, rare.sigs...)
				emit("rare-constellation-before-and-after-gps", fmt.Sprintf("determ %s %s %s", defaultStart, hx(mkFrame(rare.encode())), hx(mkFrame(gps.encode()))))
			}
			for i := 0; i < c.N(120, 2000); i++ {
				n := 2 + r.Intn(6)
				var hs []string
				for k := 0; k < n; k++ {
					var f []byte
					switch r.Intn(7) {
					case 0:
						f = junkRun(r, 1+r.Intn(20))
					case 1:
						f = randFrame(r, 1+r.Intn(60))
						f[3+r.Intn(len(f)-3)] ^= 0x40
					case 2:
						vals := []int64{1005, int64(r.Intn(4096)), int64(r.Intn(64)), 0, coordVal(r), 0, coordVal(r), 0, coordVal(r)}
						f = mkFrame(encodeBase(vals))
					case 3, 4:
						s := randSpec(r, r.Intn(2) == 0, "random")
						if len(s.encode()) > 600 {
							s = randSpec(r, r.Intn(2) == 0, "8x8")
						}
						f = mkFrame(s.encode())
					default:
						f = randFrame(r, 1+r.Intn(80))
					}
					hs = append(hs, hx(f))
				}
				emit("frame-sets", fmt.Sprintf("determ %s %s", defaultStart, strings.Join(hs, " ")))
			}
			// look-alikes: frames that anything remembered from an earlier frame could be confused by -
			// MSM messages with the same header values and cell-mask bits grouped into different
			// satellite x signal shapes, and frames sharing type, leading bytes and low length byte
			for i := 0; i < c.N(40, 400); i++ {
				a := randSpec(r, i%2 == 0, "8x8")
				hs := []string{hx(mkFrame(a.encode()))}
				shapes := [][2]int{{4, 16}, {16, 4}, {2, 32}, {32, 2}, {64, 1}}
				r.Shuffle(len(shapes), func(x, y int) { shapes[x], shapes[y] = shapes[y], shapes[x] })
				for _, sh := range shapes[:2+r.Intn(3)] {
					hs = append(hs, hx(mkFrame(a.reshape(r, sh[0], sh[1]).encode())))
				}
				emit("msm-look-alikes", fmt.Sprintf("determ %s %s", defaultStart, strings.Join(hs, " ")))
			}
			for i := 0; i < c.N(40, 400); i++ {
				var hs []string
				for _, sg := range siblingSegs(r) {
					if sg.kind == 'f' {
						hs = append(hs, hx(sg.b))
					}
				}
				emit("sibling-frames", fmt.Sprintf("determ %s %s", defaultStart, strings.Join(hs, " ")))
			}
			// well-formed MSM frames of ONE constellation whose timestamps step back by a little or a lot
			// (neighbouring epochs out of order, a restart): what a frame decodes and displays to, the time
			// lines apart, must not depend on what the handler saw before it
			for i := 0; i < c.N(40, 400); i++ {
				seven := i%2 == 0
				base := randSpec(r, seven, "8x8")
				typ := base.typ
				t0 := uint64(100000 + r.Intn(500000000))
				var hs []string
				for _, d := range []uint64{0, uint64([]int{1, 200, 1000, 1999, 2000, 5000, 60000}[r.Intn(7)]), uint64(r.Intn(3000))} {
					s := randSpec(r, seven, "8x8")
					s.typ = typ
					s.ts = t0 - d
					if typ == 1084 || typ == 1087 {
						s.ts = (t0-d)%86400000 | uint64(r.Intn(7))<<27 // GLONASS: day and time of day
					}
					hs = append(hs, hx(mkFrame(s.encode())))
				}
				emit("timestamps-stepping-back", fmt.Sprintf("determ %s %s", defaultStart, strings.Join(hs, " ")))
			}
		},
		Oracle: func(op string, ob *Obs) string {
			if ob.Panic != "" {
				return "panic: " + ob.Panic
			}
			if p, ok := ob.Data.([]string); ok && len(p) > 0 {
				return strings.Join(p, "; ")
			}
			return ""
		},
	}
}

func seqOrder(n int, reverse bool) []int {
	o := make([]int, n)
	for i := range o {
		if reverse {
			o[i] = n - 1 - i
		} else {
			o[i] = i
		}
	}
	return o
}
