module verif/harness

go 1.23

require (
	github.com/goblimey/go-crc24q v0.0.0-20210107174841-6ea518daa3aa
	github.com/goblimey/go-ntrip v0.0.0
	github.com/goblimey/go-tools v0.0.11
)

replace github.com/goblimey/go-ntrip => /repo
