package main

// C10 / C11 for rtcmfilter: the real HandleMessages(start, reader, writer, config).

import (
	"bytes"
	"fmt"
	"math/rand"
	"os"
	"path/filepath"
	"strings"
	"testing"
	"time"

	"github.com/goblimey/go-ntrip/jsonconfig"
)

func readGlob(dir, pattern string) []byte {
	files, _ := filepath.Glob(filepath.Join(dir, pattern))
	var all []byte
	for _, f := range files {
		b, _ := os.ReadFile(f)
		all = append(all, b...)
	}
	return all
}

func TestVerifFilter(t *testing.T) {
	t0 := time.Now()
	prop := os.Getenv("VERIF_PROP")
	res := vNew(prop, "overlay test in package main of apps/rtcmfilter: the real HandleMessages on mixed streams (valid frames of decodable and other types, corrupted frames, "+
		"junk) through chunked readers (a third of them returning their last bytes together with the end-of-file error), for the four display/record switch combinations, with and without a tolerance for end of file, with writer latencies 0/1/5 ms (C11: 1/5/20 ms, and a writer that stalls for 8 s - thorough 35 s - on the write that completes the output, and in another case on the very first write); at the instant HandleMessages returns: output bytes == concatenation of the valid "+
		"frames == typed messages of sequential framing, record file == output, readable log has one entry per message; non-trivial = at least one valid frame; distinct = distinct stream")
	r := rand.New(rand.NewSource(res.Seed))
	start := time.UnixMilli(1683979200000).UTC()
	n := res.n(100, 1000)
	rp := vReplay("filter")
	if rp != nil {
		n = 1
	}
	for i := 0; i < n && vHangs < 3; i++ { // three calls that never returned settle the verdict
		maxFrame := res.n(60, 400)
		if i%7 == 6 {
			maxFrame = 1023 // frames of every legal length, the longest included
		}
		bs, frames := vStream(r, maxFrame)
		// the last case(s): the writer stalls for seconds on the write that completes the output
		var stall time.Duration
		stallFirst := false
		if prop == "C11" && i >= n-2 {
			stall = time.Duration(res.n(8, 35)) * time.Second
			stallFirst = i == n-2 // the last but one case: the stall hits the FIRST write, with more messages to come
			for len(frames) < 3 { // a stalling case needs writes to stall: a stream with several valid frames
				bs, frames = vStream(r, maxFrame)
			}
			// ... and one that ends in a valid frame, so that the stalled write can be the very last thing
			last := vRandFrame(r, 1+r.Intn(40))
			bs, frames = append(bs, last...), append(frames, last)
		}
		stray := i%5 == 4 && stall == 0
		if stray {
			// stray start bytes in front of frames, truncated last frame: the expected output comes from the framing rules
			bs, frames = vStreamStray(r), nil
		}
		display, record := i%2 == 1, i%4 >= 2
		dir, _ := os.MkdirTemp("", "verif-filter")
		cfg := jsonconfig.Config{DisplayMessages: display, RecordMessages: record, MessageLogDirectory: dir}
		// every third case (the stalling ones included) runs with a tolerance for end of file, as a live
		// feed is configured: the reader then rides out 20 ms of silence before it gives up
		eofTolerance := i%3 == 1 || stall > 0
		if eofTolerance {
			cfg.TimeoutOnEOFMilliSeconds, cfg.WaitTimeOnEOFMilliseconds = 20, 5
		}
		delay := []time.Duration{0, 0, time.Millisecond, 5 * time.Millisecond}[r.Intn(4)]
		if prop == "C11" {
			delay = []time.Duration{time.Millisecond, 5 * time.Millisecond, 20 * time.Millisecond}[r.Intn(3)]
		}
		chunks := []int{1 + r.Intn(5), 1 + r.Intn(64), 4096}
		switch i % 6 {
		case 3:
			chunks = append(chunks, 0) // the last bytes arrive together with end of file
		case 5:
			chunks = []int{8192, 0} // the whole input in one read, together with end of file
		}
		if rp != nil {
			bs = vUnhx(rp["stream"])
			frames, stray = nil, true
			display, record = rp["display"] == "true", rp["record"] == "true"
			delay, _ = time.ParseDuration(rp["delay"])
			chunks = vInts(rp["chunks"])
			stall, _ = time.ParseDuration(rp["stall"])
			stallFirst = rp["stallfirst"] == "true"
			cfg.DisplayMessages, cfg.RecordMessages = display, record
			eofTolerance = rp["tolerance"] == "true"
			cfg.TimeoutOnEOFMilliSeconds, cfg.WaitTimeOnEOFMilliseconds = 0, 0
			if eofTolerance {
				cfg.TimeoutOnEOFMilliSeconds, cfg.WaitTimeOnEOFMilliseconds = 20, 5
			}
		}
		var inputDone int32
		stallAt := 0
		for _, sg := range vSegments(bs) {
			if sg.typed {
				stallAt += len(sg.raw)
			}
		}
		if stallFirst {
			stallAt = 1
		}
		w := &slowWriter{delay: delay, stall: stall, stallAt: stallAt}
		class := fmt.Sprintf("display=%v,record=%v", display, record)
		if stall > 0 {
			class += ",writer-stalls-after-end-of-input"
		}
		if stray {
			class += ",stray-start-bytes"
		}
		op := fmt.Sprintf("filter display=%v record=%v delay=%v stall=%v stallfirst=%v tolerance=%v chunks=%s stream=%s", display, record, delay, stall, stallFirst, eofTolerance, vIntsText(chunks), vhx(bs))
		failure := ""
		vMark(op)
		func() {
			defer func() {
				if p := recover(); p != nil {
					failure = fmt.Sprint("panic: ", p)
				}
			}()
			done := make(chan struct{})
			go func() {
				defer close(done)
				HandleMessages(start, &chunked{data: append([]byte{}, bs...), chunks: chunks, done: &inputDone}, w, &cfg)
			}()
			select {
			case <-done:
			case <-time.After(60 * time.Second):
				failure = "HandleMessages did not return"
				vHangs++
				return
			}
			// the instant of return
			got := w.snapshot()
			rec := readGlob(dir, "rtcmfilter.*.rtcm")
			readable := readGlob(dir, "rtcm.*.txt")
			var want []byte
			segs := vSegments(bs)
			if stray {
				for _, sg := range segs {
					if sg.typed {
						frames = append(frames, sg.raw)
					}
				}
			}
			for _, f := range frames {
				want = append(want, f...)
			}
			ref := vSequential(start, bs)
			var wantSeq []byte
			for _, m := range ref {
				if m.MessageType >= 0 {
					wantSeq = append(wantSeq, m.RawData...)
				}
			}
			switch {
			case !bytes.Equal(wantSeq, want):
				failure = "sequential framing does not yield exactly the valid frames of the stream (C03)"
			case !bytes.Equal(got, want):
				failure = fmt.Sprintf("at return the output holds %d bytes, the valid frames of the input are %d bytes: %s", len(got), len(want), vhx(got))
			case record && !bytes.Equal(rec, want):
				failure = fmt.Sprintf("at return the record file holds %d bytes, expected %d", len(rec), len(want))
			case !record && len(rec) != 0:
				failure = "a record file was written although recording is off"
			}
			if failure == "" && display {
				entries := 0
				for _, l := range strings.Split(string(readable), "\n") {
					if strings.HasPrefix(l, "Message type ") {
						entries++
					}
				}
				if entries != len(segs) {
					failure = fmt.Sprintf("the readable log has %d entries, the framing rules cut the input into %d messages", entries, len(segs))
				}
			}
		}()
		os.RemoveAll(dir)
		outcome := "ok"
		if failure != "" {
			outcome = "fail"
		}
		res.record(class, op, outcome, len(frames) > 0, failure)
	}
	res.write(t0)
}
