package main

// C11 for displayrtcm3: at the instant HandleMessages returns, everything has been written.

import (
	"bytes"
	"fmt"
	"math/rand"
	"testing"
	"time"

	"github.com/goblimey/go-ntrip/jsonconfig"
)

func TestVerifDisplay(t *testing.T) {
	t0 := time.Now()
	res := vNew("C11", "overlay test in package main of apps/displayrtcm3: the real HandleMessages on mixed streams with a writer sleeping 1/5/20 ms per call; the bytes held by the writer at the "+
		"instant of return must equal those of a reference run with an instant writer taken at quiescence; non-trivial = at least one message; distinct = distinct stream")
	r := rand.New(rand.NewSource(res.Seed))
	start := time.UnixMilli(1683979200000).UTC()
	n := res.n(16, 150)
	headingCalls, headingLen := -1, 0
	rp := vReplay("display")
	if rp != nil {
		n = 1
	}
	for i := 0; i < n && vHangs < 3; i++ { // three calls that never returned settle the verdict
		maxFrame := res.n(40, 200)
		if i%7 == 6 {
			maxFrame = 1023
		}
		bs, frames := vStream(r, maxFrame)
		if i%4 == 3 {
			bs = vStreamStray(r)
		}
		delay := []time.Duration{time.Millisecond, 5 * time.Millisecond, 20 * time.Millisecond}[r.Intn(3)]
		chunkList := []int{1 + r.Intn(9), 4096}
		switch i % 6 {
		case 2:
			chunkList = append(chunkList, 0) // the last bytes arrive together with end of file
		case 4:
			chunkList = []int{8192, 0}
		}
		var stall time.Duration
		stallFirst := false
		if i >= n-2 {
			stall = time.Duration(res.n(8, 35)) * time.Second
			stallFirst = i == n-2
			for len(frames) < 3 {
				bs, frames = vStream(r, maxFrame)
			}
			// ... and one that ends in a valid frame, so that the stalled write can be the very last thing
			last := vRandFrame(r, 1+r.Intn(40))
			bs, frames = append(bs, last...), append(frames, last)
		}
		if rp != nil {
			bs = vUnhx(rp["stream"])
			frames = vFramesOf(start, bs)
			delay, _ = time.ParseDuration(rp["delay"])
			stall, _ = time.ParseDuration(rp["stall"])
			stallFirst = rp["stallfirst"] == "true"
			chunkList = vInts(rp["chunks"])
		}
		var cfg jsonconfig.Config
		op := fmt.Sprintf("display delay=%v stall=%v stallfirst=%v chunks=%s stream=%s", delay, stall, stallFirst, vIntsText(chunkList), vhx(bs))
		vMark(op)
		// reference: instant writer, read after quiescence
		refW := &slowWriter{}
		HandleMessages(start, &chunked{data: append([]byte{}, bs...), chunks: []int{4096}}, refW, &cfg)
		time.Sleep(30 * time.Millisecond)
		want := refW.snapshot()
		// what the writer gets besides the messages (the heading): the calls of a run on empty input
		if headingCalls < 0 {
			hw := &slowWriter{}
			HandleMessages(start, &chunked{data: nil, chunks: []int{4096}}, hw, &cfg)
			time.Sleep(30 * time.Millisecond)
			headingCalls = hw.callCount()
			headingLen = len(hw.snapshot())
		}
		wantCalls := headingCalls + len(vSegments(bs))
		var inputDone int32
		w := &slowWriter{delay: delay, stall: stall, stallAt: len(want)}
		if stallFirst {
			w.stallAt = headingLen + 1 // the first write after the heading
		}
		failure := ""
		func() {
			defer func() {
				if p := recover(); p != nil {
					failure = fmt.Sprint("panic: ", p)
				}
			}()
			done := make(chan struct{})
			go func() {
				defer close(done)
				HandleMessages(start, &chunked{data: append([]byte{}, bs...), chunks: chunkList, done: &inputDone}, w, &cfg)
			}()
			select {
			case <-done:
			case <-time.After(120 * time.Second):
				failure = "HandleMessages did not return"
				vHangs++
				return
			}
			got := w.snapshot()
			if !bytes.Equal(got, want) {
				failure = fmt.Sprintf("at return the writer holds %d of %d bytes (writer latency %v)", len(got), len(want), delay)
			} else if calls := w.callCount(); calls != wantCalls {
				failure = fmt.Sprintf("at return the writer has been called %d times; the framing rules cut the input into %d messages (+%d heading writes): a message derived from the input was never written", calls, wantCalls-headingCalls, headingCalls)
			}
		}()
		outcome := "ok"
		if failure != "" {
			outcome = "fail"
		}
		res.record(fmt.Sprintf("latency=%v", delay), op, outcome, len(frames) > 0 || len(bs) > 0, failure)
	}
	res.write(t0)
}
