package main

// Helpers shared by the overlay tests that /verif injects into the `package main`
// applications with `go test -overlay` (nothing is written to /repo).

import (
	"strings"
	"encoding/hex"
	"encoding/json"
	"log/slog"
	"math/rand"
	"os"
	"strconv"
	"sync"
	"sync/atomic"
	"time"

	rtcm "github.com/goblimey/go-ntrip/rtcm/handler"
)

type vOracleFailure struct {
	Class  string `json:"class"`
	Op     string `json:"op"`
	Impl   string `json:"impl"`
	Detail string `json:"detail"`
}

type vResult struct {
	Property           string           `json:"property"`
	Tier               string           `json:"tier"`
	Seed               int64            `json:"seed"`
	Evaluations        int              `json:"evaluations"`
	DistinctNontrivial int              `json:"distinct_nontrivial"`
	Rule               string           `json:"rule"`
	Classes            map[string]int   `json:"classes"`
	Outcomes           map[string]int   `json:"outcomes"`
	Branches           map[string]int   `json:"branches"`
	Samples            []string         `json:"samples"`
	Disagreements      []interface{}            `json:"disagreements"`
	OracleFailures     []vOracleFailure `json:"oracle_failures"`
	Extra              map[string]interface{}   `json:"extra"`
	Exhaustive         bool             `json:"exhaustive"`
	WallS              float64          `json:"wall_s"`
	Notes              []string         `json:"notes"`
}

func vNew(prop, rule string) *vResult {
	seed, _ := strconv.ParseInt(os.Getenv("VERIF_SEED"), 10, 64)
	if seed == 0 {
		seed = 1
	}
	tier := os.Getenv("VERIF_TIER")
	if tier == "" {
		tier = "quick"
	}
	return &vResult{Property: prop, Tier: tier, Seed: seed, Rule: rule, Classes: map[string]int{}, Outcomes: map[string]int{},
		Branches: map[string]int{}, Extra: map[string]interface{}{}}
}

func (r *vResult) thorough() bool { return r.Tier == "thorough" }
func (r *vResult) n(q, t int) int {
	if r.thorough() {
		return t
	}
	return q
}

func (r *vResult) record(class, op, outcome string, nontrivial bool, failure string) {
	r.Evaluations++
	r.Classes[class]++
	r.Outcomes[outcome]++
	if nontrivial {
		r.DistinctNontrivial++
	}
	if len(r.Samples) < 12 && r.Classes[class] == 1 {
		s := class + ": " + op
		if len(s) > 300 {
			s = s[:300] + "…"
		}
		r.Samples = append(r.Samples, s+" => "+outcome)
	}
	if failure != "" && len(r.OracleFailures) < 20 {
		if len(op) > 400000 {
			op = op[:400000]
		}
		r.OracleFailures = append(r.OracleFailures, vOracleFailure{class, op, outcome, failure})
	}
}

func (r *vResult) write(start time.Time) {
	r.WallS = time.Since(start).Seconds()
	b, _ := json.MarshalIndent(r, "", " ")
	if out := os.Getenv("VERIF_OUT"); out != "" {
		os.WriteFile(out, b, 0o644)
		os.Remove(out + ".current")
	}
}

// vMark records the case about to run: if the code under test kills the test process (a panic in
// one of its own goroutines cannot be recovered here) the check reads it back as the failing input.
func vMark(op string) {
	if out := os.Getenv("VERIF_OUT"); out != "" {
		os.WriteFile(out+".current", []byte(op), 0o644)
	}
}

func vCrc24(data []byte) uint32 {
	var crc uint32
	for _, b := range data {
		crc ^= uint32(b) << 16
		for i := 0; i < 8; i++ {
			crc <<= 1
			if crc&0x1000000 != 0 {
				crc ^= 0x1864CFB
			}
		}
	}
	return crc & 0xFFFFFF
}

func vFrame(payload []byte) []byte {
	n := len(payload)
	f := []byte{0xd3, byte(n >> 8), byte(n)}
	f = append(f, payload...)
	c := vCrc24(f)
	return append(f, byte(c>>16), byte(c>>8), byte(c))
}

var vTypes = []int{1005, 1006, 1074, 1077, 1084, 1087, 1094, 1097, 1124, 1127, 1230, 4095, 1019}

func vRandFrame(r *rand.Rand, n int) []byte {
	p := make([]byte, n)
	r.Read(p)
	typ := vTypes[r.Intn(len(vTypes))]
	p[0] = byte(typ >> 4)
	if n > 1 {
		p[1] = byte(typ<<4) | p[1]&0x0f
	}
	if n > 12 && r.Intn(2) == 0 {
		// sparse MSM masks so that full decoding gets somewhere
		for i := 12; i < 24 && i < n; i++ {
			p[i] &= byte(r.Intn(256)) & byte(r.Intn(256)) & byte(r.Intn(256))
		}
	}
	return vFrame(p)
}

func vJunk(r *rand.Rand, n int) []byte {
	b := make([]byte, n)
	for i := range b {
		b[i] = byte(32 + r.Intn(90))
	}
	return b
}

// vStream makes a mixed stream and returns it with the valid frames it contains, in order.
func vStream(r *rand.Rand, maxFrame int) (bs []byte, frames [][]byte) {
	for k := 0; k < 1+r.Intn(7); k++ {
		switch r.Intn(6) {
		case 0:
			bs = append(bs, vJunk(r, 1+r.Intn(30))...)
		case 1:
			f := vRandFrame(r, 1+r.Intn(40))
			f[3+r.Intn(len(f)-3)] ^= byte(1 + r.Intn(255))
			if vValid(f) {
				continue
			}
			bs = append(bs, vJunk(r, 1)...)
			bs = append(bs, f...)
			bs = append(bs, vJunk(r, 1)...)
		default:
			f := vRandFrame(r, 1+r.Intn(maxFrame))
			bs = append(bs, f...)
			frames = append(frames, f)
		}
	}
	return
}

func vValid(f []byte) bool {
	if len(f) < 7 || f[0] != 0xd3 || f[1]&0xfc != 0 {
		return false
	}
	n := int(f[1]&3)<<8 | int(f[2])
	if n == 0 || len(f) != n+6 {
		return false
	}
	c := vCrc24(f[:len(f)-3])
	return f[len(f)-3] == byte(c>>16) && f[len(f)-2] == byte(c>>8) && f[len(f)-1] == byte(c)
}

// vSequential frames bs with the real handler, sequentially.
func vSequential(start time.Time, bs []byte) []rtcm.Message {
	h := rtcm.New(start, slog.LevelDebug)
	in := make(chan byte)
	out := make(chan rtcm.Message)
	go func() {
		for _, b := range bs {
			in <- b
		}
		close(in)
	}()
	go h.HandleMessages(in, out)
	var ms []rtcm.Message
	for m := range out {
		ms = append(ms, m)
	}
	return ms
}

// slowWriter is an io.Writer that takes its time and remembers what it was given.
type slowWriter struct {
	mu    sync.Mutex
	buf   []byte
	delay time.Duration
	calls int
	// stall: the Write that completes the expected output (stallAt bytes in all) blocks for this
	// long before it takes the data - a downstream reader that stops reading for a while just
	// before the end
	stall   time.Duration
	stallAt int
	stalled int32
}

func (w *slowWriter) Write(p []byte) (int, error) {
	if w.stall > 0 {
		w.mu.Lock()
		last := len(w.buf)+len(p) >= w.stallAt
		w.mu.Unlock()
		if last && atomic.CompareAndSwapInt32(&w.stalled, 0, 1) {
			time.Sleep(w.stall)
		}
	}
	if w.delay > 0 {
		time.Sleep(w.delay)
	}
	w.mu.Lock()
	w.buf = append(w.buf, p...)
	w.calls++
	w.mu.Unlock()
	return len(p), nil
}

func (w *slowWriter) snapshot() []byte {
	w.mu.Lock()
	defer w.mu.Unlock()
	return append([]byte{}, w.buf...)
}

// chunked delivers data in chunks of the given sizes (cycled).
// vHangs counts calls of the application entry point that did not return within the time limit.
var vHangs int

type chunked struct {
	data   []byte
	chunks []int
	k      int
	done   *int32 // set to 1 when end of file has been reported
}

// Read hands out the data in pieces of the listed sizes (cyclically).  A 0 in the list is not a
// size: it says that the last bytes are returned TOGETHER with the end-of-file error, as the
// io.Reader contract allows, instead of on a call of their own.
func (c *chunked) Read(p []byte) (int, error) {
	if len(c.data) == 0 {
		if c.done != nil {
			atomic.StoreInt32(c.done, 1)
		}
		return 0, eofErr()
	}
	withEOF := false
	for _, x := range c.chunks {
		if x == 0 {
			withEOF = true
		}
	}
	n := 0
	for n == 0 {
		n = c.chunks[c.k%len(c.chunks)]
		c.k++
	}
	if n > len(p) {
		n = len(p)
	}
	if n > len(c.data) {
		n = len(c.data)
	}
	copy(p, c.data[:n])
	c.data = c.data[n:]
	if withEOF && len(c.data) == 0 {
		if c.done != nil {
			atomic.StoreInt32(c.done, 1)
		}
		return n, eofErr()
	}
	return n, nil
}

func vhx(b []byte) string {
	if len(b) == 0 {
		return "-"
	}
	return hex.EncodeToString(b)
}

// vReplay returns the fields of the op in VERIF_REPLAY ("" when the run is not a replay):
// the key=value tokens of a line like `filter display=true record=false delay=5ms chunks=3,17,4096 stream=<hex>`.
func vReplay(kind string) map[string]string {
	op := os.Getenv("VERIF_REPLAY")
	if op == "" || !strings.HasPrefix(op, kind+" ") {
		return nil
	}
	kv := map[string]string{}
	for _, tok := range strings.Fields(op)[1:] {
		if i := strings.IndexByte(tok, '='); i > 0 {
			kv[tok[:i]] = tok[i+1:]
		}
	}
	return kv
}

func vUnhx(s string) []byte {
	if s == "-" {
		return nil
	}
	b, _ := hex.DecodeString(s)
	return b
}

func vInts(s string) []int {
	var out []int
	for _, t := range strings.Split(s, ",") {
		n, err := strconv.Atoi(t)
		if err == nil && n > 0 {
			out = append(out, n)
		}
	}
	if len(out) == 0 {
		out = []int{4096}
	}
	return out
}

func vIntsText(xs []int) string {
	var parts []string
	for _, x := range xs {
		parts = append(parts, strconv.Itoa(x))
	}
	return strings.Join(parts, ",")
}

// vFramesOf lists the valid frames of a stream by sequential framing with the real handler.
func vFramesOf(start time.Time, bs []byte) [][]byte {
	var frames [][]byte
	for _, m := range vSequential(start, bs) {
		if m.MessageType >= 0 {
			frames = append(frames, m.RawData)
		}
	}
	return frames
}

// ---- the framing rules, written down independently of the code under test -------------------

type vSeg struct {
	typed bool
	raw   []byte
}

// vSegments cuts a stream into the messages the framing rules define: a run of bytes without a
// start byte is one non-RTCM message; at a start byte the next four bytes are examined - a leader
// with a non-zero reserved bit or a zero length makes those five bytes one non-RTCM message; a
// stream that ends before the announced frame is complete gives one non-RTCM message with the
// rest; a complete frame is one message, typed when its CRC matches and non-RTCM when it does not.
func vSegments(bs []byte) []vSeg {
	var out []vSeg
	i := 0
	for i < len(bs) {
		if bs[i] != 0xd3 {
			j := i
			for j < len(bs) && bs[j] != 0xd3 {
				j++
			}
			out = append(out, vSeg{false, bs[i:j]})
			i = j
			continue
		}
		if len(bs)-i < 5 {
			out = append(out, vSeg{false, bs[i:]})
			break
		}
		n := int(bs[i+1]&3)<<8 | int(bs[i+2])
		if bs[i+1]&0xfc != 0 || n == 0 {
			out = append(out, vSeg{false, bs[i : i+5]})
			i += 5
			continue
		}
		if len(bs)-i < n+6 {
			out = append(out, vSeg{false, bs[i:]})
			break
		}
		f := bs[i : i+n+6]
		out = append(out, vSeg{vValid(f), f})
		i += n + 6
	}
	return out
}

func (w *slowWriter) callCount() int {
	w.mu.Lock()
	defer w.mu.Unlock()
	return w.calls
}

// vStreamStray makes a stream in which stray start bytes (false frame starts: a reserved bit set,
// a zero length, a start byte in junk) sit at every small distance in front of valid frames, and
// which may end a few bytes into a frame.
func vStreamStray(r *rand.Rand) []byte {
	var bs []byte
	for k := 0; k < 1+r.Intn(4); k++ {
		switch r.Intn(4) {
		case 0:
			bs = append(bs, 0xd3, byte(4+r.Intn(250)))
		case 1:
			bs = append(bs, 0xd3, 0, 0)
		case 2:
			bs = append(bs, vJunk(r, 1+r.Intn(3))...)
			bs = append(bs, 0xd3)
		default:
			bs = append(bs, 0xd3, byte(r.Intn(4)), byte(r.Intn(256)))
		}
		bs = append(bs, vJunk(r, r.Intn(6))...)
		bs = append(bs, vRandFrame(r, 1+r.Intn(30))...)
		if r.Intn(2) == 0 {
			bs = append(bs, vRandFrame(r, 1+r.Intn(30))...)
		}
	}
	if r.Intn(3) == 0 {
		// the input ends 1..5 bytes into a frame
		f := vRandFrame(r, 4+r.Intn(20))
		bs = append(bs, f[:1+r.Intn(5)]...)
	}
	return bs
}
