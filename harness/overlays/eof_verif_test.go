package main

import "io"

func eofErr() error { return io.EOF }
