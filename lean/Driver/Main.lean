import Driver.Ops
/-!
Line-protocol driver over the executable model.  One operation per input line, one result
line per operation.  Core Lean only (no Mathlib), so it links as a `lean_exe`.
-/
open Ntrip

partial def loop (h : IO.FS.Stream) (out : IO.FS.Stream) : IO Unit := do
  let line ← h.getLine
  if line.isEmpty then return ()
  let toks := (line.trimAscii.toString.splitOn " ").filter (· ≠ "")
  out.putStrLn (Driver.handle toks)
  loop h out

def main : IO Unit := do
  let stdin ← IO.getStdin
  let stdout ← IO.getStdout
  loop stdin stdout
  stdout.flush
