import Ntrip.Model.Bits
/-! Operations of the line protocol.  Every branch that rejects input answers `bad-op`
    (never a default value). -/
namespace Driver
open Ntrip

def hexDigit (c : Char) : Option Nat :=
  if '0' ≤ c ∧ c ≤ '9' then some (c.toNat - '0'.toNat)
  else if 'a' ≤ c ∧ c ≤ 'f' then some (c.toNat - 'a'.toNat + 10)
  else if 'A' ≤ c ∧ c ≤ 'F' then some (c.toNat - 'A'.toNat + 10)
  else none

/-- Parse a hex string (`-` is the empty byte string). -/
def parseHex (s : String) : Option Bytes :=
  if s == "-" then some [] else
  let rec go : List Char → List UInt8 → Option Bytes
    | [], acc => some acc.reverse
    | [_], _ => none
    | a :: b :: rest, acc =>
      match hexDigit a, hexDigit b with
      | some x, some y => go rest (UInt8.ofNat (16 * x + y) :: acc)
      | _, _ => none
  go s.toList []

def hexChar (n : Nat) : Char :=
  if n < 10 then Char.ofNat (n + '0'.toNat) else Char.ofNat (n - 10 + 'a'.toNat)

def toHex (bs : Bytes) : String :=
  if bs.isEmpty then "-" else
  String.ofList (bs.foldr (fun b acc => hexChar (b.toNat / 16) :: hexChar (b.toNat % 16) :: acc) [])

def showOptNat : Option Nat → String
  | some n => s!"ok {n}"
  | none => "panic"

def showOptInt : Option Int → String
  | some n => s!"ok {n}"
  | none => "panic"

def handle : List String → String
  | ["bitsu", h, p, l] =>
    match parseHex h, p.toNat?, l.toNat? with
    | some b, some pos, some len => showOptNat (getBitsU? b pos len)
    | _, _, _ => "bad-op"
  | ["bitsi", h, p, l] =>
    match parseHex h, p.toNat?, l.toNat? with
    | some b, some pos, some len => showOptInt (getBitsI? b pos len)
    | _, _, _ => "bad-op"
  | _ => "bad-op"

end Driver
