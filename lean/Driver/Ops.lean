import Ntrip.Model.Bits
import Ntrip.Model.SegmentT
import Ntrip.Model.Classify
import Ntrip.Model.Msm
import Ntrip.Model.Base
import Ntrip.Model.Analyse
import Ntrip.Spec.MsmCodec
import Ntrip.Model.Range
import Ntrip.Model.Queue
import Ntrip.Model.Reader
import Ntrip.Model.Report
import Ntrip.Model.F64
/-! Operations of the line protocol.  Every branch that rejects input answers `bad-op`
    (never a default value). -/
namespace Driver
open Ntrip

def hexDigit (c : Char) : Option Nat :=
  if '0' ≤ c ∧ c ≤ '9' then some (c.toNat - '0'.toNat)
  else if 'a' ≤ c ∧ c ≤ 'f' then some (c.toNat - 'a'.toNat + 10)
  else if 'A' ≤ c ∧ c ≤ 'F' then some (c.toNat - 'A'.toNat + 10)
  else none

/-- Parse a hex string (`-` is the empty byte string). -/
def parseHex (s : String) : Option Bytes :=
  if s == "-" then some [] else
  let rec go : List Char → List UInt8 → Option Bytes
    | [], acc => some acc.reverse
    | [_], _ => none
    | a :: b :: rest, acc =>
      match hexDigit a, hexDigit b with
      | some x, some y => go rest (UInt8.ofNat (16 * x + y) :: acc)
      | _, _ => none
  go s.toList []

def hexChar (n : Nat) : Char :=
  if n < 10 then Char.ofNat (n + '0'.toNat) else Char.ofNat (n - 10 + 'a'.toNat)

def toHex (bs : Bytes) : String :=
  if bs.isEmpty then "-" else
  String.ofList (bs.foldr (fun b acc => hexChar (b.toNat / 16) :: hexChar (b.toNat % 16) :: acc) [])

def showOptNat : Option Nat → String
  | some n => s!"ok {n}"
  | none => "panic"

def showOptInt : Option Int → String
  | some n => s!"ok {n}"
  | none => "panic"

def showOptI : Option Int → String
  | some n => toString n
  | none => "-"

/-- The error class visible in `Message.ErrorMessage` (a CRC failure sets none). -/
def shownErr : Err → Err
  | .crc => .none
  | e => e

def showMsgT (m : MsgT) : String :=
  s!"{m.typ}:{toHex m.raw}:{(shownErr m.err).toString}:{m.ts}:{showOptI m.sentAt}:{showOptI m.sow}"

def showGMT : GMT → String
  | .empty => "empty"
  | .msg m => s!"msg err={m.err.toString} {showMsgT m}"

/-- A sequence of `GetMessage` calls on one handler. -/
def getHist (st : TState) : List Bytes → List String
  | [] => []
  | b :: rest =>
    let (r, st') := getMessage crc24q st b
    showGMT r :: getHist st' rest

def parseHexes : List String → Option (List Bytes)
  | [] => some []
  | h :: t => match parseHex h, parseHexes t with
    | some b, some bs => some (b :: bs)
    | _, _ => none

def joinWith (sep : String) (xs : List String) : String := sep.intercalate xs

def showBoolRow (r : List Bool) : String := String.ofList (r.map (fun b => if b then 't' else 'f'))

def showHdr (h : MsmHeader) : String :=
  s!"hdr={h.typ},{h.station},{h.ts},{h.multiple},{h.iods},{h.sessionTime},{h.clockSteering},{h.externalClock},{h.smoothing},{h.smoothingInterval},{h.satMask},{h.sigMask},{h.cellMask},{h.numCells}" ++
  s!" sats={joinWith "," (h.sats.map toString)} sigs={joinWith "," (h.sigs.map toString)} cells={joinWith "/" (h.cells.map showBoolRow)}"

/-- The carrier frequency table of a constellation name (regenerated from the source). -/
def freqTableOf (name : String) : Option (List (Nat × Int) × Int) :=
  if name == "GPS" then Gen.utils_getSignalFrequencyGPS
  else if name == "Galileo" then Gen.utils_getSignalFrequencyGalileo
  else if name == "Glonass" then Gen.utils_getSignalFrequencyGlonass
  else if name == "Beidou" then Gen.utils_getSignalFrequencyBeidou
  else none

def f64Text (v : F64.Val) : String := let (neg, e, mant) := F64.ieee v; s!"{neg}/{e}/{mant}"

def showMsm (m : MsmMsg) : String :=
  let sats := (m.hdr.sats.zip m.sats).map (fun (id, vs) => s!" sat={id}:" ++ joinWith ":" (vs.map toString))
  let sigs := m.sigs.flatten.map (fun c => s!" sig={c.satIdx}:{c.satId}:{c.sigId}:" ++ joinWith ":" (c.vals.map toString))
  let name := constellation m.hdr.typ
  let wl (sigId : Nat) : String :=
    match freqTableOf name with
    | some (rows, _) => (match rows.lookup sigId with
        | some f => f64Text (F64.wavelength f.toNat)
        | none => "false/0/0")
    | none => "false/0/0"
  "ok " ++ showHdr m.hdr ++ String.join sats ++ s!" nsigrows={m.sigs.length}" ++ String.join sigs ++
  s!" const={name.replace " " "_"} wl={joinWith "," (m.sigs.flatten.map (fun c => wl c.sigId))}"

def showMsmRes : Res MsmMsg → String
  | .ok m => showMsm m
  | .err e => "err " ++ e.toString
  | .panic => "panic"

def showBase : Res (List Int) → String
  | .ok vs => "ok " ++ joinWith " " (vs.map toString)
  | .err e => "err " ++ e.toString
  | .panic => "panic"

def showAnalyse : Res Readable → String
  | .ok (.msm .msm4 _) => "ok msm4"
  | .ok (.msm .msm7 _) => "ok msm7"
  | .ok (.base .t1005 _) => "ok 1005"
  | .ok (.base .t1006 _) => "ok 1006"
  | .ok .text => "text"
  | .err e => "err " ++ e.toString
  | .panic => "panic"

def parseInts (s : String) : Option (List Int) :=
  if s == "-" then some [] else (s.splitOn ",").mapM (fun t => t.toInt?)

def parseCols (s : String) : Option (List (List Int)) :=
  if s == "-" then some [] else (s.splitOn ";").mapM parseInts

/-- Run queue operations `a<id>` (add) and `g` (snapshot); answer the snapshots. -/
def runQueue (q : CQ Nat) : List String → List String
  | [] => []
  | op :: rest =>
    if op == "g" then s!"[{joinWith "," (q.get.map toString)}]/{q.items.length}" :: runQueue q rest
    else match (op.drop 1).toString.toNat? with
      | some id => runQueue (q.add id) rest
      | none => ["bad-op"]

/-- `queuelong <cap> <n>`: additions 0 … n-1 with a snapshot after each number of additions
    listed in `checkpoints`. -/
def queueCheckpoints (n : Nat) : List Nat :=
  let ks := (List.range 22).filter (· ≥ 3)
  ((ks.map (fun k => [2 ^ k - 1, 2 ^ k, 2 ^ k + 1])).flatten ++ [n]).filter (· ≤ n)

def runQueueLong (cap : Int) (n : Nat) : String :=
  let cps := queueCheckpoints n
  let rec go (i : Nat) (fuel : Nat) (q : CQ Nat) (acc : List String) : List String :=
    match fuel with
    | 0 => acc.reverse
    | fuel + 1 =>
      let q := q.add i
      let added := i + 1
      let acc := if cps.contains added then s!"{added}:[{joinWith "," (q.get.map toString)}]" :: acc else acc
      go (i + 1) fuel q acc
  joinWith " " (go 0 n (CQ.new cap) [])

def parseReadItems : List String → Option (List ReadRes)
  | [] => some []
  | t :: rest =>
    match parseReadItems rest with
    | none => none
    | some more =>
      if t == "eof" then some (.eof :: more)
      else if t == "to" then some (.timeout :: more)
      else if t == "err" then some (.other :: more)
      else if t.startsWith "b:" then
        match parseHex (t.drop 2).toString with
        | some bs => some (bs.map ReadRes.byte ++ more)
        | none => none
      -- data returned together with an error: bufio hands the data over first, then the error
      else if t.startsWith "be:" || t.startsWith "bt:" || t.startsWith "bx:" then
        match parseHex (t.drop 3).toString with
        | some bs => some (bs.map ReadRes.byte ++
            (if t.startsWith "be:" then ReadRes.eof else if t.startsWith "bt:" then ReadRes.timeout else ReadRes.other) :: more)
        | none => none
      else none

/-- An ideal clock: `time.Now()` readings when only the sleeps take time (plus 1 ms each). -/
def idealClock (cfg : RCfg) : List ReadRes → Bool → Nat → List Nat
  | [], _, _ => []
  | .byte _ :: rest, _, t => idealClock cfg rest false t
  | .other :: rest, _, t => idealClock cfg rest false t
  | _ :: rest, inRun, t =>
    if inRun then t :: idealClock cfg rest true (t + cfg.tau + 1)
    else t :: idealClock cfg rest true (t + cfg.omega + 1)

def showStop : RStop → String
  | .otherError => "other-error" | .noTolerance => "no-tolerance"
  | .toleranceExpired => "tolerance-expired" | .scriptEnd => "script-end"

def handle : List String → String
  | "reader" :: t :: tau :: omega :: items =>
    match t.toInt?, tau.toNat?, omega.toNat?, parseReadItems items with
    | some T, some tau, some omega, some script =>
      let cfg : RCfg := ⟨tau, omega⟩
      -- after the script the reader keeps answering EOF
      let full := script ++ [.eof, .eof, .eof, .eof]
      let r := runReader cfg full { clock := idealClock cfg full false 0 }
      let ms := segmentT crc24q (newState T) (In.ofBytes r.1.forwarded)
      s!"stop={showStop r.2} fwd={toHex r.1.forwarded} msgs {ms.length}" ++ String.join (ms.map (fun m => s!" {m.typ}:{toHex m.raw}"))
    | _, _, _, _ => "bad-op"
  | ["disp4", n] =>
    match n.toInt? with
    | some n =>
      let v := F64.mul (F64.ofInt n) F64.c0001
      let (neg, e, mant) := F64.ieee v
      s!"f64 {neg} {e} {mant} {F64.render4 (F64.fixed4 v)}"
    | none => "bad-op"
  | ["sanitise", h] =>
    match parseHex h with
    | some b => "text " ++ toHex ((sanitise (b.map (fun x => Char.ofNat x.toNat))).map (fun c => UInt8.ofNat c.toNat))
    | none => "bad-op"
  | ["queuelong", cap, n] =>
    match cap.toInt?, n.toNat? with
    | some c, some n => runQueueLong c n
    | _, _ => "bad-op"
  | "queue" :: cap :: ops =>
    match cap.toInt? with
    | some c => joinWith " " (runQueue (CQ.new c) ops)
    | none => "bad-op"
  | ["msmenc", k, pad, hv, cm, sat, sig, _go] =>
    match pad.toNat?, parseInts hv, cm.toNat?, parseCols sat, parseCols sig with
    | some pad, some hvals, some cellMask, some satCols, some sigCols =>
      let kind := if k == "7" then MsmKind.msm7 else MsmKind.msm4
      let m : MsmSpec := { hvals := hvals, cellMask := cellMask, satCols := satCols, sigCols := sigCols }
      toHex (packBits (msmBits kind m) ++ List.replicate pad 0)
    | _, _, _, _, _ => "bad-op"
  | "range" :: w :: f :: d7 :: p7 :: rate :: rd :: d4 :: p4 :: rest =>
    match w.toNat?, f.toNat?, d7.toInt?, p7.toInt?, rate.toInt?, rd.toInt?, d4.toInt?, p4.toInt? with
    | some w, some f, some d7, some p7, some rate, some rd, some d4, some p4 =>
      -- constellation index and signal id (the carrier frequency comes from the regenerated tables)
      let (cons, sig) := match rest with
        | c :: s :: _ => (c.toNat?.getD 0 % 5, s.toNat?.getD 2)
        | _ => (0, 2)
      let table := match cons with
        | 0 => Gen.utils_getSignalFrequencyGPS | 1 => Gen.utils_getSignalFrequencyGalileo
        | 2 => Gen.utils_getSignalFrequencyGlonass | 3 => Gen.utils_getSignalFrequencyBeidou | _ => none
      let freq : Option Nat := match table with
        | some (rows, _) => (rows.lookup sig).map Int.toNat
        | none => none
      let f64 (v : F64.Val) : String := let (neg, e, mant) := F64.ieee v; s!"{neg}/{e}/{mant}"
      let metres (s : Nat) : F64.Val := F64.mul (F64.scale2 (F64.ofInt s) (-29)) F64.cLightMs
      s!"r7={aggregateRange7 w f d7} p7={aggregatePhase7 w f p7} rate={aggregateRate7 rate rd} r4={aggregateRange4 w f d4} p4={aggregatePhase4 w f p4}" ++
      s!" m7={f64 (metres (aggregateRange7 w f d7))} m4={f64 (metres (aggregateRange4 w f d4))} ms={f64 (F64.divConst (F64.ofInt (aggregateRate7 rate rd)) 10000)}" ++
      (match freq with
       | some fr => s!" c7={f64 (F64.phaseCycles (aggregatePhase7 w f p7) fr)} c4={f64 (F64.phaseCycles (aggregatePhase4 w f p4) fr)} dop={f64 (F64.dopplerHz (aggregateRate7 rate rd) fr)}"
       | none => " c7=- c4=- dop=-")
    | _, _, _, _, _, _, _, _ => "bad-op"
  | "pipe" :: t :: h :: _ =>
    -- the pipeline delivers, to every consumer and under every schedule, the sequential segmentation
    match t.toInt?, parseHex h with
    | some T, some b =>
      let ms := segmentT crc24q (newState T) (In.ofBytes b)
      s!"ok msgs {ms.length}" ++ String.join (ms.map (fun m => s!" {m.typ}:{toHex m.raw}"))
    | _, _ => "bad-op"
  | "determ" :: t :: hs =>
    match t.toInt?, parseHexes hs with
    | some T, some bs =>
      joinWith " | " (bs.map (fun b =>
        match (getMessage crc24q (newState T) b).1 with
        | .empty => "empty"
        | .msg m => s!"{m.typ}:{toHex m.raw} analyse=" ++ showAnalyse (analyse m.typ m.raw)))
    | _, _ => "bad-op"
  | ["analyse", t, h] =>
    match t.toInt?, parseHex h with
    | some T, some b =>
      match (getMessage crc24q (newState T) b).1 with
      | .empty => "empty"
      | .msg m => showGMT (.msg m) ++ " analyse=" ++ showAnalyse (analyse m.typ m.raw)
    | _, _ => "bad-op"
  | "base5" :: h :: _ =>
    match parseHex h with
    | some b => showBase (decodeBase .t1005 b)
    | none => "bad-op"
  | "base6" :: h :: _ =>
    match parseHex h with
    | some b => showBase (decodeBase .t1006 b)
    | none => "bad-op"
  | "msm4" :: h :: _ =>
    match parseHex h with
    | some b => showMsmRes (decodeMsm .msm4 b)
    | none => "bad-op"
  | "msm7" :: h :: _ =>
    match parseHex h with
    | some b => showMsmRes (decodeMsm .msm7 b)
    | none => "bad-op"
  | ["classify", t] =>
    match t.toInt? with
    | some typ =>
      s!"msm4={isMSM4 typ} msm7={isMSM7 typ} msm={isMSM typ} const={(constellation typ).replace " " "_"} " ++
      s!"hdr={headerAccepts typ} analyse={(analyseDecoder typ).toString} ts={isMSM typ} title={titleNonEmpty typ} htype={typ}"
    | none => "bad-op"
  | ["crc", h] =>
    match parseHex h with
    | some b => s!"ok {crc24q b}"
    | none => "bad-op"
  | ["getmsg", t, h] =>
    match t.toInt?, parseHex h with
    | some T, some b => showGMT (getMessage crc24q (newState T) b).1
    | _, _ => "bad-op"
  | "gethist" :: t :: hs =>
    match t.toInt?, parseHexes hs with
    | some T, some bs => " | ".intercalate (getHist (newState T) bs)
    | _, _ => "bad-op"
  | "timehist" :: t :: _zone :: items =>
    -- items are <u or ->:<frame hex>; the true instants are for the harness's oracle only
    -- the start time may carry its sub-millisecond part as `<ms>+<ns>`: the model counts whole ms
    match ((t.splitOn "+").headD t).toInt?, parseHexes (items.map (fun k => ((k.splitOn ":").getD 1 "x"))) with
    | some T, some bs => " | ".intercalate (getHist (newState T) bs)
    | _, _ => "bad-op"
  | ["stream", t, h] =>
    match t.toInt?, parseHex h with
    | some T, some b =>
      let ms := segmentT crc24q (newState T) (In.ofBytes b)
      s!"msgs {ms.length}" ++ String.join (ms.map (fun m => " " ++ showMsgT m))
    | _, _ => "bad-op"
  | ["streamcap", t, h, _, _] =>
    match t.toInt?, parseHex h with
    | some T, some b =>
      let ms := segmentT crc24q (newState T) (In.ofBytes b)
      s!"msgs {ms.length}" ++ String.join (ms.map (fun m => " " ++ showMsgT m))
    | _, _ => "bad-op"
  | "streamseg" :: t :: toks =>
    -- `o:` tokens carry the intact form of a corrupted frame for the harness; not part of the stream
    match t.toInt?, parseHexes ((toks.filter (fun k => !k.startsWith "o:")).map (fun k => (k.drop 2).toString)) with
    | some T, some bs =>
      let ms := segmentT crc24q (newState T) (In.ofBytes bs.flatten)
      s!"msgs {ms.length}" ++ String.join (ms.map (fun m => " " ++ showMsgT m))
    | _, _ => "bad-op"
  | ["bitsu", h, p, l] =>
    match parseHex h, p.toNat?, l.toNat? with
    | some b, some pos, some len => showOptNat (getBitsU? b pos len)
    | _, _, _ => "bad-op"
  | ["bitsi", h, p, l] =>
    match parseHex h, p.toNat?, l.toNat? with
    | some b, some pos, some len => showOptInt (getBitsI? b pos len)
    | _, _, _ => "bad-op"
  | _ => "bad-op"

end Driver
