import Ntrip.Model.Bits
import Ntrip.Proofs.Bits
