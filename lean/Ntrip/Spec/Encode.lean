import Ntrip.Model.Bits
/-!
The encoder side of the round-trip properties (C04, C05): bit strings, packing into bytes
(most significant bit first, zero padding to the byte boundary), fields as fixed-width
big-endian numbers, signed fields in two's complement.
-/
namespace Ntrip

/-- Bit `i` of a bit string as 0/1 (0 beyond the end: the padding). -/
def bitN (bits : List Bool) (i : Nat) : Nat := if bits.getD i false then 1 else 0

/-- The byte made of bits `8k … 8k+7`. -/
def byteOf (f : Nat → Nat) (k : Nat) : Nat :=
  f (8*k) * 128 + f (8*k+1) * 64 + f (8*k+2) * 32 + f (8*k+3) * 16 +
  f (8*k+4) * 8 + f (8*k+5) * 4 + f (8*k+6) * 2 + f (8*k+7)

/-- Pack a bit string into bytes, padding the last byte with zero bits. -/
def packBits (bits : List Bool) : Bytes :=
  (List.range ((bits.length + 7) / 8)).map (fun k => UInt8.ofNat (byteOf (bitN bits) k))

/-- `w` bits of `v`, most significant first. -/
def natBits (w v : Nat) : List Bool :=
  (List.range w).map (fun i => (v / 2^(w - 1 - i)) % 2 == 1)

/-- A field value as `w` bits: unsigned as is, signed in two's complement. -/
def fieldBits (w : Nat) (v : Int) : List Bool := natBits w (v % 2^w).toNat

/-- Big-endian value of `n` bits of a bit function starting at `pos`. -/
def valN (f : Nat → Nat) (pos : Nat) : Nat → Nat
  | 0 => 0
  | n+1 => 2 * valN f pos n + f (pos + n)

/-- Range of a field value: unsigned `0 ≤ v < 2^w`, signed `-2^(w-1) ≤ v < 2^(w-1)`. -/
def InRange (signed : Bool) (w : Nat) (v : Int) : Prop :=
  if signed then -(2^(w-1) : Int) ≤ v ∧ v < 2^(w-1) else 0 ≤ v ∧ v < 2^w

end Ntrip
