import Ntrip.Proofs.ColumnsRoundTrip
/-!
The encoder side of C04: an abstract MSM message, its well-formedness, its encoding as the
standard lays it out, and what a correct decoder must return for it (`view`).
-/
namespace Ntrip

/-- The fixed part of the MSM header in the standard: type(12) station(12) timestamp(30)
    multiple(1) IODS(3) session time(7) clock steering(2) external clock(2) smoothing(1)
    smoothing interval(3) satellite mask(64) signal mask(32) — 169 bits. -/
def hdrStd : List Col :=
  [(false, 12), (false, 12), (false, 30), (false, 1), (false, 3), (false, 7), (false, 2), (false, 2),
   (false, 1), (false, 3), (false, 64), (false, 32)]

/-- Satellite data of the standard: MSM4 8+10 = 18 bits, MSM7 8+4+10+14 = 36 bits per satellite. -/
def satStd : MsmKind → List Col
  | .msm4 => [(false, 8), (false, 10)]
  | .msm7 => [(false, 8), (false, 4), (false, 10), (true, 14)]

/-- Signal data of the standard: MSM4 15+22+4+1+6 = 48 bits, MSM7 20+24+10+1+10+15 = 80 bits per cell. -/
def sigStd : MsmKind → List Col
  | .msm4 => [(true, 15), (true, 22), (false, 4), (false, 1), (false, 6)]
  | .msm7 => [(true, 20), (true, 24), (false, 10), (false, 1), (false, 10), (true, 15)]

/-- An abstract MSM message: the twelve fixed header values (in `hdrStd` order), the cell
    mask, the satellite data and the signal data, both field-major (one list per field). -/
structure MsmSpec where
  hvals : List Int
  cellMask : Nat
  satCols : List (List Int)
  sigCols : List (List Int)

namespace MsmSpec
def typ (m : MsmSpec) : Int := m.hvals.getD 0 0
def sats (m : MsmSpec) : List Nat := idsOfMask 64 (m.hvals.getD 10 0).toNat
def sigs (m : MsmSpec) : List Nat := idsOfMask 32 (m.hvals.getD 11 0).toNat
def nsat (m : MsmSpec) : Nat := m.sats.length
def nsig (m : MsmSpec) : Nat := m.sigs.length
def cells (m : MsmSpec) : List (List Bool) := cellsOfMask m.cellMask m.nsat m.nsig
def ncells (m : MsmSpec) : Nat := countCells m.cells
def multiple (m : MsmSpec) : Bool := (m.hvals.getD 3 0).toNat == 1
end MsmSpec

/-- Well-formed message of family `k`. -/
structure MsmWF (k : MsmKind) (m : MsmSpec) : Prop where
  hdr : FieldsWF hdrStd m.hvals
  family : k.accepts m.typ = true
  cellsFit : m.nsat * m.nsig ≤ 64
  cellMaskLt : m.cellMask < 2 ^ (m.nsat * m.nsig)
  sats : ColumnsWF m.nsat (satStd k) m.satCols
  sigs : ColumnsWF m.ncells (sigStd k) m.sigCols
  /-- a message that carries no signal cell is considered only with the multiple flag clear -/
  multi : m.multiple = true → 1 ≤ m.ncells

/-- The message bits in transmission order. -/
def msmBits (k : MsmKind) (m : MsmSpec) : List Bool :=
  encodeFields hdrStd m.hvals ++ (natBits (m.nsat * m.nsig) m.cellMask ++
    (encodeColumns (satStd k) m.satCols ++ encodeColumns (sigStd k) m.sigCols))

/-- The frame: any 3-byte leader, the message bits packed (zero bits to the byte boundary),
    `pad` zero bytes, any 3 CRC bytes. -/
def msmFrame (leader : Bytes) (k : MsmKind) (m : MsmSpec) (pad : Nat) (crc : Bytes) : Bytes :=
  leader ++ (packBits (msmBits k m) ++ (List.replicate pad 0 ++ crc))

/-- What a correct decoder returns: the header (with the lists implied by the masks), one row
    per satellite, and every signal cell attached to its satellite and signal id in cell-mask
    order. -/
def msmView (m : MsmSpec) : MsmMsg :=
  { hdr := mkHeader m.hvals m.cellMask,
    sats := transpose m.satCols m.nsat,
    sigs := attach m.sats m.sigs m.sigCols m.ncells m.cells 0 0 }

end Ntrip
