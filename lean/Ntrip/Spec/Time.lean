import Ntrip.Model.Time
/-!
True observation times (the specification side of C06 / C17).  Instants are Unix ms.
1970-01-04 00:00 UTC (day 3) was a Sunday.
-/
namespace Ntrip

inductive Constellation | gps | galileo | glonass | beidou
deriving DecidableEq, Repr

/-- Start of "week 0" of each constellation: Sunday 1970-01-04 00:00 UTC shifted by the
    constellation's offset — GPS/Galileo 18 s and BeiDou 4 s earlier, GLONASS 3 h earlier
    (Moscow time, UTC+3; Saturday 21:00 UTC). -/
def weekBase : Constellation → Int
  | .gps => 3 * 86400000 - 18000
  | .galileo => 3 * 86400000 - 18000
  | .beidou => 3 * 86400000 - 4000
  | .glonass => 3 * 86400000 - 10800000

/-- Milliseconds since the start of the constellation week containing `u`. -/
def weekPos (c : Constellation) (u : Int) : Int := (u - weekBase c) % 604800000

/-- The true start (UTC) of the constellation week containing `u`. -/
def trueWeekStart (c : Constellation) (u : Int) : Int := u - weekPos c u

/-- The 30-bit timestamp a receiver puts into an MSM observed at `u`. -/
def trueTs (c : Constellation) (u : Int) : Nat :=
  match c with
  | .glonass => ((weekPos c u) / 86400000).toNat * 2^27 + ((weekPos c u) % 86400000).toNat
  | _ => (weekPos c u).toNat

/-- The MSM message types of a constellation (MSM4 / MSM7). -/
def typesOf : Constellation → List Int
  | .gps => [1074, 1077]
  | .glonass => [1084, 1087]
  | .galileo => [1094, 1097]
  | .beidou => [1124, 1127]

/-- Legal timestamps: less than 7 days of ms; GLONASS day 0…6 and less than 24 h of ms. -/
def legalTs (c : Constellation) (ts : Nat) : Prop :=
  match c with
  | .glonass => ts / 2^27 ≤ 6 ∧ ts % 2^27 < 86400000
  | _ => ts < 604800000

end Ntrip
