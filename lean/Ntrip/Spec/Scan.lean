import Ntrip.Model.Frame
/-! List-level specification of one `FetchNextMessageFrame` call: no channel, no push-back. -/
namespace Ntrip
/-- List-level specification of one `FetchNextMessageFrame` (no channel, no push-back). -/
inductive Scan
  | done
  | junk (raw rest : Bytes)
  | frame (f rest : Bytes)
deriving DecidableEq, Repr

def scan (st : Bytes) : Scan :=
  match st with
  | [] => .done
  | b :: r =>
    if b ≠ 0xD3 then
      let j := st.takeWhile (· != 0xD3)
      .junk j (st.dropWhile (· != 0xD3))
    else if r.length < 4 then .junk st []
    else
      let hdr := st.take 5
      let lt := lengthAndType hdr
      if lt.2.2 ≠ .none then .junk hdr (st.drop 5)
      else if st.length < lt.1 + 6 then .junk st []
      else .frame (st.take (lt.1 + 6)) (st.drop (lt.1 + 6))

/-- `scan` consumes at least one byte whenever it returns something, and loses nothing. -/
theorem scan_junk_spec {st raw rest : Bytes} (h : scan st = .junk raw rest) :
    raw ++ rest = st ∧ raw ≠ [] := by
  unfold scan at h
  cases st with
  | nil => simp at h
  | cons b r =>
    simp only at h
    by_cases hb : b ≠ 0xD3
    · rw [if_pos hb] at h
      injection h with h1 h2
      subst h1 h2
      refine ⟨List.takeWhile_append_dropWhile, ?_⟩
      have : (b != 0xD3) = true := by simpa using hb
      simp [this]
    · rw [if_neg hb] at h
      split at h
      · injection h with h1 h2; subst h1 h2; simp
      · split at h
        · injection h with h1 h2; subst h1 h2
          exact ⟨List.take_append_drop 5 _, by simp⟩
        · split at h
          · injection h with h1 h2; subst h1 h2; simp
          · simp at h

theorem scan_frame_spec {st f rest : Bytes} (h : scan st = .frame f rest) :
    f ++ rest = st ∧ 6 ≤ f.length ∧ f.head? = some 0xD3 ∧
      lengthAndType (f.take 5) = (f.length - 6, (lengthAndType (f.take 5)).2.1, .none) := by
  unfold scan at h
  cases st with
  | nil => simp at h
  | cons b r =>
    simp only at h
    by_cases hb : b ≠ 0xD3
    · rw [if_pos hb] at h; simp at h
    · rw [if_neg hb] at h
      have hb' : b = 0xD3 := by simpa using hb
      subst hb'
      split at h
      · simp at h
      · rename_i h4
        split at h
        · simp at h
        · rename_i he
          split at h
          · simp at h
          · rename_i hl
            injection h with h1 h2
            subst h1 h2
            have hlen : (List.take ((lengthAndType (List.take 5 (0xD3 :: r))).1 + 6) (0xD3 :: r)).length
                = (lengthAndType (List.take 5 (0xD3 :: r))).1 + 6 := by
              rw [List.length_take]; omega
            refine ⟨List.take_append_drop _ _, by omega, by simp, ?_⟩
            have ht : List.take 5 (List.take ((lengthAndType (List.take 5 (0xD3 :: r))).1 + 6) (0xD3 :: r))
                = List.take 5 (0xD3 :: r) := by
              rw [List.take_take, Nat.min_eq_left (by omega)]
            rw [ht, hlen]
            have hee : (lengthAndType (List.take 5 (0xD3 :: r))).2.2 = Err.none := by
              simpa using he
            exact Prod.ext (by simp) (Prod.ext rfl hee)

theorem scan_done {st : Bytes} : scan st = .done ↔ st = [] := by
  unfold scan
  cases st with
  | nil => simp
  | cons b r =>
    simp only
    constructor
    · intro h
      split at h
      · simp at h
      · split at h
        · simp at h
        · split at h
          · simp at h
          · split at h <;> simp at h
    · intro h; simp at h

theorem scan_rest_lt {st : Bytes} :
    (∀ raw rest, scan st = .junk raw rest → rest.length < st.length) ∧
    (∀ f rest, scan st = .frame f rest → rest.length < st.length) := by
  constructor
  · intro raw rest h
    obtain ⟨h1, h2⟩ := scan_junk_spec h
    have : 0 < raw.length := List.length_pos_iff.mpr h2
    rw [← h1, List.length_append]; omega
  · intro f rest h
    obtain ⟨h1, h2, _⟩ := scan_frame_spec h
    rw [← h1, List.length_append]; omega

/-- List-level `HandleMessages`. -/
def segmentS (crc : Bytes → Nat) (st : Bytes) : List Msg :=
  match h : scan st with
  | .done => []
  | .junk raw rest => nonRTCM raw :: segmentS crc rest
  | .frame f rest => msgOfFrame crc f :: segmentS crc rest
termination_by st.length
decreasing_by
  · exact scan_rest_lt.1 _ _ h
  · exact scan_rest_lt.2 _ _ h
end Ntrip
