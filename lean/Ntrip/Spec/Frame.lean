import Ntrip.Model.Frame
/-!
What the properties call "an RTCM3 frame", stated on bits with `specU` (the big-endian value
of a bit field) — independent of the decoder model.
-/
namespace Ntrip

/-- Exactly one RTCM3 frame: preamble 0xD3, six zero reserved bits, a non-zero 10-bit length
    equal to the payload size, and a trailing CRC (as computed by `crc`) of all preceding bytes. -/
structure ValidFrame (crc : Bytes → Nat) (f : Bytes) : Prop where
  preamble : f.head? = some 0xD3
  reserved : specU f 8 6 = 0
  lenNonzero : 1 ≤ specU f 14 10
  size : f.length = 3 + specU f 14 10 + 3
  crcOk : f.drop (f.length - 3) = crcBytes (crc (f.take (f.length - 3)))

/-- The first 12 payload bits. -/
def typeOf (f : Bytes) : Int := (specU f 24 12 : Nat)

/-- Segments of a stream (C03 / C12). -/
inductive Seg
  | frame (f : Bytes)      -- a valid frame
  | junk (j : Bytes)       -- a non-empty run of other data without any 0xD3 byte
  | corrupt (f : Bytes)    -- a frame whose payload/CRC bytes were altered so that the CRC fails
deriving Repr

def Seg.bytes : Seg → Bytes
  | .frame f => f
  | .junk j => j
  | .corrupt f => f

/-- A corrupted frame: leader (3 bytes) and length of some valid frame, CRC no longer matching. -/
def Corrupted (crc : Bytes → Nat) (f' : Bytes) : Prop :=
  (∃ f, ValidFrame crc f ∧ f'.take 3 = f.take 3 ∧ f'.length = f.length) ∧
  f'.drop (f'.length - 3) ≠ crcBytes (crc (f'.take (f'.length - 3)))

def Seg.WF (crc : Bytes → Nat) : Seg → Prop
  | .frame f => ValidFrame crc f
  | .junk j => j ≠ [] ∧ (0xD3 : UInt8) ∉ j
  | .corrupt f => Corrupted crc f

def Seg.isJunk : Seg → Bool
  | .junk _ => true
  | _ => false

/-- Runs of other data are maximal: no two junk segments are adjacent. -/
def NoAdjacentJunk : List Seg → Prop
  | a :: b :: rest => ¬ (a.isJunk ∧ b.isJunk) ∧ NoAdjacentJunk (b :: rest)
  | _ => True

/-- The message each segment must be delivered as. -/
def Seg.expected : Seg → Msg
  | .frame f => { typ := typeOf f, raw := f }
  | .junk j => nonRTCM j
  | .corrupt f => { typ := -1, raw := f, err := .crc }

/-- An optional truncated frame at the end of the stream: empty, or a non-empty proper
    prefix of a valid frame. -/
def TruncTail (crc : Bytes → Nat) (t : Bytes) : Prop :=
  t = [] ∨ (t ≠ [] ∧ ∃ f, ValidFrame crc f ∧ t <+: f ∧ t.length < f.length)

def expectedTail (t : Bytes) : List Msg := if t = [] then [] else [nonRTCM t]

end Ntrip
