import Ntrip.Proofs.MsmRoundTrip
/-!
# C04 — MSM4/MSM7 messages decode to exactly the encoded header and cell data

`decodeMsm k frame` models `type_msm4|7/message.GetMessage` (header, masks, satellite and
signal arrays, attachment of signal cells) over the field layouts regenerated from the
source.  `MsmSpec` is an abstract message, `MsmWF k m` its well-formedness, `msmFrame` its
encoding as the standard lays it out followed by `pad` zero bytes, `msmView m` what a correct
decoder returns (`Spec/MsmCodec.lean`).
-/
namespace Ntrip.C04

/-- **Round trip.** For each of the fourteen MSM4/MSM7 types, every satellite/signal/cell mask
    with at most 64 cells (empty masks, 1×32, 64×1, sparse cell masks … included), every field
    value in range (signed fields in two's complement, the 'invalid' markers and all-zero
    cells included), the multiple-message flag set or clear (set only with at least one cell),
    any 3-byte leader and CRC, and **any number `pad` of trailing zero bytes**: decoding
    the encoded message yields exactly the encoded header fields, the satellite, signal and
    cell lists implied by the masks, every satellite row and every signal cell — and the
    message is never rejected. -/
theorem msm_roundtrip (k : MsmKind) (m : MsmSpec) (pad : Nat) (leader crc : Bytes)
    (hl : leader.length = 3) (hc : crc.length = 3) (hwf : MsmWF k m) :
    decodeMsm k (msmFrame leader k m pad crc) = .ok (msmView m) :=
  Ntrip.msm_roundtrip k m pad leader crc hl hc hwf

/-- The result does not depend on how many zero padding bytes follow the signal data (nor on
    the leader or CRC bytes, which the decoder does not look at). -/
theorem msm_pad_independent (k : MsmKind) (m : MsmSpec) (pad1 pad2 : Nat) (l1 l2 c1 c2 : Bytes)
    (h1 : l1.length = 3) (h2 : l2.length = 3) (h3 : c1.length = 3) (h4 : c2.length = 3) (hwf : MsmWF k m) :
    decodeMsm k (msmFrame l1 k m pad1 c1) = decodeMsm k (msmFrame l2 k m pad2 c2) := by
  rw [Ntrip.msm_roundtrip k m pad1 l1 c1 h1 h3 hwf, Ntrip.msm_roundtrip k m pad2 l2 c2 h2 h4 hwf]

/-- **Each signal cell is attached to the right satellite and signal id**: the cells of the
    view are the set bits of the cell mask in row-major order; the `c`-th of them, at satellite
    index `i` and signal index `j`, carries satellite id `sats[i]`, signal id `sigs[j]` and the
    `c`-th entry of every signal array. -/
theorem view_cells_rowmajor (k : MsmKind) (m : MsmSpec) (_hwf : MsmWF k m) :
    (msmView m).sigs.flatten =
      (numberFrom (cellPositions m.cells 0) 0).map
        (fun p => mkCell m.sats m.sigs m.sigCols p.1.1 p.1.2 p.2) :=
  attach_spec m.sats m.sigs m.sigCols m.ncells m.cells 0 0 (by simp [MsmSpec.ncells])

/-- The satellite and signal lists are the 1-based positions of the set mask bits, most
    significant bit first (the standard's numbering). -/
theorem view_lists (m : MsmSpec) :
    (msmView m).hdr.sats = idsOfMask 64 (m.hvals.getD 10 0).toNat ∧
    (msmView m).hdr.sigs = idsOfMask 32 (m.hvals.getD 11 0).toNat ∧
    (msmView m).hdr.cells = cellsOfMask m.cellMask m.nsat m.nsig := ⟨rfl, rfl, rfl⟩

/-! ### Non-vacuity (tests): a concrete MSM7 message, two satellites, two signals, three cells,
    an 'invalid' marker, a zero last cell, three padding bytes. -/
def sample : MsmSpec :=
  { hvals := [1077, 5, 123456, 0, 1, 2, 3, 0, 1, 4, 0xA000000000000000, 0x60000000],
    cellMask := 0b1101,
    satCols := [[81, 255], [1, 2], [513, 0], [-8192, 100]],
    sigCols := [[-524288, 7, 0], [-8388608, -1, 0], [1023, 5, 0], [1, 0, 0], [40, 41, 0], [-16384, 16383, 0]] }

example : MsmWF .msm7 sample := by
  refine ⟨?_, by decide, by decide, by decide, ?_, ?_, by decide⟩
  · simp [sample, hdrStd, FieldsWF, InRange]
  · have : sample.nsat = 2 := by decide
    rw [this]
    simp [sample, satStd, ColumnsWF, ColumnWF, InRange]
  · have : sample.ncells = 3 := by decide
    rw [this]
    simp [sample, sigStd, ColumnsWF, ColumnWF, InRange]

example : (msmView sample).hdr.sats = [1, 3] ∧ (msmView sample).hdr.sigs = [2, 3] ∧
    (msmView sample).sigs.flatten.map (fun c => (c.satId, c.sigId, c.vals.headD 0)) =
      [(1, 2, -524288), (1, 3, 7), (3, 3, 0)] := by decide

end Ntrip.C04
