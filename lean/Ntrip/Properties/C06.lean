import Ntrip.Proofs.TimeHist
/-!
# C06 — MSM timestamps are converted to the true UTC time across week rollovers

`newState T` models `handler.New(T, …)`, `msmTime st typ ts` the stateful conversion that
`GetMessage` performs for an MSM frame of type `typ` with timestamp field `ts`
(`getTimeFromTimeStamp` + the state updates of `getUTCFrom…Time`), `startOfWeek` the value
shown in the `StartOfWeek` line.  A history is a list of events `Ev.obs c hi u` (an MSM4
(`hi = false`) or MSM7 message of constellation `c` observed at the true instant `u`, whose
timestamp field is therefore `trueTs c u`) and `Ev.bad c hi ts` (an illegal timestamp).
-/
namespace Ntrip.C06

/-- The precondition of C06 in the property's own words: per constellation the observation
    times never decrease, the first is not earlier than `T` and lies in the same constellation
    week as `T`, consecutive ones are less than six days apart. -/
def PreC06 (T : Int) : Last → List Ev → Prop
  | _, [] => True
  | L, .obs c _ u :: rest =>
    (match L.get c with
     | none => T ≤ u ∧ trueWeekStart c u = trueWeekStart c T
     | some p => p ≤ u ∧ u - p < 6 * 86400000) ∧ PreC06 T (L.set c u) rest
  | L, .bad c _ ts :: rest => ¬ legalTs c ts ∧ PreC06 T L rest

theorem pre_of_preC06 (T : Int) : ∀ (evs : List Ev) (L : Last), PreC06 T L evs → Pre T L evs
  | [], _, _ => trivial
  | .obs c hi u :: rest, L, h => by
    obtain ⟨h1, h2⟩ := h
    refine ⟨?_, pre_of_preC06 T rest _ h2⟩
    unfold Admissible
    cases hl : L.get c with
    | none => rw [hl] at h1; exact h1.2
    | some p => rw [hl] at h1; exact ⟨h1.1, by omega⟩
  | .bad c hi ts :: rest, L, h => ⟨h.1, pre_of_preC06 T rest _ h.2⟩

/-- **C06.** For every start time `T` and every history satisfying the precondition — any
    interleaving of the four constellations and of MSM4/MSM7, any number of week rollovers,
    illegal timestamps inserted anywhere — the handler created by `New(T)` reports, message by
    message, exactly the true UTC time and the true start of the constellation week; an
    illegal timestamp is reported as an error and leaves the state untouched. -/
theorem times_true (T : Int) (evs : List Ev) (h : PreC06 T {} evs) :
    runTimes (newState T) evs = expectedTimes T {} evs :=
  times_correct T evs {} (newState T) (inv_new T) (pre_of_preC06 T evs {} h)

/-- An illegal timestamp (7 days of ms or more; GLONASS day 7 or 24 h of ms or more) yields an
    error instead of a time and does not disturb the handler's state — in any reachable state. -/
theorem illegal_is_error_and_inert {T : Int} {L : Last} {st : TState} (hinv : Inv T L st)
    (c : Constellation) (hi : Bool) (ts : Nat) (hbad : ¬ legalTs c ts) :
    msmTime st (typOf c hi) ts = (.rangeErr, st) := (step_bad hinv c hi ts hbad).1

/-- What "the true start of week" is: GPS/Galileo weeks start 18 s and BeiDou weeks 4 s before
    Sunday 00:00 UTC, GLONASS weeks at Saturday 21:00 UTC (Sunday 00:00 Moscow time). -/
theorem weekStart_is_epoch (c : Constellation) (u : Int) :
    ∃ k : Int, trueWeekStart c u = weekBase c + k * 604800000 ∧
      trueWeekStart c u ≤ u ∧ u < trueWeekStart c u + 604800000 := by
  refine ⟨(u - weekBase c) / 604800000, ?_, ?_, ?_⟩ <;> simp only [trueWeekStart, weekPos] <;> omega

/-- `GetMessage` feeds exactly the frame's 30-bit timestamp field (bit 48 of the frame) to
    that conversion, for every CRC-valid MSM frame long enough to contain it. -/
theorem getMessage_uses_timestamp (st : TState) (bs : Bytes) (m : Msg)
    (h1 : m.err = .none) (h2 : isMSM m.typ = true) (h3 : ¬ (m.raw.length - 6) * 8 < 54) :
    (addTime st bs m).2 = (msmTime st m.typ (getBitsU bs 48 30)).2 ∧
    (addTime st bs m).1.ts = getBitsU bs 48 30 ∧
    (addTime st bs m).1.sentAt =
      (match (msmTime st m.typ (getBitsU bs 48 30)).1 with | .ok t => some t | _ => none) ∧
    (addTime st bs m).1.sow = startOfWeek (msmTime st m.typ (getBitsU bs 48 30)).2 m.typ := by
  unfold addTime
  simp only [h1, h2, beq_self_eq_true, Bool.and_self, if_true, h3, if_false]
  cases (msmTime st m.typ (getBitsU bs 48 30)).1 <;> simp [MsgT.ofMsg]

/-! ### Ties to the source (T1): facts regenerated from /repo on every run -/

/-! ### Non-vacuity (tests): a concrete history with a GPS week rollover and an illegal stamp -/

/-- Start Sat 2023-05-13 12:00:00 UTC; GPS at 13:00 and (after the rollover at 23:59:42) on
    Sunday 01:00; GLONASS at Sat 20:59 and Sat 21:01 UTC (its rollover); a BeiDou stamp of 7 d. -/
def sample : List Ev :=
  [.obs .gps true 1683982800000, .obs .glonass false 1684011540000, .bad .beidou true 604800000,
   .obs .glonass false 1684011660000, .obs .gps false 1684026000000]

example : PreC06 1683979200000 {} sample := by
  simp only [sample, PreC06, Last.get, Last.set, trueWeekStart, weekPos, weekBase, legalTs]
  decide

example : runTimes (newState 1683979200000) sample =
    [(.ok 1683982800000, some 1683417582000), (.ok 1684011540000, some 1683406800000),
     (.rangeErr, some 1683417596000), (.ok 1684011660000, some 1684011600000),
     (.ok 1684026000000, some 1684022382000)] := by decide

end Ntrip.C06
