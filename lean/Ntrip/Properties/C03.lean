import Ntrip.Proofs.SegmentRefine
import Ntrip.Proofs.Normalise
/-!
# C03 — every valid frame not preceded by a stray 0xD3 is recognised, once, in order

A stream is described by a list of segments (`Seg.frame f` with `ValidFrame crc f`,
`Seg.junk j` with `j ≠ []` and no 0xD3 byte in `j`) followed by an optional truncated frame
(`TruncTail`).  `Seg.corrupt` segments are not used here (see C12).
-/
namespace Ntrip.C03

/-- Segment lists without corrupted frames. -/
def Clean (segs : List Seg) : Prop := ∀ s ∈ segs, ∀ f, s ≠ .corrupt f

/-- The delivered messages are exactly the segments, in order: each valid frame once as a
    typed message holding its own bytes, each maximal run of other data (adjacent runs merged
    by `normalise`) and the truncated tail as non-RTCM messages. -/
theorem recognised (crc : Bytes → Nat) (segs : List Seg) (tail : Bytes)
    (hwf : ∀ s ∈ segs, s.WF crc) (_hclean : Clean segs) (htail : TruncTail crc tail) :
    segment crc (In.ofBytes (streamOf segs tail)) =
      (normalise segs).map Seg.expected ++ expectedTail tail := by
  rw [handleMessages_eq]; exact segmentS_recognises' crc tail htail segs hwf

/-- `normalise` only merges: it changes neither the bytes of the stream nor well-formedness,
    and leaves no two adjacent runs of other data. -/
theorem normalise_sound (crc : Bytes → Nat) (segs : List Seg) (tail : Bytes) (hwf : ∀ s ∈ segs, s.WF crc) :
    streamOf (normalise segs) tail = streamOf segs tail ∧ (∀ s ∈ normalise segs, s.WF crc) ∧
      NoAdjacentJunk (normalise segs) :=
  ⟨normalise_stream tail _ segs rfl, normalise_wf crc _ segs rfl hwf, normalise_noAdjacent _ segs rfl⟩

/-- What a valid frame is delivered as. -/
theorem frame_expected (f : Bytes) : (Seg.frame f).expected = { typ := typeOf f, raw := f } := rfl

/-- Frames are never merged by normalisation. -/
theorem normalise_frames : ∀ (fs : List Bytes), normalise (fs.map Seg.frame) = fs.map Seg.frame
  | [] => by simp [normalise]
  | [f] => by simp [normalise]
  | f :: g :: rest => by
    have ih := normalise_frames (g :: rest)
    simp only [List.map_cons] at ih ⊢
    rw [normalise, ih]
    intro x y h; cases h

/-- A stream that consists of valid frames only, back to back (the normal case of a healthy
    caster connection), is delivered as exactly one typed message per frame, in order, each
    with exactly its own bytes, and nothing else. -/
theorem back_to_back_frames (crc : Bytes → Nat) (fs : List Bytes) (hv : ∀ f ∈ fs, ValidFrame crc f) :
    segment crc (In.ofBytes fs.flatten) = fs.map (fun f => { typ := typeOf f, raw := f }) := by
  have h := recognised crc (fs.map Seg.frame) [] (by
      intro s hs; rcases List.mem_map.mp hs with ⟨f, hf, rfl⟩; exact hv f hf)
    (by intro s hs f' hne; rcases List.mem_map.mp hs with ⟨f, _, rfl⟩; cases hne)
    (Or.inl rfl)
  simp only [streamOf, List.map_map, List.append_nil, normalise_frames, expectedTail, ↓reduceIte] at h
  have e1 : (Seg.bytes ∘ Seg.frame) = id := by funext f; rfl
  have e2 : (Seg.expected ∘ Seg.frame) = (fun f => ({ typ := typeOf f, raw := f } : Msg)) := by funext f; rfl
  rw [e1, e2] at h
  simpa using h

/-! Non-vacuity (tests): a concrete valid frame, and the premises of `recognised` are met by a
    stream with junk, a frame, junk, a frame and a truncated tail. -/
def F1 : Bytes := [0xD3, 0x00, 0x02, 0x3E, 0xD0] ++ crcBytes (crc24q [0xD3, 0x00, 0x02, 0x3E, 0xD0])

theorem F1_valid : ValidFrame crc24q F1 :=
  ⟨by decide, by decide +kernel, by decide +kernel, by decide +kernel, by decide +kernel⟩

example : (∀ s ∈ [Seg.junk [0x24, 0x47], .frame F1, .junk [0x0d], .junk [0x0a], .frame F1], s.WF crc24q) ∧
    TruncTail crc24q (F1.take 4) := by
  refine ⟨?_, Or.inr ⟨by decide, F1, F1_valid, List.take_prefix _ _, by decide⟩⟩
  intro s hs
  simp only [List.mem_cons, List.not_mem_nil, or_false] at hs
  rcases hs with rfl | rfl | rfl | rfl | rfl
  · exact ⟨by decide, by decide⟩
  · exact F1_valid
  · exact ⟨by decide, by decide⟩
  · exact ⟨by decide, by decide⟩
  · exact F1_valid

/-- Non-vacuity of `back_to_back_frames` (a test): two copies of the concrete frame. -/
example : segment crc24q (In.ofBytes [F1, F1].flatten) =
    [{ typ := typeOf F1, raw := F1 }, { typ := typeOf F1, raw := F1 }] :=
  back_to_back_frames crc24q [F1, F1] (by intro f hf; simp at hf; subst hf; exact F1_valid)

end Ntrip.C03
