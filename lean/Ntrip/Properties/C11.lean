import Ntrip.Proofs.PipeTerm
import Ntrip.Proofs.SegmentRefine
import Ntrip.Proofs.SegmentSpec
/-!
# C11 — when an application's message handling returns, all output has been written

Same transition system as C09 (`Ntrip.Pipe`), now with the application's `main` part:
after the fan-out returned, `HandleMessages` closes the writer channels and — this is the
point — waits for the writer goroutines before it returns (`waits = true`).
displayrtcm3: one writer on a channel of capacity 2; rtcmfilter: up to three writers on
unbuffered channels.  A write is two steps (begin, end) with arbitrary stuttering in
between, so "however slow the writer is" is part of the quantifier.
-/
namespace Ntrip.C11
open Ntrip.Pipe

/-- **Returned ⇒ all written.** For every configuration whose `main` waits: every number of
    writers, every channel capacity, every message list, every timing of the producing
    pipeline, every writer latency, every schedule — in every reachable state in which `main`
    has returned, each writer has completely handled every message derived from the input. -/
theorem returned_all_written {M : Type} (c : Cfg M) (hc : c.WF) (hw : c.waits = true) {s : PS M}
    (h : Reach c s) (hr : s.mainReturned = true) (i : Nat) (hi : i < c.k) (hn : c.isNil i = false) :
    s.handled i = c.out :=
  Ntrip.Pipe.returned_all_written c hc hw h hr i hi hn

/-- The shape of displayrtcm3's `HandleMessages`: one writer, channel capacity 2, closed and awaited. -/
def displayCfg (crc : Bytes → Nat) (bs : Bytes) (produced : Nat → Bool → Nat) : Cfg Msg :=
  { nBytes := bs.length, out := segment crc (In.ofBytes bs), produced := produced, k := 1, cap := fun _ => 2,
    isNil := fun _ => false, closes := fun _ => true, waits := true }

/-- The shape of rtcmfilter's `HandleMessages`: `k ≤ 3` writers on unbuffered channels, all closed and awaited. -/
def filterCfg (crc : Bytes → Nat) (bs : Bytes) (produced : Nat → Bool → Nat) (k : Nat) : Cfg Msg :=
  { nBytes := bs.length, out := segment crc (In.ofBytes bs), produced := produced, k := k, cap := fun _ => 0,
    isNil := fun _ => false, closes := fun _ => true, waits := true }

theorem display_returned_all_written (crc bs produced) (hc : (displayCfg crc bs produced).WF) {s}
    (h : Reach (displayCfg crc bs produced) s) (hr : s.mainReturned = true) :
    s.handled 0 = segment crc (In.ofBytes bs) :=
  returned_all_written _ hc rfl h hr 0 (by show 0 < 1; omega) rfl

theorem filter_returned_all_written (crc bs produced k) (hc : (filterCfg crc bs produced k).WF) {s}
    (h : Reach (filterCfg crc bs produced k) s) (hr : s.mainReturned = true) (i : Nat) (hi : i < k) :
    s.handled i = segment crc (In.ofBytes bs) :=
  returned_all_written _ hc rfl h hr i hi rfl

/-- The waiting matters: the same system whose `main` does **not** wait has a reachable state
    in which `main` has returned while the writer has written nothing (kernel-checked
    counterexample: one message, channel capacity 2 — the shape the code had before the repair). -/
def badCfg : Cfg Nat :=
  { nBytes := 0, out := [7], produced := fun _ b => if b then 1 else 0, k := 1, cap := fun _ => 2,
    isNil := fun _ => false, closes := fun _ => true, waits := false }

theorem not_waiting_loses_output : ∃ s, Reach badCfg s ∧ s.mainReturned = true ∧ s.handled 0 ≠ badCfg.out := by
  have r0 : Reach badCfg (init Nat) := .init
  have r1 := Reach.step r0 (Step.rClose _ rfl rfl rfl)
  have r2 := Reach.step r1 (Step.fSeeClosed _ rfl rfl ⟨rfl, rfl⟩)
  have r3 := Reach.step r2 (Step.fSend _ rfl (by decide) rfl rfl rfl)
  have r4 := Reach.step r3 (Step.dSendBuf _ 0 7 rfl rfl (by decide) rfl rfl (by decide) rfl)
  have r5 := Reach.step r4 (Step.dNext _ rfl rfl)
  have r6 := Reach.step r5 (Step.fClose _ rfl rfl rfl rfl)
  have r7 := Reach.step r6 (Step.dSeeClosed _ rfl rfl rfl rfl)
  have r8 := Reach.step r7 (Step.mainClose _ rfl rfl (by decide) rfl rfl rfl)
  have r9 := Reach.step r8 (Step.mainReturn _ rfl rfl rfl rfl (by intro h; cases h))
  exact ⟨_, r9, rfl, by decide⟩

def goodCfg : Cfg Nat := { badCfg with waits := true }

/-- When rtcmfilter's message handling has returned, all its writers have written the same
    sequence of messages (stdout, record and display cannot differ from one another). -/
theorem filter_writers_equal_at_return (crc bs produced k) (hc : (filterCfg crc bs produced k).WF) {s}
    (h : Reach (filterCfg crc bs produced k) s) (hr : s.mainReturned = true) (i j : Nat) (hi : i < k) (hj : j < k) :
    s.handled i = s.handled j := by
  rw [filter_returned_all_written crc bs produced k hc h hr i hi,
    filter_returned_all_written crc bs produced k hc h hr j hj]

/-- When displayrtcm3's message handling has returned, the raw bytes of what it has written
    account for the whole input: nothing of the file is still unwritten. -/
theorem display_returned_bytes_complete (crc bs produced) (hc : (displayCfg crc bs produced).WF) {s}
    (h : Reach (displayCfg crc bs produced) s) (hr : s.mainReturned = true) :
    ((s.handled 0).map (·.raw)).flatten = bs := by
  rw [display_returned_all_written crc bs produced hc h hr, handleMessages_eq]
  exact (segmentS_lossless crc _ bs rfl).1

/-- Non-vacuity: with the wait, a reachable state in which main has returned (and the writer has
    written the message). -/
example : ∃ s, Reach goodCfg s ∧ s.mainReturned = true ∧ s.handled 0 = goodCfg.out := by
  have r0 : Reach goodCfg (init Nat) := .init
  have r1 := Reach.step r0 (Step.rClose _ rfl rfl rfl)
  have r2 := Reach.step r1 (Step.fSeeClosed _ rfl rfl ⟨rfl, rfl⟩)
  have r3 := Reach.step r2 (Step.fSend _ rfl (by decide) rfl rfl rfl)
  have r4 := Reach.step r3 (Step.dSendBuf _ 0 7 rfl rfl (by decide) rfl rfl (by decide) rfl)
  have r5 := Reach.step r4 (Step.dNext _ rfl rfl)
  have r6 := Reach.step r5 (Step.fClose _ rfl rfl rfl rfl)
  have r7 := Reach.step r6 (Step.dSeeClosed _ rfl rfl rfl rfl)
  have r8 := Reach.step r7 (Step.mainClose _ rfl rfl (by decide) rfl rfl rfl)
  have r9 := Reach.step r8 (Step.wRecv _ 0 7 [] rfl (by decide) rfl rfl rfl rfl)
  have r10 := Reach.step r9 (Step.wFinish _ 0 7 rfl (by decide) rfl rfl)
  have r11 := Reach.step r10 (Step.wSeeClosed _ 0 rfl (by decide) rfl rfl rfl rfl rfl)
  have r12 := Reach.step r11 (Step.mainReturn _ rfl rfl rfl rfl (by
    intro _ i hi _
    have : i = 0 := by
      have : i < 1 := hi
      omega
    subst this; rfl))
  exact ⟨_, r12, rfl, rfl⟩

end Ntrip.C11
