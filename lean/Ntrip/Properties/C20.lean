import Ntrip.Model.Classify
import Ntrip.Proofs.Tables
/-!
# C20 — message-type classification is total and consistent across the library

Every theorem below holds for **every** integer message type `t` (hence for all 4096
twelve-bit types and the sentinels −1, −2): the classification functions are lookups in the
tables that `/verif/extract` regenerates from the current source on every run; each table is
checked row by row (`decide`, the whole table) and its behaviour off the keys symbolically.
Where the code is a fixed expression rather than a table (`MSM = MSM4 || MSM7`, the decoder
gates, the title fallback) its extracted shape is pinned by an equality obligation.
-/
namespace Ntrip.C20

def msm4Spec : List Int := [1074, 1084, 1094, 1104, 1114, 1124, 1134]
def msm7Spec : List Int := [1077, 1087, 1097, 1107, 1117, 1127, 1137]

def nameSpec (t : Int) : String :=
  if t = 1074 ∨ t = 1077 then "GPS" else if t = 1084 ∨ t = 1087 then "Glonass"
  else if t = 1094 ∨ t = 1097 then "Galileo" else if t = 1104 ∨ t = 1107 then "SBAS"
  else if t = 1114 ∨ t = 1117 then "QZSS" else if t = 1124 ∨ t = 1127 then "Beidou"
  else if t = 1134 ∨ t = 1137 then "NavIC/IRNSS" else "unknown constellation"

/-- Exactly the seven types 1074 … 1134 ending in 4 are MSM4. -/
theorem msm4_set (t : Int) : isMSM4 t = msm4Spec.contains t := by
  unfold isMSM4; simp only [Gen.utils_MSM4MessageTypes, Option.getD_some]
  exact contains_congr _ _ (by decide) (by decide) t

/-- Exactly the seven types 1077 … 1137 ending in 7 are MSM7. -/
theorem msm7_set (t : Int) : isMSM7 t = msm7Spec.contains t := by
  unfold isMSM7; simp only [Gen.utils_MSM7MessageTypes, Option.getD_some]
  exact contains_congr _ _ (by decide) (by decide) t

theorem msm_set (t : Int) : isMSM t = (msm4Spec ++ msm7Spec).contains t := by
  unfold isMSM; rw [msm4_set, msm7_set]; simp [List.contains_eq_mem, List.mem_append]

/-- The predicates are map lookups of the assigned keys and `MSM` is their disjunction. -/
theorem msm_shapes :
    Gen.utils_MSM4_shape = "MSM4MessageTypes[messageType]; return prs" ∧
    Gen.utils_MSM7_shape = "MSM7MessageTypes[messageType]; return prs" ∧
    Gen.utils_MSM_shape = "return MSM4()||MSM7()" := by decide

/-- Only the fourteen MSM types carry an extracted timestamp (`addTime` reads one iff `isMSM`). -/
theorem timestamp_only_msm (st : TState) (bs : Bytes) (m : Msg) (h : isMSM m.typ = false) :
    (addTime st bs m).1 = MsgT.ofMsg m ∧ (addTime st bs m).2 = st := by
  unfold addTime; simp [h]

/-- Each of the fourteen maps to its constellation name, everything else to "unknown constellation". -/
theorem constellation_names (t : Int) : constellation t = nameSpec t := by
  unfold constellation
  simp only [Gen.utils_GetConstellation]
  apply lookup_getD_eq
  · decide
  · intro t ht
    simp only [List.map_cons, List.map_nil, List.mem_cons, List.not_mem_nil, or_false, not_or] at ht
    simp [nameSpec, ht]

/-- The MSM header reader accepts exactly the MSM types. -/
theorem header_accepts_iff_msm (t : Int) : headerAccepts t = isMSM t := by
  unfold headerAccepts
  simp only [Gen.header_getMSMType]
  rw [lookup_getD_eq _ _ (fun t => if isMSM t then "accept" else "reject")]
  · cases isMSM t <;> decide
  · intro kv hkv
    simp only [msm_set]
    revert kv; decide
  · intro t ht
    simp only [List.map_cons, List.map_nil, List.mem_cons, List.not_mem_nil, or_false, not_or] at ht
    simp [msm_set, msm4Spec, msm7Spec, ht]

/-- Each decoder family is gated by its own predicate. -/
theorem decoder_gates :
    Gen.msg4_GetMessage_gate = "!utils.MSM4()" ∧ Gen.msg7_GetMessage_gate = "!utils.MSM7()" := by decide

/-- The extracted shape of `Analyse`'s switch, clause by clause. -/
theorem analyse_table :
    analyseTable = [(.isMsm4, .msm4), (.isMsm7, .msm7), (.eq1005, .t1005), (.eq1006, .t1006),
      (.eq1230, .text), (.dflt, .text)] := by decide

/-- Full decoding is attempted for exactly MSM4, MSM7, 1005 and 1006, by the right decoder. -/
theorem analyse_dispatch (t : Int) :
    analyseDecoder t =
      (if isMSM4 t then .msm4 else if isMSM7 t then .msm7
       else if t = 1005 then .t1005 else if t = 1006 then .t1006 else .text) := by
  unfold analyseDecoder
  rw [analyse_table]
  simp only [analyseRows, ACond.fires]
  cases isMSM4 t <;> cases isMSM7 t <;> simp <;> split <;> simp_all

/-- The time conversion and start-of-week dispatches cover the same eight types (GPS, GLONASS,
    Galileo, BeiDou in both resolutions), all of them MSM. -/
def timeSpec (t : Int) : String :=
  if t = 1074 ∨ t = 1077 then "getUTCFromGPSTime" else if t = 1084 ∨ t = 1087 then "getUTCFromGlonassTime"
  else if t = 1094 ∨ t = 1097 then "getUTCFromGalileoTime" else if t = 1124 ∨ t = 1127 then "getUTCFromBeidouTime"
  else "error"

theorem time_dispatch (t : Int) : timeMethod t = timeSpec t := by
  unfold timeMethod
  simp only [Gen.handler_getTimeFromTimeStamp]
  apply lookup_getD_eq
  · decide
  · intro t ht
    simp only [List.map_cons, List.map_nil, List.mem_cons, List.not_mem_nil, or_false, not_or] at ht
    simp [timeSpec, ht]

/-- Every type, known or unknown, has a non-empty title: every title in the table is
    non-empty and unknown types get the fallback text "message type %d is not known". -/
theorem title_nonempty (t : Int) : titleNonEmpty t = true := by
  unfold titleNonEmpty
  simp only [Gen.utils_titleKeys]
  split <;> simp

theorem title_table_nonempty :
    (Gen.utils_titleKeys.getD []).all (fun kv => kv.2) = true ∧
    Gen.utils_title_fallback = "if len()==0 {title:=fmt.Sprintf(); result:=?; return &result}" := by
  decide

/-- No type is both MSM4 and MSM7. -/
theorem msm4_msm7_disjoint (t : Int) : ¬ (isMSM4 t = true ∧ isMSM7 t = true) := by
  rw [msm4_set, msm7_set]
  simp only [msm4Spec, msm7Spec, List.contains_eq_mem, List.mem_cons, List.not_mem_nil, or_false,
    decide_eq_true_eq]
  omega

/-- Every MSM type lies in 1074 … 1137 and ends in 4 or 7 (so no type outside the 12-bit range,
    and in particular not the non-RTCM sentinel -1, is classified as MSM). -/
theorem msm_range (t : Int) (h : isMSM t = true) : 1074 ≤ t ∧ t ≤ 1137 ∧ (t % 10 = 4 ∨ t % 10 = 7) := by
  rw [msm_set] at h
  simp only [msm4Spec, msm7Spec, List.cons_append, List.nil_append, List.contains_eq_mem, List.mem_cons,
    List.not_mem_nil, or_false, decide_eq_true_eq] at h
  omega

/-! Non-vacuity (tests). -/
example : isMSM4 1074 = true ∧ isMSM7 1074 = false ∧ analyseDecoder 1127 = .msm7 := by decide
example : constellation 1137 = "NavIC/IRNSS" ∧ constellation 1005 = "unknown constellation" := by decide
example : headerAccepts 1104 = true ∧ headerAccepts 1075 = false ∧ headerAccepts (-1) = false := by decide

end Ntrip.C20
