import Ntrip.Proofs.Translated
import Ntrip.Proofs.Bits
/-!
# C14 — bit-field extraction returns exactly the addressed bits, signed or unsigned

Model: `Ntrip.getBitsU?` / `Ntrip.getBitsI?` (`Model/Bits.lean`), the `uint64` loop of
`utils.GetBitsAsUint64` and the wrapped `int64` arithmetic of `utils.GetBitsAsInt64`.
Spec: `specU` (big-endian value of the addressed bits) and `specI` (its two's complement).
-/
namespace Ntrip.C14

/-- The field `[pos, pos+len)` lies inside the buffer. -/
def Inside (buf : Bytes) (pos len : Nat) : Prop := pos + len ≤ 8 * buf.length

theorem inRange_of_inside {buf : Bytes} {pos len : Nat} (h : Inside buf pos len) :
    inRange buf pos len = true := by
  unfold inRange Inside at *
  by_cases h0 : len = 0
  · simp [h0]
  · simp only [Bool.or_eq_true, beq_iff_eq, decide_eq_true_eq]; right; omega

/-- Unsigned extraction: every buffer, every bit offset, every width 1…64 inside the buffer. -/
theorem unsigned_exact (buf : Bytes) (pos len : Nat) (_h1 : 1 ≤ len) (h64 : len ≤ 64)
    (hin : Inside buf pos len) :
    getBitsU? buf pos len = some (specU buf pos len) := by
  unfold getBitsU?
  rw [inRange_of_inside hin, getBitsU_eq _ _ _ h64]; rfl

/-- Signed extraction: widths 2…64, two's complement of the same bits (including the minimum
    value of every width and the `len = 64` case where `-1 * int64(1<<63)` wraps). -/
theorem signed_exact (buf : Bytes) (pos len : Nat) (h2 : 2 ≤ len) (h64 : len ≤ 64)
    (hin : Inside buf pos len) :
    getBitsI? buf pos len = some (specI buf pos len) := by
  unfold getBitsI?
  have h1 : Inside buf pos 1 := by unfold Inside at *; omega
  rw [inRange_of_inside hin, inRange_of_inside h1, getBitsI_eq _ _ _ h2 h64]; rfl

/-- The spec is the binary number whose digits are the addressed bits, most significant first. -/
theorem spec_digits (buf : Bytes) (pos n : Nat) :
    specU buf pos (n+1) = bitAt buf pos * 2^n + specU buf (pos+1) n := specU_head buf pos n

/-- Not influenced by any bit outside the field: two buffers (of any lengths) that agree on
    the addressed bits give the same unsigned … -/
theorem unsigned_independent (b1 b2 : Bytes) (pos len : Nat) (h1 : 1 ≤ len) (h64 : len ≤ 64)
    (hin1 : Inside b1 pos len) (hin2 : Inside b2 pos len)
    (hagree : ∀ i, i < len → bitAt b1 (pos + i) = bitAt b2 (pos + i)) :
    getBitsU? b1 pos len = getBitsU? b2 pos len := by
  rw [unsigned_exact _ _ _ h1 h64 hin1, unsigned_exact _ _ _ h1 h64 hin2,
    specU_congr b1 b2 pos len hagree]

/-- … and the same signed result. -/
theorem signed_independent (b1 b2 : Bytes) (pos len : Nat) (h2 : 2 ≤ len) (h64 : len ≤ 64)
    (hin1 : Inside b1 pos len) (hin2 : Inside b2 pos len)
    (hagree : ∀ i, i < len → bitAt b1 (pos + i) = bitAt b2 (pos + i)) :
    getBitsI? b1 pos len = getBitsI? b2 pos len := by
  rw [signed_exact _ _ _ h2 h64 hin1, signed_exact _ _ _ h2 h64 hin2]
  unfold specI
  have h0 := hagree 0 (by omega)
  simp only [Nat.add_zero] at h0
  rw [specU_congr b1 b2 pos len hagree, h0]

/-- Does not read outside the field: the read succeeds whenever the field is inside the
    buffer, whatever follows or precedes it (no byte beyond `(pos+len-1)/8` is indexed). -/
theorem reads_only_field (buf extra : Bytes) (pos len : Nat) (h1 : 1 ≤ len) (h64 : len ≤ 64)
    (hin : Inside buf pos len) :
    getBitsU? (buf ++ extra) pos len = getBitsU? buf pos len := by
  have hin' : Inside (buf ++ extra) pos len := by
    unfold Inside at *; rw [List.length_append]; omega
  apply unsigned_independent _ _ _ _ h1 h64 hin' hin
  intro i hi
  unfold bitAt
  have : (pos + i) / 8 < buf.length := by unfold Inside at hin; omega
  rw [List.getElem?_append_left this]

/-- Range of the results. -/
theorem unsigned_range (buf : Bytes) (pos len : Nat) : specU buf pos len < 2^len :=
  specU_lt buf pos len

/-- Range of the signed result: the two's complement of `n+1` bits lies in `[-2^n, 2^n)`, for every
    buffer and position (so the minimum value `-2^n` of each width is reached and nothing below). -/
theorem signed_range (buf : Bytes) (pos n : Nat) :
    -(2^n : Int) ≤ specI buf pos (n+1) ∧ specI buf pos (n+1) < 2^n := by
  unfold specI
  have hh := specU_head buf pos n
  have hr := specU_lt buf (pos+1) n
  have hb := bitAt_lt buf pos
  have hp : (2:Int)^(n+1) = 2 * 2^n := by rw [Int.pow_succ]; omega
  have hc : ((2^n : Nat) : Int) = (2:Int)^n := by push_cast; rfl
  rw [hp]
  generalize specU buf (pos+1) n = r at *
  generalize specU buf pos (n+1) = u at *
  generalize (2:Int)^n = PI at *
  generalize (2:Nat)^n = P at *
  have hb' : bitAt buf pos = 0 ∨ bitAt buf pos = 1 := by omega
  rcases hb' with h0 | h1
  · rw [h0] at hh ⊢; simp only [Nat.zero_mul, Nat.zero_add] at hh; subst hh
    simp only [Nat.zero_ne_one, ↓reduceIte]; omega
  · rw [h1] at hh ⊢; simp only [Nat.one_mul] at hh; subst hh
    simp only [↓reduceIte]; push_cast; omega

/-- … and therefore of what the model of `GetBitsAsInt64` returns for every field of 2…64 bits
    inside the buffer: a value of the width's two's-complement range, never outside it. -/
theorem signed_result_range (buf : Bytes) (pos n : Nat) (h1 : 1 ≤ n) (h64 : n + 1 ≤ 64)
    (hin : Inside buf pos (n+1)) :
    ∃ v, getBitsI? buf pos (n+1) = some v ∧ -(2^n : Int) ≤ v ∧ v < 2^n :=
  ⟨specI buf pos (n+1), signed_exact buf pos (n+1) (by omega) h64 hin, signed_range buf pos n⟩

/-- Non-vacuity (a test): the minimum of a 10-bit field is reached. -/
example : specI [0x80, 0x00] 0 10 = -(2^9 : Int) := by decide

/-! Non-vacuity: concrete, non-trivial instances (these are tests, labelled as such). -/
example : Inside [0xd3, 0x00, 0x8a, 0x43] 14 10 := by unfold Inside; decide
example : getBitsU? [0xd3, 0x00, 0x8a, 0x43] 14 10 = some 138 := by decide
example : getBitsI? [0xff, 0x80, 0x00] 7 10 = some (-256) := by decide
example : getBitsI? [0x80, 0, 0, 0, 0, 0, 0, 0] 0 64 = some (-9223372036854775808) := by decide +kernel
example : getBitsU? [0xd3] 4 8 = none := by decide

/-- **Translator tie**: the Lean function that `extract/translate.go` regenerates on every run
    from the body of the loop of `GetBitsAsUint64` (index, shift, mask, accumulate - in wrapping
    64-bit arithmetic) is the model's loop step, for every buffer, position and accumulator.  (The
    loop header `for i := pos; i < pos+len; i++` is pinned by the guards tie.) -/
theorem translated_loop_body (buf : Bytes) (pos len acc k : Nat) :
    Gen.fn_utils_GetBitsAsUint64_body (buf.map (·.toNat)) pos len (pos + k) acc = stepU buf pos acc k :=
  translated_bits_body buf pos len acc k

/-- **Translator tie, signed read**: the two's-complement arithmetic of `GetBitsAsInt64` (`mask`,
    the weights of the top and of the lower bits, their wrapped difference) is regenerated from
    the `if negative { … }` branch of the source on every run; the model's signed read is that
    code applied to the two unsigned reads, for every buffer, position and length from 2 up to
    what a `uint` holds.  (The translator also checks that the statements around the branch are
    the two reads and the final `int64(uval)`.) -/
theorem translated_signed_branch (buf : Bytes) (pos len : Nat) (h2 : 2 ≤ len) (h : len < 2 ^ 64) :
    getBitsI buf pos len =
      if getBitsU buf pos 1 == 1 then Gen.fn_utils_GetBitsAsInt64_neg (getBitsU buf pos len) len
      else toI64 (getBitsU buf pos len) :=
  getBitsI_translated buf pos len h2 h

/-- Non-vacuity (a test): the translated branch on the 10 one-bits is -1, on 1000000000₂ is -512. -/
example : Gen.fn_utils_GetBitsAsInt64_neg 1023 10 = -1 ∧ Gen.fn_utils_GetBitsAsInt64_neg 512 10 = -512 := by decide

end Ntrip.C14
