import Ntrip.Proofs.SegmentRefine
import Ntrip.Proofs.Normalise
import Ntrip.Model.SegmentT
/-!
# C12 — a frame corrupted in payload or CRC is discarded alone; its neighbours survive

`Seg.corrupt f'` stands for a frame some of whose payload/CRC bits were altered: it keeps the
3-byte leader and the length of a valid frame, and its CRC no longer matches (`Corrupted`).
-/
namespace Ntrip.C12

/-- Every segment, corrupted frames included, is delivered as itself: the corrupted frame as a
    single non-RTCM message holding exactly its bytes (it is *not* merged with neighbouring
    other data — the code returns it from a separate fetch), every other segment exactly as
    in C03.  Any number of corrupted frames, anywhere. -/
theorem corrupt_isolated (crc : Bytes → Nat) (segs : List Seg) (tail : Bytes)
    (hwf : ∀ s ∈ segs, s.WF crc) (htail : TruncTail crc tail) :
    segment crc (In.ofBytes (streamOf segs tail)) =
      (normalise segs).map Seg.expected ++ expectedTail tail := by
  rw [handleMessages_eq]; exact segmentS_recognises' crc tail htail segs hwf

/-- The one-victim form of the statement: replacing the valid frame `f` by a corrupted `f'`
    changes the delivered sequence in exactly that position. -/
theorem one_victim (crc : Bytes → Nat) (pre post : List Seg) (f f' : Bytes) (tail : Bytes)
    (hpre : ∀ s ∈ pre, s.WF crc) (hpost : ∀ s ∈ post, s.WF crc)
    (hf : ValidFrame crc f) (hf' : Corrupted crc f') (htail : TruncTail crc tail)
    (hn1 : NoAdjacentJunk (pre ++ [.frame f] ++ post)) (hn2 : NoAdjacentJunk (pre ++ [.corrupt f'] ++ post)) :
    segment crc (In.ofBytes (streamOf (pre ++ [.frame f] ++ post) tail)) =
      pre.map Seg.expected ++ [{ typ := typeOf f, raw := f }] ++ post.map Seg.expected ++ expectedTail tail
    ∧
    segment crc (In.ofBytes (streamOf (pre ++ [.corrupt f'] ++ post) tail)) =
      pre.map Seg.expected ++ [{ typ := -1, raw := f', err := .crc }] ++ post.map Seg.expected ++ expectedTail tail := by
  constructor
  · rw [handleMessages_eq, segmentS_recognises crc tail htail _ _ hn1]
    · simp [Seg.expected]
    · intro s hs
      simp only [List.mem_append, List.mem_singleton] at hs
      rcases hs with (hs | rfl) | hs
      · exact hpre s hs
      · exact hf
      · exact hpost s hs
  · rw [handleMessages_eq, segmentS_recognises crc tail htail _ _ hn2]
    · simp [Seg.expected]
    · intro s hs
      simp only [List.mem_append, List.mem_singleton] at hs
      rcases hs with (hs | rfl) | hs
      · exact hpre s hs
      · exact hf'
      · exact hpost s hs

/-- **The neighbours' time lines survive too.**  In the model with the handler's time state
    threaded through (`segmentT`: what the consumer sees, `SentAt` and `StartOfWeek` included), a
    corrupted frame is delivered without time lines and leaves the time state exactly as it
    found it - for every state and every altered content, an MSM-typed victim with a plausible
    timestamp included.  Everything the following frames are told about time is therefore what
    they would have been told had the victim not been there. -/
theorem corrupted_frame_keeps_time_state (crc : Bytes → Nat) (st : TState) (f' : Bytes)
    (hc : Corrupted crc f') :
    msgTOfFrame crc st f' = (MsgT.ofMsg { typ := -1, raw := f', err := .crc }, st) := by
  have hm := msgOfFrame_corrupt hc
  unfold msgOfFrame at hm
  unfold msgTOfFrame getMessage
  cases hg : getMessageCore crc f' with
  | empty =>
    rw [hg] at hm
    simp only [nonRTCM] at hm
    cases hm
  | msg m =>
    rw [hg] at hm
    simp only at hm
    subst hm
    simp [addTime]

/-- What a corrupted frame is delivered as. -/
theorem corrupt_expected (f : Bytes) : (Seg.corrupt f).expected = { typ := -1, raw := f, err := .crc } := rfl

/-- Segments without other data between them are left as they are by normalisation. -/
theorem normalise_no_junk : ∀ (l : List Seg), (∀ s ∈ l, s.isJunk = false) → normalise l = l
  | [], _ => by simp [normalise]
  | [s], _ => by simp [normalise]
  | a :: b :: rest, h => by
    have ih := normalise_no_junk (b :: rest) (fun s hs => h s (List.mem_cons_of_mem _ hs))
    have ha : a.isJunk = false := h a (by simp)
    rw [normalise, ih]
    intro x y hx _; rw [hx] at ha; simp [Seg.isJunk] at ha

/-- One corrupted frame among back-to-back valid frames: every other frame is still delivered,
    typed and with its own bytes, and the corrupted one alone is reported with a CRC error. -/
theorem corrupt_among_frames (crc : Bytes → Nat) (fs1 fs2 : List Bytes) (f' : Bytes)
    (h1 : ∀ f ∈ fs1, ValidFrame crc f) (h2 : ∀ f ∈ fs2, ValidFrame crc f) (hc : Corrupted crc f') :
    segment crc (In.ofBytes (fs1.flatten ++ f' ++ fs2.flatten)) =
      fs1.map (fun f => { typ := typeOf f, raw := f }) ++ [{ typ := -1, raw := f', err := .crc }] ++
      fs2.map (fun f => { typ := typeOf f, raw := f }) := by
  have hwf : ∀ s ∈ fs1.map Seg.frame ++ [Seg.corrupt f'] ++ fs2.map Seg.frame, s.WF crc := by
    intro s hs
    simp only [List.mem_append, List.mem_map, List.mem_singleton] at hs
    rcases hs with (⟨f, hf, rfl⟩ | rfl) | ⟨f, hf, rfl⟩
    · exact h1 f hf
    · exact hc
    · exact h2 f hf
  have hnj : ∀ s ∈ fs1.map Seg.frame ++ [Seg.corrupt f'] ++ fs2.map Seg.frame, s.isJunk = false := by
    intro s hs
    simp only [List.mem_append, List.mem_map, List.mem_singleton] at hs
    rcases hs with (⟨f, _, rfl⟩ | rfl) | ⟨f, _, rfl⟩ <;> rfl
  have h := corrupt_isolated crc _ [] hwf (Or.inl rfl)
  rw [normalise_no_junk _ hnj] at h
  simp only [streamOf, List.map_append, List.map_map, List.map_cons, List.map_nil, List.flatten_append,
    List.flatten_cons, List.flatten_nil, List.append_nil, expectedTail, ↓reduceIte] at h
  have e1 : (Seg.bytes ∘ Seg.frame) = id := by funext f; rfl
  have e2 : (Seg.expected ∘ Seg.frame) = (fun f => ({ typ := typeOf f, raw := f } : Msg)) := by funext f; rfl
  rw [e1, e2] at h
  simpa [Seg.bytes, Seg.expected] using h

/-! Non-vacuity (tests): a concrete corrupted frame (payload byte altered to 0xD3). -/
def F1 : Bytes := [0xD3, 0x00, 0x02, 0x3E, 0xD0] ++ crcBytes (crc24q [0xD3, 0x00, 0x02, 0x3E, 0xD0])
def F1bad : Bytes := [0xD3, 0x00, 0x02, 0x3E, 0xD3] ++ crcBytes (crc24q [0xD3, 0x00, 0x02, 0x3E, 0xD0])

example : Corrupted crc24q F1bad :=
  ⟨⟨F1, ⟨by decide, by decide +kernel, by decide +kernel, by decide +kernel, by decide +kernel⟩,
    by decide, by decide⟩, by decide +kernel⟩

/-- Non-vacuity (a test): the concrete corrupted frame above, seen by a handler started at some
    instant, comes out without time lines and the handler's state is what it was. -/
example : (msgTOfFrame crc24q (newState 1683979200000) F1bad).2 = newState 1683979200000 :=
  congrArg Prod.snd (corrupted_frame_keeps_time_state crc24q _ F1bad
    ⟨⟨F1, ⟨by decide, by decide +kernel, by decide +kernel, by decide +kernel, by decide +kernel⟩,
      by decide, by decide⟩, by decide +kernel⟩)

end Ntrip.C12
