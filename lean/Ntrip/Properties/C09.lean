import Ntrip.Proofs.PipeTerm
import Ntrip.Proofs.SegmentRefine
import Ntrip.Proofs.SegmentSpec
/-!
# C09 — the reader-to-sinks pipeline delivers the same messages under every schedule

`Ntrip.Pipe` (Model/Pipeline.lean) is the transition system of the goroutines and channels
of `file_handler.Handle` (reader R), `handler.HandleMessages` (framer F),
`appcore.HandleMessagesUntilEOF` (fan-out D), the consumers W_i and the caller that closes
the consumer channels afterwards.  `pipeCfg` instantiates it for a byte stream `bs`: the
sequence every consumer must get is `segment crc (In.ofBytes bs)` — sequential framing.
The theorems hold for **every** schedule (every path of the transition relation), every
number of consumers, every channel capacity (0 = unbuffered), any nil entries, every writer
latency (handling a message is two steps with arbitrary stuttering between) and every
timing of the framer (`produced`, about which only monotonicity is assumed).
-/
namespace Ntrip.C09
open Ntrip.Pipe

/-- The pipeline for stream `bs`: consumers `0 … k-1` with capacities `cap`, nil entries
    `isNil`; afterwards the caller closes every non-nil consumer channel and waits. -/
def pipeCfg (crc : Bytes → Nat) (bs : Bytes) (produced : Nat → Bool → Nat) (k : Nat) (cap : Nat → Nat)
    (isNil : Nat → Bool) : Cfg Msg :=
  { nBytes := bs.length, out := segment crc (In.ofBytes bs), produced := produced, k := k, cap := cap,
    isNil := isNil, closes := fun i => !isNil i, waits := true }

/-- Admissible timings of the framer: it never produces more than the sequential output,
    never un-produces, and has produced everything once it has seen all bytes and the close. -/
structure Timing (crc : Bytes → Nat) (bs : Bytes) (produced : Nat → Bool → Nat) : Prop where
  le : ∀ r b, produced r b ≤ (segment crc (In.ofBytes bs)).length
  mono : ∀ r r' b b', r ≤ r' → (b = true → b' = true) → produced r b ≤ produced r' b'
  final : produced bs.length true = (segment crc (In.ofBytes bs)).length

theorem cfg_wf {crc bs produced} (ht : Timing crc bs produced) (k cap isNil) :
    (pipeCfg crc bs produced k cap isNil).WF :=
  ⟨ht.le, ht.mono, ht.final, by intro i h; simpa [pipeCfg] using h⟩

/-- No send on a closed channel, no channel closed twice, no close of a nil channel: the panic
    state is unreachable under every schedule. -/
theorem pipeline_no_panic {crc bs produced} (ht : Timing crc bs produced) (k cap isNil) {s}
    (h : Reach (pipeCfg crc bs produced k cap isNil) s) : s.panic = false :=
  no_panic _ (cfg_wf ht k cap isNil) h

/-- At every moment every non-nil consumer has received a prefix of sequential framing. -/
theorem pipeline_prefix {crc bs produced} (ht : Timing crc bs produced) (k cap isNil) {s}
    (h : Reach (pipeCfg crc bs produced k cap isNil) s) (i : Nat) (hi : i < k) (hn : isNil i = false) :
    s.handled i <+: segment crc (In.ofBytes bs) :=
  handled_prefix _ (cfg_wf ht k cap isNil) h i hi hn

/-- When `HandleMessagesUntilEOF` has returned, every non-nil consumer has been sent exactly
    the sequential message sequence (types and raw bytes, in order). -/
theorem pipeline_returned_all_sent {crc bs produced} (ht : Timing crc bs produced) (k cap isNil) {s}
    (h : Reach (pipeCfg crc bs produced k cap isNil) s) (hd : s.dDone = true) (i : Nat) (hi : i < k)
    (hn : isNil i = false) :
    s.handled i ++ (s.wCur i).toList ++ s.buf i = segment crc (In.ofBytes bs) :=
  fanout_returned_all_sent _ (cfg_wf ht k cap isNil) h hd i hi hn

/-- Deadlock freedom: as long as something is unfinished, some goroutine can move. -/
theorem pipeline_progress {crc bs produced} (ht : Timing crc bs produced) (k cap isNil) {s}
    (h : Reach (pipeCfg crc bs produced k cap isNil) s) (hnf : ¬ Final (pipeCfg crc bs produced k cap isNil) s) :
    ∃ s', Step (pipeCfg crc bs produced k cap isNil) s s' :=
  progress _ (cfg_wf ht k cap isNil) (by intro i _ hn; have : isNil i = false := hn; simp [pipeCfg, this]) h hnf

/-- Every schedule is finite: each step strictly decreases a natural-number measure, so after
    at most `measure cfg init` steps nothing can move — the call has returned and every helper
    goroutine has reached its end. -/
theorem pipeline_terminates {crc bs produced} (ht : Timing crc bs produced) (k cap isNil) {s s'}
    (h : Reach (pipeCfg crc bs produced k cap isNil) s) (hs : Step (pipeCfg crc bs produced k cap isNil) s s') :
    measure (pipeCfg crc bs produced k cap isNil) s' < measure (pipeCfg crc bs produced k cap isNil) s :=
  measure_decreases _ (cfg_wf ht k cap isNil) s s' (reach_inv _ (cfg_wf ht k cap isNil) h) hs

/-- **Delivery**: in every state where nothing can move any more, the call has returned, all
    helper goroutines have finished and every non-nil consumer has received exactly the
    message sequence that sequential framing of the same bytes produces. -/
theorem pipeline_delivers {crc bs produced} (ht : Timing crc bs produced) (k cap isNil) {s}
    (h : Reach (pipeCfg crc bs produced k cap isNil) s)
    (hstuck : ¬ ∃ s', Step (pipeCfg crc bs produced k cap isNil) s s') :
    s.mainReturned = true ∧ s.dDone = true ∧
    ∀ i, i < k → isNil i = false → s.wDone i = true ∧ s.handled i = segment crc (In.ofBytes bs) := by
  have hfin : Final (pipeCfg crc bs produced k cap isNil) s := by
    apply Classical.byContradiction
    intro hnf
    exact hstuck (pipeline_progress ht k cap isNil h hnf)
  have hI := reach_inv _ (cfg_wf ht k cap isNil) h
  refine ⟨hfin.1, (hI.mr hfin.1).2.1, fun i hi hn => ⟨hfin.2 i hi hn, ?_⟩⟩
  exact done_all_handled _ (cfg_wf ht k cap isNil) h i hi hn (hfin.2 i hi hn)

/-- At every moment and under every schedule any two consumers agree on what they have seen so
    far: one has handled a prefix of what the other has handled (no consumer sees a different
    message or a different order). -/
theorem consumers_agree {crc bs produced} (ht : Timing crc bs produced) (k cap isNil) {s}
    (h : Reach (pipeCfg crc bs produced k cap isNil) s) (i j : Nat) (hi : i < k) (hj : j < k)
    (hni : isNil i = false) (hnj : isNil j = false) :
    s.handled i <+: s.handled j ∨ s.handled j <+: s.handled i :=
  List.prefix_or_prefix_of_prefix (pipeline_prefix ht k cap isNil h i hi hni)
    (pipeline_prefix ht k cap isNil h j hj hnj)

/-- … and the raw bytes a consumer has handled are always a prefix of the input stream. -/
theorem handled_bytes_prefix {crc bs produced} (ht : Timing crc bs produced) (k cap isNil) {s}
    (h : Reach (pipeCfg crc bs produced k cap isNil) s) (i : Nat) (hi : i < k) (hn : isNil i = false) :
    ((s.handled i).map (·.raw)).flatten <+: bs := by
  obtain ⟨t, ht'⟩ := pipeline_prefix ht k cap isNil h i hi hn
  have hl : ((segment crc (In.ofBytes bs)).map (·.raw)).flatten = bs := by
    rw [handleMessages_eq]; exact (segmentS_lossless crc _ bs rfl).1
  rw [← ht'] at hl
  simp only [List.map_append, List.flatten_append] at hl
  exact ⟨_, hl⟩

/-! Non-vacuity: the timing "emit everything only after the close" is admissible for every
    stream (so the hypotheses of the theorems are satisfiable), and the initial state is reachable. -/
example (crc : Bytes → Nat) (bs : Bytes) :
    Timing crc bs (fun _ b => if b then (segment crc (In.ofBytes bs)).length else 0) := by
  refine ⟨?_, ?_, by simp⟩
  · intro r b; cases b <;> simp
  · intro r r' b b' _ hb
    cases b <;> cases b' <;> simp_all

example (crc : Bytes → Nat) (bs : Bytes) (p) (k) (cap) (isNil) : Reach (pipeCfg crc bs p k cap isNil) (init Msg) := .init

end Ntrip.C09
