import Ntrip.Proofs.SegmentRefine
import Ntrip.Proofs.SegmentSpec
/-!
# C01 — only complete CRC-valid frames are ever presented as typed RTCM messages

`segment crc (In.ofBytes bs)` is the model of `HandleMessages` on the byte stream `bs`
(byte channel with push-back, closed after `bs`); `getMessageCore crc bs` the model of
`GetMessage(bs)` up to the point where type and raw bytes are fixed.  Both theorems hold for
an arbitrary checksum function `crc`, in particular for CRC-24Q.
-/
namespace Ntrip.C01

/-- Stream clause: every message delivered with a non-negative type carries exactly one valid
    frame, reports that frame's type, and carries no error. -/
theorem stream_typed_valid (crc : Bytes → Nat) (bs : Bytes) (m : Msg)
    (hm : m ∈ segment crc (In.ofBytes bs)) (htyp : 0 ≤ m.typ) :
    ValidFrame crc m.raw ∧ m.typ = typeOf m.raw ∧ m.err = .none := by
  rw [handleMessages_eq] at hm
  exact segmentS_typed_valid crc _ bs rfl m hm htyp

/-- Single-frame clause (reading of DESIGN.md §9.1): a typed message without an error is only
    returned for bytes that begin with exactly one valid frame; the message holds exactly that
    frame (a prefix of the input) and reports its type. -/
theorem getMessage_typed_valid (crc : Bytes → Nat) (bs : Bytes) (m : Msg)
    (h : getMessageCore crc bs = .msg m) (htyp : 0 ≤ m.typ) (herr : m.err = .none) :
    ValidFrame crc m.raw ∧ m.raw <+: bs ∧ m.typ = typeOf m.raw :=
  getMessageCore_typed_valid crc bs m h htyp herr

theorem lengthAndType_typed_err (bs : Bytes) (h : 0 ≤ (lengthAndType bs).2.1)
    (he : (lengthAndType bs).2.2 ≠ .none) : (lengthAndType bs).2.2 = .zeroLength := by
  unfold lengthAndType at *
  split
  · rename_i h1; simp [h1] at h
  · rename_i h1
    split
    · rename_i h2; simp [h1, h2] at h
    · rename_i h2
      split
      · rename_i h3; simp [h1, h2, h3] at h
      · rename_i h3
        dsimp only
        split
        · rfl
        · rename_i h4; simp [h1, h2, h3, h4] at he

/-- The only typed message that does carry an error at this stage is the zero-length one
    (allowed by the statement: it is returned *with* an error). -/
theorem getMessage_typed_error (crc : Bytes → Nat) (bs : Bytes) (m : Msg)
    (h : getMessageCore crc bs = .msg m) (htyp : 0 ≤ m.typ) (herr : m.err ≠ .none) :
    m.err = .zeroLength ∧ m.raw = bs := by
  unfold getMessageCore at h
  split at h
  · simp at h
  · split at h
    · injection h with h; subst h; simp [nonRTCM] at htyp
    · rcases hlt : lengthAndType bs with ⟨len, typ, e⟩
      rw [hlt] at h
      simp only at h
      split at h
      · injection h with h; subst h
        simp only at htyp herr ⊢
        have := lengthAndType_typed_err bs (by rw [hlt]; exact htyp) (by rw [hlt]; exact herr)
        rw [hlt] at this
        exact ⟨this, trivial⟩
      · split at h
        · injection h with h; subst h; simp at htyp
        · split at h
          · injection h with h; subst h; simp at htyp
          · injection h with h; subst h; simp at herr

/-- Size of a frame: 3 leader bytes, 1…1023 payload bytes, 3 CRC bytes. -/
theorem validFrame_size_bounds (crc : Bytes → Nat) (f : Bytes) (h : ValidFrame crc f) :
    7 ≤ f.length ∧ f.length ≤ 1029 := by
  have h1 := h.lenNonzero
  have h2 := h.size
  have h3 : specU f 14 10 < 2^10 := specU_lt f 14 10
  omega

/-- Every typed message the handler delivers is 7 to 1029 bytes long: nothing shorter than the
    smallest frame and nothing longer than the largest is ever presented as a typed message. -/
theorem stream_typed_size (crc : Bytes → Nat) (bs : Bytes) (m : Msg)
    (hm : m ∈ segment crc (In.ofBytes bs)) (htyp : 0 ≤ m.typ) :
    7 ≤ m.raw.length ∧ m.raw.length ≤ 1029 ∧ m.typ < 4096 := by
  have h := stream_typed_valid crc bs m hm htyp
  have hb := validFrame_size_bounds crc m.raw h.1
  refine ⟨hb.1, hb.2, ?_⟩
  rw [h.2.1]; unfold typeOf
  have : specU m.raw 24 12 < 2^12 := specU_lt _ _ _
  omega

/-! Non-vacuity (tests): a concrete valid 1005-typed frame with a 1-byte... the premises are met. -/
def sampleFrame : Bytes := [0xD3, 0x00, 0x02, 0x3E, 0xD0] ++ crcBytes (crc24q [0xD3, 0x00, 0x02, 0x3E, 0xD0])

example : getMessageCore crc24q sampleFrame = .msg { typ := 1005, raw := sampleFrame } := by
  decide +kernel

example : scan ([0x41, 0x42] ++ sampleFrame ++ [0xD3]) = .junk [0x41, 0x42] (sampleFrame ++ [0xD3]) := by
  decide +kernel

example : scan (sampleFrame ++ [0xD3]) = .frame sampleFrame [0xD3] := by decide +kernel

example : msgOfFrame crc24q sampleFrame = { typ := 1005, raw := sampleFrame } := by decide +kernel

end Ntrip.C01
