import Ntrip.Properties.C11
import Ntrip.Properties.C03
/-!
# C10 — rtcmfilter emits exactly the valid RTCM frames of its input, in order

rtcmfilter's `HandleMessages` is the pipeline of C09/C11 with up to three writers on
unbuffered channels: writer 0 = `writeRTCMMessages` on the output writer, then (if display
is on) `writeReadableMessages` on the readable log, then (if recording is on)
`writeRTCMMessages` on the daily record file.  What a writer emits for the messages it has
handled is a function of that list: `rtcmBytes` for `writeRTCMMessages` (skip the non-RTCM
sentinel, write the raw bytes), one entry per message for `writeReadableMessages`.
-/
namespace Ntrip.C10
open Ntrip.Pipe

/-- What `writeRTCMMessages` writes for the messages it handled: the raw bytes of every
    message that is not the non-RTCM sentinel, in order. -/
def rtcmBytes (ms : List Msg) : Bytes := ((ms.filter (fun m => m.typ != -1)).map (·.raw)).flatten

/-- What `writeReadableMessages` writes: one entry per handled message. -/
def displayEntries (ms : List Msg) : Nat := ms.length

/-- **Output.** Whatever the configuration of the optional logs (`k` writers), the timing and
    the schedule: once `HandleMessages` has returned, the bytes written to the output are
    the raw bytes of the typed messages of sequential framing, in input order — … -/
theorem filter_output (crc bs produced k) (hc : (C11.filterCfg crc bs produced k).WF) {s}
    (h : Reach (C11.filterCfg crc bs produced k) s) (hr : s.mainReturned = true) (hk : 0 < k) :
    rtcmBytes (s.handled 0) = rtcmBytes (segment crc (In.ofBytes bs)) := by
  rw [C11.filter_returned_all_written crc bs produced k hc h hr 0 hk]

/-- … the record file (any other `writeRTCMMessages` writer) receives the same bytes, and the
    readable log one entry per delivered message. -/
theorem filter_record_and_display (crc bs produced k) (hc : (C11.filterCfg crc bs produced k).WF) {s}
    (h : Reach (C11.filterCfg crc bs produced k) s) (hr : s.mainReturned = true) (i : Nat) (hi : i < k) :
    rtcmBytes (s.handled i) = rtcmBytes (segment crc (In.ofBytes bs)) ∧
    displayEntries (s.handled i) = (segment crc (In.ofBytes bs)).length := by
  rw [C11.filter_returned_all_written crc bs produced k hc h hr i hi]; exact ⟨rfl, rfl⟩

/-- Nothing but valid frames: every message whose bytes are written is exactly one valid
    RTCM3 frame (so no non-RTCM data, no corrupted or partial frame reaches the output). -/
theorem output_only_valid_frames (crc : Bytes → Nat) (bs : Bytes) (m : Msg)
    (hm : m ∈ (segment crc (In.ofBytes bs)).filter (fun m => m.typ != -1)) : ValidFrame crc m.raw := by
  simp only [List.mem_filter, bne_iff_ne, ne_eq] at hm
  obtain ⟨hmem, hne⟩ := hm
  rw [handleMessages_eq] at hmem
  rcases segmentS_typ crc _ bs rfl m hmem with h0 | h1
  · exact (segmentS_typed_valid crc _ bs rfl m hmem h0).1
  · exact absurd h1 hne

/-- No omission, duplication or reordering: for a stream made of valid frames, runs of other
    data and CRC-corrupted frames (C03/C12), the output is exactly the concatenation of the
    valid frames in input order. -/
theorem output_is_the_valid_frames (crc : Bytes → Nat) (segs : List Seg) (tail : Bytes)
    (hwf : ∀ s ∈ segs, s.WF crc) (htail : TruncTail crc tail) :
    rtcmBytes (segment crc (In.ofBytes (streamOf segs tail))) =
      ((normalise segs).filterMap (fun s => match s with | .frame f => some f | _ => none)).flatten := by
  rw [handleMessages_eq, segmentS_recognises' crc tail htail segs hwf]
  unfold rtcmBytes
  have htailF : (expectedTail tail).filter (fun m => m.typ != -1) = [] := by
    unfold expectedTail; split <;> simp [nonRTCM]
  rw [List.filter_append, htailF, List.append_nil]
  have hnn : ∀ s ∈ normalise segs, s.WF crc := normalise_wf crc _ segs rfl hwf
  generalize normalise segs = l at hnn
  induction l with
  | nil => simp
  | cons s rest ih =>
    have ih' := ih (fun x hx => hnn x (List.mem_cons_of_mem _ hx))
    cases s with
    | frame f =>
      have hv : ValidFrame crc f := hnn _ (List.mem_cons_self ..)
      have : ((typeOf f : Int) != -1) = true := by
        simp only [typeOf, bne_iff_ne, ne_eq]; omega
      simp only [List.map_cons, Seg.expected, List.filter_cons, this, if_true, List.filterMap_cons,
        List.flatten_cons]
      rw [ih']
    | junk j =>
      simp only [List.map_cons, Seg.expected, nonRTCM, List.filter_cons, List.filterMap_cons]
      simpa using ih'
    | corrupt f =>
      simp only [List.map_cons, Seg.expected, List.filter_cons, List.filterMap_cons]
      simpa using ih'

/-- On a clean stream (valid frames only, back to back) the filter is the identity. -/
theorem clean_stream_unchanged (crc : Bytes → Nat) (fs : List Bytes) (hv : ∀ f ∈ fs, ValidFrame crc f) :
    rtcmBytes (segment crc (In.ofBytes fs.flatten)) = fs.flatten := by
  rw [C03.back_to_back_frames crc fs hv]
  unfold rtcmBytes
  have : (fs.map (fun f => ({ typ := typeOf f, raw := f } : Msg))).filter (fun m => m.typ != -1) =
      fs.map (fun f => ({ typ := typeOf f, raw := f } : Msg)) := by
    apply List.filter_eq_self.mpr
    intro m hm
    rcases List.mem_map.mp hm with ⟨f, _, rfl⟩
    simp only [typeOf, bne_iff_ne, ne_eq]; omega
  rw [this, List.map_map]
  congr 1
  exact List.map_id' _ |>.symm ▸ rfl

/-- Filtering is idempotent: running the filter's output through the filter again changes nothing. -/
theorem filter_idempotent (crc : Bytes → Nat) (segs : List Seg) (tail : Bytes)
    (hwf : ∀ s ∈ segs, s.WF crc) (htail : TruncTail crc tail) :
    rtcmBytes (segment crc (In.ofBytes (rtcmBytes (segment crc (In.ofBytes (streamOf segs tail)))))) =
      rtcmBytes (segment crc (In.ofBytes (streamOf segs tail))) := by
  rw [output_is_the_valid_frames crc segs tail hwf htail]
  apply clean_stream_unchanged
  intro f hf
  rcases List.mem_filterMap.mp hf with ⟨s, hs, hsf⟩
  have hw := normalise_wf crc _ segs rfl hwf s hs
  cases s with
  | frame g => simp at hsf; subst hsf; exact hw
  | junk j => simp at hsf
  | corrupt g => simp at hsf

/-! Non-vacuity (tests). -/
example : rtcmBytes [{ typ := -1, raw := [1, 2] }, { typ := 1005, raw := [0xD3, 0] }, { typ := -1, raw := [9] }] = [0xD3, 0] := by
  decide

end Ntrip.C10
