import Ntrip.Proofs.Translated
import Ntrip.Proofs.Range
import Ntrip.Generated.Tables
import Ntrip.Proofs.F64Doppler
/-!
# C08 — ranges, phase ranges and range rates equal the standard's formulas

Exact layer (proved): the scaled integers the cells compute are exactly the standard's sums
(units 2^-29 ms for ranges, 2^-31 ms for phase ranges, 10^-4 m/s for rates), the 'invalid'
markers behave as stated, MSM4 and MSM7 encodings of the same quantity agree, and the
frequency tables are the documented bands (regenerated from the source).

Float layer: all four reported quantities are modelled in exact binary64 arithmetic (`F64`) and
proved accurate for every input: the range in metres (`float64(scaled)/2^29 * 299792.458`, MSM4
and MSM7) to 2^-51, the range rate in m/s (`float64(scaled)/10000`) to 2^-53, the phase range in
cycles (`fl(fl(scaled/2^31 · 299792.458) / wavelength)`) and the Doppler in Hz
(`-fl(fl(scaled/10000) / wavelength)`), with `wavelength = fl(299792458 / f)`, to 2^-50 for every
carrier frequency of the regenerated tables.  The model is compared bit for bit with the hardware
results on every generated cell.
-/
namespace Ntrip.C08

/-- Range, MSM7: whole ms (0…254), fractional/1024, fine × 2^-29 — as one scaled integer
    `(whole + frac/1024 + fine·2^-29) · 2^29`, whenever the true value is non-negative. -/
theorem range7_exact (whole frac : Nat) (delta : Int) (hw : whole ≤ 254) (hf : frac ≤ 1023)
    (hd1 : -(2^19 : Int) < delta) (hd2 : delta < 2^19)
    (hnn : 0 ≤ (whole * 2^29 + frac * 2^19 : Nat) + delta) :
    (aggregateRange7 whole frac delta : Int) = (whole * 2^29 + frac * 2^19 : Nat) + delta := by
  unfold aggregateRange7
  have hir : invalidRange = 255 := by decide
  have hinv : Gen.sig7_InvalidRangeDelta = -524288 := rfl
  rw [hir, hinv]
  have h1 : ¬ whole = 255 := by omega
  have h2 : ¬ delta = -524288 := by omega
  simp only [h1, h2, if_false]
  apply scaledValue_eq
  · rw [Nat.shiftLeft_eq]; omega
  · omega
  · exact hnn
  · omega

/-- Range, MSM4: the 15-bit fine value has weight 2^-24 ms (= 32 · 2^-29). -/
theorem range4_exact (whole frac : Nat) (delta : Int) (hw : whole ≤ 254) (hf : frac ≤ 1023)
    (hd1 : -(2^14 : Int) < delta) (hd2 : delta < 2^14)
    (hnn : 0 ≤ (whole * 2^29 + frac * 2^19 : Nat) + delta * 32) :
    (aggregateRange4 whole frac delta : Int) = (whole * 2^29 + frac * 2^19 : Nat) + delta * 32 := by
  unfold aggregateRange4
  have hir : invalidRange = 255 := by decide
  have hinv : Gen.utils_InvalidRangeDelta = -16384 := rfl
  rw [hir, hinv]
  have h1 : ¬ whole = 255 := by omega
  have h2 : ¬ delta = -16384 := by omega
  simp only [h1, h2, if_false]
  apply scaledValue_eq
  · rw [Nat.shiftLeft_eq]; omega
  · omega
  · exact hnn
  · omega

/-- Phase range, MSM7: `(whole + frac/1024 + fine·2^-31) · 2^31`. -/
theorem phase7_exact (whole frac : Nat) (delta : Int) (hw : whole ≤ 254) (hf : frac ≤ 1023)
    (hd1 : -(2^23 : Int) < delta) (hd2 : delta < 2^23)
    (hnn : 0 ≤ (whole * 2^31 + frac * 2^21 : Nat) + delta) :
    (aggregatePhase7 whole frac delta : Int) = (whole * 2^31 + frac * 2^21 : Nat) + delta := by
  unfold aggregatePhase7
  have hir : invalidRange = 255 := by decide
  have hinv : Gen.sig7_InvalidPhaseRangeDelta = -8388608 := rfl
  rw [hir, hinv]
  have h1 : ¬ whole = 255 := by omega
  have h2 : ¬ delta = -8388608 := by omega
  simp only [h1, h2, if_false]
  apply scaledValue_eq
  · rw [Nat.shiftLeft_eq]; omega
  · omega
  · exact hnn
  · omega

/-- Phase range, MSM4: the 22-bit fine value has weight 2^-29 ms (= 4 · 2^-31). -/
theorem phase4_exact (whole frac : Nat) (delta : Int) (hw : whole ≤ 254) (hf : frac ≤ 1023)
    (hd1 : -(2^21 : Int) < delta) (hd2 : delta < 2^21)
    (hnn : 0 ≤ (whole * 2^31 + frac * 2^21 : Nat) + delta * 4) :
    (aggregatePhase4 whole frac delta : Int) = (whole * 2^31 + frac * 2^21 : Nat) + delta * 4 := by
  unfold aggregatePhase4
  have hir : invalidRange = 255 := by decide
  have hinv : Gen.utils_InvalidPhaseRangeDelta = -2097152 := rfl
  rw [hir, hinv]
  have h1 : ¬ whole = 255 := by omega
  have h2 : ¬ delta = -2097152 := by omega
  simp only [h1, h2, if_false]
  apply scaledValue_eq
  · rw [Nat.shiftLeft_eq]; omega
  · omega
  · exact hnn
  · omega

/-- Range rate, MSM7: `rough + fine/10000` m/s, as an integer in units of 10^-4 m/s. -/
theorem rate7_exact (rate delta : Int) (h1 : rate ≠ -8192) (h2 : delta ≠ -16384) :
    aggregateRate7 rate delta = rate * 10000 + delta := by
  unfold aggregateRate7
  simp only [Gen.sig7_InvalidPhaseRangeRate, Gen.sig7_InvalidPhaseRangeRateDelta]
  simp [h1, h2]

/-- An invalid rough range (whole = 255) makes range and phase range invalid (zero). -/
theorem invalid_rough (frac : Nat) (d : Int) :
    aggregateRange7 255 frac d = 0 ∧ aggregateRange4 255 frac d = 0 ∧
    aggregatePhase7 255 frac d = 0 ∧ aggregatePhase4 255 frac d = 0 := by
  simp [aggregateRange7, aggregateRange4, aggregatePhase7, aggregatePhase4, invalidRange, Gen.utils_InvalidRange]

/-- An invalid rough rate makes the rate invalid (zero). -/
theorem invalid_rough_rate (d : Int) : aggregateRate7 (-8192) d = 0 := by
  simp [aggregateRate7, Gen.sig7_InvalidPhaseRangeRate]

/-- An invalid fine value falls back to the rough value alone — for each of the five fine fields. -/
theorem invalid_fine_falls_back (whole frac : Nat) (rate : Int) (hw : whole ≠ 255) (hr : rate ≠ -8192) :
    aggregateRange7 whole frac (-524288) = scaledValue whole 29 frac 19 0 ∧
    aggregateRange4 whole frac (-16384) = scaledValue whole 29 frac 19 0 ∧
    aggregatePhase7 whole frac (-8388608) = scaledValue whole 31 frac 21 0 ∧
    aggregatePhase4 whole frac (-2097152) = scaledValue whole 31 frac 21 0 ∧
    aggregateRate7 rate (-16384) = rate * 10000 := by
  simp [aggregateRange7, aggregateRange4, aggregatePhase7, aggregatePhase4, aggregateRate7, invalidRange,
    Gen.utils_InvalidRange, Gen.sig7_InvalidRangeDelta, Gen.utils_InvalidRangeDelta,
    Gen.sig7_InvalidPhaseRangeDelta, Gen.utils_InvalidPhaseRangeDelta, Gen.sig7_InvalidPhaseRangeRate,
    Gen.sig7_InvalidPhaseRangeRateDelta, hw, hr]

/-- The rough value alone is `(whole + frac/1024)` scaled. -/
theorem rough_only (whole frac : Nat) (hw : whole ≤ 254) (hf : frac ≤ 1023) :
    scaledValue whole 29 frac 19 0 = whole * 2^29 + frac * 2^19 ∧
    scaledValue whole 31 frac 21 0 = whole * 2^31 + frac * 2^21 := by
  constructor
  · have := scaledValue_eq whole 29 frac 19 0 (by rw [Nat.shiftLeft_eq]; omega) (by omega) (by omega) (by omega)
    omega
  · have := scaledValue_eq whole 31 frac 21 0 (by rw [Nat.shiftLeft_eq]; omega) (by omega) (by omega) (by omega)
    omega

/-- An MSM4 and an MSM7 cell encoding the same quantity yield the same scaled integers
    (hence the same floats): fine range ×32, fine phase ×4. -/
theorem msm4_eq_msm7 (whole frac : Nat) (d4 p4 : Int) (hd : d4 ≠ -16384) (hp : p4 ≠ -2097152) :
    aggregateRange4 whole frac d4 = aggregateRange7 whole frac (d4 * 32) ∧
    aggregatePhase4 whole frac p4 = aggregatePhase7 whole frac (p4 * 4) := by
  have h1 : ¬ d4 * 32 = -524288 := by omega
  have h2 : ¬ p4 * 4 = -8388608 := by omega
  simp [aggregateRange4, aggregateRange7, aggregatePhase4, aggregatePhase7, Gen.utils_InvalidRangeDelta,
    Gen.sig7_InvalidRangeDelta, Gen.utils_InvalidPhaseRangeDelta, Gen.sig7_InvalidPhaseRangeDelta, hd, hp, h1, h2]

/-- Values whose true sum is negative are outside the property (the `uint64` cast wraps): -/
example : scaledValue 0 29 0 19 (-1) = 2^64 - 1 := by decide

/-- Tie T1: the carrier frequencies per constellation and signal id are the documented bands
    (GPS L1/L2/L5, Galileo E1/E6/E5b/E5a+b/E5a, GLONASS G1/G2, BeiDou B1/B3/B2), everything
    else has no wavelength; wavelength = c / frequency with c = 299 792 458 m/s. -/
theorem frequency_tables :
    Gen.utils_getSignalFrequencyGPS = some ([(2, 1575420000), (3, 1575420000), (4, 1575420000),
      (8, 1227600000), (9, 1227600000), (10, 1227600000), (15, 1227600000), (16, 1227600000), (17, 1227600000),
      (22, 1176450000), (23, 1176450000), (24, 1176450000), (30, 1575420000), (31, 1575420000), (32, 1575420000)], 0) ∧
    Gen.utils_getSignalFrequencyGalileo = some ([(2, 1575420000), (3, 1575420000), (4, 1575420000), (5, 1575420000),
      (6, 1575420000), (8, 1278750000), (9, 1278750000), (10, 1278750000), (11, 1278750000), (12, 1278750000),
      (14, 1207140000), (15, 1207140000), (16, 1207140000), (18, 1191795000), (19, 1191795000), (20, 1191795000),
      (22, 1176450000), (23, 1176450000), (24, 1176450000)], 0) ∧
    Gen.utils_getSignalFrequencyGlonass = some ([(2, 1602000000), (3, 1602000000), (8, 1246000000), (9, 1246000000)], 0) ∧
    Gen.utils_getSignalFrequencyBeidou = some ([(2, 1561098000), (3, 1561098000), (4, 1561098000),
      (8, 1268520000), (9, 1268520000), (10, 1268520000), (14, 1176450000), (15, 1176450000), (16, 1176450000)], 0) ∧
    Gen.utils_SpeedOfLightMS = 299792458 ∧ Gen.utils_OneLightMillisecond = 299792458 / 1000 := by
  repeat' constructor
  all_goals (first | decide | decide +kernel)

theorem wavelength_shapes :
    Gen.utils_GetSignalWavelength = some ([("GPS", "getSignalWavelengthGPS()"), ("Galileo", "getSignalWavelengthGalileo()"),
      ("Glonass", "getSignalWavelengthGlonass()"), ("Beidou", "getSignalWavelengthBeidou()")], "0") ∧
    Gen.utils_getSignalWavelengthGPS_shape = "frequency:=getSignalFrequencyGPS(); if frequency==0 {return 0}; return SpeedOfLightMS/frequency" ∧
    Gen.utils_getSignalWavelengthGalileo_shape = "frequency:=getSignalFrequencyGalileo(); if frequency==0 {return 0}; return SpeedOfLightMS/frequency" ∧
    Gen.utils_getSignalWavelengthGlonass_shape = "frequency:=getSignalFrequencyGlonass(); if frequency==0 {return 0}; return SpeedOfLightMS/frequency" ∧
    Gen.utils_getSignalWavelengthBeidou_shape = "frequency:=getSignalFrequencyBeidou(); if frequency==0 {return 0}; return SpeedOfLightMS/frequency" := by
  repeat' constructor
  all_goals decide

/-- The range in metres as the Go code computes it from an aggregate range (MSM7
    `RangeInMetres`, MSM4 `RangeInMillis`/`RangeInMetres`), in the exact binary64 model. -/
def rangeMetres (scaled : Nat) : F64.Val := F64.mul (F64.scale2 (F64.ofInt scaled) (-29)) F64.cLightMs

/-- The range rate in m/s (`PhaseRangeRate`), in the exact binary64 model. -/
def rateMetresPerSecond (scaled : Int) : F64.Val := F64.divConst (F64.ofInt scaled) 10000

/-- The light-millisecond constant: 299792.458 in the source (tie T1) and its nearest binary64
    in the model. -/
theorem light_constant :
    Gen.utils_OneLightMillisecond = 299792458 / 1000 ∧
    F64.rhe (299792458 * 2 ^ 34) 1000 = F64.cLightMs.m ∧ F64.bitLen F64.cLightMs.m.natAbs = 53 := by
  refine ⟨by decide +kernel, by decide +kernel, by decide +kernel⟩

/-- **Range in metres, to within floating-point rounding**: for every aggregate range (any field
    values) the computed float differs from `scaled / 2^29 × 299792.458` by at most 2^-51 of it. -/
theorem range_metres_accurate (scaled : Nat) (h : scaled < 2 ^ 41) :
    2 ^ 51 * (1000 * (rangeMetres scaled).scaled 63 - scaled * 299792458 * 2 ^ 34) ≤ scaled * 299792458 * 2 ^ 34 ∧
    -((scaled : Int) * 299792458 * 2 ^ 34) ≤ 2 ^ 51 * (1000 * (rangeMetres scaled).scaled 63 - scaled * 299792458 * 2 ^ 34) :=
  F64.range_metres_accuracy scaled h

/-- Every valid MSM7/MSM4 cell is covered: its aggregate range is below 2^41. -/
theorem range7_bound (whole frac : Nat) (delta : Int) (hw : whole ≤ 254) (hf : frac ≤ 1023)
    (hd1 : -(2 ^ 19 : Int) < delta) (hd2 : delta < 2 ^ 19)
    (hnn : 0 ≤ (whole * 2 ^ 29 + frac * 2 ^ 19 : Nat) + delta) :
    aggregateRange7 whole frac delta < 2 ^ 41 := by
  have := range7_exact whole frac delta hw hf hd1 hd2 hnn
  have h2 : ((whole * 2 ^ 29 + frac * 2 ^ 19 : Nat) : Int) = (whole : Int) * 2 ^ 29 + (frac : Int) * 2 ^ 19 := by
    simp only [Int.natCast_add, Int.natCast_mul, Int.natCast_pow]; rfl
  rw [h2] at this
  omega

/-- **Range rate in m/s is correctly rounded**: at most 2^-53 of its value away from `scaled / 10^4`. -/
theorem rate_accurate (scaled : Int) (h : scaled.natAbs < 2 ^ 53) :
    2 ^ 53 * (10000 * (rateMetresPerSecond scaled).scaled 78 - scaled * 2 ^ 78) ≤ (scaled.natAbs : Int) * 2 ^ 78 ∧
    -((scaled.natAbs : Int) * 2 ^ 78) ≤ 2 ^ 53 * (10000 * (rateMetresPerSecond scaled).scaled 78 - scaled * 2 ^ 78) :=
  F64.rate_accuracy scaled h

example : F64.ieee (rangeMetres (81 * 2 ^ 29 + 435 * 2 ^ 19 - 26835)) = (false, 1047, 6552651041628382) := by decide +kernel

/-- A regenerated frequency table is covered: it was read (`some`), its default is "no frequency"
    (0), and every row's frequency is positive and one of the ten carrier frequencies. -/
def tableCovered : Option (List (Nat × Int) × Int) → Bool
  | some (rows, dflt) => dflt == 0 && rows.all (fun r => decide (0 < r.2) && F64.carrierFrequencies.contains r.2.toNat)
  | none => false

/-- Every frequency in the regenerated signal tables is one of the ten carrier frequencies the
    accuracy theorems cover. -/
theorem frequencies_covered :
    tableCovered Gen.utils_getSignalFrequencyGPS = true ∧ tableCovered Gen.utils_getSignalFrequencyGalileo = true ∧
    tableCovered Gen.utils_getSignalFrequencyGlonass = true ∧ tableCovered Gen.utils_getSignalFrequencyBeidou = true := by
  refine ⟨by decide +kernel, by decide +kernel, by decide +kernel, by decide +kernel⟩

/-- **Phase range in cycles, to within floating-point rounding**: for every carrier frequency of
    the tables and every aggregate phase range (units 2^-31 ms), the computed float is within 2^-50
    of `scaled · f / (2^31 · 1000)` — i.e. of (whole + frac/1024 + phase·2^-31) ms × c ÷ wavelength. -/
theorem cycles_accurate (f : Nat) (hf : f ∈ F64.carrierFrequencies) (scaled : Nat) (h1 : 1 ≤ scaled) (h : scaled < 2 ^ 41) :
    2 ^ 50 * ((F64.phaseCycles scaled f).scaled 128 * (2 ^ 31 * 1000) - scaled * f * 2 ^ 128) ≤ scaled * f * 2 ^ 128 ∧
    -((scaled : Int) * f * 2 ^ 128) ≤ 2 ^ 50 * ((F64.phaseCycles scaled f).scaled 128 * (2 ^ 31 * 1000) - scaled * f * 2 ^ 128) :=
  F64.cycles_accuracy f hf scaled h1 h

/-- **Doppler in Hz, to within floating-point rounding**: within 2^-50 of `-(scaled/10000) · f / c`. -/
theorem doppler_accurate (f : Nat) (hf : f ∈ F64.carrierFrequencies) (scaled : Int) (h : scaled.natAbs < 2 ^ 53) (h0 : scaled ≠ 0) :
    2 ^ 50 * ((F64.dopplerHz scaled f).scaled 141 * (10000 * 299792458) + scaled * f * 2 ^ 141) ≤ (scaled.natAbs : Int) * f * 2 ^ 141 ∧
    -((scaled.natAbs : Int) * f * 2 ^ 141) ≤ 2 ^ 50 * ((F64.dopplerHz scaled f).scaled 141 * (10000 * 299792458) + scaled * f * 2 ^ 141) :=
  F64.doppler_accuracy f hf scaled h h0

/-- A zero aggregate gives exactly zero (no rounding involved). -/
example : F64.phaseCycles 0 1575420000 = { m := 0, e := 0 } ∧ (F64.dopplerHz 0 1575420000).m = 0 := by decide +kernel

/-- **Translator tie**: the Lean functions that `extract/translate.go` regenerates from the Go
    source of `getScaledValue`, `GetScaledRange`, `GetScaledPhaseRange` and
    `GetScaledPhaseRangeRate` on every run (wrapping 64-bit arithmetic, conversions and all) are
    the model's functions — for every argument.  For this arithmetic the theorems above are
    therefore about what the code says now, not about a hand-written copy. -/
theorem translated_is_model :
    (∀ v1 s1 v2 s2 delta, Gen.fn_utils_getScaledValue v1 s1 v2 s2 delta = scaledValue v1 s1 v2 s2 delta) ∧
    (∀ w f d, Gen.fn_utils_GetScaledRange w f d = scaledValue w 29 f 19 d) ∧
    (∀ w f d, Gen.fn_utils_GetScaledPhaseRange w f d = scaledValue w 31 f 21 d) ∧
    (∀ rate delta, -(2 ^ 13 : Int) ≤ rate ∧ rate < 2 ^ 13 → -(2 ^ 14 : Int) ≤ delta ∧ delta < 2 ^ 14 →
      Gen.fn_utils_GetScaledPhaseRangeRate rate delta = rate * 10000 + delta) :=
  ⟨translated_getScaledValue, translated_GetScaledRange, translated_GetScaledPhaseRange, translated_GetScaledPhaseRangeRate⟩

/-! Non-vacuity (tests). -/
example : aggregateRange7 81 435 (-26835) = 81 * 2^29 + 435 * 2^19 - 26835 := by decide
example : aggregateRange4 81 435 (-839) = aggregateRange7 81 435 (-26848) := by decide

end Ntrip.C08
