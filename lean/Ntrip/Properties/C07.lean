import Ntrip.Proofs.MsmAttach
import Ntrip.Proofs.SegmentRefine
import Ntrip.Proofs.SegmentSpec
import Ntrip.Properties.C05
/-!
# C07 — no input can crash or hang framing, decoding or display

Every Go operation of the framing and decoding code that can panic — slice index, slice
expression, `uint` wrap-around feeding a length — is modelled as a *checked* operation whose
failure is the distinguished outcome `Res.panic` (decoders) or is guarded by a proved range
fact (framing).  "Never panics" and "terminates" are therefore theorems, for **every** byte
string, not artefacts of totalised definitions.

Display (`String` methods: `fmt`, `hex.Dump`, float formatting) is standard-library code and
is *not* modelled; what is proved about it is that every index / pointer it dereferences
exists (`decoded_pointers_exist`), and the list of expressions in the display code that can
panic by themselves is regenerated from the source and pinned (`display_whitelist`) — the
rest is argued, and swept by correspondence (partial, see DESIGN.md §7 C07).
-/
namespace Ntrip.C07

/-- Framing terminates: every fetch that delivers a message strictly consumes input (this is
    the termination proof of the `HandleMessages` model `segment`/`segmentT`). -/
theorem stream_terminates (crc : Bytes → Nat) (s s' : In) (m : Msg) (h : fetch crc s = .msg m s') :
    s'.size < s.size := fetch_size h

/-- Framing reads are in range: `getMessageLengthAndType` indexes bits 8 … 35 only after
    checking that at least five bytes are present. -/
theorem leader_reads_in_range (bs : Bytes) (h : 5 ≤ bs.length) :
    inRange bs 8 6 = true ∧ inRange bs 14 10 = true ∧ inRange bs 24 12 = true :=
  ⟨inRange_of_le (by omega), inRange_of_le (by omega), inRange_of_le (by omega)⟩

/-- The timestamp read of `GetMessage` (30 bits at frame bit 48) is in range whenever it is
    executed: only for a CRC-valid message whose payload holds at least the 54 header bits. -/
theorem timestamp_read_in_range (crc : Bytes → Nat) (bs : Bytes) (m : Msg)
    (hm : getMessageCore crc bs = .msg m) (herr : m.err = .none) (htyp : 0 ≤ m.typ)
    (hlen : ¬ (m.raw.length - 6) * 8 < 54) : inRange bs 48 30 = true := by
  obtain ⟨_, hpre, _⟩ := getMessageCore_typed_valid crc bs m hm htyp herr
  have := hpre.length_le
  exact inRange_of_le (by omega)

/-- **No byte string makes the MSM decoders index out of range** (header, masks, satellite
    and signal arrays; the `uint` subtractions of the length guards never wrap). -/
theorem msm_no_panic (k : MsmKind) (bs : Bytes) : decodeMsm k bs ≠ .panic := decodeMsm_no_panic k bs

/-- … nor the 1005/1006 decoders. -/
theorem base_no_panic (k : BaseKind) (bs : Bytes) : decodeBase k bs ≠ .panic := C05.base_no_panic k bs

/-- **Full decoding (`Analyse`) of any message never panics**, whatever its type and bytes:
    it yields a readable value or an error text. -/
theorem analyse_no_panic (typ : Int) (raw : Bytes) : analyse typ raw ≠ .panic := by
  unfold analyse
  cases analyseDecoder typ with
  | msm4 =>
    have := decodeMsm_no_panic .msm4 raw
    cases h : decodeMsm .msm4 raw <;> simp_all [bind, pure]
  | msm7 =>
    have := decodeMsm_no_panic .msm7 raw
    cases h : decodeMsm .msm7 raw <;> simp_all [bind, pure]
  | t1005 =>
    have := C05.base_no_panic .t1005 raw
    cases h : decodeBase .t1005 raw <;> simp_all [bind, pure]
  | t1006 =>
    have := C05.base_no_panic .t1006 raw
    cases h : decodeBase .t1006 raw <;> simp_all [bind, pure]
  | text => simp [pure]

/-- In every decoded MSM the satellite cell a signal cell points to exists (the pointer the
    MSM7 cell printer dereferences without a nil check is never nil), and so does the signal
    id it was given; there is one satellite cell per satellite of the mask. -/
theorem decoded_pointers_exist (k : MsmKind) (bs : Bytes) (m : MsmMsg) (hm : decodeMsm k bs = .ok m) :
    m.sats.length = m.hdr.sats.length ∧
    ∀ r ∈ m.sigs, ∀ cell ∈ r, cell.satIdx < m.sats.length ∧ cell.sigIdx < m.hdr.sigs.length :=
  decodeMsm_indices k bs m hm

/-- Masks announcing more cells than fit are an error, not a crash: more than 64 cell-mask
    bits is rejected before anything is read. -/
theorem too_many_cells_is_error (bs : Bytes) (h : MsmHeader) (pos : Nat)
    (hh : getMSMHeader bs = .ok (h, pos)) : h.sats.length * h.sigs.length ≤ 64 ∧ pos + 24 ≤ 8 * bs.length := by
  obtain ⟨_, h2, _, h4⟩ := (getMSMHeader_safe bs).2 h pos hh
  exact ⟨h4, h2⟩


/-! Non-vacuity (tests): the short CRC-valid MSM frame that used to crash `GetMessage`. -/
example : (getMessage crc24q (newState 0) [0xd3, 0x00, 0x02, 0x43, 0x50, 0x06, 0xa2, 0x7e]).1 =
    .msg { typ := 1077, raw := [0xd3, 0x00, 0x02, 0x43, 0x50, 0x06, 0xa2, 0x7e], err := .tsShort } := by
  decide +kernel
example : decodeMsm .msm7 [0xd3, 0x00, 0x02, 0x43, 0x50, 0x06, 0xa2, 0x7e] = .err .headerShort := by decide +kernel

end Ntrip.C07
