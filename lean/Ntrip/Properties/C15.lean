import Ntrip.Model.Analyse
/-!
# C15 — decoding and display are deterministic and free of hidden state

In the model, decoding is a function: `getMessageCore crc bytes` (type, raw bytes, framing
error) and `analyse typ raw` (the decoded fields) take **no** handler state at all; the only
state-dependent part of `GetMessage` is `addTime`, which touches nothing but the MSM time
lines.  That this functional shape is faithful — no package-level variable is written
outside `init`, nothing is cached between calls — is the tie `tie_no_hidden_state`,
regenerated from the source on every run, plus the correspondence runs (same frame first /
after other frames / by several handlers in parallel / displayed repeatedly, under the race
detector in the thorough tier).  Aliasing and data races are runtime facts the model cannot
exhibit: that part is *partial*.
-/
namespace Ntrip.C15

/-- Decoding never changes the raw bytes it is given: the message keeps exactly the bytes of
    the frame and its type (the time lines are added around them). -/
theorem time_lines_keep_raw (st : TState) (bs : Bytes) (m : Msg) :
    (addTime st bs m).1.raw = m.raw ∧ (addTime st bs m).1.typ = m.typ := by
  unfold addTime
  by_cases h1 : (m.err == .none && isMSM m.typ) = true
  · rw [if_pos h1]
    by_cases h2 : (m.raw.length - 6) * 8 < 54
    · rw [if_pos h2]; simp [MsgT.ofMsg]
    · rw [if_neg h2]
      simp only
      cases (msmTime st m.typ (getBitsU bs 48 30)).1 <;> simp [MsgT.ofMsg]
  · rw [if_neg h1]; simp [MsgT.ofMsg]

/-- Type, raw bytes and framing verdict of a message do not depend on the handler's state,
    i.e. on which frames were processed before. -/
theorem decode_state_independent (crc : Bytes → Nat) (st₁ st₂ : TState) (bs : Bytes) :
    (match (getMessage crc st₁ bs).1, (getMessage crc st₂ bs).1 with
     | .msg m₁, .msg m₂ => m₁.typ = m₂.typ ∧ m₁.raw = m₂.raw
     | .empty, .empty => True
     | _, _ => False) := by
  unfold getMessage
  cases h : getMessageCore crc bs with
  | empty => simp
  | msg m =>
    simp only
    obtain ⟨a1, a2⟩ := time_lines_keep_raw st₁ bs m
    obtain ⟨b1, b2⟩ := time_lines_keep_raw st₂ bs m
    exact ⟨by rw [a2, b2], by rw [a1, b1]⟩

/-- The time state only matters for MSM messages: for every other message `GetMessage`
    returns the same message whatever was processed before, and leaves the state alone. -/
theorem non_msm_fully_state_independent (crc : Bytes → Nat) (st₁ st₂ : TState) (bs : Bytes) (m : Msg)
    (h : getMessageCore crc bs = .msg m) (hm : isMSM m.typ = false) :
    (getMessage crc st₁ bs).1 = (getMessage crc st₂ bs).1 ∧ (getMessage crc st₁ bs).2 = st₁ := by
  unfold getMessage addTime
  simp [h, hm]

/-- Full decoding is a function of the message type and raw bytes only (it does not even take
    the handler), so it is the same first or after any other frames, in one handler or in many. -/
theorem analyse_depends_on_frame_only (typ : Int) (raw : Bytes) (r₁ r₂ : Res Readable)
    (h₁ : r₁ = analyse typ raw) (h₂ : r₂ = analyse typ raw) : r₁ = r₂ := by rw [h₁, h₂]

/-! Non-vacuity (tests): two different histories, same frame. -/
example : (getMessage crc24q (newState 0) [0xD3, 0, 2, 0x3E, 0xD0, 0xA4, 0xDF, 0x00]).1 =
    (getMessage crc24q (newState 1683979200000) [0xD3, 0, 2, 0x3E, 0xD0, 0xA4, 0xDF, 0x00]).1 := by decide +kernel

end Ntrip.C15
