import Ntrip.Guards.Writes
import Ntrip.Guards.Apps
import Ntrip.Model.Analyse
import Ntrip.Generated.Skeletons
/-!
# C15 — decoding and display are deterministic and free of hidden state

In the model, decoding is a function: `getMessageCore crc bytes` (type, raw bytes, framing
error) and `analyse typ raw` (the decoded fields) take **no** handler state at all; the only
state-dependent part of `GetMessage` is `addTime`, which touches nothing but the MSM time
lines.  That this functional shape is faithful — no package-level variable is written
outside `init`, nothing is cached between calls — is the tie `tie_no_hidden_state`,
regenerated from the source on every run, plus the correspondence runs (same frame first /
after other frames / by several handlers in parallel / displayed repeatedly, under the race
detector in the thorough tier).  Aliasing and data races are runtime facts the model cannot
exhibit: that part is *partial*.
-/
namespace Ntrip.C15

/-- Decoding never changes the raw bytes it is given: the message keeps exactly the bytes of
    the frame and its type (the time lines are added around them). -/
theorem time_lines_keep_raw (st : TState) (bs : Bytes) (m : Msg) :
    (addTime st bs m).1.raw = m.raw ∧ (addTime st bs m).1.typ = m.typ := by
  unfold addTime
  by_cases h1 : (m.err == .none && isMSM m.typ) = true
  · rw [if_pos h1]
    by_cases h2 : (m.raw.length - 6) * 8 < 54
    · rw [if_pos h2]; simp [MsgT.ofMsg]
    · rw [if_neg h2]
      simp only
      cases (msmTime st m.typ (getBitsU bs 48 30)).1 <;> simp [MsgT.ofMsg]
  · rw [if_neg h1]; simp [MsgT.ofMsg]

/-- Type, raw bytes and framing verdict of a message do not depend on the handler's state,
    i.e. on which frames were processed before. -/
theorem decode_state_independent (crc : Bytes → Nat) (st₁ st₂ : TState) (bs : Bytes) :
    (match (getMessage crc st₁ bs).1, (getMessage crc st₂ bs).1 with
     | .msg m₁, .msg m₂ => m₁.typ = m₂.typ ∧ m₁.raw = m₂.raw
     | .empty, .empty => True
     | _, _ => False) := by
  unfold getMessage
  cases h : getMessageCore crc bs with
  | empty => simp
  | msg m =>
    simp only
    obtain ⟨a1, a2⟩ := time_lines_keep_raw st₁ bs m
    obtain ⟨b1, b2⟩ := time_lines_keep_raw st₂ bs m
    exact ⟨by rw [a2, b2], by rw [a1, b1]⟩

/-- The time state only matters for MSM messages: for every other message `GetMessage`
    returns the same message whatever was processed before, and leaves the state alone. -/
theorem non_msm_fully_state_independent (crc : Bytes → Nat) (st₁ st₂ : TState) (bs : Bytes) (m : Msg)
    (h : getMessageCore crc bs = .msg m) (hm : isMSM m.typ = false) :
    (getMessage crc st₁ bs).1 = (getMessage crc st₂ bs).1 ∧ (getMessage crc st₁ bs).2 = st₁ := by
  unfold getMessage addTime
  simp [h, hm]

/-- Full decoding is a function of the message type and raw bytes only (it does not even take
    the handler), so it is the same first or after any other frames, in one handler or in many. -/
theorem analyse_depends_on_frame_only (typ : Int) (raw : Bytes) (r₁ r₂ : Res Readable)
    (h₁ : r₁ = analyse typ raw) (h₂ : r₂ = analyse typ raw) : r₁ = r₂ := by rw [h₁, h₂]

/-- Tie T1: no library package keeps mutable package-level state: the only package-level
    variables are the lookup tables, offsets and time zones of `utils`, and nothing outside
    `init` writes to any package-level variable. -/
theorem tie_no_hidden_state :
    Gen.globals_utils = ["BeidouLeapSeconds", "BeidouTimeOffset", "GPSTimeOffset", "GlonassTimeOffset", "LocationGMT",
      "LocationLondon", "LocationMoscow", "LocationParis", "LocationUTC", "MSM4MessageTypes", "MSM7MessageTypes"] ∧
    Gen.global_writes_utils = [] ∧
    Gen.globals_header = [] ∧ Gen.globals_handler = [] ∧ Gen.globals_pushback = [] ∧
    Gen.globals_t1005 = [] ∧ Gen.globals_t1006 = [] ∧ Gen.globals_sat4 = [] ∧ Gen.globals_sig4 = [] ∧
    Gen.globals_msg4 = [] ∧ Gen.globals_sat7 = [] ∧ Gen.globals_sig7 = [] ∧ Gen.globals_msg7 = [] ∧
    Gen.globals_appcore = [] ∧ Gen.globals_fh = [] ∧
    Gen.global_writes_header = [] ∧ Gen.global_writes_handler = [] ∧ Gen.global_writes_pushback = [] ∧
    Gen.global_writes_t1005 = [] ∧ Gen.global_writes_t1006 = [] ∧ Gen.global_writes_sat4 = [] ∧
    Gen.global_writes_sig4 = [] ∧ Gen.global_writes_msg4 = [] ∧ Gen.global_writes_sat7 = [] ∧
    Gen.global_writes_sig7 = [] ∧ Gen.global_writes_msg7 = [] ∧ Gen.global_writes_appcore = [] ∧
    Gen.global_writes_fh = [] := by
  repeat' constructor
  all_goals decide

/-- Tie T1: the fan-out sends the message *value* to every consumer (`send appCore.Channels[i]`
    inside the range loop), and `Analyse` fills `Readable` lazily only when it is nil. -/
theorem tie_fanout :
    Gen.skeleton_appcore_AppCore_HandleMessagesUntilEOF = some ["makechan cap=0", "go fh.Handle", "for",
      "recv messageChan", "return", "range appCore.Channels", "send appCore.Channels[i]", "return"] := by decide

/-! Non-vacuity (tests): two different histories, same frame. -/
example : (getMessage crc24q (newState 0) [0xD3, 0, 2, 0x3E, 0xD0, 0xA4, 0xDF, 0x00]).1 =
    (getMessage crc24q (newState 1683979200000) [0xD3, 0, 2, 0x3E, 0xD0, 0xA4, 0xDF, 0x00]).1 := by decide +kernel

/-- Tie T1 (guards): the conditions and the effects (field writes, helper calls) of `Analyse`, `analyse*`, `String`, `Copy`, the message constructors: decoding writes `ErrorMessage`/`Readable` by plain assignment and nothing else. -/
theorem tie_guards_analyse : type_of% Ntrip.Guards.analyse := Ntrip.Guards.analyse

/-- Tie T1 (receiver writes): no method of a decoded message, header, satellite or signal cell assigns to its receiver: display and the range accessors cannot alter what was decoded. -/
theorem tie_writes_decoders_pure : type_of% Ntrip.Guards.decoders_pure := Ntrip.Guards.decoders_pure

/-- Tie T1 (receiver writes): the handler's methods write only its week-start/previous-timestamp fields (the time lines) and the push-back buffer. -/
theorem tie_writes_handler_state : type_of% Ntrip.Guards.handler_state := Ntrip.Guards.handler_state

end Ntrip.C15
