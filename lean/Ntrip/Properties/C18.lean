import Ntrip.Proofs.QueueConc
import Ntrip.Proofs.Queue
/-!
# C18 — the recent-message queue always holds the last N messages in arrival order

`CQ` (Model/Queue.lean) models `circularQueue.CircularQueue`: the map `Items` as its
key-ordered association list, `Add` with its eviction loop, `GetMessages`.

Concurrency: `Add` runs entirely under the write lock and `GetMessages` under the read lock
of one `sync.RWMutex` (tie `tie_locking`), and no other function touches the state, so every
`Add` and every `GetMessages` is atomic with respect to the others: a concurrent history is
a sequential history in lock-acquisition order, to which `queue_spec` applies.  The
semantics of `sync.RWMutex` (mutual exclusion of writers with everybody) is trusted, and the
real-time/linearizability clause is additionally checked on concurrent histories of the real
queue (partial: runtime scheduling and data races cannot be exhibited by the model).
-/
namespace Ntrip.C18

/-- For every capacity `N ≥ 1` and every sequence of additions, a snapshot returns exactly
    the most recent `min N (number added)` messages, in the order they were added … -/
theorem snapshot_is_last_N {α : Type} (N : Nat) (hN : 1 ≤ N) (ms : List α) :
    ((CQ.new (N : Int)).adds ms).get = ms.drop (ms.length - N) :=
  (queue_spec N hN ms).1

/-- … and the queue never holds more than `N`. -/
theorem never_more_than_N {α : Type} (N : Nat) (hN : 1 ≤ N) (ms : List α) :
    ((CQ.new (N : Int) : CQ α).adds ms).items.length ≤ N := by
  rw [(queue_spec N hN ms).2]; omega

theorem snapshot_length {α : Type} (N : Nat) (hN : 1 ≤ N) (ms : List α) :
    ((CQ.new (N : Int)).adds ms).get.length = min N ms.length := by
  rw [snapshot_is_last_N N hN ms, List.length_drop]; omega

/-- Snapshots interleaved with additions: after any prefix of the additions the snapshot is
    the last `N` of that prefix (so a history of atomic adds and snapshots in lock order sees
    contiguous runs of the addition order). -/
theorem snapshot_after_prefix {α : Type} (N : Nat) (hN : 1 ≤ N) (before after : List α) :
    ((CQ.new (N : Int)).adds before).get = before.drop (before.length - N) ∧
    (((CQ.new (N : Int)).adds before).adds after).get = (before ++ after).drop ((before ++ after).length - N) := by
  refine ⟨snapshot_is_last_N N hN before, ?_⟩
  have : ((CQ.new (N : Int) : CQ α).adds before).adds after = (CQ.new (N : Int)).adds (before ++ after) := by
    simp [CQ.adds, List.foldl_append]
  rw [this]; exact snapshot_is_last_N N hN _

/-- A snapshot is a contiguous run of the addition order that ends at the newest message. -/
theorem snapshot_is_suffix {α : Type} (N : Nat) (hN : 1 ≤ N) (ms : List α) :
    ((CQ.new (N : Int)).adds ms).get <:+ ms := by
  rw [snapshot_is_last_N N hN ms]; exact List.drop_suffix _ _

/-- The message added last is always in the snapshot, in last place (eviction never removes it). -/
theorem newest_always_present {α : Type} (N : Nat) (hN : 1 ≤ N) (ms : List α) (m : α) :
    ((CQ.new (N : Int)).adds (ms ++ [m])).get.getLast? = some m := by
  rw [snapshot_is_last_N N hN]
  have hlen : (ms ++ [m]).length - N ≤ ms.length := by simp; omega
  rw [List.drop_append_of_le_length hlen]
  simp

/-- Two snapshots in lock order are consistent with each other: the later one is a suffix of the
    earlier one followed by what was added in between (nothing reappears, nothing is reordered). -/
theorem later_snapshot_extends_earlier {α : Type} (N : Nat) (hN : 1 ≤ N) (before after : List α) :
    ((CQ.new (N : Int)).adds (before ++ after)).get <:+ ((CQ.new (N : Int)).adds before).get ++ after := by
  rw [snapshot_is_last_N N hN, snapshot_is_last_N N hN]
  have h1 : before.length - N ≤ before.length := by omega
  rw [← List.drop_append_of_le_length h1 (l₂ := after)]
  have : (before ++ after).length - N =
      (before.length - N) + ((before ++ after).length - N - (before.length - N)) := by
    simp; omega
  rw [this, ← List.drop_drop]
  exact List.drop_suffix _ _

/-! ## Concurrent use

`Ntrip.QC` (`Model/QueueConc.lean`) is a transition system of any number of goroutines calling
`Add` and `GetMessages`, each broken into its micro-steps on the shared map (`Add`: the test,
the snapshot of the keys, one `delete` per loop iteration, the map assignment, the increment;
`GetMessages`: the snapshot of the keys, one lookup per iteration), interleaved arbitrarily under
the discipline of the `RWMutex`.  `order` is the list of additions in the order in which they
obtained the lock; a returned snapshot is recorded with the number of additions that had obtained
the lock before the reader did.  A goroutine obtains the lock between its invocation and its
return, so lock order respects real-time order. -/

/-- **Linearizability in lock order**: in every reachable state, for every interleaving of the
    micro-steps of any number of adders and readers, every snapshot that has been returned is
    exactly the last `min(N, n)` of the first `n` additions in lock order, where `n` additions had
    obtained the lock before the reader — never a partial state, never out of order. -/
theorem concurrent_snapshots_linearizable {α : Type} (N : Nat) (hN : 1 ≤ N) {s : QC.S α}
    (h : QC.Reach true (N : Int) s) :
    ∀ p ∈ s.rets, p.1 ≤ s.order.length ∧
      p.2 = (s.order.take p.1).drop ((s.order.take p.1).length - N) := by
  intro p hp
  obtain ⟨h1, h2⟩ := (QC.inv_reach (N : Int) h).rets p hp
  exact ⟨h1, by rw [h2]; exact (queue_spec N hN _).1⟩

/-- While nobody is inside `Add`, the shared map is exactly the sequential queue after the
    additions in lock order (so it holds at most `N` messages: `never_more_than_N`); while one
    goroutine is inside `Add`, no other goroutine is inside `Add` or `GetMessages`. -/
theorem concurrent_state {α : Type} (N : Nat) {s : QC.S α} (h : QC.Reach true (N : Int) s) :
    ((∀ t, (s.th t).inW = false) → s.q = (CQ.new (N : Int)).adds s.order) ∧
    (∀ t u, t ≠ u → (s.th t).inW = true → (s.th u).inW = false ∧ (s.th u).inR = false) :=
  ⟨(QC.inv_reach (N : Int) h).absIdle, (QC.inv_reach (N : Int) h).excl⟩

/-- The lock is necessary: the same code with the lock calls removed has an execution (kernel-
    checked) in which a reader that started after two additions had begun returns the EMPTY
    snapshot from a queue of capacity 1 — it looked between the `delete` and the assignment. -/
theorem without_lock_partial_state_is_seen :
    ∃ s : QC.S Nat, QC.Reach false 1 s ∧ (2, []) ∈ s.rets ∧ s.order = [7, 8] := by
  have r0 : QC.Reach false 1 (QC.init Nat 1) := .init
  have r1 := QC.Reach.step r0 (QC.Step.invAdd _ 0 7 rfl)
  have r2 := QC.Reach.step r1 (QC.Step.lockW _ 0 7 rfl (by intro h; cases h))
  have r3 := QC.Reach.step r2 (QC.Step.microW _ 0 rfl (by intro h; cases h))
  have r4 := QC.Reach.step r3 (QC.Step.microW _ 0 rfl (by intro h; cases h))
  have r5 := QC.Reach.step r4 (QC.Step.microW _ 0 rfl (by intro h; cases h))
  have r6 := QC.Reach.step r5 (QC.Step.unlockW _ 0 rfl)
  have r7 := QC.Reach.step r6 (QC.Step.invAdd _ 0 8 rfl)
  have r8 := QC.Reach.step r7 (QC.Step.lockW _ 0 8 rfl (by intro h; cases h))
  have r9 := QC.Reach.step r8 (QC.Step.microW _ 0 rfl (by intro h; cases h))
  have r10 := QC.Reach.step r9 (QC.Step.microW _ 0 rfl (by intro h; cases h))
  have r11 := QC.Reach.step r10 (QC.Step.invGet _ 1 rfl)
  have r12 := QC.Reach.step r11 (QC.Step.lockR _ 1 rfl (by intro h; cases h))
  have r13 := QC.Reach.step r12 (QC.Step.microR _ 1 rfl (by intro n acc h; cases h))
  have r14 := QC.Reach.step r13 (QC.Step.unlockR _ 1 2 [] rfl)
  have r15 := QC.Reach.step r14 (QC.Step.retGet _ 1 2 [] rfl)
  exact ⟨_, r15, by simp, rfl⟩

/-- Non-vacuity: with the lock, a reachable state with a returned snapshot. -/
example : ∃ s : QC.S Nat, QC.Reach true 1 s ∧ s.rets = [(1, [7])] := by
  have r0 : QC.Reach true 1 (QC.init Nat 1) := .init
  have r1 := QC.Reach.step r0 (QC.Step.invAdd _ 0 7 rfl)
  have r2 := QC.Reach.step r1 (QC.Step.lockW _ 0 7 rfl (by intro _ u; by_cases h : u = 0 <;> simp [QC.upd, QC.init, QC.T.inW, QC.T.inR, h]))
  have r3 := QC.Reach.step r2 (QC.Step.microW _ 0 rfl (by intro h; cases h))
  have r4 := QC.Reach.step r3 (QC.Step.microW _ 0 rfl (by intro h; cases h))
  have r5 := QC.Reach.step r4 (QC.Step.microW _ 0 rfl (by intro h; cases h))
  have r6 := QC.Reach.step r5 (QC.Step.unlockW _ 0 rfl)
  have r7 := QC.Reach.step r6 (QC.Step.invGet _ 1 rfl)
  have r8 := QC.Reach.step r7 (QC.Step.lockR _ 1 rfl (by intro _ u; by_cases h : u = 0 <;> by_cases h1 : u = 1 <;> simp [QC.upd, QC.init, QC.T.inW, QC.T.inR, QC.micro, h, h1]))
  have r9 := QC.Reach.step r8 (QC.Step.microR _ 1 rfl (by intro n acc h; cases h))
  have r10 := QC.Reach.step r9 (QC.Step.microR _ 1 rfl (by intro n acc h; cases h))
  have r11 := QC.Reach.step r10 (QC.Step.unlockR _ 1 1 [7] rfl)
  have r12 := QC.Reach.step r11 (QC.Step.retGet _ 1 1 [7] rfl)
  exact ⟨_, r12, rfl⟩

/-! Non-vacuity (tests). -/
example : ((CQ.new 3).adds [1, 2, 3, 4, 5]).get = [3, 4, 5] := by decide
example : ((CQ.new 1).adds [7, 8]).get = [8] ∧ ((CQ.new 8).adds [7, 8]).get = [7, 8] := by decide

end Ntrip.C18
