import Ntrip.Proofs.Queue
import Ntrip.Generated.Skeletons
import Ntrip.Guards.Queue
/-!
# C18 — the recent-message queue always holds the last N messages in arrival order

`CQ` (Model/Queue.lean) models `circularQueue.CircularQueue`: the map `Items` as its
key-ordered association list, `Add` with its eviction loop, `GetMessages`.

Concurrency: `Add` runs entirely under the write lock and `GetMessages` under the read lock
of one `sync.RWMutex` (tie `tie_locking`), and no other function touches the state, so every
`Add` and every `GetMessages` is atomic with respect to the others: a concurrent history is
a sequential history in lock-acquisition order, to which `queue_spec` applies.  The
semantics of `sync.RWMutex` (mutual exclusion of writers with everybody) is trusted, and the
real-time/linearizability clause is additionally checked on concurrent histories of the real
queue (partial: runtime scheduling and data races cannot be exhibited by the model).
-/
namespace Ntrip.C18

/-- For every capacity `N ≥ 1` and every sequence of additions, a snapshot returns exactly
    the most recent `min N (number added)` messages, in the order they were added … -/
theorem snapshot_is_last_N {α : Type} (N : Nat) (hN : 1 ≤ N) (ms : List α) :
    ((CQ.new (N : Int)).adds ms).get = ms.drop (ms.length - N) :=
  (queue_spec N hN ms).1

/-- … and the queue never holds more than `N`. -/
theorem never_more_than_N {α : Type} (N : Nat) (hN : 1 ≤ N) (ms : List α) :
    ((CQ.new (N : Int) : CQ α).adds ms).items.length ≤ N := by
  rw [(queue_spec N hN ms).2]; omega

theorem snapshot_length {α : Type} (N : Nat) (hN : 1 ≤ N) (ms : List α) :
    ((CQ.new (N : Int)).adds ms).get.length = min N ms.length := by
  rw [snapshot_is_last_N N hN ms, List.length_drop]; omega

/-- Snapshots interleaved with additions: after any prefix of the additions the snapshot is
    the last `N` of that prefix (so a history of atomic adds and snapshots in lock order sees
    contiguous runs of the addition order). -/
theorem snapshot_after_prefix {α : Type} (N : Nat) (hN : 1 ≤ N) (before after : List α) :
    ((CQ.new (N : Int)).adds before).get = before.drop (before.length - N) ∧
    (((CQ.new (N : Int)).adds before).adds after).get = (before ++ after).drop ((before ++ after).length - N) := by
  refine ⟨snapshot_is_last_N N hN before, ?_⟩
  have : ((CQ.new (N : Int) : CQ α).adds before).adds after = (CQ.new (N : Int)).adds (before ++ after) := by
    simp [CQ.adds, List.foldl_append]
  rw [this]; exact snapshot_is_last_N N hN _

/-- Tie T1: `Add` = `Lock; defer Unlock; …`, `GetMessages` = `RLock; defer RUnlock; …`, and
    only `Add`, `GetMessages` and their helper touch `Items` / `NextIndex`. -/
theorem tie_locking :
    Gen.skeleton_cq_CircularQueue_Add = some ["sync cb.Lock", "defer sync cb.Unlock", "range keys"] ∧
    Gen.skeleton_cq_CircularQueue_GetMessages = some ["sync cb.RLock", "defer sync cb.RUnlock", "range keys", "return"] ∧
    Gen.skeleton_cq_CircularQueue_getKeysInAscendingOrder = some ["range cb.Items", "return"] ∧
    Gen.cq_state_users = ["CircularQueue.Add", "CircularQueue.GetMessages", "CircularQueue.getKeysInAscendingOrder"] := by
  repeat' constructor
  all_goals decide

/-- Tie T1: guards and loop headers of `Add` / `GetMessages`. -/
theorem tie_guards : type_of% Ntrip.Guards.queue := Ntrip.Guards.queue

/-! Non-vacuity (tests). -/
example : ((CQ.new 3).adds [1, 2, 3, 4, 5]).get = [3, 4, 5] := by decide
example : ((CQ.new 1).adds [7, 8]).get = [8] ∧ ((CQ.new 8).adds [7, 8]).get = [7, 8] := by decide

end Ntrip.C18
