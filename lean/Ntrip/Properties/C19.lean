import Ntrip.Properties.C09
import Ntrip.Properties.C02
import Ntrip.Properties.C07
import Ntrip.Proofs.Report
import Ntrip.Proofs.Queue
/-!
# C19 — the proxy relays both directions byte-for-byte and reports traffic safely

Relay: `handleClientMessages` reads a chunk from the client, feeds its bytes one by one to
the parser's byte channel, records the buffer for the report and writes the chunk upstream;
`handleServerMessages` copies server chunks to the client.  The parser leg (byte channel →
`HandleMessages` → message channel → `keepCircularQueueUpdated`) is the pipeline transition
system of C09 with one consumer on an unbuffered channel.

Report: `Status` fills the five holes of `reportFormat`; the traffic-derived holes (the two
hex dumps and the message list) pass through `Sanitise`.

TCP, `net/http` and TLS are not modelled (trusted; exercised by the loopback runs).
-/
namespace Ntrip.C19
open Ntrip.Pipe

/-- The client loop over the chunks `Read` returned: the bytes fed to the parser and the bytes
    written upstream. -/
def clientLoop : List Bytes → Bytes × Bytes
  | [] => ([], [])
  | chunk :: rest => let (fed, up) := clientLoop rest; (chunk ++ fed, chunk ++ up)

/-- **Byte-for-byte relay** (both directions are this loop; the server direction has no
    parser): the upstream server receives exactly the client's bytes, in order, regardless of
    the chunking and of what the bytes are; the parser is fed the same bytes. -/
theorem relay_exact : ∀ chunks : List Bytes,
    (clientLoop chunks).2 = chunks.flatten ∧ (clientLoop chunks).1 = chunks.flatten
  | [] => by simp [clientLoop]
  | c :: rest => by
    obtain ⟨h1, h2⟩ := relay_exact rest
    simp [clientLoop, h1, h2]

/-- The parser leg never blocks the relay: whatever the traffic (valid RTCM, malformed RTCM or
    anything else), some goroutine of the leg can always move until every client byte has been
    accepted, under every schedule; and every schedule is finite.  (The parser cannot crash
    either: C07.) -/
theorem parser_never_blocks {crc bs produced} (ht : C09.Timing crc bs produced) {s}
    (h : Reach (C09.pipeCfg crc bs produced 1 (fun _ => 0) (fun _ => false)) s)
    (hnf : ¬ Final (C09.pipeCfg crc bs produced 1 (fun _ => 0) (fun _ => false)) s) :
    ∃ s', Step (C09.pipeCfg crc bs produced 1 (fun _ => 0) (fun _ => false)) s s' :=
  C09.pipeline_progress ht 1 _ _ h hnf

theorem parser_leg_finite {crc bs produced} (ht : C09.Timing crc bs produced) {s s'}
    (h : Reach (C09.pipeCfg crc bs produced 1 (fun _ => 0) (fun _ => false)) s)
    (hs : Step (C09.pipeCfg crc bs produced 1 (fun _ => 0) (fun _ => false)) s s') :
    measure (C09.pipeCfg crc bs produced 1 (fun _ => 0) (fun _ => false)) s' <
      measure (C09.pipeCfg crc bs produced 1 (fun _ => 0) (fun _ => false)) s :=
  C09.pipeline_terminates ht 1 _ _ h hs

/-- **The report lists only relayed data**: every message the parser produces — hence every
    message in the recent-message queue — consists of a contiguous slice of the bytes read from
    the client (all of which the relay writes upstream). -/
theorem listed_are_relayed (crc : Bytes → Nat) (bs : Bytes) (m : Msg)
    (hm : m ∈ segment crc (In.ofBytes bs)) : m.raw <:+: bs := by
  have hl := C02.segment_lossless crc bs
  obtain ⟨pre, post, hsplit⟩ := List.append_of_mem hm
  rw [hsplit] at hl
  simp only [List.map_append, List.map_cons, List.flatten_append, List.flatten_cons] at hl
  exact ⟨(pre.map (·.raw)).flatten, (post.map (·.raw)).flatten, by rw [← hl]; simp⟩

/-- **Sanitise removes every markup character**, whatever the text. -/
theorem sanitise_no_markup (s : List Char) : '<' ∉ sanitise s ∧ '>' ∉ sanitise s := sanitise_no_lt s

/-- **The page cannot be injected into**: with the two hex dumps and the message list passed
    through `Sanitise` (and leaders that contain no markup: a connection number and a
    formatted time), the page has exactly the `<` and `>` of the template — relayed data adds none. -/
theorem page_safe (parts : List (List Char)) (clientLeader serverLeader clientDump serverDump : List Char)
    (texts : List (List Char))
    (hl1 : '<' ∉ clientLeader ∧ '>' ∉ clientLeader) (hl2 : '<' ∉ serverLeader ∧ '>' ∉ serverLeader) :
    let page := fill parts [clientLeader, sanitise clientDump, serverLeader, sanitise serverDump, messageDisplay texts]
    countC '<' page = (parts.map (countC '<')).sum ∧ countC '>' page = (parts.map (countC '>')).sum := by
  intro page
  constructor
  · apply countC_fill
    intro h hh
    simp only [List.mem_cons, List.not_mem_nil, or_false] at hh
    rcases hh with rfl | rfl | rfl | rfl | rfl
    · exact hl1.1
    · exact (sanitise_no_lt _).1
    · exact hl2.1
    · exact (sanitise_no_lt _).1
    · exact (messageDisplay_no_markup texts).1
  · apply countC_fill
    intro h hh
    simp only [List.mem_cons, List.not_mem_nil, or_false] at hh
    rcases hh with rfl | rfl | rfl | rfl | rfl
    · exact hl1.2
    · exact (sanitise_no_lt _).2
    · exact hl2.2
    · exact (sanitise_no_lt _).2
    · exact (messageDisplay_no_markup texts).2

/-- Text without markup is reported unchanged (the sanitiser only touches `<` and `>`). -/
theorem sanitise_id_of_clean : ∀ (s : List Char), '<' ∉ s → '>' ∉ s → sanitise s = s
  | [], _, _ => rfl
  | c :: rest, h1, h2 => by
    have hc1 : c ≠ '<' := fun h => h1 (by simp [h])
    have hc2 : c ≠ '>' := fun h => h2 (by simp [h])
    have ih := sanitise_id_of_clean rest (fun h => h1 (List.mem_cons_of_mem _ h)) (fun h => h2 (List.mem_cons_of_mem _ h))
    simp [sanitise, hc1, hc2, ih]

/-- Sanitising twice equals sanitising once: already escaped text is not escaped again. -/
theorem sanitise_idempotent (s : List Char) : sanitise (sanitise s) = sanitise s :=
  sanitise_id_of_clean _ (sanitise_no_markup s).1 (sanitise_no_markup s).2

/-- The relay does not depend on how the client's bytes arrive in chunks. -/
theorem relay_chunking_irrelevant (c1 c2 : List Bytes) (h : c1.flatten = c2.flatten) :
    clientLoop c1 = clientLoop c2 := by
  have a := relay_exact c1; have b := relay_exact c2
  apply Prod.ext
  · rw [a.2, b.2, h]
  · rw [a.1, b.1, h]

/-! Non-vacuity (tests). -/
example : sanitise "<script>alert(1)</script>".toList = "&lt;script&gt;alert(1)&lt;/script&gt;".toList := by decide
example : clientLoop [[1, 2], [3]] = ([1, 2, 3], [1, 2, 3]) := by decide

end Ntrip.C19
