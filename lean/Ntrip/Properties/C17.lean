import Ntrip.Proofs.TimeHist
/-!
# C17 — any start time within the week of the first observation gives correct times

Same model as C06.  `Pre T {} evs` only asks that, per constellation, the first observation
lies in the same constellation week as the start time `T` — before, at or after `T` — and that
later observations follow as in C06.
-/
namespace Ntrip.C17

/-- **C17.** For every start time `T` and every history whose first observation (per
    constellation) lies in the constellation week of `T` — earlier or later than `T` — the
    reported times and week starts are the true ones. -/
theorem times_true_any_start (T : Int) (evs : List Ev) (h : Pre T {} evs) :
    runTimes (newState T) evs = expectedTimes T {} evs :=
  times_correct T evs {} (newState T) (inv_new T) h

/-- The precondition does not mention the order of `T` and the first observation: -/
theorem admissible_first_iff (T : Int) (c : Constellation) (u : Int) :
    Admissible T {} c u ↔ trueWeekStart c u = trueWeekStart c T := by
  cases c <;> simp [Admissible, Last.get]

/-- Two start times in the same constellation weeks are interchangeable: the handler reports
    the same for every history (e.g. any date of the week when displaying a recorded file). -/
theorem start_time_irrelevant_within_week (T1 T2 : Int) (evs : List Ev)
    (hw : ∀ c, trueWeekStart c T1 = trueWeekStart c T2) (h : Pre T1 {} evs) :
    runTimes (newState T1) evs = runTimes (newState T2) evs := by
  have hpre : ∀ (evs : List Ev) (L : Last), Pre T1 L evs → Pre T2 L evs := by
    intro evs
    induction evs with
    | nil => intro _ _; trivial
    | cons e rest ih =>
      intro L hp
      cases e with
      | obs c hi u =>
        refine ⟨?_, ih _ hp.2⟩
        have := hp.1
        unfold Admissible at this ⊢
        cases hl : L.get c with
        | none => rw [hl] at this; simp only; rw [← hw c]; exact this
        | some p => rw [hl] at this; exact this
      | bad c hi ts => exact ⟨hp.1, ih _ hp.2⟩
  have hexp : ∀ (evs : List Ev) (L : Last), expectedTimes T1 L evs = expectedTimes T2 L evs := by
    intro evs
    induction evs with
    | nil => intro _; rfl
    | cons e rest ih =>
      intro L
      cases e with
      | obs c hi u => simp only [expectedTimes, ih]
      | bad c hi ts =>
        simp only [expectedTimes, ih]
        cases hl : L.get c with
        | none => simp only [Option.getD_none]; rw [hw c]
        | some p => rfl
  rw [times_true_any_start T1 evs h, times_true_any_start T2 evs (hpre evs {} h), hexp]

/-! ### Non-vacuity (tests): start Wed 2023-05-10 00:00 UTC, first GPS observation Mon
    2023-05-08 00:00:00 UTC (earlier than the start time), then Thursday. -/
def sample : List Ev := [.obs .gps true 1683504000000, .obs .gps true 1683763200000]

example : Pre 1683676800000 {} sample := by
  simp only [sample, Pre, Admissible, Last.get, Last.set, trueWeekStart, weekPos, weekBase]
  decide

example : runTimes (newState 1683676800000) sample =
    [(.ok 1683504000000, some 1683417582000), (.ok 1683763200000, some 1683417582000)] := by decide

end Ntrip.C17
