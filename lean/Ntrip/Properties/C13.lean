import Ntrip.Proofs.Reader
import Ntrip.Proofs.SegmentRefine
import Ntrip.Properties.C02
/-!
# C13 — transient end-of-file or read timeouts on the input lose and duplicate nothing

`runReader cfg script st` models the read loop of `file_handler.Handler.Handle` over a script
of read results (`byte b`, `eof`, `timeout`, `other`) with tolerance `cfg.tau`
(`TimeoutOnEOF`), wait `cfg.omega` (`WaitTimeOnEOF`) and a clock oracle (the values the
successive `time.Now()` calls return — the theorems hold for **every** such list).
What the loop forwards goes, byte by byte and in order, into the byte channel that
`HandleMessages` reads and that `Handle` closes on return (`defer close`); the delivered
messages are therefore `segment crc (In.ofBytes forwarded)`.
-/
namespace Ntrip.C13

/-- Every byte supplied before the stop point is forwarded exactly once and in order, and
    nothing else — for every script (any placement of single, double, … EOF/timeout results,
    between and inside frames), every tolerance setting and every clock. -/
theorem forwarded_exact (cfg : RCfg) (script : List ReadRes) (clock : List Nat) :
    let r := runReader cfg script { clock := clock }
    r.1.forwarded = bytesOf (script.take r.1.consumed) ∧ r.1.consumed ≤ script.length := by
  have := Ntrip.forwarded_exact cfg script { clock := clock }
  simp only [Nat.sub_zero, List.nil_append, Nat.zero_add] at this
  exact ⟨this.2.2, this.2.1⟩

/-- Interruptions that resume (no two failures in a row, no other error) with a non-zero
    tolerance never stop the handler: the delivered bytes are those of the uninterrupted
    stream, even when an interruption falls inside a frame. -/
theorem transient_failures_invisible (cfg : RCfg) (hτ : cfg.tau ≠ 0) (script : List ReadRes) (clock : List Nat)
    (hiso : Isolated script) :
    (runReader cfg script { clock := clock }).2 = .scriptEnd ∧
    (runReader cfg script { clock := clock }).1.forwarded = bytesOf script := by
  have := isolated_failures_tolerated cfg hτ script { clock := clock } hiso (by simp)
  simpa using this

/-- Hence the delivered messages equal those of the uninterrupted stream. -/
theorem delivered_equal_uninterrupted (crc : Bytes → Nat) (cfg : RCfg) (hτ : cfg.tau ≠ 0)
    (script : List ReadRes) (clock : List Nat) (hiso : Isolated script) :
    segment crc (In.ofBytes (runReader cfg script { clock := clock }).1.forwarded) =
      segment crc (In.ofBytes (bytesOf script)) := by
  rw [(transient_failures_invisible cfg hτ script clock hiso).2]

/-- A zero tolerance stops at the first EOF/timeout; any other read error stops whatever the
    tolerance; everything received so far has been forwarded (and is delivered — C02 — with
    the partial frame as a non-RTCM message, the channel being closed on return). -/
theorem stops_when_it_must (cfg : RCfg) (pre : List UInt8) (f : ReadRes) (post : List ReadRes) (clock : List Nat)
    (hf : f = .other ∨ (cfg.tau = 0 ∧ f.isSoftFailure = true)) :
    (runReader cfg (pre.map ReadRes.byte ++ f :: post) { clock := clock }).1.forwarded = pre ∧
    (runReader cfg (pre.map ReadRes.byte ++ f :: post) { clock := clock }).2 ≠ .scriptEnd := by
  have := stops_at_first_failure cfg pre f post { clock := clock } hf
  simp only [List.nil_append] at this
  exact ⟨this.1, this.2.2⟩

/-- The data received so far is still delivered completely (losslessly) after a stop. -/
theorem stopped_data_delivered (crc : Bytes → Nat) (cfg : RCfg) (script : List ReadRes) (clock : List Nat) :
    ((segment crc (In.ofBytes (runReader cfg script { clock := clock }).1.forwarded)).map (·.raw)).flatten =
      bytesOf (script.take (runReader cfg script { clock := clock }).1.consumed) := by
  rw [C02.segment_lossless, (forwarded_exact cfg script clock).1]

/-- A failure run persisting beyond the tolerance stops the handler: two consecutive
    EOF/timeout results with the clock more than `tau` apart. -/
theorem persistent_failure_stops (cfg : RCfg) (hτ : cfg.tau ≠ 0) (t0 t1 : Nat) (clock : List Nat)
    (hlate : t1 - t0 > cfg.tau) (post : List ReadRes) :
    (runReader cfg (.eof :: .eof :: post) { clock := t0 :: t1 :: clock }).2 = .toleranceExpired := by
  simp [runReader, stepReader, hτ, hlate]

/-- Whatever the failures, timings and tolerance: what the reader forwards is always a prefix of
    the bytes the source supplied - nothing is ever duplicated, reordered or invented. -/
theorem forwarded_is_prefix (cfg : RCfg) (script : List ReadRes) (clock : List Nat) :
    (runReader cfg script { clock := clock }).1.forwarded <+: bytesOf script := by
  have h := (forwarded_exact cfg script clock).1
  rw [h]
  generalize (runReader cfg script { clock := clock }).1.consumed = k
  refine ⟨bytesOf (script.drop k), ?_⟩
  rw [← bytesOf_append, List.take_append_drop]

/-- … and so are the bytes of the messages delivered from it. -/
theorem delivered_is_prefix (crc : Bytes → Nat) (cfg : RCfg) (script : List ReadRes) (clock : List Nat) :
    ((segment crc (In.ofBytes (runReader cfg script { clock := clock }).1.forwarded)).map (·.raw)).flatten
      <+: bytesOf script := by
  rw [C02.segment_lossless]; exact forwarded_is_prefix cfg script clock

/-! Non-vacuity (tests): EOF inside a frame, tolerated. -/
example : Isolated [.byte 0xD3, .eof, .byte 0x00, .timeout, .byte 0x01] := by simp [Isolated, ReadRes.isSoftFailure, ReadRes.isByte]
example : (runReader ⟨50, 1⟩ [.byte 0xD3, .eof, .byte 0x00, .timeout, .byte 0x01] { clock := [10, 20] }).1.forwarded
    = [0xD3, 0x00, 0x01] := by decide

end Ntrip.C13
