import Ntrip.Proofs.FieldsRoundTrip
import Ntrip.Proofs.F64
/-!
# C05 — base-position messages 1005/1006 decode exactly (and display to 0.1 mm)

`decodeBase k frame` models `type1005.GetMessage` / `type1006.GetMessage` over the field
layout regenerated from the source.  A message is a list of field values in the standard's
order: type, station id, ITRF year, reserved(4), X (int38), reserved(2), Y (int38),
reserved(2), Z (int38) [, antenna height (uint16)].
-/
namespace Ntrip.C05

/-- The layouts of the standard (as quoted in the property): 12/12/6/4/38/2/38/2/38[/16]. -/
def std : BaseKind → List Col
  | .t1005 => [(false, 12), (false, 12), (false, 6), (false, 4), (true, 38), (false, 2), (true, 38), (false, 2), (true, 38)]
  | .t1006 => [(false, 12), (false, 12), (false, 6), (false, 4), (true, 38), (false, 2), (true, 38), (false, 2), (true, 38), (false, 16)]

theorem layout_eq (k : BaseKind) : k.layout = some (std k) := by cases k <;> decide
theorem bits_eq (k : BaseKind) : k.messageBits = (widthOf (std k) : Nat) := by cases k <;> decide
theorem width_le (k : BaseKind) : widthOf (std k) ≤ 168 := by cases k <;> decide

/-- A well-formed message: every field value fits its field, and the type field is right. -/
def WF (k : BaseKind) (vals : List Int) : Prop := FieldsWF (std k) vals ∧ vals.headD 0 = k.expectedType

/-- The frame of a message: any 3-byte leader, the packed fields (zero bits to the byte
    boundary), any trailing payload bytes, any 3 CRC bytes (the decoder checks neither). -/
def frameOf (leader : Bytes) (k : BaseKind) (vals : List Int) (trailing crc : Bytes) : Bytes :=
  leader ++ (packBits (encodeFields (std k) vals) ++ (trailing ++ crc))

theorem agrees_frame (leader : Bytes) (hl : leader.length = 3) (bits : List Bool) (rest : Bytes) :
    Agrees (leader ++ (packBits bits ++ rest)) 24 bits := by
  intro i hi
  have h24 : 24 = 8 * leader.length := by omega
  rw [h24, bitAt_append_right, bitAt_append_left _ _ _ (by rw [packBits_length]; omega), bitAt_packBits]

/-- **Round trip.** Every well-formed 1005/1006 message — any station id, ITRF year, reserved
    bits, the three coordinates over the whole signed 38-bit range (−2^37 … 2^37−1), the
    16-bit height — with any number of trailing payload bytes, decodes to exactly its fields. -/
theorem base_roundtrip (k : BaseKind) (vals : List Int) (leader trailing crc : Bytes)
    (hl : leader.length = 3) (hc : crc.length = 3) (hwf : WF k vals) :
    decodeBase k (frameOf leader k vals trailing crc) = .ok vals := by
  obtain ⟨hf, ht⟩ := hwf
  have hlen := encodeFields_length (std k) vals hf
  have hflen : (frameOf leader k vals trailing crc).length =
      3 + (widthOf (std k) + 7) / 8 + trailing.length + 3 := by
    simp [frameOf, packBits_length, hlen, hl, hc]; omega
  unfold decodeBase
  rw [layout_eq k, bits_eq k]
  simp only
  have hguard : ¬ ((frameOf leader k vals trailing crc).length : Int) * 8 - 24 - 24 < (widthOf (std k) : Nat) := by
    rw [hflen]; push_cast; omega
  rw [if_neg hguard]
  have hag : Agrees (frameOf leader k vals trailing crc) 24 (encodeFields (std k) vals) :=
    agrees_frame leader hl _ _
  rw [readFields_encode _ (std k) vals 24 hf hag (by rw [hflen]; omega)]
  simp only [bind, pure, ht, bne_self_eq_false, Bool.false_eq_true, if_false]

/-- A message of a different type (anything else equal) is rejected with an error. -/
theorem base_rejects_wrong_type (k : BaseKind) (vals : List Int) (leader trailing crc : Bytes)
    (hl : leader.length = 3) (hc : crc.length = 3) (hf : FieldsWF (std k) vals)
    (ht : vals.headD 0 ≠ k.expectedType) :
    decodeBase k (frameOf leader k vals trailing crc) = .err .baseWrongType := by
  have hlen := encodeFields_length (std k) vals hf
  have hflen : (frameOf leader k vals trailing crc).length =
      3 + (widthOf (std k) + 7) / 8 + trailing.length + 3 := by
    simp [frameOf, packBits_length, hlen, hl, hc]; omega
  unfold decodeBase
  rw [layout_eq k, bits_eq k]
  simp only
  have hguard : ¬ ((frameOf leader k vals trailing crc).length : Int) * 8 - 24 - 24 < (widthOf (std k) : Nat) := by
    rw [hflen]; push_cast; omega
  rw [if_neg hguard]
  have hag : Agrees (frameOf leader k vals trailing crc) 24 (encodeFields (std k) vals) :=
    agrees_frame leader hl _ _
  rw [readFields_encode _ (std k) vals 24 hf hag (by rw [hflen]; omega)]
  have : (vals.headD 0 != k.expectedType) = true := by simpa using ht
  simp only [bind, this, if_true]

/-- A frame too short for its fields is rejected with an error — whatever its content. -/
theorem base_rejects_short (k : BaseKind) (bs : Bytes)
    (h : (bs.length : Int) * 8 - 48 < (widthOf (std k) : Nat)) : decodeBase k bs = .err .baseOverrun := by
  unfold decodeBase
  rw [layout_eq k, bits_eq k]
  simp only
  have : (bs.length : Int) * 8 - 24 - 24 < (widthOf (std k) : Nat) := by omega
  rw [if_pos this]

/-- No byte string makes the 1005/1006 decoders index out of range. -/
theorem base_no_panic (k : BaseKind) (bs : Bytes) : decodeBase k bs ≠ .panic := by
  unfold decodeBase
  rw [layout_eq k, bits_eq k]
  simp only
  split
  · simp
  · rename_i hg
    have hw : ∀ c ∈ std k, 1 ≤ c.2 := by cases k <;> decide
    obtain ⟨vs, hvs⟩ := readFields_ok bs (std k) 24 hw (by have := width_le k; omega)
    rw [hvs]
    simp only [bind, pure]
    split <;> simp

/-- The constant the display multiplies by: `0.0001` in the source is the rational 1/10000 (tie
    T1), and the binary64 nearest to it (ties to even) is `7378697629483821 / 2^66`, which has
    exactly 53 significant bits. -/
theorem scale_constant :
    Gen.t1005_Message_String_scaleFactor = (1 : Rat) / 10000 ∧ Gen.t1006_Message_String_scaleFactor = (1 : Rat) / 10000 ∧
    F64.rhe (2 ^ 66) 10000 = F64.c0001.m ∧ F64.bitLen F64.c0001.m.natAbs = 53 := by
  refine ⟨by decide +kernel, by decide +kernel, by decide +kernel, by decide +kernel⟩

/-- **Display to 0.1 mm.**  For every coordinate of the signed 38-bit field and every height of
    the unsigned 16-bit field, the Go expression `fmt.Sprintf("%.4f", float64(x) * 0.0001)`,
    evaluated in the exact model of binary64 arithmetic (`F64`: the product of the exactly
    converted integer and the binary64 nearest to 0.0001, rounded once to 53 bits nearest-even;
    `%.4f` = the exact value rounded to four decimals), shows exactly `x / 10^4`: the displayed
    count of 0.0001 units IS `x`.  No digit is lost to floating point. -/
theorem display_exact (x : Int) (h : -(2 ^ 37 : Int) ≤ x ∧ x < 2 ^ 37) :
    F64.fixed4 (F64.mul (F64.ofInt x) F64.c0001) = x :=
  F64.scaled_display_exact x (by omega)

theorem display_exact_height (hgt : Int) (h : 0 ≤ hgt ∧ hgt < 2 ^ 16) :
    F64.fixed4 (F64.mul (F64.ofInt hgt) F64.c0001) = hgt :=
  F64.scaled_display_exact hgt (by omega)

example : F64.render4 (F64.fixed4 (F64.mul (F64.ofInt (-137438953472)) F64.c0001)) = "-13743895.3472" := by decide +kernel
example : F64.render4 (F64.fixed4 (F64.mul (F64.ofInt (-5)) F64.c0001)) = "-0.0005" := by decide +kernel

/-! Non-vacuity (tests): a concrete 1005 message with extreme coordinates. -/
def sample : List Int := [1005, 2, 3, 0, -137438953472, 1, 137438953471, 2, -1]

example : WF .t1005 sample := by
  refine ⟨?_, by decide⟩
  simp [sample, std, FieldsWF, InRange]

example : decodeBase .t1005 (frameOf [0xD3, 0, 19] .t1005 sample [0xAB] [1, 2, 3]) = .ok sample := by
  decide +kernel

end Ntrip.C05
