import Ntrip.Properties.C11
import Ntrip.Generated.Consts
/-!
# C16 — rtcmlogger passes its input through unchanged and records an identical copy

rtcmlogger's `start`: the copy loop `readAndWrite` reads a block from standard input, writes
it to standard output, and sends a copy on an unbuffered channel to the `recorder` goroutine,
which appends it to the day's record file; after end of input `start` closes the channel and
waits for the recorder, then the process exits.  The goroutine/channel part is the pipeline
transition system (`Ntrip.Pipe`) with one writer on an unbuffered channel, the blocks playing
the role of the messages; the copy loop itself is sequential.
-/
namespace Ntrip.C16
open Ntrip.Pipe

/-- The sequential copy loop over the blocks `Read` returned (empty reads are skipped):
    what it wrote to standard output and what it sent to the recorder. -/
def copyLoop : List Bytes → Bytes × List Bytes
  | [] => ([], [])
  | blk :: rest =>
    let (out, sent) := copyLoop rest
    if blk.isEmpty then (out, sent) else (blk ++ out, blk :: sent)

/-- Standard output is identical to standard input, however the input is chunked; and the
    recorder is sent exactly the same bytes, in order. -/
theorem stdout_eq_input : ∀ blocks : List Bytes,
    (copyLoop blocks).1 = blocks.flatten ∧ (copyLoop blocks).2.flatten = blocks.flatten
  | [] => by simp [copyLoop]
  | blk :: rest => by
    obtain ⟨h1, h2⟩ := stdout_eq_input rest
    unfold copyLoop
    by_cases he : blk.isEmpty = true
    · have : blk = [] := List.isEmpty_iff.mp he
      simp [he, h1, h2, this]
    · simp [he, h1, h2]

/-- The recorder leg: one writer (the recorder) on an unbuffered channel; `start` closes the
    channel and waits for the recorder before the process exits. -/
def loggerCfg (blocks : List Bytes) : Cfg Bytes :=
  { nBytes := 0, out := (copyLoop blocks).2, produced := fun _ b => if b then (copyLoop blocks).2.length else 0,
    k := 1, cap := fun _ => 0, isNil := fun _ => false, closes := fun _ => true, waits := true }

theorem loggerCfg_wf (blocks : List Bytes) : (loggerCfg blocks).WF := by
  refine ⟨?_, ?_, by simp [loggerCfg], by intro i _; rfl⟩
  · intro r b; cases b <;> simp [loggerCfg]
  · intro r r' b b' _ hb; cases b <;> cases b' <;> simp_all [loggerCfg]

/-- **Once the program has ended, the record holds the complete input**: in every reachable
    state in which `start` has returned (the process exits), under every interleaving of the
    copy loop and the recorder and every write latency, the bytes the recorder has written are
    exactly the input. -/
theorem exit_record_complete (blocks : List Bytes) {s} (h : Reach (loggerCfg blocks) s)
    (hr : s.mainReturned = true) : (s.handled 0).flatten = blocks.flatten := by
  rw [returned_all_written _ (loggerCfg_wf blocks) rfl h hr 0 (by show 0 < 1; omega) rfl]
  exact (stdout_eq_input blocks).2

/-- Recording never blocks the pass-through for ever: some goroutine can always move until
    everything has finished, and every schedule is finite. -/
theorem logger_progress (blocks : List Bytes) {s} (h : Reach (loggerCfg blocks) s)
    (hnf : ¬ Final (loggerCfg blocks) s) : ∃ s', Step (loggerCfg blocks) s s' :=
  progress _ (loggerCfg_wf blocks) (by intro i _ _; rfl) h hnf

theorem logger_terminates (blocks : List Bytes) {s s'} (h : Reach (loggerCfg blocks) s)
    (hs : Step (loggerCfg blocks) s s') : measure (loggerCfg blocks) s' < measure (loggerCfg blocks) s :=
  measure_decreases _ (loggerCfg_wf blocks) s s' (reach_inv _ (loggerCfg_wf blocks) h) hs

/-- Without the wait the last block can be missing at exit (the shape before the repair):
    the kernel-checked counterexample of C11 applies verbatim. -/
theorem not_waiting_truncates_record : ∃ s, Reach C11.badCfg s ∧ s.mainReturned = true ∧ s.handled 0 ≠ C11.badCfg.out :=
  C11.not_waiting_loses_output

/-- However the input is chunked: two chunkings of the same byte stream give the same standard
    output and the same record. -/
theorem chunking_irrelevant (b1 b2 : List Bytes) (h : b1.flatten = b2.flatten) :
    (copyLoop b1).1 = (copyLoop b2).1 ∧ (copyLoop b1).2.flatten = (copyLoop b2).2.flatten := by
  rw [(stdout_eq_input b1).1, (stdout_eq_input b1).2, (stdout_eq_input b2).1, (stdout_eq_input b2).2]
  exact ⟨h, h⟩

/-- Once the program has ended, the record and the standard output hold the same bytes. -/
theorem exit_record_eq_stdout (blocks : List Bytes) {s} (h : Reach (loggerCfg blocks) s)
    (hr : s.mainReturned = true) : (s.handled 0).flatten = (copyLoop blocks).1 := by
  rw [exit_record_complete blocks h hr, (stdout_eq_input blocks).1]

/-! Non-vacuity (tests). -/
example : copyLoop [[1, 2], [], [3]] = ([1, 2, 3], [[1, 2], [3]]) := by decide

end Ntrip.C16
