import Ntrip.Proofs.SegmentRefine
import Ntrip.Proofs.SegmentSpec
/-!
# C02 — stream segmentation is lossless

`segment crc (In.ofBytes bs)` models `HandleMessages` reading `bs` from a byte channel
(with push-back) that is then closed.  It is a total function: its recursion measure (bytes
still to be delivered, push-back included) strictly decreases on every fetch (`fetch_size`,
needed to *define* `segment`), so the handler terminates on every finite input, and the
model has no panic outcome in the framing code (every index is guarded — see C07 for the
decoders).  The schedule-independent parts (any channel capacities and timings, output
closed exactly once) are `Ntrip.C09`/`Pipeline` theorems instantiated with this function.
-/
namespace Ntrip.C02

/-- The raw bytes of the delivered messages, concatenated in delivery order, are the input. -/
theorem segment_lossless (crc : Bytes → Nat) (bs : Bytes) :
    ((segment crc (In.ofBytes bs)).map (·.raw)).flatten = bs := by
  rw [handleMessages_eq]; exact (segmentS_lossless crc _ bs rfl).1

/-- No delivered message is empty. -/
theorem segment_nonempty (crc : Bytes → Nat) (bs : Bytes) (m : Msg)
    (hm : m ∈ segment crc (In.ofBytes bs)) : m.raw ≠ [] := by
  rw [handleMessages_eq] at hm; exact (segmentS_lossless crc _ bs rfl).2 m hm

/-- Losslessness from any state of the push-back channel that the handler can be in
    (at most one byte pushed back): nothing is lost or duplicated across fetches. -/
theorem segment_lossless_state (crc : Bytes → Nat) (s : In) (hpb : s.pb.length ≤ 1) :
    ((segment crc s).map (·.raw)).flatten = s.stream := by
  rw [segment_eq_segmentS crc _ s rfl hpb]; exact (segmentS_lossless crc _ _ rfl).1

/-- Every fetch that delivers a message strictly consumes input: the loop terminates. -/
theorem fetch_progress (crc : Bytes → Nat) (s s' : In) (m : Msg) (h : fetch crc s = .msg m s') :
    s'.size < s.size := fetch_size h

/-- The push-back buffer never holds more than one byte (so its FIFO order is immaterial). -/
theorem pushback_small (s : In) (hpb : s.pb.length ≤ 1) : (fetchC s).pbOk := (fetchC_refines s hpb).2

/-- An empty stream delivers nothing; the handler just closes its output. -/
theorem segment_empty (crc : Bytes → Nat) : segment crc (In.ofBytes []) = [] := by
  rw [handleMessages_eq, segmentS]; simp [scan]

/-- A list of non-empty lists has at most as many members as elements. -/
theorem flatten_length_ge {α : Type} : ∀ (ls : List (List α)), (∀ l ∈ ls, l ≠ []) → ls.length ≤ ls.flatten.length
  | [], _ => by simp
  | l :: ls, h => by
    have h1 : l ≠ [] := h l (by simp)
    have h2 := flatten_length_ge ls (fun x hx => h x (by simp [hx]))
    have : 0 < l.length := List.length_pos_iff.mpr h1
    simp only [List.flatten_cons, List.length_append, List.length_cons]; omega

/-- The handler delivers at most as many messages as it read bytes (none is empty). -/
theorem message_count_le_bytes (crc : Bytes → Nat) (bs : Bytes) :
    (segment crc (In.ofBytes bs)).length ≤ bs.length := by
  have h := flatten_length_ge ((segment crc (In.ofBytes bs)).map (·.raw)) (by
    intro l hl
    rcases List.mem_map.mp hl with ⟨m, hm, rfl⟩
    exact segment_nonempty crc bs m hm)
  rw [segment_lossless, List.length_map] at h
  exact h

/-- Every delivered message's raw bytes sit in the input at the offset given by what was delivered before it. -/
theorem message_at_offset (crc : Bytes → Nat) (bs : Bytes) (pre post : List Msg) (m : Msg)
    (h : segment crc (In.ofBytes bs) = pre ++ m :: post) :
    bs = (pre.map (·.raw)).flatten ++ m.raw ++ (post.map (·.raw)).flatten := by
  have := segment_lossless crc bs
  rw [h] at this
  simp only [List.map_append, List.map_cons, List.flatten_append, List.flatten_cons] at this
  rw [← this]; simp
/-! Non-vacuity (tests). -/
example : scan [0xD3] = .junk [0xD3] [] := by decide
example : scan [0xD3, 0x00, 0x04, 0x4c] = .junk [0xD3, 0x00, 0x04, 0x4c] [] := by decide
example : scan [0x24, 0x47, 0xD3, 0x00] = .junk [0x24, 0x47] [0xD3, 0x00] := by decide

end Ntrip.C02
