import Ntrip.Properties.C20
import Ntrip.Guards.FramingReads
/-!
# C20 — ties (T1)

The type the handler classifies is the unsigned 12-bit field at bit 24 of the frame.
-/
namespace Ntrip.C20

/-- Tie T1: the bit fields the framing code reads, their widths and signedness. -/
theorem tie_framing_reads : type_of% Ntrip.Guards.framing_reads := Ntrip.Guards.framing_reads

end Ntrip.C20
