import Ntrip.Properties.C15
import Ntrip.Generated.Consts
import Ntrip.Generated.Layouts
import Ntrip.Generated.Skeletons
import Ntrip.Generated.Tables
import Ntrip.Guards.Apps_analyse
import Ntrip.Guards.Writes_decoders_pure
import Ntrip.Guards.Writes_handler_state
/-!
# C15 — ties (T1)

The facts regenerated from /repo's source on every run that the model of C15 was written for:
guards and loop headers, goroutine/channel/lock skeletons, effects, hand-overs, receiver writes,
templates.  A theorem here says "the source still has the shape the model assumes"; it is an
obligation of C15 only (other properties that reuse C15's theorems do not inherit it).
-/
namespace Ntrip.C15

/-- Tie T1: no library package keeps mutable package-level state: the only package-level
    variables are the lookup tables, offsets and time zones of `utils`, and nothing outside
    `init` writes to any package-level variable. -/
theorem tie_no_hidden_state :
    Gen.globals_utils = ["BeidouLeapSeconds", "BeidouTimeOffset", "GPSTimeOffset", "GlonassTimeOffset", "LocationGMT",
      "LocationLondon", "LocationMoscow", "LocationParis", "LocationUTC", "MSM4MessageTypes", "MSM7MessageTypes"] ∧
    Gen.global_writes_utils = [] ∧
    Gen.globals_header = [] ∧ Gen.globals_handler = [] ∧ Gen.globals_pushback = [] ∧
    Gen.globals_t1005 = [] ∧ Gen.globals_t1006 = [] ∧ Gen.globals_sat4 = [] ∧ Gen.globals_sig4 = [] ∧
    Gen.globals_msg4 = [] ∧ Gen.globals_sat7 = [] ∧ Gen.globals_sig7 = [] ∧ Gen.globals_msg7 = [] ∧
    Gen.globals_appcore = [] ∧ Gen.globals_fh = [] ∧
    Gen.global_writes_header = [] ∧ Gen.global_writes_handler = [] ∧ Gen.global_writes_pushback = [] ∧
    Gen.global_writes_t1005 = [] ∧ Gen.global_writes_t1006 = [] ∧ Gen.global_writes_sat4 = [] ∧
    Gen.global_writes_sig4 = [] ∧ Gen.global_writes_msg4 = [] ∧ Gen.global_writes_sat7 = [] ∧
    Gen.global_writes_sig7 = [] ∧ Gen.global_writes_msg7 = [] ∧ Gen.global_writes_appcore = [] ∧
    Gen.global_writes_fh = [] := by
  repeat' constructor
  all_goals decide

/-- Tie T1: the fan-out sends the message *value* to every consumer (`send appCore.Channels[i]`
    inside the range loop), and `Analyse` fills `Readable` lazily only when it is nil. -/
theorem tie_fanout :
    Gen.skeleton_appcore_AppCore_HandleMessagesUntilEOF = some ["makechan cap=0", "go fh.Handle", "for",
      "recv messageChan", "return", "range appCore.Channels", "send appCore.Channels[i]", "return"] := by decide

/-- Tie T1 (guards): the conditions and the effects (field writes, helper calls) of `Analyse`, `analyse*`, `String`, `Copy`, the message constructors: decoding writes `ErrorMessage`/`Readable` by plain assignment and nothing else. -/
theorem tie_guards_analyse : type_of% Ntrip.Guards.analyse := Ntrip.Guards.analyse

/-- Tie T1 (receiver writes): no method of a decoded message, header, satellite or signal cell assigns to its receiver: display and the range accessors cannot alter what was decoded. -/
theorem tie_writes_decoders_pure : type_of% Ntrip.Guards.decoders_pure := Ntrip.Guards.decoders_pure

/-- Tie T1 (receiver writes): the handler's methods write only its week-start/previous-timestamp fields (the time lines) and the push-back buffer. -/
theorem tie_writes_handler_state : type_of% Ntrip.Guards.handler_state := Ntrip.Guards.handler_state

end Ntrip.C15
