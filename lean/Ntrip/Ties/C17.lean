import Ntrip.Guards.TimeConsts
import Ntrip.Properties.C17
import Ntrip.Generated.Consts
import Ntrip.Generated.Layouts
import Ntrip.Generated.Skeletons
import Ntrip.Generated.Tables
import Ntrip.Guards.Time
/-!
# C17 — ties (T1)

The facts regenerated from /repo's source on every run that the model of C17 was written for:
guards and loop headers, goroutine/channel/lock skeletons, effects, hand-overs, receiver writes,
templates.  A theorem here says "the source still has the shape the model assumes"; it is an
obligation of C17 only (other properties that reuse C17's theorems do not inherit it).
-/
namespace Ntrip.C17

/-- `New` starts the stored timestamps at the beginning of the week (tie T1): this is what
    makes a first observation earlier than `T` harmless. -/
theorem tie_new_prev_zero :
    Gen.handler_New_timestampFromPreviousGPSMessage = "zero" ∧
    Gen.handler_New_timestampFromPreviousGalileoMessage = "sameAsGPS" ∧
    Gen.handler_New_timestampFromPreviousBeidouMessage = "zero" := by decide

/-- Tie T1: guards and loop headers of the modelled code, regenerated from the source. -/
theorem tie_guards_time : type_of% Ntrip.Guards.time := Ntrip.Guards.time

/-- Tie T1 (constants): the literals of the time model are the constants of the source. -/
theorem tie_time_consts : type_of% Ntrip.Guards.time_consts := Ntrip.Guards.time_consts

end Ntrip.C17
