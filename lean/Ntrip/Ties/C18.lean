import Ntrip.Properties.C18
import Ntrip.Generated.Consts
import Ntrip.Generated.Layouts
import Ntrip.Generated.Skeletons
import Ntrip.Generated.Tables
import Ntrip.Guards.Queue
import Ntrip.Guards.Writes_queue_writers
/-!
# C18 — ties (T1)

The facts regenerated from /repo's source on every run that the model of C18 was written for:
guards and loop headers, goroutine/channel/lock skeletons, effects, hand-overs, receiver writes,
templates.  A theorem here says "the source still has the shape the model assumes"; it is an
obligation of C18 only (other properties that reuse C18's theorems do not inherit it).
-/
namespace Ntrip.C18

/-- Tie T1: `Add` = `Lock; defer Unlock; …`, `GetMessages` = `RLock; defer RUnlock; …`, and
    only `Add`, `GetMessages` and their helper touch `Items` / `NextIndex`. -/
theorem tie_locking :
    Gen.skeleton_cq_CircularQueue_Add = some ["sync cb.Lock", "defer sync cb.Unlock", "range keys"] ∧
    Gen.skeleton_cq_CircularQueue_GetMessages = some ["sync cb.RLock", "defer sync cb.RUnlock", "range keys", "return"] ∧
    Gen.skeleton_cq_CircularQueue_getKeysInAscendingOrder = some ["range cb.Items", "return"] ∧
    Gen.cq_state_users = ["CircularQueue.Add", "CircularQueue.GetMessages", "CircularQueue.getKeysInAscendingOrder"] := by
  repeat' constructor
  all_goals decide

/-- Tie T1: guards and loop headers of `Add` / `GetMessages`. -/
theorem tie_guards : type_of% Ntrip.Guards.queue := Ntrip.Guards.queue

/-- Tie T1 (receiver writes): `Add` is the only method that writes the queue (`delete`, the map assignment, the index increment); `GetMessages` and the key helper write nothing shared. -/
theorem tie_writes_queue_writers : type_of% Ntrip.Guards.queue_writers := Ntrip.Guards.queue_writers

end Ntrip.C18
