import Ntrip.Properties.C11
import Ntrip.Guards.Apps_reader
import Ntrip.Guards.Apps_fanout
import Ntrip.Generated.Consts
import Ntrip.Generated.Layouts
import Ntrip.Generated.Skeletons
import Ntrip.Generated.Tables
import Ntrip.Guards.Apps_filter
import Ntrip.Guards.Apps_display
/-!
# C11 — ties (T1)

The facts regenerated from /repo's source on every run that the model of C11 was written for:
guards and loop headers, goroutine/channel/lock skeletons, effects, hand-overs, receiver writes,
templates.  A theorem here says "the source still has the shape the model assumes"; it is an
obligation of C11 only (other properties that reuse C11's theorems do not inherit it).
-/
namespace Ntrip.C11
open Ntrip.Pipe

/-- Tie T1: both applications close every writer channel and wait for the writers before
    returning (displayrtcm3: `close messageChan` then `<-displayDone`, the writer closing
    `displayDone` on exit; rtcmfilter: a `sync.WaitGroup` — `Add` before each `go`, `Done`
    deferred in each writer, `close` of every channel, `Wait`). -/
theorem tie_skeletons :
    Gen.skeleton_display_HandleMessages = some ["makechan cap=2", "makechan cap=0", "go func{",
      "defer close displayDone", "}", "close messageChan", "recv displayDone"] ∧
    Gen.skeleton_display_DisplayMessages = some ["for", "recv messageChan", "return", "return"] ∧
    Gen.skeleton_filter_HandleMessages = some ["makechan cap=0", "sync writers.Add", "go func{", "defer sync writers.Done", "}",
      "makechan cap=0", "sync writers.Add", "go func{", "defer sync writers.Done", "}",
      "makechan cap=0", "sync writers.Add", "go func{", "defer sync writers.Done", "}",
      "range channels", "close channels[i]", "sync writers.Wait"] ∧
    Gen.skeleton_filter_writeRTCMMessages = some ["for", "recv ch", "return", "return", "return"] ∧
    Gen.skeleton_filter_writeReadableMessages = some ["for", "recv ch", "return"] := by
  repeat' constructor
  all_goals decide

/-- Tie T1 (guards): rtcmfilter. -/
theorem tie_guards_filter : type_of% Ntrip.Guards.filter := Ntrip.Guards.filter

/-- Tie T1 (guards): displayrtcm3. -/
theorem tie_guards_display : type_of% Ntrip.Guards.display := Ntrip.Guards.display

/-- Tie T1 (guards): the read loop the application's input goes through (`file_handler.Handle`):
    its conditions and loops are those of the reader model. -/
theorem tie_guards_reader : type_of% Ntrip.Guards.reader := Ntrip.Guards.reader

/-- Tie T1 (guards): the fan-out (`appcore.HandleMessagesUntilEOF`) between the reader and the writers. -/
theorem tie_guards_fanout : type_of% Ntrip.Guards.fanout := Ntrip.Guards.fanout

/-- Tie T1: what `Handle` hands over — single bytes by value, from the read loop itself. -/
theorem tie_reader_handover :
    Gen.sent_fh_Handler_Handle = some ["go handler.RTCMHandler.HandleMessages()", "byteChan <- buf[0]"] := by decide

end Ntrip.C11
