import Ntrip.Guards.FramingReads
import Ntrip.Guards.FramingConsts
import Ntrip.Properties.C01
import Ntrip.Generated.Consts
import Ntrip.Generated.Layouts
import Ntrip.Generated.Skeletons
import Ntrip.Generated.Tables
import Ntrip.Guards.Framing
/-!
# C01 — ties (T1)

The facts regenerated from /repo's source on every run that the model of C01 was written for:
guards and loop headers, goroutine/channel/lock skeletons, effects, hand-overs, receiver writes,
templates.  A theorem here says "the source still has the shape the model assumes"; it is an
obligation of C01 only (other properties that reuse C01's theorems do not inherit it).
-/
namespace Ntrip.C01

/-- Tie T1: guards and loop headers of the modelled code, regenerated from the source. -/
theorem tie_guards_framing : type_of% Ntrip.Guards.framing := Ntrip.Guards.framing

/-- Tie T1 (constants): the literals of the framing model are the constants of the source. -/
theorem tie_framing_consts : type_of% Ntrip.Guards.framing_consts := Ntrip.Guards.framing_consts

/-- Tie T1: the bit fields the framing code reads, their widths and signedness. -/
theorem tie_framing_reads : type_of% Ntrip.Guards.framing_reads := Ntrip.Guards.framing_reads

end Ntrip.C01
