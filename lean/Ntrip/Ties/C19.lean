import Ntrip.Guards.FramingConsts
import Ntrip.Guards.Framing
import Ntrip.Properties.C19
import Ntrip.Generated.Consts
import Ntrip.Generated.Layouts
import Ntrip.Generated.Skeletons
import Ntrip.Generated.Tables
import Ntrip.Guards.Apps_proxy
/-!
# C19 — ties (T1)

The facts regenerated from /repo's source on every run that the model of C19 was written for:
guards and loop headers, goroutine/channel/lock skeletons, effects, hand-overs, receiver writes,
templates.  A theorem here says "the source still has the shape the model assumes"; it is an
obligation of C19 only (other properties that reuse C19's theorems do not inherit it).
-/
namespace Ntrip.C19
open Ntrip.Pipe

/-- Tie T1: the five holes of `Status` in template order, how each is produced (the hex dumps
    and every message text go through `Sanitise`), what `Sanitise` replaces, and the template's
    own markup count. -/
theorem tie_report :
    Gen.rf_Status_holes = ["clientLeader", "clientHexDump", "serverLeader", "serverHexDump", "messageDisplay"] ∧
    Gen.rf_Status_assigns = [("clientHexDump", [":= ", "= Sanitise()"]), ("clientLeader", [":= no input buffer", "= fmt.Sprintf()"]),
      ("messageDisplay", [":= \nMessages\n\n", "+= Sanitise()+\n"]), ("reportBody", [":= fmt.Sprintf()"]),
      ("serverHexDump", [":= ", "= Sanitise()"]), ("serverLeader", [":= no output buffer", "= fmt.Sprintf()"])] ∧
    Gen.rf_Sanitise_replacements = ["<=>&lt; n=-1", ">=>&gt; n=-1"] ∧
    Gen.rf_reportFormat_holes = 5 ∧ Gen.rf_reportFormat_lt = 24 ∧ Gen.rf_reportFormat_gt = 24 := by
  repeat' constructor
  all_goals decide

/-- Tie T1: the goroutines and channels of the proxy's parser leg and relay loops. -/
theorem tie_skeletons :
    Gen.skeleton_proxy_start = some ["makechan cap=0", "defer close byteChan", "makechan cap=0", "defer close messageChan",
      "go rtcmHandler.HandleMessages", "go keepCircularQueueUpdated"] ∧
    Gen.skeleton_proxy_handleMessages = some ["go handleServerMessages"] ∧
    Gen.skeleton_proxy_handleClientMessages = some ["for", "for", "send byteChan", "return"] ∧
    Gen.skeleton_proxy_handleServerMessages = some ["for"] ∧
    Gen.skeleton_proxy_keepCircularQueueUpdated = some ["for", "recv messageChan"] ∧
    Gen.skeleton_rf_ReportFeed_Status = some ["sync rf.Lock", "defer sync rf.Unlock", "range rf.RecentMessages.GetMessages()", "return"] ∧
    Gen.proxy_maxNumberOfMessagesStored = 20 := by
  repeat' constructor
  all_goals decide

/-- Tie T1: what the client loop hands over — each byte of the chunk, by value and from the loop
    itself (no feeder goroutine), to the parser; the chunk itself upstream. -/
theorem tie_handover :
    Gen.sent_proxy_handleClientMessages = some ["byteChan <- data[i]", "server.Write(data[:n])"] := by decide

/-- Tie T1 (guards): the relay loops, the queue updater and `Status`. -/
theorem tie_guards_proxy : type_of% Ntrip.Guards.proxy := Ntrip.Guards.proxy

/-- Tie T1: the guards and loop headers of the framing code this property builds on. -/
theorem tie_framing : type_of% Ntrip.Guards.framing := Ntrip.Guards.framing

/-- Tie T1: the literals of the framing model are the constants of the source. -/
theorem tie_framing_consts : type_of% Ntrip.Guards.framing_consts := Ntrip.Guards.framing_consts

end Ntrip.C19
