import Ntrip.Properties.C05
import Ntrip.Generated.Consts
import Ntrip.Generated.Layouts
import Ntrip.Generated.Skeletons
import Ntrip.Generated.Tables
import Ntrip.Guards.Base
/-!
# C05 — ties (T1)

The facts regenerated from /repo's source on every run that the model of C05 was written for:
guards and loop headers, goroutine/channel/lock skeletons, effects, hand-overs, receiver writes,
templates.  A theorem here says "the source still has the shape the model assumes"; it is an
obligation of C05 only (other properties that reuse C05's theorems do not inherit it).
-/
namespace Ntrip.C05

/-- Tie T1: the layouts extracted from the current source are the standard's, the length
    constants are their sums, the expected types are 1005/1006. -/
theorem tie_layouts :
    BaseKind.t1005.layout = some (std .t1005) ∧ BaseKind.t1006.layout = some (std .t1006) ∧
    BaseKind.t1005.messageBits = 152 ∧ BaseKind.t1006.messageBits = 168 ∧
    BaseKind.t1005.expectedType = 1005 ∧ BaseKind.t1006.expectedType = 1006 := by decide

/-- Tie T1: guards and loop headers of the modelled code, regenerated from the source. -/
theorem tie_guards_base : type_of% Ntrip.Guards.base := Ntrip.Guards.base

end Ntrip.C05
