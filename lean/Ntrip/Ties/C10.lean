import Ntrip.Guards.FramingConsts
import Ntrip.Guards.Framing
import Ntrip.Properties.C10
import Ntrip.Generated.Consts
import Ntrip.Generated.Layouts
import Ntrip.Generated.Skeletons
import Ntrip.Generated.Tables
import Ntrip.Guards.Apps_filter
/-!
# C10 — ties (T1)

The facts regenerated from /repo's source on every run that the model of C10 was written for:
guards and loop headers, goroutine/channel/lock skeletons, effects, hand-overs, receiver writes,
templates.  A theorem here says "the source still has the shape the model assumes"; it is an
obligation of C10 only (other properties that reuse C10's theorems do not inherit it).
-/
namespace Ntrip.C10
open Ntrip.Pipe

/-- Tie T1: the only thing `writeRTCMMessages` writes is the raw data of a message. -/
theorem tie_handover :
    Gen.sent_filter_writeRTCMMessages = some ["writer.Write(message.RawData)"] := by decide

/-- Tie T1 (guards): the conditions of rtcmfilter: which messages `writeRTCMMessages` skips, which consumers `HandleMessages` starts. -/
theorem tie_guards_filter : type_of% Ntrip.Guards.filter := Ntrip.Guards.filter

/-- Tie T1: the guards and loop headers of the framing code this property builds on. -/
theorem tie_framing : type_of% Ntrip.Guards.framing := Ntrip.Guards.framing

/-- Tie T1: the literals of the framing model are the constants of the source. -/
theorem tie_framing_consts : type_of% Ntrip.Guards.framing_consts := Ntrip.Guards.framing_consts

end Ntrip.C10
