import Ntrip.Guards.FramingConsts
import Ntrip.Guards.Framing
import Ntrip.Properties.C10
import Ntrip.Guards.Apps_reader
import Ntrip.Guards.Apps_fanout
import Ntrip.Generated.Consts
import Ntrip.Generated.Layouts
import Ntrip.Generated.Skeletons
import Ntrip.Generated.Tables
import Ntrip.Guards.Apps_filter
/-!
# C10 — ties (T1)

The facts regenerated from /repo's source on every run that the model of C10 was written for:
guards and loop headers, goroutine/channel/lock skeletons, effects, hand-overs, receiver writes,
templates.  A theorem here says "the source still has the shape the model assumes"; it is an
obligation of C10 only (other properties that reuse C10's theorems do not inherit it).
-/
namespace Ntrip.C10
open Ntrip.Pipe

/-- Tie T1: the only thing `writeRTCMMessages` writes is the raw data of a message. -/
theorem tie_handover :
    Gen.sent_filter_writeRTCMMessages = some ["writer.Write(message.RawData)"] := by decide

/-- Tie T1 (guards): the conditions of rtcmfilter: which messages `writeRTCMMessages` skips, which consumers `HandleMessages` starts. -/
theorem tie_guards_filter : type_of% Ntrip.Guards.filter := Ntrip.Guards.filter

/-- Tie T1: the guards and loop headers of the framing code this property builds on. -/
theorem tie_framing : type_of% Ntrip.Guards.framing := Ntrip.Guards.framing

/-- Tie T1: the literals of the framing model are the constants of the source. -/
theorem tie_framing_consts : type_of% Ntrip.Guards.framing_consts := Ntrip.Guards.framing_consts

/-- Tie T1 (guards): the read loop the application's input goes through (`file_handler.Handle`):
    its conditions and loops are those of the reader model. -/
theorem tie_guards_reader : type_of% Ntrip.Guards.reader := Ntrip.Guards.reader

/-- Tie T1 (guards): the fan-out (`appcore.HandleMessagesUntilEOF`) between the reader and the writers. -/
theorem tie_guards_fanout : type_of% Ntrip.Guards.fanout := Ntrip.Guards.fanout

/-- Tie T1: what `Handle` hands over — single bytes by value, from the read loop itself. -/
theorem tie_reader_handover :
    Gen.sent_fh_Handler_Handle = some ["go handler.RTCMHandler.HandleMessages()", "byteChan <- buf[0]"] := by decide

end Ntrip.C10
