import Ntrip.Guards.FramingReads
import Ntrip.Guards.FramingConsts
import Ntrip.Properties.C07
import Ntrip.Generated.Consts
import Ntrip.Generated.Layouts
import Ntrip.Generated.Skeletons
import Ntrip.Generated.Tables
import Ntrip.Guards.Base
import Ntrip.Guards.Framing
import Ntrip.Guards.Msm
/-!
# C07 — ties (T1)

The facts regenerated from /repo's source on every run that the model of C07 was written for:
guards and loop headers, goroutine/channel/lock skeletons, effects, hand-overs, receiver writes,
templates.  A theorem here says "the source still has the shape the model assumes"; it is an
obligation of C07 only (other properties that reuse C07's theorems do not inherit it).
-/
namespace Ntrip.C07

/-- Tie T1: the guards' constants. -/
theorem tie_guards :
    Gen.header_minBitsInHeader = 169 ∧ Gen.header_maxLengthOfCellMask = 64 ∧
    Gen.sat4_CellLengthInBits = 18 ∧ Gen.sat7_CellLengthInBits = 36 ∧
    Gen.sig4_GetSignalCells_bitsPerCell = 48 ∧ Gen.sig7_bitsPerCell = 80 ∧
    Gen.utils_CRCLengthBits = 24 ∧ Gen.utils_LeaderLengthBits = 24 ∧
    Gen.sig4_numSignalCells_source = "header.NumSignalCells" ∧
    Gen.sig7_numSignalCells_source = "header.NumSignalCells" := by decide

/-- Tie T1: guards and loop headers of the modelled code, regenerated from the source. -/
theorem tie_guards_msm : type_of% Ntrip.Guards.msm := Ntrip.Guards.msm

/-- Tie T1: guards and loop headers of the modelled code, regenerated from the source. -/
theorem tie_guards_base : type_of% Ntrip.Guards.base := Ntrip.Guards.base

/-- Tie T1: guards and loop headers of the modelled code, regenerated from the source. -/
theorem tie_guards_framing : type_of% Ntrip.Guards.framing := Ntrip.Guards.framing

/-- Tie T1: the expressions of the display code that can panic by themselves, regenerated
    from the source; each is safe for the reason given. -/
theorem display_whitelist :
    -- comma-ok type assertions on `message.Readable`
    Gen.display_handler_Message_String = some ["assert message.Readable", "deref *msm4Message.Message",
      "deref *msm7Message.Message", "deref *type1005.Message", "deref *type1006.Message"] ∧
    Gen.display_handler_PrepareForDisplay = some [] ∧ Gen.display_handler_Analyse = some [] ∧
    Gen.display_handler_Handler_getStartTimeDisplay = some [] ∧
    -- shifts by a non-negative loop counter; `range` loops over the header's own slices
    Gen.display_header_Header_String = some ["arith header.SatelliteMask>>s", "arith header.SignalMask>>s",
      "index header.Cells[i]", "index header.Cells[i][j]"] ∧
    -- `message.Header` is set by the decoder; `range` loops over the message's own slices
    Gen.display_msg4_Message_String = some ["chain message.Header.String"] ∧
    Gen.display_msg4_Message_DisplaySatelliteCells = some ["index message.Satellites[i]"] ∧
    Gen.display_msg4_Message_DisplaySignalCells = some ["index message.Signals[i]", "index message.Signals[i][j]"] ∧
    Gen.display_msg7_Message_String = some ["chain message.Header.String"] ∧
    Gen.display_msg7_Message_DisplaySatelliteCells = some ["index message.Satellites[i]"] ∧
    Gen.display_msg7_Message_DisplaySignalCells = some ["index message.Signals[i]", "index message.Signals[i][j]"] ∧
    Gen.display_sat4_Cell_String = some [] ∧ Gen.display_sat7_Cell_String = some [] ∧
    -- `cell.Satellite` is never nil in a decoded message (`decoded_pointers_exist`)
    Gen.display_sig4_Cell_String = some ["chain cell.Satellite.ID", "chain cell.Satellite.RangeWholeMillis"] ∧
    Gen.display_sig7_Cell_String = some ["chain cell.Satellite.ID", "chain cell.Satellite.PhaseRangeRate",
      "chain cell.Satellite.RangeWholeMillis"] ∧
    Gen.display_sig4_Cell_GetAggregateRange = some ["chain cell.Satellite.RangeFractionalMillis", "chain cell.Satellite.RangeWholeMillis"] ∧
    Gen.display_sig4_Cell_GetAggregatePhaseRange = some ["chain cell.Satellite.RangeFractionalMillis", "chain cell.Satellite.RangeWholeMillis"] ∧
    Gen.display_sig7_Cell_GetAggregateRange = some ["chain cell.Satellite.RangeFractionalMillis", "chain cell.Satellite.RangeWholeMillis"] ∧
    Gen.display_sig7_Cell_GetAggregatePhaseRange = some ["chain cell.Satellite.RangeFractionalMillis", "chain cell.Satellite.RangeWholeMillis"] ∧
    Gen.display_sig7_Cell_GetAggregatePhaseRangeRate = some ["chain cell.Satellite.PhaseRangeRate"] ∧
    -- floating-point divisions (never panic)
    Gen.display_sig4_Cell_PhaseRange = some ["arith phaseRangeLMS/cell.Wavelength"] ∧
    Gen.display_sig7_Cell_PhaseRange = some ["arith phaseRangeLMS/cell.Wavelength"] ∧
    Gen.display_sig7_Cell_PhaseRangeRateDoppler = some ["arith phaseRangeRateMetresPerSecond/cell.Wavelength"] ∧
    Gen.display_sig4_Cell_RangeInMetres = some [] ∧ Gen.display_sig7_Cell_RangeInMetres = some [] ∧
    Gen.display_sig7_Cell_PhaseRangeRate = some [] ∧
    Gen.display_t1005_Message_String = some [] ∧ Gen.display_t1006_Message_String = some [] := by
  repeat' constructor
  all_goals decide

/-- Tie T1 (constants): the literals of the framing model are the constants of the source. -/
theorem tie_framing_consts : type_of% Ntrip.Guards.framing_consts := Ntrip.Guards.framing_consts

/-- Tie T1: the bit fields the framing code reads, their widths and signedness. -/
theorem tie_framing_reads : type_of% Ntrip.Guards.framing_reads := Ntrip.Guards.framing_reads

end Ntrip.C07
