import Ntrip.Guards.FramingReads
import Ntrip.Guards.TimeConsts
import Ntrip.Properties.C06
import Ntrip.Generated.Consts
import Ntrip.Generated.Layouts
import Ntrip.Generated.Skeletons
import Ntrip.Generated.Tables
import Ntrip.Guards.Time
/-!
# C06 — ties (T1)

The facts regenerated from /repo's source on every run that the model of C06 was written for:
guards and loop headers, goroutine/channel/lock skeletons, effects, hand-overs, receiver writes,
templates.  A theorem here says "the source still has the shape the model assumes"; it is an
obligation of C06 only (other properties that reuse C06's theorems do not inherit it).
-/
namespace Ntrip.C06

/-- The state updates survive: every method on the path has a pointer receiver. -/
theorem tie_receivers :
    Gen.handler_getTimeDisplayFromTimestamp_ptrRecv = some true ∧
    Gen.handler_getTimeFromTimeStamp_ptrRecv = true ∧
    Gen.handler_getUTCFromGPSTime_ptrRecv = some true ∧
    Gen.handler_getUTCFromGalileoTime_ptrRecv = some true ∧
    Gen.handler_getUTCFromBeidouTime_ptrRecv = some true ∧
    Gen.handler_getUTCFromGlonassTime_ptrRecv = some true ∧
    Gen.handler_GetMessage_ptrRecv = some true := by decide

/-- Each week-based conversion reads and writes its own constellation's fields. -/
theorem tie_fields :
    Gen.handler_getUTCFromGPSTime_args = ["timestamp", "timestampFromPreviousGPSMessage", "startOfGPSWeek"] ∧
    Gen.handler_getUTCFromGPSTime_writes = ["startOfGPSWeek=newStartOfWeek", "timestampFromPreviousGPSMessage=timestamp"] ∧
    Gen.handler_getUTCFromGalileoTime_args = ["timestamp", "timestampFromPreviousGalileoMessage", "startOfGalileoWeek"] ∧
    Gen.handler_getUTCFromGalileoTime_writes = ["startOfGalileoWeek=newStartOfWeek", "timestampFromPreviousGalileoMessage=timestamp"] ∧
    Gen.handler_getUTCFromBeidouTime_args = ["timestamp", "timestampFromPreviousBeidouMessage", "startOfBeidouWeek"] ∧
    Gen.handler_getUTCFromBeidouTime_writes = ["startOfBeidouWeek=newStartOfWeek", "timestampFromPreviousBeidouMessage=timestamp"] := by
  decide

/-- Constants the model takes from the source. -/
theorem tie_constants :
    Gen.utils_MaxTimestamp = 604799999 ∧ Gen.utils_MaxTimestampGlonass = 891706367 ∧
    Gen.utils_MillisIn24Hours = 86400000 ∧ Gen.utils_GlonassDayBitMask = 0x38000000 ∧
    Gen.utils_GPSLeapSeconds = -18 ∧ Gen.utils_BeidouLeapSeconds = -4 ∧
    Gen.utils_GPSTimeOffset = -18000000000 ∧ Gen.utils_BeidouTimeOffset = -4000000000 ∧
    Gen.utils_GlonassTimeOffset = -10800000000000 ∧
    Gen.handler_Handler_GetMessage_timestampPosition = 48 ∧ Gen.header_LenTimeStamp = 30 := by decide

/-- Tie T1: guards and loop headers of the modelled code, regenerated from the source. -/
theorem tie_guards_time : type_of% Ntrip.Guards.time := Ntrip.Guards.time

/-- Tie T1 (constants): the literals of the time model are the constants of the source. -/
theorem tie_time_consts : type_of% Ntrip.Guards.time_consts := Ntrip.Guards.time_consts

/-- Tie T1: the bit fields the framing code reads, their widths and signedness. -/
theorem tie_framing_reads : type_of% Ntrip.Guards.framing_reads := Ntrip.Guards.framing_reads

end Ntrip.C06
