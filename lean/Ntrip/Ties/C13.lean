import Ntrip.Guards.Apps_tolerance
import Ntrip.Properties.C13
import Ntrip.Generated.Consts
import Ntrip.Generated.Layouts
import Ntrip.Generated.Skeletons
import Ntrip.Generated.Tables
import Ntrip.Guards.Apps_reader
/-!
# C13 — ties (T1)

The facts regenerated from /repo's source on every run that the model of C13 was written for:
guards and loop headers, goroutine/channel/lock skeletons, effects, hand-overs, receiver writes,
templates.  A theorem here says "the source still has the shape the model assumes"; it is an
obligation of C13 only (other properties that reuse C13's theorems do not inherit it).
-/
namespace Ntrip.C13

/-- Tie T1: the skeleton of `Handle` (unbuffered byte channel, closed on every return path by
    `defer`, the framing goroutine started before the loop). -/
theorem tie_skeleton :
    Gen.skeleton_fh_Handler_Handle = some ["makechan cap=0", "defer close byteChan",
      "go handler.RTCMHandler.HandleMessages", "for", "return", "return", "return", "send byteChan"] ∧
    Gen.skeleton_handler_Handler_HandleMessages = some ["for", "close ch_out", "return", "send ch_out"] := by
  constructor <;> decide

/-- Tie T1: what `Handle` hands over — single bytes by value, from the read loop itself (one
    byte per `Read`, so a read result is either a byte or an error, as in the model's `ReadRes`). -/
theorem tie_handover :
    Gen.sent_fh_Handler_Handle = some ["go handler.RTCMHandler.HandleMessages()", "byteChan <- buf[0]"] := by decide

/-- Tie T1 (guards): the conditions and loops of `Handle` (which results stop it, which are tolerated, when a byte is forwarded). -/
theorem tie_guards_reader : type_of% Ntrip.Guards.reader := Ntrip.Guards.reader

/-- Tie T1: the tolerance and the retry pause are read from their own configuration fields. -/
theorem tie_tolerance_accessors : type_of% Ntrip.Guards.tolerance_accessors := Ntrip.Guards.tolerance_accessors

end Ntrip.C13
