import Ntrip.Properties.C04
import Ntrip.Generated.Consts
import Ntrip.Generated.Layouts
import Ntrip.Generated.Skeletons
import Ntrip.Generated.Tables
import Ntrip.Guards.Msm
/-!
# C04 — ties (T1)

The facts regenerated from /repo's source on every run that the model of C04 was written for:
guards and loop headers, goroutine/channel/lock skeletons, effects, hand-overs, receiver writes,
templates.  A theorem here says "the source still has the shape the model assumes"; it is an
obligation of C04 only (other properties that reuse C04's theorems do not inherit it).
-/
namespace Ntrip.C04

/-- Tie T1: the layouts extracted from the current source are the standard's. -/
theorem tie_layouts :
    hdrCols = some hdrStd ∧
    MsmKind.msm4.satCols = some (satStd .msm4) ∧ MsmKind.msm7.satCols = some (satStd .msm7) ∧
    MsmKind.msm4.sigCols = some (sigStd .msm4) ∧ MsmKind.msm7.sigCols = some (sigStd .msm7) ∧
    widthOf hdrStd = 169 ∧ widthOf (satStd .msm4) = 18 ∧ widthOf (satStd .msm7) = 36 ∧
    widthOf (sigStd .msm4) = 48 ∧ widthOf (sigStd .msm7) = 80 := by
  repeat' constructor
  all_goals decide

/-- Tie T1: the cell count (the stride of the field-major signal arrays) comes from the
    header's cell mask, and the constants of the guards. -/
theorem tie_stride :
    Gen.sig4_numSignalCells_source = "header.NumSignalCells" ∧
    Gen.sig7_numSignalCells_source = "header.NumSignalCells" ∧
    Gen.sat4_CellLengthInBits = 18 ∧ Gen.sat7_CellLengthInBits = 36 ∧
    Gen.sig4_GetSignalCells_bitsPerCell = 48 ∧ Gen.sig7_bitsPerCell = 80 ∧
    Gen.header_minBitsInHeader = 169 ∧ Gen.header_maxLengthOfCellMask = 64 := by decide

/-- Tie T1: guards and loop headers of the modelled code, regenerated from the source. -/
theorem tie_guards_msm : type_of% Ntrip.Guards.msm := Ntrip.Guards.msm

end Ntrip.C04
