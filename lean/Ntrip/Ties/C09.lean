import Ntrip.Guards.FramingConsts
import Ntrip.Guards.Framing
import Ntrip.Guards.Apps_tolerance
import Ntrip.Properties.C09
import Ntrip.Generated.Consts
import Ntrip.Generated.Layouts
import Ntrip.Generated.Skeletons
import Ntrip.Generated.Tables
import Ntrip.Guards.Apps_reader
import Ntrip.Guards.Apps_fanout
/-!
# C09 — ties (T1)

The facts regenerated from /repo's source on every run that the model of C09 was written for:
guards and loop headers, goroutine/channel/lock skeletons, effects, hand-overs, receiver writes,
templates.  A theorem here says "the source still has the shape the model assumes"; it is an
obligation of C09 only (other properties that reuse C09's theorems do not inherit it).
-/
namespace Ntrip.C09
open Ntrip.Pipe

/-- Tie T1: the goroutine/channel skeletons the transition system was written for. -/
theorem tie_skeletons :
    Gen.skeleton_fh_Handler_Handle = some ["makechan cap=0", "defer close byteChan",
      "go handler.RTCMHandler.HandleMessages", "for", "return", "return", "return", "send byteChan"] ∧
    Gen.skeleton_handler_Handler_HandleMessages = some ["for", "close ch_out", "return", "send ch_out"] ∧
    Gen.skeleton_pushback_ByteChannel_get = some ["return", "recv bc.byteChan", "return", "return"] ∧
    Gen.skeleton_appcore_AppCore_HandleMessagesUntilEOF = some ["makechan cap=0", "go fh.Handle", "for",
      "recv messageChan", "return", "range appCore.Channels", "send appCore.Channels[i]", "return"] := by
  repeat' constructor
  all_goals decide

/-- Tie T1: what `Handle` hands over — single bytes by value, from the read loop itself. -/
theorem tie_handover :
    Gen.sent_fh_Handler_Handle = some ["go handler.RTCMHandler.HandleMessages()", "byteChan <- buf[0]"] := by decide

/-- Tie T1 (guards): the conditions and loops of `Handle`. -/
theorem tie_guards_reader : type_of% Ntrip.Guards.reader := Ntrip.Guards.reader

/-- Tie T1 (guards): the conditions and loops of `HandleMessagesUntilEOF`. -/
theorem tie_guards_fanout : type_of% Ntrip.Guards.fanout := Ntrip.Guards.fanout

/-- Tie T1: the tolerance and the retry pause are read from their own configuration fields. -/
theorem tie_tolerance_accessors : type_of% Ntrip.Guards.tolerance_accessors := Ntrip.Guards.tolerance_accessors

/-- Tie T1: the guards and loop headers of the framing code this property builds on. -/
theorem tie_framing : type_of% Ntrip.Guards.framing := Ntrip.Guards.framing

/-- Tie T1: the literals of the framing model are the constants of the source. -/
theorem tie_framing_consts : type_of% Ntrip.Guards.framing_consts := Ntrip.Guards.framing_consts

end Ntrip.C09
