import Ntrip.Properties.C08
import Ntrip.Generated.Consts
import Ntrip.Generated.Layouts
import Ntrip.Generated.Skeletons
import Ntrip.Generated.Tables
import Ntrip.Guards.Range
/-!
# C08 — ties (T1)

The facts regenerated from /repo's source on every run that the model of C08 was written for:
guards and loop headers, goroutine/channel/lock skeletons, effects, hand-overs, receiver writes,
templates.  A theorem here says "the source still has the shape the model assumes"; it is an
obligation of C08 only (other properties that reuse C08's theorems do not inherit it).
-/
namespace Ntrip.C08

/-- Tie T1: markers and scale constants. -/
theorem tie_constants :
    Gen.utils_InvalidRange = 255 ∧ Gen.utils_InvalidRangeDelta = -16384 ∧ Gen.utils_InvalidPhaseRangeDelta = -2097152 ∧
    Gen.sig7_InvalidRangeDelta = -524288 ∧ Gen.sig7_InvalidPhaseRangeDelta = -8388608 ∧
    Gen.sig7_InvalidPhaseRangeRate = -8192 ∧ Gen.sig7_InvalidPhaseRangeRateDelta = -16384 ∧
    Gen.sat7_InvalidPhaseRangeRate = -8192 ∧
    Gen.utils_TwoToThePower29 = 2^29 ∧ Gen.utils_TwoToThePower31 = 2^31 ∧ Gen.utils_TwoToThePower24 = 2^24 ∧
    Gen.utils_TwoToThePower10 = 2^10 ∧ Gen.utils_GetPhaseRangeMilliseconds_scaleFactor = 2^31 ∧
    Gen.sig4_Cell_RangeInMillis_scaleFactor = 2^29 := by decide

/-- Tie T1: guards and loop headers of the modelled code, regenerated from the source. -/
theorem tie_guards_range : type_of% Ntrip.Guards.range := Ntrip.Guards.range

end Ntrip.C08
