import Ntrip.Properties.C16
import Ntrip.Generated.Consts
import Ntrip.Generated.Layouts
import Ntrip.Generated.Skeletons
import Ntrip.Generated.Tables
import Ntrip.Guards.Apps_logger
/-!
# C16 — ties (T1)

The facts regenerated from /repo's source on every run that the model of C16 was written for:
guards and loop headers, goroutine/channel/lock skeletons, effects, hand-overs, receiver writes,
templates.  A theorem here says "the source still has the shape the model assumes"; it is an
obligation of C16 only (other properties that reuse C16's theorems do not inherit it).
-/
namespace Ntrip.C16
open Ntrip.Pipe

/-- Tie T1: the skeleton of `start`, `readAndWrite`, `recorder`. -/
theorem tie_skeletons :
    Gen.skeleton_logger_start = some ["makechan cap=0", "makechan cap=0", "go func{", "defer close recorderDone", "}",
      "close recorderChannel", "recv recorderDone"] ∧
    Gen.skeleton_logger_readAndWrite = some ["for", "send recorderChannel"] ∧
    Gen.skeleton_logger_recorder = some ["return", "return", "for", "recv recorderChannel"] ∧
    Gen.logger_bufferLength = 8096 := by
  repeat' constructor
  all_goals decide

/-- Tie T1: what `readAndWrite` hands over — stdout gets the block just read; the recorder gets a
    freshly made slice filled by `copy` (a private copy: the model's hand-over is by value, so the
    read buffer must not be shared with the recorder goroutine). -/
theorem tie_handover :
    Gen.sent_logger_readAndWrite = some ["os.Stdout.Write(readBuffer[:n])",
      "recorderChannel <- copyBuffer ; copyBuffer := make() ; copy(copyBuffer, readBuffer[:n])"] := by decide

/-- Tie T1 (guards): the conditions and loops of `start`, `readAndWrite`, `recorder`, `writeRTCMLog`. -/
theorem tie_guards_logger : type_of% Ntrip.Guards.logger := Ntrip.Guards.logger

end Ntrip.C16
