import Ntrip.Model.Bits
/-!
CRC-24Q (polynomial 0x1864CFB, initial value 0), bitwise.  Used by the driver; the framing
theorems are stated for an arbitrary function `crc : Bytes → Nat`, which is stronger.
The tie of this definition to `go-crc24q`'s table-driven `Hash` is by correspondence.
-/
namespace Ntrip

def crcPoly : Nat := 0x1864CFB

def crcBit (c : Nat) : Nat :=
  let c := c <<< 1
  if c &&& 0x1000000 != 0 then c ^^^ crcPoly else c

def crcByte (c : Nat) (b : UInt8) : Nat :=
  let c := c ^^^ (b.toNat <<< 16)
  crcBit (crcBit (crcBit (crcBit (crcBit (crcBit (crcBit (crcBit c)))))))

def crc24q (bs : Bytes) : Nat := (bs.foldl crcByte 0) &&& 0xFFFFFF

/-- The three CRC bytes as the Go code compares them (`HiByte`, `MiByte`, `LoByte`). -/
def crcBytes (c : Nat) : Bytes :=
  [UInt8.ofNat ((c / 65536) % 256), UInt8.ofNat ((c / 256) % 256), UInt8.ofNat (c % 256)]

end Ntrip
