import Ntrip.Model.Time
/-!
Message-type classification across the library, computed from the tables regenerated from
the source (`Ntrip.Generated.Tables`): `utils.MSM4/MSM7/MSM`, `utils.GetConstellation`,
`header.getMSMType`, the gates of the two MSM decoders, the dispatch of `handler.Analyse`,
`utils.GetTitleAndComment`.
-/
namespace Ntrip

/-- `utils.GetConstellation`. -/
def constellation (typ : Int) : String :=
  match Gen.utils_GetConstellation with
  | some (rows, dflt) => (rows.lookup typ).getD dflt
  | none => "?"

/-- `header.getMSMType` accepts the type. -/
def headerAccepts (typ : Int) : Bool :=
  match Gen.header_getMSMType with
  | some (rows, dflt) => (rows.lookup typ).getD dflt == "accept"
  | none => false

inductive Decoder | msm4 | msm7 | t1005 | t1006 | text
deriving DecidableEq, BEq, Repr

def Decoder.toString : Decoder → String
  | .msm4 => "msm4" | .msm7 => "msm7" | .t1005 => "1005" | .t1006 => "1006" | .text => "text"

inductive ACond | isMsm4 | isMsm7 | eq1005 | eq1006 | eq1230 | dflt | unknown
deriving DecidableEq, Repr

/-- Condition and action of one clause of `Analyse`'s switch, from the extracted shape. -/
def parseAnalyseRow (r : String × String) : ACond × Decoder :=
  let c :=
    if r.1 == "utils.MSM4()" then ACond.isMsm4
    else if r.1 == "utils.MSM7()" then .isMsm7
    else if r.1 == "message.MessageType==1005" then .eq1005
    else if r.1 == "message.MessageType==1006" then .eq1006
    else if r.1 == "message.MessageType==1230" then .eq1230
    else if r.1 == "default" then .dflt else .unknown
  let a :=
    if r.2 == "call analyseMSM4" then Decoder.msm4
    else if r.2 == "call analyseMSM7" then .msm7
    else if r.2 == "call analyse1005" then .t1005
    else if r.2 == "call analyse1006" then .t1006
    else .text
  (c, a)

def analyseTable : List (ACond × Decoder) := (Gen.handler_Analyse.getD []).map parseAnalyseRow

def ACond.fires (typ : Int) : ACond → Bool
  | .isMsm4 => isMSM4 typ
  | .isMsm7 => isMSM7 typ
  | .eq1005 => typ == 1005
  | .eq1006 => typ == 1006
  | .eq1230 => typ == 1230
  | .dflt => true
  | .unknown => false

/-- The clause of `Analyse`'s switch that fires (first match wins). -/
def analyseRows (typ : Int) : List (ACond × Decoder) → Decoder
  | [] => .text
  | (c, a) :: rest => if c.fires typ then a else analyseRows typ rest

def analyseDecoder (typ : Int) : Decoder := analyseRows typ analyseTable

/-- `GetTitleAndComment(typ).Title` is non-empty: either the table has a non-empty title or
    the fallback text is produced (whose shape is tied separately). -/
def titleNonEmpty (typ : Int) : Bool :=
  match Gen.utils_titleKeys with
  | some rows => match rows.lookup typ with
    | some ne => ne || true   -- an empty table title falls back to "message type %d is not known"
    | none => true
  | none => false

end Ntrip
