/-!
The 64-bit integer operations of Go that the translated functions (`Generated/Funcs.lean`) use.
An unsigned value (`uint`, `uint64` on a 64-bit platform) is a `Nat` below 2^64; a signed value
(`int`, `int64`) an `Int` in [-2^63, 2^63).  Every operation wraps as the Go specification says.
-/
namespace Ntrip.Go64

/-- Two's-complement reinterpretation `int64(u)`. -/
def toI (u : Nat) : Int := if u % 2 ^ 64 < 2 ^ 63 then ((u % 2 ^ 64 : Nat) : Int) else ((u % 2 ^ 64 : Nat) : Int) - 2 ^ 64
/-- `uint64(i)`. -/
def ofI (i : Int) : Nat := (i % 2 ^ 64).toNat
def wrapI (i : Int) : Int := toI (ofI i)

def shlU (a b : Nat) : Nat := (a <<< b) % 2 ^ 64
def shrU (a b : Nat) : Nat := a >>> b
def orU (a b : Nat) : Nat := a ||| b
def andU (a b : Nat) : Nat := a &&& b
/-- `^a` on `uint64`. -/
def notU (a : Nat) : Nat := 2 ^ 64 - 1 - a % 2 ^ 64
def addU (a b : Nat) : Nat := (a + b) % 2 ^ 64
def subU (a b : Nat) : Nat := ofI ((a : Int) - (b : Int))
def mulU (a b : Nat) : Nat := (a * b) % 2 ^ 64
def divU (a b : Nat) : Nat := a / b
def modU (a b : Nat) : Nat := a % b
/-- `uint64(buff[k])` for a byte slice given as the list of its byte values (0 when out of range:
    Go panics there; the checked model `getBitsU?` covers that case separately). -/
def idx (buff : List Nat) (k : Nat) : Nat := (buff[k]?).getD 0
def addI (a b : Int) : Int := wrapI (a + b)
def subI (a b : Int) : Int := wrapI (a - b)
def mulI (a b : Int) : Int := wrapI (a * b)

end Ntrip.Go64
