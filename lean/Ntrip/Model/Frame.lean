import Ntrip.Model.Crc
/-!
Model of rtcm/pushback (ByteChannel) and the framing part of rtcm/handler:
`eatUntilStartOfFrame`, `getMessageLengthAndType`, `CheckCRC`, `GetMessage` (without the
MSM time lines, see `Model/Time.lean`), `FetchNextMessageFrame`, `HandleMessages` on a
finite input that is eventually closed.
-/
namespace Ntrip

/-- Error classes of `GetMessage` (canonical; texts are not modelled). -/
inductive Err
  | none | short | badLeader | zeroLength | incomplete | crc | tsShort | timeRange | unknownConst
deriving DecidableEq, Repr, Inhabited

def Err.toString : Err → String
  | .none => "none" | .short => "short" | .badLeader => "bad-leader" | .zeroLength => "zero-length"
  | .incomplete => "incomplete" | .crc => "crc" | .tsShort => "ts-short" | .timeRange => "time-range"
  | .unknownConst => "unknown-constellation"

/-- The framing view of a `handler.Message`. -/
structure Msg where
  typ : Int
  raw : Bytes
  err : Err := .none
deriving DecidableEq, Repr, Inhabited

def nonRTCM (bs : Bytes) : Msg := { typ := -1, raw := bs }

/-! ### pushback.ByteChannel over a finite, eventually closed input -/

/-- `pb` is the push-back buffer (FIFO, as `append` / `[1:]` make it), `rest` the bytes the
    channel will still deliver before it is closed. -/
structure In where
  pb : Bytes
  rest : Bytes
deriving DecidableEq, Repr, Inhabited

def In.size (s : In) : Nat := s.pb.length + s.rest.length
def In.stream (s : In) : Bytes := s.pb ++ s.rest
def In.ofBytes (bs : Bytes) : In := ⟨[], bs⟩

/-- `GetNextByte`: `none` is the "done" error (channel closed and drained). -/
def getNextByte (s : In) : Option (UInt8 × In) :=
  match s.pb with
  | b :: pb' => some (b, { s with pb := pb' })
  | [] =>
    match s.rest with
    | b :: r => some (b, { s with rest := r })
    | [] => none

def pushBack (s : In) (b : UInt8) : In := { s with pb := s.pb ++ [b] }

theorem getNextByte_size {s s' : In} {b : UInt8} (h : getNextByte s = some (b, s')) :
    s'.size + 1 = s.size := by
  unfold getNextByte at h
  cases hp : s.pb with
  | cons x xs => simp [hp] at h; obtain ⟨_, rfl⟩ := h; simp [In.size, hp]; omega
  | nil =>
    simp [hp] at h
    cases hr : s.rest with
    | nil => simp [hr] at h
    | cons y ys => simp [hr] at h; obtain ⟨_, rfl⟩ := h; simp [In.size, hp, hr]

/-- `eatUntilStartOfFrame`: read until a 0xD3 byte (inclusive) or the end of input.
    The Boolean is `true` when a start byte was found (`err == nil`). -/
def eat (s : In) (acc : Bytes) : Bytes × In × Bool :=
  match h : getNextByte s with
  | none => (acc, s, false)
  | some (b, s') => if b = 0xD3 then (acc ++ [b], s', true) else eat s' (acc ++ [b])
termination_by s.size
decreasing_by have := getNextByte_size h; omega

/-- The `for` loops of phases 2 and 3: read `n` more bytes; `false` if the input ended first. -/
def readMore : Nat → In → Bytes → Bytes × In × Bool
  | 0, s, frame => (frame, s, true)
  | n+1, s, frame =>
    match getNextByte s with
    | none => (frame, s, false)
    | some (b, s') => readMore n s' (frame ++ [b])

/-- `getMessageLengthAndType`: (length, type, error). -/
def lengthAndType (bs : Bytes) : Nat × Int × Err :=
  if bs.length < 5 then (0, -1, .short)
  else if bs.head? != some 0xD3 then (0, -1, .badLeader)
  else if getBitsU bs 8 6 != 0 then (0, -1, .badLeader)
  else
    let length := getBitsU bs 14 10
    let typ : Int := getBitsU bs 24 12
    if length = 0 then (0, typ, .zeroLength) else (length, typ, .none)

/-- `CheckCRC` on a frame of at least 6 bytes: the last three bytes against the CRC of the rest. -/
def checkCRC (crc : Bytes → Nat) (frame : Bytes) : Bool :=
  if frame.length < 6 then false
  else frame.drop (frame.length - 3) == crcBytes (crc (frame.take (frame.length - 3)))

/-- Outcome of the framing part of `GetMessage`. -/
inductive GM
  | empty                      -- `nil, error` (zero length input)
  | msg (m : Msg)              -- a message (with or without an error)
deriving DecidableEq, Repr

/-- `GetMessage` up to and including the CRC check (the MSM time lines are added in
    `Model/Time.lean`; they never change `typ` or `raw`). -/
def getMessageCore (crc : Bytes → Nat) (bs : Bytes) : GM :=
  if bs = [] then .empty
  else if bs.head? != some 0xD3 then .msg (nonRTCM bs)
  else
    let (len, typ, e) := lengthAndType bs
    if e != .none then .msg { typ := typ, raw := bs, err := e }
    else
      let expected := len + 6
      if expected > bs.length then .msg { typ := -1, raw := bs, err := .incomplete }
      else if !checkCRC crc (bs.take expected) then .msg { typ := -1, raw := bs, err := .crc }
      else .msg { typ := typ, raw := bs.take expected }

/-- Outcome of one `FetchNextMessageFrame` before `GetMessage` is applied. -/
inductive FetchC
  | done                          -- `nil, "done"`
  | junk (raw : Bytes) (s : In)   -- returned through `NewNonRTCM`
  | frame (f : Bytes) (s : In)    -- phase 4: `GetMessage(frame)`
deriving DecidableEq, Repr

/-- Phase 3: read the rest of the frame (`wantBytes` more bytes). -/
def fetchPhase3 (frame : Bytes) (len : Nat) (s2 : In) : FetchC :=
  match readMore (len + 6 - frame.length) s2 frame with
  | (f, s3, true) => .frame f s3
  | (f, s3, false) => .junk f s3

/-- Phase 2: read the leader and the first two message bytes, get the length. -/
def fetchPhase2 (frame : Bytes) (s1 : In) : FetchC :=
  match readMore 4 s1 frame with
  | (f, s2, false) => .junk f s2
  | (f, s2, true) =>
    match lengthAndType f with
    | (len, _, .none) => fetchPhase3 f len s2
    | (_, _, _) => .junk f s2

def fetchC (s : In) : FetchC :=
  match eat s [] with
  | (frame, s1, ok) =>
    if !ok && frame.isEmpty then .done
    else if frame.length > 1 then
      if frame.getLast? == some 0xD3 then .junk frame.dropLast (pushBack s1 0xD3)
      else .junk frame s1
    else fetchPhase2 frame s1

/-- What `HandleMessages` sends for one fetched frame. -/
def msgOfFrame (crc : Bytes → Nat) (f : Bytes) : Msg :=
  match getMessageCore crc f with
  | .msg m => m
  | .empty => nonRTCM f   -- unreachable: a fetched frame is never empty

inductive Fetch
  | done
  | msg (m : Msg) (s : In)
deriving DecidableEq, Repr

def fetch (crc : Bytes → Nat) (s : In) : Fetch :=
  match fetchC s with
  | .done => .done
  | .junk raw s' => .msg (nonRTCM raw) s'
  | .frame f s' => .msg (msgOfFrame crc f) s'

end Ntrip
