import Ntrip.Model.Classify
import Ntrip.Generated.Layouts
/-!
Model of the MSM decoders: `header.GetMSMHeader` (+ `getMSMType`, `getSatellites`,
`getSignals`, `getCells`), `type_msm4|7/satellite.GetSatelliteCells`,
`type_msm4|7/signal.GetSignalCells`, `type_msm4|7/message.GetMessage`.

Every bit read goes through the *checked* reader, so an index error of the Go code is the
distinguished outcome `Res.panic`; "never panics" is then a theorem (C07), not an artefact
of a totalised definition.  The field layouts (order, width, signedness of the columns) are
the ones `/verif/extract` regenerates from the source (`Ntrip.Generated.Layouts`); MSM4 and
MSM7 are the same code over different layouts and guards.
-/
namespace Ntrip

inductive MErr
  | headerShort        -- fewer than 169 message bits
  | notMsm             -- getMSMType rejects the type
  | cellMaskTooLong    -- nsat * nsig > 64
  | headerShortMask    -- not enough bits for the cell mask
  | wrongFamily        -- MSM4 decoder given an MSM7 or vice versa
  | satOverrun
  | sigOverrunMulti    -- multiple-message flag set and not even one cell
  | sigOverrun
  | layout             -- the extracted layout is unusable (tie broken)
  | baseOverrun        -- 1005/1006: fewer message bits than the layout needs
  | baseWrongType      -- 1005/1006: the message type field is not the expected one
deriving DecidableEq, Repr

def MErr.toString : MErr → String
  | .headerShort => "header-short" | .notMsm => "not-msm" | .cellMaskTooLong => "cellmask-too-long"
  | .headerShortMask => "header-short-mask" | .wrongFamily => "wrong-family" | .satOverrun => "sat-overrun"
  | .sigOverrunMulti => "sig-overrun-multi" | .sigOverrun => "sig-overrun" | .layout => "layout"
  | .baseOverrun => "base-overrun" | .baseWrongType => "base-wrong-type"

inductive Res (α : Type)
  | ok (a : α)
  | err (e : MErr)
  | panic
deriving Repr, DecidableEq

instance : Monad Res where
  pure := .ok
  bind r f := match r with
    | .ok a => f a
    | .err e => .err e
    | .panic => .panic

/-- Checked unsigned read (`utils.GetBitsAsUint64`). -/
def rdU (bs : Bytes) (pos len : Nat) : Res Nat :=
  match getBitsU? bs pos len with
  | some v => .ok v
  | none => .panic

/-- Checked read of a field: signed (`GetBitsAsInt64`) or unsigned. -/
def rdField (bs : Bytes) (pos : Nat) (signed : Bool) (len : Nat) : Res Int :=
  if signed then
    match getBitsI? bs pos len with
    | some v => .ok v
    | none => .panic
  else
    match getBitsU? bs pos len with
    | some v => .ok (v : Int)
    | none => .panic

/-- A column descriptor: signed?, width. -/
abbrev Col := Bool × Nat

def colsOf (l : Option (List (String × Bool × Int))) : Option (List Col) :=
  l.map (fun rows => rows.map (fun r => (r.2.1, r.2.2.toNat)))

/-- One field-major array: `n` consecutive fields of the same shape. -/
def readColumn (bs : Bytes) (signed : Bool) (len : Nat) : Nat → Nat → Res (List Int)
  | 0, _ => .ok []
  | n+1, pos => do
    let v ← rdField bs pos signed len
    let rest ← readColumn bs signed len n (pos + len)
    pure (v :: rest)

/-- All the arrays, one after the other (the layout of satellite and signal data). -/
def readColumns (bs : Bytes) (n : Nat) : List Col → Nat → Res (List (List Int))
  | [], _ => .ok []
  | (s, w) :: cols, pos => do
    let c ← readColumn bs s w n pos
    let rest ← readColumns bs n cols (pos + n * w)
    pure (c :: rest)

/-- Row `i` of a list of columns. -/
def rowOf (cols : List (List Int)) (i : Nat) : List Int := cols.map (fun c => c.getD i 0)

/-! ### Header -/

/-- `getSatellites` / `getSignals`: ids (1-based, most significant bit first) of the set bits. -/
def idsOfMask (width mask : Nat) : List Nat :=
  (List.range width).filterMap (fun k => if (mask >>> (width - 1 - k)) % 2 = 1 then some (k + 1) else none)

/-- `getCells`: the cell mask as rows (one per satellite) of Booleans (one per signal). -/
def cellsOfMask (mask nsat nsig : Nat) : List (List Bool) :=
  (List.range nsat).map (fun i =>
    (List.range nsig).map (fun j => (mask >>> (nsat * nsig - 1 - (i * nsig + j))) % 2 = 1))

structure MsmHeader where
  typ : Nat
  station : Nat
  ts : Nat
  multiple : Bool
  iods : Nat
  sessionTime : Nat
  clockSteering : Nat
  externalClock : Nat
  smoothing : Bool
  smoothingInterval : Nat
  satMask : Nat
  sigMask : Nat
  cellMask : Nat
  sats : List Nat
  sigs : List Nat
  cells : List (List Bool)
  numCells : Nat
deriving DecidableEq, Repr

def countCells (cells : List (List Bool)) : Nat := (cells.map (fun r => (r.filter id).length)).sum

/-- Sequential fields `(signed, width)` starting at `pos`. -/
def readFields (bs : Bytes) : List Col → Nat → Res (List Int)
  | [], _ => .ok []
  | (s, w) :: rest, pos => do
    let v ← rdField bs pos s w
    let vs ← readFields bs rest (pos + w)
    pure (v :: vs)

def widthOf (cols : List Col) : Nat := (cols.map (·.2)).sum

/-- The fixed part of the header layout (everything before the variable-length cell mask):
    type, station, timestamp, multiple flag, IODS, session time, clock steering, external
    clock, smoothing flag, smoothing interval, satellite mask, signal mask. -/
def hdrCols : Option (List Col) := (colsOf Gen.header_layout).map (fun l => l.take 12)

/-- Build the header record from the twelve fixed field values and the cell mask. -/
def mkHeader (vals : List Int) (cellMask : Nat) : MsmHeader :=
  let g := fun i => (vals.getD i 0).toNat
  let sats := idsOfMask 64 (g 10)
  let sigs := idsOfMask 32 (g 11)
  let cells := cellsOfMask cellMask sats.length sigs.length
  { typ := g 0, station := g 1, ts := g 2, multiple := g 3 == 1, iods := g 4, sessionTime := g 5,
    clockSteering := g 6, externalClock := g 7, smoothing := g 8 == 1, smoothingInterval := g 9,
    satMask := g 10, sigMask := g 11, cellMask := cellMask, sats := sats, sigs := sigs, cells := cells,
    numCells := countCells cells }

/-- `header.GetMSMHeader`: the header and the bit position after it. -/
def getMSMHeader (bs : Bytes) : Res (MsmHeader × Nat) :=
  match hdrCols with
  | none => .err .layout
  | some cols =>
    -- lenMessageInBits := (len(bitStream) - 3 - 3) * 8   (Go int: may be negative)
    if ((bs.length : Int) - 6) * 8 < Gen.header_minBitsInHeader then .err .headerShort
    else do
      let vals ← readFields bs cols 24
      let typ := (vals.getD 0 0).toNat
      if !headerAccepts (typ : Int) then .err .notMsm
      else
        let sats := idsOfMask 64 (vals.getD 10 0).toNat
        let sigs := idsOfMask 32 (vals.getD 11 0).toNat
        let lenCell := sats.length * sigs.length
        if lenCell > 64 then .err .cellMaskTooLong
        else if bs.length * 8 < 24 + 24 + 169 + lenCell then .err .headerShortMask
        else
          let pos := 24 + widthOf cols
          let cellMask ← rdU bs pos lenCell
          pure (mkHeader vals cellMask, pos + lenCell)

/-! ### Satellite and signal cells -/

inductive MsmKind | msm4 | msm7
deriving DecidableEq, Repr

def MsmKind.satCols : MsmKind → Option (List Col)
  | .msm4 => colsOf Gen.sat4_columns
  | .msm7 => colsOf Gen.sat7_columns

def MsmKind.sigCols : MsmKind → Option (List Col)
  | .msm4 => colsOf Gen.sig4_columns
  | .msm7 => colsOf Gen.sig7_columns

/-- The gate of each decoder family (`utils.MSM4` / `utils.MSM7`). -/
def MsmKind.accepts : MsmKind → Int → Bool
  | .msm4, t => isMSM4 t
  | .msm7, t => isMSM7 t

/-- The MSM4 readers subtract the 24 CRC bits in their length guards, the MSM7 readers do not. -/
def crcSlack : MsmKind → Nat
  | .msm4 => 24
  | .msm7 => 0

/-- `GetSatelliteCells`: MSM4 subtracts the CRC bits in its guard, MSM7 does not. -/
def getSatelliteCells (k : MsmKind) (bs : Bytes) (start : Nat) (nsat : Nat) : Res (List (List Int)) :=
  match k.satCols with
  | none => .err .layout
  | some cols =>
    if ((bs.length : Int) * 8 - start) - (crcSlack k : Nat) < (nsat * widthOf cols : Nat) then .err .satOverrun
    else readColumns bs nsat cols start

structure SigCell where
  satIdx : Nat          -- index into the satellite cells (`&satCells[i]`)
  sigIdx : Nat := 0     -- index into the signal list (`header.Signals[j]`)
  cellIdx : Nat := 0    -- index into the column arrays (`rangeDelta[c]`, …)
  satId : Nat
  sigId : Nat
  vals : List Int
deriving DecidableEq, Repr

/-- The attachment loop: walk the cell mask row by row, consuming decoded cells while
    `c < n`. -/
def attachRow (sigs : List Nat) (satIdx satId : Nat) (rows : List (List Int)) (n : Nat) :
    List Bool → Nat → Nat → List SigCell × Nat
  | [], _, c => ([], c)
  | b :: rest, j, c =>
    if c < n && b then
      let cell : SigCell := { satIdx := satIdx, sigIdx := j, cellIdx := c, satId := satId, sigId := sigs.getD j 0, vals := rowOf rows c }
      let (more, c') := attachRow sigs satIdx satId rows n rest (j + 1) (c + 1)
      (cell :: more, c')
    else attachRow sigs satIdx satId rows n rest (j + 1) c

def attach (sats sigs : List Nat) (rows : List (List Int)) (n : Nat) :
    List (List Bool) → Nat → Nat → List (List SigCell)
  | [], _, _ => []
  | r :: rest, i, c =>
    let (cellsI, c') := attachRow sigs i (sats.getD i 0) rows n r 0 c
    cellsI :: attach sats sigs rows n rest (i + 1) c'

/-- `GetSignalCells`. -/
def getSignalCells (k : MsmKind) (bs : Bytes) (pos : Nat) (h : MsmHeader) : Res (List (List SigCell)) :=
  match k.sigCols with
  | none => .err .layout
  | some cols =>
    let bitsPerCell := widthOf cols
    -- uint arithmetic in Go; `pos ≤ 8 * len` (and, for MSM4, 24 more) holds after the satellite guard
    let bitsLeft : Int := (bs.length : Int) * 8 - pos
    let bitsLeftForCheck : Int := bitsLeft - (crcSlack k : Nat)
    if bitsLeftForCheck < 0 then .panic   -- the Go `uint` subtraction would wrap: never reached (C07)
    else
      let cellsAvailable := (bitsLeft / bitsPerCell).toNat
      let n := if cellsAvailable < h.numCells then cellsAvailable else h.numCells
      if h.multiple && bitsLeftForCheck < bitsPerCell then .err .sigOverrunMulti
      else if !h.multiple && n < h.numCells then .err .sigOverrun
      else do
        let colsV ← readColumns bs n cols pos
        pure (attach h.sats h.sigs colsV n h.cells 0 0)

structure MsmMsg where
  hdr : MsmHeader
  sats : List (List Int)          -- one row per satellite, columns as in the layout
  sigs : List (List SigCell)      -- one list per satellite
deriving DecidableEq, Repr

def transpose (cols : List (List Int)) (n : Nat) : List (List Int) :=
  (List.range n).map (rowOf cols)

/-- `type_msm4/message.GetMessage` / `type_msm7/message.GetMessage`. -/
def decodeMsm (k : MsmKind) (bs : Bytes) : Res MsmMsg := do
  let (h, pos) ← getMSMHeader bs
  if !k.accepts (h.typ : Int) then .err .wrongFamily
  else
    match k.satCols with
    | none => .err .layout
    | some scols =>
      let satColsV ← getSatelliteCells k bs pos h.sats.length
      let pos2 := pos + h.sats.length * widthOf scols
      let sigs ← getSignalCells k bs pos2 h
      pure { hdr := h, sats := transpose satColsV h.sats.length, sigs := sigs }

end Ntrip
