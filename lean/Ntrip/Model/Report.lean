import Ntrip.Model.Bits
/-!
Model of apps/proxy/reportfeed: `Sanitise` and the assembly of the status page from the
template `reportFormat` (five `%s` holes) — on character lists.
-/
namespace Ntrip

/-- `Sanitise`: replace every '<' by "&lt;" and every '>' by "&gt;". -/
def sanitise : List Char → List Char
  | [] => []
  | c :: rest =>
    if c = '<' then '&' :: 'l' :: 't' :: ';' :: sanitise rest
    else if c = '>' then '&' :: 'g' :: 't' :: ';' :: sanitise rest
    else c :: sanitise rest

/-- Fill a template given as the text pieces around the holes: `p0 h0 p1 h1 … pn`. -/
def fill : List (List Char) → List (List Char) → List Char
  | [], _ => []
  | [p], _ => p
  | p :: ps, h :: hs => p ++ h ++ fill ps hs
  | p :: ps, [] => p ++ fill ps []

def countC (c : Char) (s : List Char) : Nat := (s.filter (· == c)).length

/-- The message list of the report: a heading, then every recent message's text, sanitised,
    each followed by a newline. -/
def messageDisplay (texts : List (List Char)) : List Char :=
  "\nMessages\n\n".toList ++ (texts.map (fun t => sanitise t ++ ['\n'])).flatten

end Ntrip
