import Ntrip.Model.Base
import Ntrip.Model.SegmentT
/-!
Model of `handler.Analyse` / `PrepareForDisplay`: dispatch on the message type (by the
extracted shape of the switch) to the four decoders, applied to the message's raw bytes.
-/
namespace Ntrip

inductive Readable
  | msm (k : MsmKind) (m : MsmMsg)
  | base (k : BaseKind) (vals : List Int)
  | text
deriving DecidableEq, Repr

/-- `Analyse(message)`: the readable part or the decoder's error (which becomes
    `message.ErrorMessage`); `Res.panic` is an index error somewhere in the decoders. -/
def analyse (typ : Int) (raw : Bytes) : Res Readable :=
  match analyseDecoder typ with
  | .msm4 => do let m ← decodeMsm .msm4 raw; pure (.msm .msm4 m)
  | .msm7 => do let m ← decodeMsm .msm7 raw; pure (.msm .msm7 m)
  | .t1005 => do let v ← decodeBase .t1005 raw; pure (.base .t1005 v)
  | .t1006 => do let v ← decodeBase .t1006 raw; pure (.base .t1006 v)
  | .text => pure .text

end Ntrip
