import Ntrip.Model.Bits
/-!
A labelled transition system for the reader → framer → fan-out → writers pipeline of
go-ntrip (file_handler.Handle, handler.HandleMessages, appcore.HandleMessagesUntilEOF and the
writer goroutines and `main` of the applications).

* R (reader, `Handle`): sends the `nBytes` input bytes one by one on the unbuffered byte
  channel B, then closes B (`defer close`).
* F (framer, `HandleMessages`): a sequential process that alternately receives bytes from B
  and sends messages on the unbuffered channel M; after seeing B closed it sends what is left
  and closes M.  *When* it emits is described by `produced r c` — the number of messages it
  has produced after `r` bytes (`c`: having seen the close) — about which only monotonicity
  and `produced nBytes true = out.length` are assumed: the theorems hold for every timing.
* D (fan-out, `HandleMessagesUntilEOF`): receives a message from M and sends it to the
  consumer channels 0 … k-1 in order, skipping nil entries; returns when M is closed.
* main (the application after D returned): closes the consumer channels it is configured to
  close, optionally waits for the writers, returns.
* W_i (writers): receive from channel i (capacity `cap i`; 0 = rendezvous), handle the message
  (two steps: begin, end — arbitrary latency in between), finish when the channel is closed
  and drained.

Go channel semantics: send on a closed channel, close of a closed or nil channel → `panic`.
-/
namespace Ntrip.Pipe

/-- Point update of a function. -/
def upd {α : Type} (f : Nat → α) (i : Nat) (v : α) : Nat → α := fun j => if j = i then v else f j

@[simp] theorem upd_same {α : Type} (f : Nat → α) (i : Nat) (v : α) : upd f i v i = v := by simp [upd]
theorem upd_other {α : Type} (f : Nat → α) (i j : Nat) (v : α) (h : j ≠ i) : upd f i v j = f j := by simp [upd, h]

structure Cfg (M : Type) where
  nBytes : Nat
  out : List M
  produced : Nat → Bool → Nat
  k : Nat
  cap : Nat → Nat
  isNil : Nat → Bool
  closes : Nat → Bool      -- the channels main closes after the fan-out returned
  waits : Bool             -- main waits for the writers before returning

/-- Assumptions on the configuration. -/
structure Cfg.WF {M : Type} (c : Cfg M) : Prop where
  prod_le : ∀ r b, c.produced r b ≤ c.out.length
  prod_mono : ∀ r r' b b', r ≤ r' → (b = true → b' = true) → c.produced r b ≤ c.produced r' b'
  prod_final : c.produced c.nBytes true = c.out.length
  closes_nonnil : ∀ i, c.closes i = true → c.isNil i = false

structure PS (M : Type) where
  rSent : Nat
  bClosed : Bool
  fRecv : Nat
  fSeenClosed : Bool
  fEmit : Nat
  mClosed : Bool
  dHold : Option Nat        -- D holds message `fEmit - 1`; next consumer to serve
  dDone : Bool
  buf : Nat → List M
  chClosed : Nat → Bool
  wCur : Nat → Option M
  handled : Nat → List M
  wDone : Nat → Bool
  mainIdx : Nat
  mainReturned : Bool
  panic : Bool

def init (M : Type) : PS M :=
  { rSent := 0, bClosed := false, fRecv := 0, fSeenClosed := false, fEmit := 0, mClosed := false,
    dHold := none, dDone := false, buf := fun _ => [], chClosed := fun _ => false, wCur := fun _ => none,
    handled := fun _ => [], wDone := fun _ => false, mainIdx := 0, mainReturned := false, panic := false }

/-- F is at a receive (it has sent everything it has produced so far and has not seen the close). -/
def fWantsRecv {M : Type} (c : Cfg M) (s : PS M) : Prop :=
  s.fSeenClosed = false ∧ s.fEmit = c.produced s.fRecv false

inductive Step {M : Type} (c : Cfg M) : PS M → PS M → Prop
  | rSend (s) : s.panic = false → s.rSent < c.nBytes → s.bClosed = false → fWantsRecv c s →
      Step c s { s with rSent := s.rSent + 1, fRecv := s.fRecv + 1 }
  | rClose (s) : s.panic = false → s.rSent = c.nBytes → s.bClosed = false →
      Step c s { s with bClosed := true }
  | fSeeClosed (s) : s.panic = false → s.bClosed = true → fWantsRecv c s →
      Step c s { s with fSeenClosed := true }
  | fSend (s) : s.panic = false → s.fEmit < c.produced s.fRecv s.fSeenClosed → s.mClosed = false →
      s.dHold = none → s.dDone = false →
      Step c s { s with fEmit := s.fEmit + 1, dHold := some 0 }
  | fClose (s) : s.panic = false → s.fSeenClosed = true → s.fEmit = c.produced s.fRecv true → s.mClosed = false →
      Step c s { s with mClosed := true }
  | dSeeClosed (s) : s.panic = false → s.mClosed = true → s.dHold = none → s.dDone = false →
      Step c s { s with dDone := true }
  | dSkipNil (s j) : s.panic = false → s.dHold = some j → j < c.k → c.isNil j = true →
      Step c s { s with dHold := some (j + 1) }
  | dSendBuf (s j m) : s.panic = false → s.dHold = some j → j < c.k → c.isNil j = false → s.chClosed j = false →
      (s.buf j).length < c.cap j → c.out[s.fEmit - 1]? = some m →
      Step c s { s with buf := upd s.buf j (s.buf j ++ [m]), dHold := some (j + 1) }
  | dSendRv (s j m) : s.panic = false → s.dHold = some j → j < c.k → c.isNil j = false → s.chClosed j = false →
      c.cap j = 0 → s.wCur j = none → s.wDone j = false → s.buf j = [] → c.out[s.fEmit - 1]? = some m →
      Step c s { s with wCur := upd s.wCur j (some m), dHold := some (j + 1) }
  | dSendClosed (s j) : s.panic = false → s.dHold = some j → j < c.k → c.isNil j = false → s.chClosed j = true →
      Step c s { s with panic := true }
  | dNext (s) : s.panic = false → s.dHold = some c.k →
      Step c s { s with dHold := none }
  | mainClose (s) : s.panic = false → s.dDone = true → s.mainIdx < c.k → c.closes s.mainIdx = true →
      c.isNil s.mainIdx = false → s.chClosed s.mainIdx = false →
      Step c s { s with chClosed := upd s.chClosed s.mainIdx true, mainIdx := s.mainIdx + 1 }
  | mainCloseBad (s) : s.panic = false → s.dDone = true → s.mainIdx < c.k → c.closes s.mainIdx = true →
      (c.isNil s.mainIdx = true ∨ s.chClosed s.mainIdx = true) →
      Step c s { s with panic := true }
  | mainSkip (s) : s.panic = false → s.dDone = true → s.mainIdx < c.k → c.closes s.mainIdx = false →
      Step c s { s with mainIdx := s.mainIdx + 1 }
  | mainReturn (s) : s.panic = false → s.dDone = true → s.mainIdx = c.k → s.mainReturned = false →
      (c.waits = true → ∀ i, i < c.k → c.isNil i = false → s.wDone i = true) →
      Step c s { s with mainReturned := true }
  | wRecv (s j m rest) : s.panic = false → j < c.k → c.isNil j = false → s.wDone j = false → s.wCur j = none →
      s.buf j = m :: rest →
      Step c s { s with buf := upd s.buf j rest, wCur := upd s.wCur j (some m) }
  | wFinish (s j m) : s.panic = false → j < c.k → c.isNil j = false → s.wCur j = some m →
      Step c s { s with wCur := upd s.wCur j none, handled := upd s.handled j (s.handled j ++ [m]) }
  | wSeeClosed (s j) : s.panic = false → j < c.k → c.isNil j = false → s.wDone j = false → s.wCur j = none →
      s.buf j = [] → s.chClosed j = true →
      Step c s { s with wDone := upd s.wDone j true }

inductive Reach {M : Type} (c : Cfg M) : PS M → Prop
  | init : Reach c (init M)
  | step {s s'} : Reach c s → Step c s s' → Reach c s'

/-- Number of messages consumer `i` has been handed so far. -/
def cnt {M : Type} (s : PS M) (i : Nat) : Nat :=
  match s.dHold with
  | some j => if j ≤ i then s.fEmit - 1 else s.fEmit
  | none => s.fEmit

end Ntrip.Pipe
