/-
Model of rtcm/utils: GetBitsAsUint64 / GetBitsAsInt64 (utils.go).

Core Lean only.  `Bytes` is `List UInt8`.  The Go loop

    for i := pos; i < pos+len; i++ { result = (result << 1) | bit(buff[i/8], 7-i%8) }

runs in `uint64`; the accumulator is therefore reduced `% 2^64` at every iteration,
exactly as the hardware does.  Index errors (Go would panic) are modelled by the
checked variant `getBitsU?`, which answers `none` iff some byte index is out of range.
-/
namespace Ntrip

abbrev Bytes := List UInt8

/-- The bit with index `i` (0 = most significant bit of byte 0); 0 when out of range. -/
def bitAt (buf : Bytes) (i : Nat) : Nat :=
  match buf[i / 8]? with
  | some b => (b.toNat >>> (7 - i % 8)) % 2
  | none => 0

/-- One iteration of the Go loop, in `uint64` arithmetic. -/
def stepU (buf : Bytes) (pos : Nat) (acc : Nat) (k : Nat) : Nat :=
  ((acc <<< 1) ||| bitAt buf (pos + k)) % 2^64

/-- `utils.GetBitsAsUint64` on indices that are in range. -/
def getBitsU (buf : Bytes) (pos len : Nat) : Nat :=
  (List.range len).foldl (stepU buf pos) 0

/-- Does the Go loop stay inside the slice?  It indexes bytes `pos/8 … (pos+len-1)/8`. -/
def inRange (buf : Bytes) (pos len : Nat) : Bool :=
  len == 0 || (pos + len - 1) / 8 < buf.length

/-- Checked read: `none` is a Go index-out-of-range panic. -/
def getBitsU? (buf : Bytes) (pos len : Nat) : Option Nat :=
  if inRange buf pos len then some (getBitsU buf pos len) else none

/-- Re-interpretation of a `uint64` bit pattern as `int64`. -/
def toI64 (n : Nat) : Int :=
  if n % 2^64 < 2^63 then ((n % 2^64 : Nat) : Int) else ((n % 2^64 : Nat) : Int) - 2^64

/-- Wrap an integer to the `int64` range (two's complement). -/
def wrapI64 (i : Int) : Int := toI64 (i % 2^64).toNat

/-- `uint64` complement. -/
def notU64 (m : Nat) : Nat := 2^64 - 1 - m % 2^64

/-- `utils.GetBitsAsInt64`, in wrapped 64-bit arithmetic, for `2 ≤ len`.
    (`len - 2` is a `uint` subtraction in Go; for `len < 2` it wraps and the shift
    yields 0 — modelled too, although the property only speaks about `2 ≤ len`.) -/
def getBitsI (buf : Bytes) (pos len : Nat) : Int :=
  let negative := getBitsU buf pos 1 == 1
  let uval := getBitsU buf pos len
  if negative then
    let mask : Nat := if 2 ≤ len then (2 <<< (len - 2)) % 2^64 else 0
    let weightOfTopBit := toI64 (uval &&& mask)
    let weightOfLowerBits := toI64 (uval &&& notU64 mask)
    wrapI64 (wrapI64 (-1 * weightOfTopBit) + weightOfLowerBits)
  else toI64 uval

def getBitsI? (buf : Bytes) (pos len : Nat) : Option Int :=
  if inRange buf pos len && inRange buf pos 1 then some (getBitsI buf pos len) else none

/-! ### Specification -/

/-- Big-endian value of the `n` bits starting at bit `pos`. -/
def specU (buf : Bytes) (pos : Nat) : Nat → Nat
  | 0 => 0
  | n+1 => 2 * specU buf pos n + bitAt buf (pos + n)

/-- Two's-complement value of the same bits. -/
def specI (buf : Bytes) (pos n : Nat) : Int :=
  if bitAt buf pos = 1 then (specU buf pos n : Int) - 2^n else (specU buf pos n : Int)

end Ntrip
