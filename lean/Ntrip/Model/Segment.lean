import Ntrip.Proofs.FrameBasic
/-!
`HandleMessages` on a finite input that is eventually closed: fetch until "done".
The recursion is on the number of bytes still to be delivered (push-back included); its
decrease is `fetch_size` — a proof obligation, not an assumption.
-/
namespace Ntrip

theorem fetch_size {crc : Bytes → Nat} {s s' : In} {m : Msg} (h : fetch crc s = .msg m s') :
    s'.size < s.size := by
  have hs := fetchC_size s
  unfold fetch at h
  cases hf : fetchC s with
  | done => simp [hf] at h
  | junk raw s1 =>
    simp [hf] at h
    obtain ⟨_, rfl⟩ := h
    have h1 := hs.1; have h2 := hs.2
    rw [hf] at h1 h2
    simp only [FetchC.sizeLe] at h1
    have := h2 (by simp)
    omega
  | frame f s1 =>
    simp [hf] at h
    obtain ⟨_, rfl⟩ := h
    have h1 := hs.1; have h2 := hs.2
    rw [hf] at h1 h2
    simp only [FetchC.sizeLe] at h1
    have := h2 (by simp)
    omega

/-- The messages `HandleMessages` sends before it closes its output. -/
def segment (crc : Bytes → Nat) (s : In) : List Msg :=
  match h : fetch crc s with
  | .done => []
  | .msg m s' => m :: segment crc s'
termination_by s.size
decreasing_by exact fetch_size h

end Ntrip
