import Ntrip.Model.Msm
/-!
Model of the scaled-integer range computations: `utils.getScaledValue`,
`GetScaledRange` (shifts 29/19), `GetScaledPhaseRange` (31/21), `GetScaledPhaseRangeRate`,
and the `GetAggregate…` methods of the MSM4/MSM7 signal cells with their 'invalid' markers.
64-bit wrap-around (`uint64(int64(approx) + int64(delta))`) is modelled explicitly.
-/
namespace Ntrip

/-- `getScaledValue(v1, shift1, v2, shift2, delta)`. -/
def scaledValue (v1 s1 v2 s2 : Nat) (delta : Int) : Nat :=
  let approx := ((v1 <<< s1) % 2^64 ||| (v2 <<< s2) % 2^64) % 2^64
  ((toI64 approx + delta) % 2^64).toNat

def invalidRange : Nat := Gen.utils_InvalidRange.toNat

/-- MSM7 `GetAggregateRange`. -/
def aggregateRange7 (whole frac : Nat) (delta : Int) : Nat :=
  if whole = invalidRange then 0
  else if delta = Gen.sig7_InvalidRangeDelta then scaledValue whole 29 frac 19 0
  else scaledValue whole 29 frac 19 delta

/-- MSM4 `GetAggregateRange` (the 15-bit delta is scaled by 32 to the MSM7 resolution). -/
def aggregateRange4 (whole frac : Nat) (delta : Int) : Nat :=
  if whole = invalidRange then 0
  else if delta = Gen.utils_InvalidRangeDelta then scaledValue whole 29 frac 19 0
  else scaledValue whole 29 frac 19 (delta * 32)

/-- MSM7 `GetAggregatePhaseRange`. -/
def aggregatePhase7 (whole frac : Nat) (delta : Int) : Nat :=
  if whole = invalidRange then 0
  else scaledValue whole 31 frac 21 (if delta = Gen.sig7_InvalidPhaseRangeDelta then 0 else delta)

/-- MSM4 `GetAggregatePhaseRange` (22-bit delta scaled by 4). -/
def aggregatePhase4 (whole frac : Nat) (delta : Int) : Nat :=
  if whole = invalidRange then 0
  else scaledValue whole 31 frac 21 (if delta = Gen.utils_InvalidPhaseRangeDelta then 0 else delta * 4)

/-- MSM7 `GetAggregatePhaseRangeRate` (units of 0.0001 m/s). -/
def aggregateRate7 (rate delta : Int) : Int :=
  if rate = Gen.sig7_InvalidPhaseRangeRate then 0
  else rate * 10000 + (if delta ≠ Gen.sig7_InvalidPhaseRangeRateDelta then delta else 0)

end Ntrip
