import Ntrip.Model.Segment
import Ntrip.Model.Time
/-!
`HandleMessages` with the handler's time state threaded through the fetches: the messages
as the consumer sees them (type, raw bytes, error class, timestamp, the two time lines).
-/
namespace Ntrip

/-- What `HandleMessages` sends for one fetched frame, with the time lines. -/
def msgTOfFrame (crc : Bytes → Nat) (st : TState) (f : Bytes) : MsgT × TState :=
  match getMessage crc st f with
  | (.msg m, st') => (m, st')
  | (.empty, st') => (MsgT.ofMsg (nonRTCM f), st')

def segmentT (crc : Bytes → Nat) (st : TState) (s : In) : List MsgT :=
  match h : fetchC s with
  | .done => []
  | .junk raw s' => MsgT.ofMsg (nonRTCM raw) :: segmentT crc st s'
  | .frame f s' =>
    let (m, st') := msgTOfFrame crc st f
    m :: segmentT crc st' s'
termination_by s.size
decreasing_by
  · have hs := fetchC_size s
    rw [h] at hs
    have := hs.2 (by simp)
    have := hs.1
    simp only [FetchC.sizeLe] at this
    omega
  · have hs := fetchC_size s
    rw [h] at hs
    have := hs.2 (by simp)
    have := hs.1
    simp only [FetchC.sizeLe] at this
    omega

end Ntrip
