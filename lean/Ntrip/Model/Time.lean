import Ntrip.Model.Frame
import Ntrip.Generated.Consts
import Ntrip.Generated.Tables
/-!
Model of the stateful timestamp-to-UTC conversion of rtcm/handler (`New`,
`getTimeFromTimeStamp`, `getUTCFrom…Time`, `getUTCFromTimestamp`, `getStartOfWeek`,
`utils.ParseTimestamp`) and of the MSM time lines `GetMessage` adds.

Instants are `Int` milliseconds since the Unix epoch.  All week starts are whole
milliseconds (midnights plus whole-second offsets) and `AddDate(0, 0, n)` in UTC adds
`n * 86 400 000` ms, so nothing is lost by this representation.  Constants (leap-second
offsets, timestamp limits) and the dispatch tables come from `Ntrip.Generated`, i.e. from
the current source.
-/
namespace Ntrip

def dayMs : Int := 86400000
def weekMs : Int := 7 * dayMs

/-- `getStartOfLastSundayUTC`: midnight UTC at the start of the last Sunday (possibly today).
    1970-01-01 was a Thursday (weekday 4). -/
def startOfLastSunday (t : Int) : Int :=
  let day := t / dayMs
  (day - (day + 4) % 7) * dayMs

/-- The handler's time state. -/
structure TState where
  gps : Int   -- startOfGPSWeek
  gal : Int   -- startOfGalileoWeek
  glo : Int   -- startOfGlonassWeek
  bei : Int   -- startOfBeidouWeek
  pGps : Nat  -- timestampFromPreviousGPSMessage
  pGal : Nat
  pBei : Nat
  gDay : Nat  -- glonassDayFromPreviousMessage
deriving DecidableEq, Repr, Inhabited

def gpsOffsetMs : Int := Gen.utils_GPSTimeOffset / 1000000          -- -18 000
def beidouOffsetMs : Int := Gen.utils_BeidouTimeOffset / 1000000    -- -4 000
def glonassOffsetMs : Int := Gen.utils_GlonassTimeOffset / 1000000  -- -10 800 000

/-- How `New` initialises a stored previous timestamp (shape extracted from the source). -/
def prevInit (shape : String) (T start gpsPrev : Int) : Nat :=
  if shape == "zero" then 0
  else if shape == "sameAsGPS" then gpsPrev.toNat
  else if shape.startsWith "fromStart:" then (T - start).toNat
  else 0

/-- `handler.New(startTime, …)`; `T` is the start time in ms (floor). -/
def newState (T : Int) : TState :=
  let gpsShifted := T + (-1 * Gen.utils_GPSLeapSeconds) * 1000
  let beidouShifted := T + (-1 * Gen.utils_BeidouLeapSeconds) * 1000
  let glonassShifted := T + (-1 * glonassOffsetMs)
  let gps := startOfLastSunday gpsShifted + gpsOffsetMs
  let bei := startOfLastSunday beidouShifted + beidouOffsetMs
  let glo := startOfLastSunday glonassShifted + glonassOffsetMs
  let pGps := prevInit Gen.handler_New_timestampFromPreviousGPSMessage T gps 0
  { gps := gps, gal := gps, glo := glo, bei := bei,
    pGps := pGps,
    pGal := prevInit Gen.handler_New_timestampFromPreviousGalileoMessage T gps pGps,
    pBei := prevInit Gen.handler_New_timestampFromPreviousBeidouMessage T bei pGps,
    gDay := 0 }

/-- `getUTCFromTimestamp`: (time, new start of week) or a range error. -/
def weekConv (ts prev : Nat) (start : Int) : Option (Int × Int) :=
  if (ts : Int) > Gen.utils_MaxTimestamp then none
  else
    let newStart := if prev > ts then start + weekMs else start
    some (newStart + ts, newStart)

/-- `utils.ParseTimestamp("Glonass", ts)`: (day, millis). -/
def parseGlonass (ts : Nat) : Option (Nat × Nat) :=
  if (ts : Int) > Gen.utils_MaxTimestampGlonass then none
  else
    let day : Nat := ts >>> 27
    let millis : Nat := ts % 2^27
    if (millis : Int) ≥ Gen.utils_MillisIn24Hours then none else some (day, millis)

/-- `utils.ParseTimestamp(other, ts)`. -/
def parseWeekTs (ts : Nat) : Option (Nat × Nat) :=
  if (ts : Int) > Gen.utils_MaxTimestamp then none
  else some (ts / 86400000, ts % 86400000)

inductive TimeRes
  | ok (t : Int)
  | rangeErr
  | unknown
deriving DecidableEq, Repr

/-- Conversion method for a message type, from the extracted switch of `getTimeFromTimeStamp`. -/
def timeMethod (typ : Int) : String :=
  match Gen.handler_getTimeFromTimeStamp with
  | some (rows, dflt) => (rows.lookup typ).getD dflt
  | none => "?"

/-- `getTimeFromTimeStamp` with its state updates. -/
def msmTime (st : TState) (typ : Int) (ts : Nat) : TimeRes × TState :=
  let m := timeMethod typ
  if m == "getUTCFromGPSTime" then
    match weekConv ts st.pGps st.gps with
    | none => (.rangeErr, st)
    | some (t, ns) => (.ok t, { st with gps := ns, pGps := ts })
  else if m == "getUTCFromGalileoTime" then
    match weekConv ts st.pGal st.gal with
    | none => (.rangeErr, st)
    | some (t, ns) => (.ok t, { st with gal := ns, pGal := ts })
  else if m == "getUTCFromBeidouTime" then
    match weekConv ts st.pBei st.bei with
    | none => (.rangeErr, st)
    | some (t, ns) => (.ok t, { st with bei := ns, pBei := ts })
  else if m == "getUTCFromGlonassTime" then
    match parseGlonass ts with
    | none => (.rangeErr, st)
    | some (day, millis) =>
      let glo := if day != st.gDay && day < st.gDay then st.glo + weekMs else st.glo
      (.ok (glo + day * dayMs + millis), { st with glo := glo, gDay := day })
  else (.unknown, st)

/-- `getStartOfWeek`, from the extracted switch. -/
def startOfWeek (st : TState) (typ : Int) : Option Int :=
  match Gen.handler_getStartOfWeek with
  | some (rows, _) =>
    match rows.lookup typ with
    | some "startOfGPSWeek" => some st.gps
    | some "startOfGalileoWeek" => some st.gal
    | some "startOfGlonassWeek" => some st.glo
    | some "startOfBeidouWeek" => some st.bei
    | _ => none
  | none => none

def isMSM4 (typ : Int) : Bool := (Gen.utils_MSM4MessageTypes.getD []).contains typ
def isMSM7 (typ : Int) : Bool := (Gen.utils_MSM7MessageTypes.getD []).contains typ
def isMSM (typ : Int) : Bool := isMSM4 typ || isMSM7 typ

/-- A `handler.Message` with its MSM time fields. -/
structure MsgT where
  typ : Int
  raw : Bytes
  err : Err := .none
  ts : Nat := 0
  sentAt : Option Int := none      -- the instant shown in `SentAt`, if any
  sow : Option Int := none         -- the instant shown in `StartOfWeek`, if any
deriving DecidableEq, Repr, Inhabited

def MsgT.core (m : MsgT) : Msg := { typ := m.typ, raw := m.raw, err := m.err }

def MsgT.ofMsg (m : Msg) : MsgT := { typ := m.typ, raw := m.raw, err := m.err }

/-- The MSM part of `GetMessage`, applied after the CRC check succeeded; `bs` is the buffer
    the timestamp is read from (the caller's whole bit stream). -/
def addTime (st : TState) (bs : Bytes) (m : Msg) : MsgT × TState :=
  if m.err == .none && isMSM m.typ then
    -- 54 = LenMessageType + LenStationID + LenTimeStamp; the payload must hold them
    if (m.raw.length - 6) * 8 < 54 then ({ MsgT.ofMsg m with err := .tsShort }, st)
    else
      let ts := getBitsU bs 48 30
      let (r, st') := msmTime st m.typ ts
      let sow := startOfWeek st' m.typ
      match r with
      | .ok t => ({ MsgT.ofMsg m with ts := ts, sentAt := some t, sow := sow }, st')
      | .rangeErr => ({ MsgT.ofMsg m with ts := ts, err := .timeRange, sow := sow }, st')
      | .unknown => ({ MsgT.ofMsg m with ts := ts, err := .unknownConst, sow := sow }, st')
  else (MsgT.ofMsg m, st)

inductive GMT
  | empty
  | msg (m : MsgT)
deriving DecidableEq, Repr

/-- `Handler.GetMessage`. -/
def getMessage (crc : Bytes → Nat) (st : TState) (bs : Bytes) : GMT × TState :=
  match getMessageCore crc bs with
  | .empty => (.empty, st)
  | .msg m => let (mt, st') := addTime st bs m; (.msg mt, st')

end Ntrip
