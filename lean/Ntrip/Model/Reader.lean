import Ntrip.Model.Bits
/-!
Model of the read loop of `file_handler.Handler.Handle`: one byte per `reader.Read`, an
end-of-file or i/o timeout is tolerated for `TimeoutOnEOF` (retrying after `WaitTimeOnEOF`,
then after `TimeoutOnEOF`), any other error stops the handler at once.

The reader is a *script* of read results; the clock is an oracle: the list of values the
successive `time.Now()` calls return (any values — the theorems quantify over all of them).
-/
namespace Ntrip

inductive ReadRes
  | byte (b : UInt8)
  | eof
  | timeout
  | other
deriving DecidableEq, Repr

structure RCfg where
  tau : Nat      -- TimeoutOnEOF, ms
  omega : Nat    -- WaitTimeOnEOF, ms

/-- State of the loop: bytes forwarded to the byte channel so far, the time of the first of
    the current run of failures (`timeOfFirstEOF`), the clock readings still to come, and the
    number of script items consumed. -/
structure RState where
  forwarded : Bytes := []
  firstEOF : Option Nat := none
  clock : List Nat
  consumed : Nat := 0

inductive RStop
  | otherError         -- a read error that is neither EOF nor a timeout
  | noTolerance        -- EOF/timeout with a zero tolerance
  | toleranceExpired   -- EOF/timeout persisting beyond the tolerance
  | scriptEnd          -- (the script ended: nothing more is known about the reader)
deriving DecidableEq, Repr

inductive RStep
  | cont (st : RState)
  | stop (st : RState) (why : RStop)

/-- One iteration of the loop on one read result. -/
def stepReader (cfg : RCfg) (r : ReadRes) (st : RState) : RStep :=
  let st1 := { st with consumed := st.consumed + 1 }
  match r with
  | .byte b => .cont { st1 with forwarded := st.forwarded ++ [b], firstEOF := none }
  | .other => .stop st1 .otherError
  | _ =>   -- eof / timeout
    if cfg.tau = 0 then .stop st1 .noTolerance
    else
      match st.firstEOF, st.clock with
      | none, t :: clock' => .cont { st1 with firstEOF := some t, clock := clock' }      -- then sleep(WaitTimeOnEOF)
      | none, [] => .cont { st1 with firstEOF := some 0 }
      | some t0, now :: clock' =>
        if now - t0 > cfg.tau then .stop { st1 with clock := clock' } .toleranceExpired
        else .cont { st1 with clock := clock' }                                            -- then sleep(TimeoutOnEOF)
      | some _, [] => .cont st1

/-- Run the loop over the script. -/
def runReader (cfg : RCfg) : List ReadRes → RState → RState × RStop
  | [], st => (st, .scriptEnd)
  | r :: rest, st =>
    match stepReader cfg r st with
    | .cont st' => runReader cfg rest st'
    | .stop st' why => (st', why)

/-- The bytes a prefix of the script supplies. -/
def bytesOf : List ReadRes → Bytes
  | [] => []
  | .byte b :: rest => b :: bytesOf rest
  | _ :: rest => bytesOf rest

end Ntrip
