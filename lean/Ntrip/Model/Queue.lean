import Ntrip.Model.Bits
/-!
Model of apps/proxy/circular_queue: `Items` is a map from a running index to the message;
modelled as the list of (key, message) pairs in ascending key order (which is how every
reader of the map looks at it: `getKeysInAscendingOrder`).
-/
namespace Ntrip

structure CQ (α : Type) where
  max : Int                   -- MaxItems
  items : List (Int × α)      -- ascending keys
  next : Int                  -- NextIndex

def CQ.new {α : Type} (max : Int) : CQ α := { max := max, items := [], next := 0 }

/-- The eviction loop of `Add`: walk the keys in ascending order, deleting while the map
    still holds `MaxItems` or more. -/
def evict {α : Type} (max : Int) : List (Int × α) → List (Int × α)
  | [] => []
  | kv :: rest => if ((kv :: rest).length : Int) ≥ max then evict max rest else kv :: rest

/-- `Add`. -/
def CQ.add {α : Type} (q : CQ α) (m : α) : CQ α :=
  let items := if (q.items.length : Int) ≥ q.max then evict q.max q.items else q.items
  { q with items := items ++ [(q.next, m)], next := q.next + 1 }

/-- `GetMessages`. -/
def CQ.get {α : Type} (q : CQ α) : List α := q.items.map (·.2)

def CQ.adds {α : Type} (q : CQ α) (ms : List α) : CQ α := ms.foldl CQ.add q

end Ntrip
