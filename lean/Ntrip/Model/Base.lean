import Ntrip.Model.Msm
/-!
Model of `type1005.GetMessage` / `type1006.GetMessage`: a length guard, then the fields in
the order and with the widths of the extracted layout, then the type check.
-/
namespace Ntrip

inductive BaseKind | t1005 | t1006
deriving DecidableEq, Repr

def BaseKind.layout : BaseKind → Option (List Col)
  | .t1005 => colsOf Gen.t1005_layout
  | .t1006 => colsOf Gen.t1006_layout

def BaseKind.expectedType : BaseKind → Int
  | .t1005 => Gen.t1005_expectedMessageType
  | .t1006 => Gen.t1006_expectedMessageType

def BaseKind.messageBits : BaseKind → Int
  | .t1005 => Gen.t1005_lengthOfMessageInBits
  | .t1006 => Gen.t1006_lengthOfMessageInBits

/-- The decoded fields in layout order: type, station id, ITRF year, reserved(4), X,
    reserved(2), Y, reserved(2), Z [, antenna height]. -/
def decodeBase (k : BaseKind) (bs : Bytes) : Res (List Int) :=
  match k.layout with
  | none => .err .layout
  | some cols =>
    -- lenMessageInBits := len*8 - LeaderLengthBits - CRCLengthBits  (Go int, may be negative)
    if (bs.length : Int) * 8 - 24 - 24 < k.messageBits then .err .baseOverrun
    else do
      let vals ← readFields bs cols 24
      if vals.headD 0 != k.expectedType then .err .baseWrongType else pure vals

end Ntrip
