import Ntrip.Model.Queue
/-!
The circular queue under concurrent use: any number of goroutines calling `Add` and
`GetMessages`, each a sequence of micro-steps on the shared map (`Add`: the test, a snapshot of
the keys, one `delete` per loop iteration, the assignment, the increment; `GetMessages`: a
snapshot of the keys, one lookup per iteration), interleaved arbitrarily, under the discipline of
one `sync.RWMutex` (`Lock` is granted when nobody holds the lock, `RLock` when no writer does).
-/
namespace Ntrip.QC

/-- The program counter (with its local variables) of one goroutine. -/
inductive T (M : Type) where
  | idle
  | addWait (m : M)
  | addTest (m : M)
  | addEvict (m : M) (ks : List Int)
  | addIns (m : M)
  | addInc (m : M)
  | addUnlock
  | getWait
  | getKeys (n : Nat)
  | getLoop (n : Nat) (ks : List Int) (acc : List M)
  | getDone (n : Nat) (r : List M)

def T.inW {M : Type} : T M → Bool
  | .addTest _ | .addEvict _ _ | .addIns _ | .addInc _ | .addUnlock => true
  | _ => false

def T.inR {M : Type} : T M → Bool
  | .getKeys _ | .getLoop _ _ _ => true
  | _ => false

def keysOf {M : Type} (items : List (Int × M)) : List Int := items.map (·.1)
def delKey {M : Type} (k : Int) (items : List (Int × M)) : List (Int × M) := items.filter (fun kv => kv.1 != k)
def lookupKey {M : Type} (k : Int) : List (Int × M) → Option M
  | [] => none
  | (k', v) :: rest => if k' = k then some v else lookupKey k rest

/-- One micro-step of a goroutine inside its critical section. -/
def micro {M : Type} : T M → CQ M → T M × CQ M
  | .addTest m, q => if (q.items.length : Int) ≥ q.max then (.addEvict m (keysOf q.items), q) else (.addIns m, q)
  | .addEvict m [], q => (.addIns m, q)
  | .addEvict m (k :: ks), q =>
    if (q.items.length : Int) ≥ q.max then (.addEvict m ks, { q with items := delKey k q.items }) else (.addEvict m ks, q)
  | .addIns m, q => (.addInc m, { q with items := q.items ++ [(q.next, m)] })
  | .addInc _, q => (.addUnlock, { q with next := q.next + 1 })
  | .getKeys n, q => (.getLoop n (keysOf q.items) [], q)
  | .getLoop n (k :: ks) acc, q =>
    (.getLoop n ks (match lookupKey k q.items with | some v => acc ++ [v] | none => acc), q)
  | t, q => (t, q)

/-- The eviction loop from the middle: the remaining keys of the snapshot. -/
def finishEvict {M : Type} (max : Int) : List (Int × M) → List Int → List (Int × M)
  | items, [] => items
  | items, k :: ks => if (items.length : Int) ≥ max then finishEvict max (delKey k items) ks else finishEvict max items ks

/-- Running a writer's critical section to its end: the final shared state. -/
def finishW {M : Type} : T M → CQ M → CQ M
  | .addTest m, q =>
    let items := if (q.items.length : Int) ≥ q.max then finishEvict q.max q.items (keysOf q.items) else q.items
    { q with items := items ++ [(q.next, m)], next := q.next + 1 }
  | .addEvict m ks, q => { q with items := finishEvict q.max q.items ks ++ [(q.next, m)], next := q.next + 1 }
  | .addIns m, q => { q with items := q.items ++ [(q.next, m)], next := q.next + 1 }
  | .addInc _, q => { q with next := q.next + 1 }
  | _, q => q

/-- The lookup loop from the middle. -/
def collect {M : Type} (items : List (Int × M)) : List Int → List M → List M
  | [], acc => acc
  | k :: ks, acc => collect items ks (match lookupKey k items with | some v => acc ++ [v] | none => acc)

/-- Running a reader's critical section to its end: the snapshot it returns. -/
def finishR {M : Type} : T M → CQ M → List M
  | .getKeys _, q => collect q.items (keysOf q.items) []
  | .getLoop _ ks acc, q => collect q.items ks acc
  | .getDone _ r, _ => r
  | _, _ => []

def upd {α : Type} (f : Nat → α) (i : Nat) (v : α) : Nat → α := fun j => if j = i then v else f j

structure S (M : Type) where
  q : CQ M
  th : Nat → T M
  order : List M              -- the additions in the order in which they obtained the lock
  rets : List (Nat × List M)  -- returned snapshots with the number of additions locked before them

def init (M : Type) (max : Int) : S M := { q := CQ.new max, th := fun _ => .idle, order := [], rets := [] }

/-- One move of one goroutine.  `lk = true`: the lock is respected (`Lock` waits until nobody is
    in a critical section, `RLock` until no writer is); `lk = false`: the same code with the lock
    calls removed (used only for the counterexample that shows the lock is necessary). -/
inductive Step {M : Type} (lk : Bool) : S M → S M → Prop
  | invAdd (s t m) : s.th t = .idle → Step lk s { s with th := upd s.th t (.addWait m) }
  | lockW (s t m) : s.th t = .addWait m → (lk = true → ∀ u, (s.th u).inW = false ∧ (s.th u).inR = false) →
      Step lk s { s with th := upd s.th t (.addTest m), order := s.order ++ [m] }
  | microW (s t) : (s.th t).inW = true → s.th t ≠ .addUnlock →
      Step lk s { s with th := upd s.th t (micro (s.th t) s.q).1, q := (micro (s.th t) s.q).2 }
  | unlockW (s t) : s.th t = .addUnlock → Step lk s { s with th := upd s.th t .idle }
  | invGet (s t) : s.th t = .idle → Step lk s { s with th := upd s.th t .getWait }
  | lockR (s t) : s.th t = .getWait → (lk = true → ∀ u, (s.th u).inW = false) →
      Step lk s { s with th := upd s.th t (.getKeys s.order.length) }
  | microR (s t) : (s.th t).inR = true → (∀ n acc, s.th t ≠ .getLoop n [] acc) →
      Step lk s { s with th := upd s.th t (micro (s.th t) s.q).1, q := (micro (s.th t) s.q).2 }
  | unlockR (s t n acc) : s.th t = .getLoop n [] acc → Step lk s { s with th := upd s.th t (.getDone n acc) }
  | retGet (s t n r) : s.th t = .getDone n r → Step lk s { s with th := upd s.th t .idle, rets := s.rets ++ [(n, r)] }

inductive Reach {M : Type} (lk : Bool) (max : Int) : S M → Prop
  | init : Reach lk max (init M max)
  | step {s s'} : Reach lk max s → Step lk s s' → Reach lk max s'

end Ntrip.QC
