/-!
Exact model of the IEEE-754 binary64 operations the display code uses, over integers.

A finite value is `m * 2^e` (`Val`); `round53` rounds a value to 53 significant bits, to nearest,
ties to even (the format's rounding; exponent range is not modelled — every value handled here
lies between 2^-70 and 2^70, far from the subnormal and overflow thresholds).  `fixed4` is
`fmt`'s `%.4f`: the exact value rounded to four decimals, ties to even, as a count of 0.0001 units.
-/
namespace Ntrip.F64

/-- `m / p` rounded to the nearest integer, ties to even (`p > 0`). -/
def rhe (m p : Int) : Int :=
  if 2 * (m % p) < p then m / p
  else if p < 2 * (m % p) then m / p + 1
  else if (m / p) % 2 = 0 then m / p else m / p + 1

structure Val where
  m : Int
  e : Int
deriving Repr, DecidableEq

/-- Number of binary digits of a natural number. -/
def bitLen (a : Nat) : Nat := if a = 0 then 0 else a.log2 + 1

/-- Round to 53 significant bits, nearest-even. -/
def round53 (v : Val) : Val :=
  let k := bitLen v.m.natAbs - 53
  { m := rhe v.m (2 ^ k), e := v.e + k }

/-- Floating-point multiplication: the exact product, rounded once. -/
def mul (a b : Val) : Val := round53 { m := a.m * b.m, e := a.e + b.e }

/-- `float64(n)` for an integer. -/
def ofInt (n : Int) : Val := round53 { m := n, e := 0 }

/-- The binary64 nearest to 0.0001 (`math.Float64bits(0.0001) = 0x3F1A36E2EB1C432D`). -/
def c0001 : Val := { m := 7378697629483821, e := -66 }

/-- Multiplication or division by a power of two: exact (no rounding) in the normal range. -/
def scale2 (v : Val) (j : Int) : Val := { v with e := v.e + j }

/-- The binary64 nearest to 299792.458, the length of one light millisecond in metres
    (`utils.OneLightMillisecond`): `5150395210789814 / 2^34`. -/
def cLightMs : Val := { m := 5150395210789814, e := -34 }

/-- Floating-point division of a value by a positive integer constant `d` (exactly
    representable): the exact quotient rounded once to 53 bits, nearest-even.  The numerator is
    first scaled by `2^(64 + bitLen d)` so that the integer quotient has at least 64 bits. -/
def divConst (a : Val) (d : Nat) : Val :=
  if a.m = 0 then { m := 0, e := 0 } else
  let s := 64 + bitLen d
  let n := a.m * 2 ^ s
  let k := bitLen (n.natAbs / d) - 53
  { m := rhe n ((d : Int) * 2 ^ k), e := a.e - s + k }

/-- Floating-point division by a positive value: the exact quotient rounded once to 53 bits. -/
def divVal (a b : Val) : Val :=
  if a.m = 0 then { m := 0, e := 0 } else
  let d := b.m.natAbs
  let s := 64 + bitLen d
  let n := a.m * 2 ^ s
  let k := bitLen (n.natAbs / d) - 53
  { m := rhe n ((d : Int) * 2 ^ k), e := a.e - b.e - s + k }

/-- Exact negation (`x * -1`). -/
def neg (a : Val) : Val := { a with m := -a.m }

/-- The carrier wavelength as the code computes it: `SpeedOfLightMS / frequency` for an integer
    frequency in Hz (both exactly representable), rounded once. -/
def wavelength (f : Nat) : Val := divVal (ofInt 299792458) (ofInt f)

/-- The phase range in cycles as the code computes it from an aggregate phase range (units 2^-31 ms). -/
def phaseCycles (S f : Nat) : Val := divVal (mul (scale2 (ofInt S) (-31)) cLightMs) (wavelength f)

/-- The Doppler in Hz as the code computes it from the aggregate rate (units 0.0001 m/s). -/
def dopplerHz (A : Int) (f : Nat) : Val := neg (divVal (divConst (ofInt A) 10000) (wavelength f))

/-- `v * 2^s` as an integer, for `s` large enough that nothing is lost. -/
def Val.scaled (v : Val) (s : Int) : Int := v.m * 2 ^ (v.e + s).toNat

/-- `%.4f`: the nearest multiple of 0.0001 (ties to even) to the exact value, as an integer count. -/
def fixed4 (v : Val) : Int :=
  if 0 ≤ v.e then v.m * 2 ^ v.e.toNat * 10000 else rhe (v.m * 10000) (2 ^ (-v.e).toNat)

/-- The decimal text of a count of 0.0001 units with four decimals. -/
def render4 (n : Int) : String :=
  let a := n.natAbs
  let frac := toString (a % 10000)
  (if n < 0 then "-" else "") ++ toString (a / 10000) ++ "." ++ String.ofList (List.replicate (4 - frac.length) '0') ++ frac

/-- Normalised IEEE fields of a non-zero value with at most 53 significant bits: (negative, biased exponent, 53-bit significand). -/
def ieee (v : Val) : Bool × Int × Nat :=
  let a := v.m.natAbs
  if a = 0 then (false, 0, 0) else
  let l := bitLen a
  -- a * 2^e = (a * 2^(53-l)) * 2^(e + l - 53), significand in [2^52, 2^53)
  (v.m < 0, v.e + l - 1 + 1023, a * 2 ^ (53 - l))

end Ntrip.F64
