import Ntrip.Proofs.SegmentSpec
import Ntrip.Proofs.ListLemmas
/-! List-level recognition theorem behind C03 and C12. -/
namespace Ntrip

def streamOf (segs : List Seg) (tail : Bytes) : Bytes := (segs.map Seg.bytes).flatten ++ tail

theorem bitAt_of_take_eq (f g : Bytes) (k i : Nat) (h : f.take k = g.take k) (hi : i < 8 * k) :
    bitAt f i = bitAt g i := by
  rw [← bitAt_take f k i hi, ← bitAt_take g k i hi, h]

theorem head_of_take_eq {f g : Bytes} {k : Nat} (hk : 0 < k) (h : f.take k = g.take k) :
    f.head? = g.head? := by
  cases f <;> cases g <;> cases k <;> simp_all

theorem corrupted_leader {crc : Bytes → Nat} {f' : Bytes} (hc : Corrupted crc f') :
    f'.head? = some 0xD3 ∧ 7 ≤ f'.length ∧
    ∃ t, lengthAndType f' = (f'.length - 6, t, .none) := by
  obtain ⟨⟨F, hv, h3, hl⟩, _⟩ := hc
  obtain ⟨hF, h7⟩ := validFrame_lengthAndType hv
  have hd : f'.head? = some 0xD3 := by rw [head_of_take_eq (by omega) h3]; exact hv.preamble
  refine ⟨hd, by omega, ?_⟩
  rw [lengthAndType_spec f' (by omega) hd]
  have e1 : specU f' 8 6 = specU F 8 6 :=
    specU_congr _ _ _ _ (fun i hi => bitAt_of_take_eq f' F 3 _ h3 (by omega))
  have e2 : specU f' 14 10 = specU F 14 10 :=
    specU_congr _ _ _ _ (fun i hi => bitAt_of_take_eq f' F 3 _ h3 (by omega))
  have hsz := hv.size
  have hnz := hv.lenNonzero
  have : ¬ specU F 14 10 = 0 := by omega
  rw [e1, e2, hv.reserved]
  simp only [ne_eq, not_true_eq_false, if_false, this]
  exact ⟨_, Prod.ext (by simp; omega) rfl⟩

theorem scan_corrupt {crc : Bytes → Nat} {f' : Bytes} (hc : Corrupted crc f') (rest : Bytes) :
    scan (f' ++ rest) = .frame f' rest := by
  obtain ⟨hd, h7, t, hlt⟩ := corrupted_leader hc
  apply scan_of_leader f' rest hd (by omega) t
  rw [lengthAndType_take5 f' (by omega) hd, hlt]

theorem msgOfFrame_corrupt {crc : Bytes → Nat} {f' : Bytes} (hc : Corrupted crc f') :
    msgOfFrame crc f' = { typ := -1, raw := f', err := .crc } := by
  obtain ⟨hd, h7, t, hlt⟩ := corrupted_leader hc
  rw [msgOfFrame_of_leader crc f' hd (by omega) t hlt]
  have : checkCRC crc f' = false := by
    cases h : checkCRC crc f' with
    | false => rfl
    | true => exact absurd ((checkCRC_iff crc f' (by omega)).mp h) hc.2
  simp [this]

theorem scan_junk_run (j rest : Bytes) (hne : j ≠ []) (hj : (0xD3 : UInt8) ∉ j)
    (hrest : rest = [] ∨ rest.head? = some 0xD3) : scan (j ++ rest) = .junk j rest := by
  cases j with
  | nil => exact absurd rfl hne
  | cons a t =>
    have ha : a ≠ 0xD3 := by intro h; apply hj; simp [h]
    unfold scan
    simp only [List.cons_append, ne_eq, ha, not_false_eq_true, if_true]
    rcases hrest with rfl | hh
    · have h1 := takeWhile_of_not_mem (a :: t) hj
      have h2 := dropWhile_of_not_mem (a :: t) hj
      simp only [List.append_nil]
      rw [h1, h2]
    · cases rest with
      | nil => simp at hh
      | cons b r =>
        simp only [List.head?_cons, Option.some.injEq] at hh
        subst hh
        have h1 := takeWhile_of_split (a :: t) r hj
        have h2 := dropWhile_of_split (a :: t) r hj
        simp only [List.cons_append] at h1 h2
        rw [h1, h2]

theorem scan_trunc {crc : Bytes → Nat} {t : Bytes} (hne : t ≠ [])
    (ht : ∃ f, ValidFrame crc f ∧ t <+: f ∧ t.length < f.length) : scan t = .junk t [] := by
  obtain ⟨F, hv, hpre, hlen⟩ := ht
  obtain ⟨hF, h7⟩ := validFrame_lengthAndType hv
  obtain ⟨k, rfl⟩ : ∃ k, t = F.take k := by
    obtain ⟨u, hu⟩ := hpre
    exact ⟨t.length, by rw [← hu]; simp⟩
  cases F with
  | nil => simp at h7
  | cons b r =>
    have hb : b = 0xD3 := by simpa using hv.preamble
    subst hb
    cases k with
    | zero => simp at hne
    | succ k =>
      simp only [List.take_succ_cons] at hlen ⊢
      unfold scan
      simp only [ne_eq, not_true_eq_false, if_false]
      by_cases h4 : (r.take k).length < 4
      · rw [if_pos h4]
      · rw [if_neg h4]
        have hk4 : 4 ≤ k := by rw [List.length_take] at h4; omega
        have ht5 : List.take 5 (0xD3 :: List.take k r) = List.take 5 (0xD3 :: r) := by
          simp only [List.take_succ_cons, List.take_take]
          congr 2; omega
        rw [ht5, lengthAndType_take5 (0xD3 :: r) (by omega) hv.preamble, hF]
        simp only [ne_eq, not_true_eq_false, if_false]
        have : (0xD3 :: List.take k r).length < (0xD3 :: r).length - 6 + 6 := by
          simp only [List.length_cons] at hlen ⊢; omega
        rw [if_pos this]

theorem seg_head {crc : Bytes → Nat} {s : Seg} (hwf : s.WF crc) (hnj : s.isJunk = false) (rest : Bytes) :
    (s.bytes ++ rest).head? = some 0xD3 := by
  cases s with
  | junk j => simp [Seg.isJunk] at hnj
  | frame f =>
    have hv : ValidFrame crc f := hwf
    have := (validFrame_lengthAndType hv).2
    cases f with
    | nil => simp at this
    | cons a t => simpa [Seg.bytes] using hv.preamble
  | corrupt f =>
    obtain ⟨hd, h7, _⟩ := corrupted_leader (crc := crc) (f' := f) hwf
    cases f with
    | nil => simp at h7
    | cons a t => simpa [Seg.bytes] using hd

theorem truncTail_head {crc : Bytes → Nat} {t : Bytes} (h : TruncTail crc t) :
    t = [] ∨ t.head? = some 0xD3 := by
  rcases h with rfl | ⟨hne, F, hv, ⟨u, hu⟩, _⟩
  · exact Or.inl rfl
  · right
    cases t with
    | nil => exact absurd rfl hne
    | cons a r =>
      have := hv.preamble
      rw [← hu] at this
      simpa using this

/-- C03 + C12 (list level): a stream made of valid frames, maximal 0xD3-free runs of other
    data and CRC-corrupted frames, optionally ending in a truncated frame, is delivered as
    exactly those segments, in order. -/
theorem segmentS_recognises (crc : Bytes → Nat) (tail : Bytes) (htail : TruncTail crc tail) :
    ∀ (segs : List Seg), (∀ s ∈ segs, s.WF crc) → NoAdjacentJunk segs →
      segmentS crc (streamOf segs tail) = segs.map Seg.expected ++ expectedTail tail := by
  intro segs
  induction segs with
  | nil =>
    intro _ _
    simp only [streamOf, List.map_nil, List.flatten_nil, List.nil_append]
    rcases htail with rfl | ⟨hne, ht⟩
    · rw [segmentS]; simp [scan, expectedTail]
    · have hs := scan_trunc hne ht
      rw [segmentS]
      split <;> rename_i h <;> rw [hs] at h <;> simp at h
      obtain ⟨rfl, rfl⟩ := h
      rw [segmentS]; simp [scan, expectedTail, hne]
  | cons s segs ih =>
    intro hwf hadj
    have hwf' : ∀ s ∈ segs, s.WF crc := fun x hx => hwf x (List.mem_cons_of_mem _ hx)
    have hadj' : NoAdjacentJunk segs := by
      cases segs with
      | nil => trivial
      | cons b r => exact hadj.2
    have ih' := ih hwf' hadj'
    have hst : streamOf (s :: segs) tail = s.bytes ++ streamOf segs tail := by
      simp [streamOf]
    rw [hst]
    have hs := hwf s (List.mem_cons_self ..)
    cases s with
    | frame f =>
      have hv : ValidFrame crc f := hs
      have hsc := scan_valid hv (streamOf segs tail)
      rw [segmentS]
      split <;> rename_i h <;> simp only [Seg.bytes] at h <;> rw [hsc] at h <;> simp at h
      obtain ⟨rfl, rfl⟩ := h
      rw [ih', msgOfFrame_valid hv]
      simp [Seg.expected]
    | corrupt f =>
      have hc : Corrupted crc f := hs
      have hsc := scan_corrupt hc (streamOf segs tail)
      rw [segmentS]
      split <;> rename_i h <;> simp only [Seg.bytes] at h <;> rw [hsc] at h <;> simp at h
      obtain ⟨rfl, rfl⟩ := h
      rw [ih', msgOfFrame_corrupt hc]
      simp [Seg.expected]
    | junk j =>
      obtain ⟨hne, hj⟩ : j ≠ [] ∧ (0xD3 : UInt8) ∉ j := hs
      have hrest : streamOf segs tail = [] ∨ (streamOf segs tail).head? = some 0xD3 := by
        cases segs with
        | nil => simpa [streamOf] using truncTail_head htail
        | cons b r =>
          right
          have hb : b.isJunk = false := by
            have := hadj.1
            simp only [Seg.isJunk, true_and] at this
            cases hbj : b.isJunk with
            | false => rfl
            | true => exact absurd hbj this
          have : streamOf (b :: r) tail = b.bytes ++ streamOf r tail := by simp [streamOf]
          rw [this]
          exact seg_head (hwf b (by simp)) hb _
      have hsc := scan_junk_run j _ hne hj hrest
      rw [segmentS]
      split <;> rename_i h <;> simp only [Seg.bytes] at h <;> rw [hsc] at h <;> simp at h
      obtain ⟨rfl, rfl⟩ := h
      rw [ih']
      simp [Seg.expected]
end Ntrip
