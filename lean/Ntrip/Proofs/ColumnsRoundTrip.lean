import Ntrip.Proofs.FieldsRoundTrip
/-! Reading back field-major arrays (columns) of encoded cells. -/
namespace Ntrip

/-- One field-major array: the same field for each of the `n` cells. -/
def encodeColumn (w : Nat) : List Int → List Bool
  | [] => []
  | v :: vs => fieldBits w v ++ encodeColumn w vs

/-- All arrays, one after the other (`vals` is the list of columns). -/
def encodeColumns : List Col → List (List Int) → List Bool
  | (_, w) :: cs, col :: rest => encodeColumn w col ++ encodeColumns cs rest
  | _, _ => []

def ColumnWF (s : Bool) (w : Nat) (col : List Int) : Prop :=
  1 ≤ w ∧ w ≤ 64 ∧ (s = true → 2 ≤ w) ∧ ∀ v ∈ col, InRange s w v

def ColumnsWF (n : Nat) : List Col → List (List Int) → Prop
  | [], [] => True
  | (s, w) :: cs, col :: rest => col.length = n ∧ ColumnWF s w col ∧ ColumnsWF n cs rest
  | _, _ => False

theorem encodeColumn_length (w : Nat) : ∀ col : List Int, (encodeColumn w col).length = col.length * w
  | [] => by simp [encodeColumn]
  | v :: vs => by
    simp only [encodeColumn, List.length_append, fieldBits, natBits_length, List.length_cons,
      encodeColumn_length w vs, Nat.succ_mul]; omega

theorem readColumn_encode (bs : Bytes) (s : Bool) (w : Nat) : ∀ (col : List Int) (pos : Nat),
    ColumnWF s w col → Agrees bs pos (encodeColumn w col) → pos + col.length * w ≤ 8 * bs.length →
    readColumn bs s w col.length pos = .ok col
  | [], _, _, _, _ => rfl
  | v :: vs, pos, hwf, hag, hfit => by
    obtain ⟨h1, h2, h3, h4⟩ := hwf
    obtain ⟨ha, hb⟩ := Agrees.split (a := fieldBits w v) (b := encodeColumn w vs) hag
    have hl : (fieldBits w v).length = w := natBits_length _ _
    rw [hl] at hb
    simp only [List.length_cons, Nat.succ_mul] at hfit
    simp only [List.length_cons, readColumn, bind, pure]
    rw [rdField_fieldBits bs pos s w v h1 h2 h3 (h4 v (by simp)) (by omega) ha]
    simp only
    rw [readColumn_encode bs s w vs (pos + w) ⟨h1, h2, h3, fun x hx => h4 x (by simp [hx])⟩ hb (by omega)]

theorem encodeColumns_length (n : Nat) : ∀ (cols : List Col) (vals : List (List Int)), ColumnsWF n cols vals →
    (encodeColumns cols vals).length = n * widthOf cols
  | [], [], _ => by simp [encodeColumns, widthOf]
  | (s, w) :: cs, col :: rest, h => by
    obtain ⟨hl, _, hr⟩ := h
    simp only [encodeColumns, List.length_append, encodeColumn_length, hl, widthOf, List.map_cons, List.sum_cons]
    rw [encodeColumns_length n cs rest hr, Nat.mul_add]; rfl
  | [], _ :: _, h => by simp [ColumnsWF] at h
  | _ :: _, [], h => by simp [ColumnsWF] at h

/-- **Column round trip**: the field-major satellite and signal arrays of any number of cells,
    any layout, any in-range values (signed fields in two's complement, all markers
    included) are read back exactly. -/
theorem readColumns_encode (bs : Bytes) (n : Nat) : ∀ (cols : List Col) (vals : List (List Int)) (pos : Nat),
    ColumnsWF n cols vals → Agrees bs pos (encodeColumns cols vals) → pos + n * widthOf cols ≤ 8 * bs.length →
    readColumns bs n cols pos = .ok vals
  | [], [], _, _, _, _ => rfl
  | (s, w) :: cs, col :: rest, pos, hwf, hag, hfit => by
    obtain ⟨hl, hc, hr⟩ := hwf
    have hwid : widthOf ((s, w) :: cs) = w + widthOf cs := by simp [widthOf]
    rw [hwid, Nat.mul_add] at hfit
    obtain ⟨ha, hb⟩ := Agrees.split (a := encodeColumn w col) (b := encodeColumns cs rest) hag
    rw [encodeColumn_length, hl] at hb
    simp only [readColumns, bind, pure]
    have := readColumn_encode bs s w col pos hc ha (by rw [hl]; omega)
    rw [hl] at this
    rw [this]
    simp only
    rw [readColumns_encode bs n cs rest (pos + n * w) hr hb (by omega)]
  | [], _ :: _, _, h, _, _ => by simp [ColumnsWF] at h
  | _ :: _, [], _, h, _, _ => by simp [ColumnsWF] at h
end Ntrip
