import Ntrip.Proofs.PipeInv
/-! Safety of the pipeline under every schedule. -/
namespace Ntrip.Pipe
variable {M : Type}

theorem reach_inv (c : Cfg M) (hc : c.WF) {s : PS M} (h : Reach c s) : Inv c s := by
  induction h with
  | init => exact inv_init c
  | step _ hs ih => exact inv_step c hc _ _ ih hs

/-- No reachable state has panicked: no send on a closed channel, no double close, no close of
    a nil channel — under every schedule. -/
theorem no_panic (c : Cfg M) (hc : c.WF) {s : PS M} (h : Reach c s) : s.panic = false :=
  (reach_inv c hc h).noPanic

/-- At every moment every consumer has handled a prefix of the sequential output. -/
theorem handled_prefix (c : Cfg M) (hc : c.WF) {s : PS M} (h : Reach c s) (i : Nat) (hi : i < c.k)
    (hn : c.isNil i = false) : s.handled i <+: c.out := by
  have := (reach_inv c hc h).cons i hi hn
  have hp : s.handled i <+: c.out.take (cnt s i) := by
    rw [← this, List.append_assoc]; exact List.prefix_append _ _
  exact List.IsPrefix.trans hp (List.take_prefix _ _)

/-- A writer that has finished has handled everything. -/
theorem done_all_handled (c : Cfg M) (hc : c.WF) {s : PS M} (h : Reach c s) (i : Nat) (hi : i < c.k)
    (hn : c.isNil i = false) (hd : s.wDone i = true) : s.handled i = c.out := by
  have hI := reach_inv c hc h
  obtain ⟨w1, w2, w3⟩ := hI.wd i hd
  obtain ⟨c1, _, _⟩ := hI.chc i w1
  obtain ⟨m1, m2⟩ := hI.dd c1
  obtain ⟨_, m4⟩ := hI.mcl m1
  have := hI.cons i hi hn
  rw [w2, w3] at this
  have hc' : cnt s i = c.out.length := by simp [cnt, m2, m4]
  rw [hc'] at this
  simpa using this

/-- **When main has returned (and it waits), every writer has handled every message** — for
    every capacity, every message list, every schedule, every writer latency. -/
theorem returned_all_written (c : Cfg M) (hc : c.WF) (hw : c.waits = true) {s : PS M} (h : Reach c s)
    (hr : s.mainReturned = true) (i : Nat) (hi : i < c.k) (hn : c.isNil i = false) : s.handled i = c.out := by
  have hI := reach_inv c hc h
  obtain ⟨_, _, m3⟩ := hI.mr hr
  exact done_all_handled c hc h i hi hn (m3 hw i hi hn)

/-- The fan-out returns only after everything was handed to every consumer: when
    `HandleMessagesUntilEOF` has returned, each non-nil consumer has been sent exactly the
    sequential output (handled, in hand, or still in its channel). -/
theorem fanout_returned_all_sent (c : Cfg M) (hc : c.WF) {s : PS M} (h : Reach c s) (hd : s.dDone = true)
    (i : Nat) (hi : i < c.k) (hn : c.isNil i = false) :
    s.handled i ++ (s.wCur i).toList ++ s.buf i = c.out := by
  have hI := reach_inv c hc h
  obtain ⟨m1, m2⟩ := hI.dd hd
  obtain ⟨_, m4⟩ := hI.mcl m1
  have := hI.cons i hi hn
  have hc' : cnt s i = c.out.length := by simp [cnt, m2, m4]
  rw [hc'] at this
  simpa using this
end Ntrip.Pipe
