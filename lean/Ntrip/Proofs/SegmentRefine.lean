import Ntrip.Proofs.FrameRefine
import Ntrip.Model.Segment
/-! `segment` (byte channel with push-back) = `segmentS` (plain lists). -/
namespace Ntrip

/-- `HandleMessages` over the push-back channel computes the list-level segmentation of
    the bytes still to be delivered. -/
theorem segment_eq_segmentS (crc : Bytes → Nat) : ∀ (n : Nat) (s : In), s.size = n → s.pb.length ≤ 1 →
    segment crc s = segmentS crc s.stream := by
  intro n
  induction n using Nat.strongRecOn with
  | _ n ih =>
    intro s hn hpb
    obtain ⟨habs, hok⟩ := fetchC_refines s hpb
    rw [segment, segmentS]
    unfold fetch
    cases hf : fetchC s with
    | done =>
      rw [hf] at habs
      simp only [FetchC.abs] at habs
      split <;> rename_i hh <;> simp at hh
      split <;> rename_i hs <;> rw [← habs] at hs <;> simp at hs
    | junk raw s1 =>
      rw [hf] at habs hok
      simp only [FetchC.abs] at habs
      simp only [FetchC.pbOk] at hok
      have hsz : s1.size < s.size := by
        have := fetch_size (crc := crc) (s := s) (m := nonRTCM raw) (s' := s1) (by unfold fetch; rw [hf])
        exact this
      split <;> rename_i hh <;> simp at hh
      obtain ⟨rfl, rfl⟩ := hh
      split <;> rename_i hs <;> rw [← habs] at hs <;> simp at hs
      obtain ⟨rfl, rfl⟩ := hs
      rw [ih s1.size (by omega) s1 rfl hok]
    | frame f s1 =>
      rw [hf] at habs hok
      simp only [FetchC.abs] at habs
      simp only [FetchC.pbOk] at hok
      have hsz : s1.size < s.size := by
        have := fetch_size (crc := crc) (s := s) (m := msgOfFrame crc f) (s' := s1) (by unfold fetch; rw [hf])
        exact this
      split <;> rename_i hh <;> simp at hh
      obtain ⟨rfl, rfl⟩ := hh
      split <;> rename_i hs <;> rw [← habs] at hs <;> simp at hs
      obtain ⟨rfl, rfl⟩ := hs
      rw [ih s1.size (by omega) s1 rfl hok]

theorem handleMessages_eq (crc : Bytes → Nat) (bs : Bytes) :
    segment crc (In.ofBytes bs) = segmentS crc bs := by
  have := segment_eq_segmentS crc _ (In.ofBytes bs) rfl (by simp [In.ofBytes])
  simpa [In.ofBytes, In.stream] using this
end Ntrip
