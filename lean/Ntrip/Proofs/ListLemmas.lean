import Ntrip.Model.Bits
/-! Small list lemmas about runs without a 0xD3 byte. -/
namespace Ntrip

theorem takeWhile_of_split (j r : Bytes) (h : (0xD3 : UInt8) ∉ j) :
    (j ++ 0xD3 :: r).takeWhile (· != 0xD3) = j := by
  induction j with
  | nil => simp
  | cons a t ih =>
    simp only [List.mem_cons, not_or] at h
    have : (a != 0xD3) = true := by simp; exact Ne.symm h.1
    simp [this, ih h.2]

theorem takeWhile_of_not_mem (j : Bytes) (h : (0xD3 : UInt8) ∉ j) :
    j.takeWhile (· != 0xD3) = j := by
  induction j with
  | nil => simp
  | cons a t ih =>
    simp only [List.mem_cons, not_or] at h
    have : (a != 0xD3) = true := by simp; exact Ne.symm h.1
    simp [this, ih h.2]

theorem dropWhile_of_split (j r : Bytes) (h : (0xD3 : UInt8) ∉ j) :
    (j ++ 0xD3 :: r).dropWhile (· != 0xD3) = 0xD3 :: r := by
  induction j with
  | nil => simp
  | cons a t ih =>
    simp only [List.mem_cons, not_or] at h
    have : (a != 0xD3) = true := by simp; exact Ne.symm h.1
    simp [this, ih h.2]

theorem dropWhile_of_not_mem (j : Bytes) (h : (0xD3 : UInt8) ∉ j) :
    j.dropWhile (· != 0xD3) = [] := by
  induction j with
  | nil => simp
  | cons a t ih =>
    simp only [List.mem_cons, not_or] at h
    have : (a != 0xD3) = true := by simp; exact Ne.symm h.1
    simp [this, ih h.2]

end Ntrip
