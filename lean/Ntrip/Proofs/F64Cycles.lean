import Ntrip.Proofs.F64
/-!
Accuracy of the phase range in cycles, `fl(fl(S/2^31 · cLight) / wavelength)`, for each carrier
frequency of the tables: three roundings (the light-millisecond constant, the product, the
quotient) on top of the rounded wavelength; the result is within 2^-50 of `S·f / (2^31·1000)`.
One theorem per frequency (the wavelength's significand is a literal, which keeps the arithmetic
linear); generated text, identical up to the literals.
-/
namespace Ntrip.F64

theorem shuffle (a w x c p : Int) : (a * w - x * c) * p = (a * p) * w - (x * p) * c := by
  rw [Int.sub_mul, Int.mul_right_comm a w p, Int.mul_right_comm x c p]

theorem pow_split (c : Int) (k2 k1 j : Nat) : c * 2 ^ (k2 + k1 + j) = (c * 2 ^ k2 * 2 ^ k1) * 2 ^ j := by
  rw [Int.pow_add, Int.pow_add, ← Int.mul_assoc, ← Int.mul_assoc]

theorem cycles_1575420000 (S : Nat) (hS1 : 1 ≤ S) (hS : S < 2 ^ 41) :
    2 ^ 50 * ((phaseCycles S 1575420000).scaled 128 * (2 ^ 31 * 1000) - S * 1575420000 * 2 ^ 128) ≤ S * 1575420000 * 2 ^ 128 ∧
    -((S : Int) * 1575420000 * 2 ^ 128) ≤ 2 ^ 50 * ((phaseCycles S 1575420000).scaled 128 * (2 ^ 31 * 1000) - S * 1575420000 * 2 ^ 128) := by
  unfold phaseCycles
  have hw : wavelength 1575420000 = { m := 6856052111245433, e := -55 } := by decide +kernel
  obtain ⟨k1, Xm, hX, hXpos, a1, a2⟩ := lightms_core S (-31) hS1 hS
  rw [hX, hw]
  obtain ⟨k2, Cm, hC, b1, b2⟩ := div_core { m := Xm, e := -31 + -34 + k1 } { m := 6856052111245433, e := -55 } hXpos (by decide)
  have hbl : bitLen (6856052111245433 : Int).natAbs = 53 := by decide +kernel
  simp only [hbl] at hC b1 b2
  rw [hC]
  unfold Val.scaled
  simp only []
  have hexp : ((-31 + -34 + (k1 : Int) - -55 - ((64 + 53 : Nat) : Int) + (k2 : Int) + 128).toNat) = k2 + k1 + 1 := by omega
  rw [hexp, pow_split]
  have hP1 : (0 : Int) < 2 ^ k1 := Int.pow_pos (by omega)
  have c1 := Int.mul_le_mul_of_nonneg_right b1 (Int.le_of_lt hP1)
  have c2 := Int.mul_le_mul_of_nonneg_right b2 (Int.le_of_lt hP1)
  have e1 : 2 ^ 53 * (Cm * 2 ^ k2 * 6856052111245433 - Xm * 2 ^ (64 + 53)) * 2 ^ k1 =
      2 ^ 53 * ((Cm * 2 ^ k2 * 2 ^ k1) * 6856052111245433 - (Xm * 2 ^ k1) * 2 ^ (64 + 53)) := by
    rw [Int.mul_assoc, shuffle]
  have e2 : Xm * 2 ^ (64 + 53) * 2 ^ k1 = (Xm * 2 ^ k1) * 2 ^ (64 + 53) := Int.mul_right_comm _ _ _
  rw [e1, e2] at c1
  rw [e1, Int.neg_mul, e2] at c2
  generalize Cm * 2 ^ k2 * 2 ^ k1 = Y at c1 c2 ⊢
  generalize Xm * 2 ^ k1 = XP at a1 a2 c1 c2
  have hS0 : (1 : Int) ≤ S := by exact_mod_cast hS1
  constructor <;> omega

theorem cycles_1227600000 (S : Nat) (hS1 : 1 ≤ S) (hS : S < 2 ^ 41) :
    2 ^ 50 * ((phaseCycles S 1227600000).scaled 128 * (2 ^ 31 * 1000) - S * 1227600000 * 2 ^ 128) ≤ S * 1227600000 * 2 ^ 128 ∧
    -((S : Int) * 1227600000 * 2 ^ 128) ≤ 2 ^ 50 * ((phaseCycles S 1227600000).scaled 128 * (2 ^ 31 * 1000) - S * 1227600000 * 2 ^ 128) := by
  unfold phaseCycles
  have hw : wavelength 1227600000 = { m := 8798600209431639, e := -55 } := by decide +kernel
  obtain ⟨k1, Xm, hX, hXpos, a1, a2⟩ := lightms_core S (-31) hS1 hS
  rw [hX, hw]
  obtain ⟨k2, Cm, hC, b1, b2⟩ := div_core { m := Xm, e := -31 + -34 + k1 } { m := 8798600209431639, e := -55 } hXpos (by decide)
  have hbl : bitLen (8798600209431639 : Int).natAbs = 53 := by decide +kernel
  simp only [hbl] at hC b1 b2
  rw [hC]
  unfold Val.scaled
  simp only []
  have hexp : ((-31 + -34 + (k1 : Int) - -55 - ((64 + 53 : Nat) : Int) + (k2 : Int) + 128).toNat) = k2 + k1 + 1 := by omega
  rw [hexp, pow_split]
  have hP1 : (0 : Int) < 2 ^ k1 := Int.pow_pos (by omega)
  have c1 := Int.mul_le_mul_of_nonneg_right b1 (Int.le_of_lt hP1)
  have c2 := Int.mul_le_mul_of_nonneg_right b2 (Int.le_of_lt hP1)
  have e1 : 2 ^ 53 * (Cm * 2 ^ k2 * 8798600209431639 - Xm * 2 ^ (64 + 53)) * 2 ^ k1 =
      2 ^ 53 * ((Cm * 2 ^ k2 * 2 ^ k1) * 8798600209431639 - (Xm * 2 ^ k1) * 2 ^ (64 + 53)) := by
    rw [Int.mul_assoc, shuffle]
  have e2 : Xm * 2 ^ (64 + 53) * 2 ^ k1 = (Xm * 2 ^ k1) * 2 ^ (64 + 53) := Int.mul_right_comm _ _ _
  rw [e1, e2] at c1
  rw [e1, Int.neg_mul, e2] at c2
  generalize Cm * 2 ^ k2 * 2 ^ k1 = Y at c1 c2 ⊢
  generalize Xm * 2 ^ k1 = XP at a1 a2 c1 c2
  have hS0 : (1 : Int) ≤ S := by exact_mod_cast hS1
  constructor <;> omega

theorem cycles_1176450000 (S : Nat) (hS1 : 1 ≤ S) (hS : S < 2 ^ 41) :
    2 ^ 50 * ((phaseCycles S 1176450000).scaled 128 * (2 ^ 31 * 1000) - S * 1176450000 * 2 ^ 128) ≤ S * 1176450000 * 2 ^ 128 ∧
    -((S : Int) * 1176450000 * 2 ^ 128) ≤ 2 ^ 50 * ((phaseCycles S 1176450000).scaled 128 * (2 ^ 31 * 1000) - S * 1176450000 * 2 ^ 128) := by
  unfold phaseCycles
  have hw : wavelength 1176450000 = { m := 4590574022312160, e := -54 } := by decide +kernel
  obtain ⟨k1, Xm, hX, hXpos, a1, a2⟩ := lightms_core S (-31) hS1 hS
  rw [hX, hw]
  obtain ⟨k2, Cm, hC, b1, b2⟩ := div_core { m := Xm, e := -31 + -34 + k1 } { m := 4590574022312160, e := -54 } hXpos (by decide)
  have hbl : bitLen (4590574022312160 : Int).natAbs = 53 := by decide +kernel
  simp only [hbl] at hC b1 b2
  rw [hC]
  unfold Val.scaled
  simp only []
  have hexp : ((-31 + -34 + (k1 : Int) - -54 - ((64 + 53 : Nat) : Int) + (k2 : Int) + 128).toNat) = k2 + k1 + 0 := by omega
  rw [hexp, pow_split]
  have hP1 : (0 : Int) < 2 ^ k1 := Int.pow_pos (by omega)
  have c1 := Int.mul_le_mul_of_nonneg_right b1 (Int.le_of_lt hP1)
  have c2 := Int.mul_le_mul_of_nonneg_right b2 (Int.le_of_lt hP1)
  have e1 : 2 ^ 53 * (Cm * 2 ^ k2 * 4590574022312160 - Xm * 2 ^ (64 + 53)) * 2 ^ k1 =
      2 ^ 53 * ((Cm * 2 ^ k2 * 2 ^ k1) * 4590574022312160 - (Xm * 2 ^ k1) * 2 ^ (64 + 53)) := by
    rw [Int.mul_assoc, shuffle]
  have e2 : Xm * 2 ^ (64 + 53) * 2 ^ k1 = (Xm * 2 ^ k1) * 2 ^ (64 + 53) := Int.mul_right_comm _ _ _
  rw [e1, e2] at c1
  rw [e1, Int.neg_mul, e2] at c2
  generalize Cm * 2 ^ k2 * 2 ^ k1 = Y at c1 c2 ⊢
  generalize Xm * 2 ^ k1 = XP at a1 a2 c1 c2
  have hS0 : (1 : Int) ≤ S := by exact_mod_cast hS1
  constructor <;> omega

theorem cycles_1278750000 (S : Nat) (hS1 : 1 ≤ S) (hS : S < 2 ^ 41) :
    2 ^ 50 * ((phaseCycles S 1278750000).scaled 128 * (2 ^ 31 * 1000) - S * 1278750000 * 2 ^ 128) ≤ S * 1278750000 * 2 ^ 128 ∧
    -((S : Int) * 1278750000 * 2 ^ 128) ≤ 2 ^ 50 * ((phaseCycles S 1278750000).scaled 128 * (2 ^ 31 * 1000) - S * 1278750000 * 2 ^ 128) := by
  unfold phaseCycles
  have hw : wavelength 1278750000 = { m := 8446656201054374, e := -55 } := by decide +kernel
  obtain ⟨k1, Xm, hX, hXpos, a1, a2⟩ := lightms_core S (-31) hS1 hS
  rw [hX, hw]
  obtain ⟨k2, Cm, hC, b1, b2⟩ := div_core { m := Xm, e := -31 + -34 + k1 } { m := 8446656201054374, e := -55 } hXpos (by decide)
  have hbl : bitLen (8446656201054374 : Int).natAbs = 53 := by decide +kernel
  simp only [hbl] at hC b1 b2
  rw [hC]
  unfold Val.scaled
  simp only []
  have hexp : ((-31 + -34 + (k1 : Int) - -55 - ((64 + 53 : Nat) : Int) + (k2 : Int) + 128).toNat) = k2 + k1 + 1 := by omega
  rw [hexp, pow_split]
  have hP1 : (0 : Int) < 2 ^ k1 := Int.pow_pos (by omega)
  have c1 := Int.mul_le_mul_of_nonneg_right b1 (Int.le_of_lt hP1)
  have c2 := Int.mul_le_mul_of_nonneg_right b2 (Int.le_of_lt hP1)
  have e1 : 2 ^ 53 * (Cm * 2 ^ k2 * 8446656201054374 - Xm * 2 ^ (64 + 53)) * 2 ^ k1 =
      2 ^ 53 * ((Cm * 2 ^ k2 * 2 ^ k1) * 8446656201054374 - (Xm * 2 ^ k1) * 2 ^ (64 + 53)) := by
    rw [Int.mul_assoc, shuffle]
  have e2 : Xm * 2 ^ (64 + 53) * 2 ^ k1 = (Xm * 2 ^ k1) * 2 ^ (64 + 53) := Int.mul_right_comm _ _ _
  rw [e1, e2] at c1
  rw [e1, Int.neg_mul, e2] at c2
  generalize Cm * 2 ^ k2 * 2 ^ k1 = Y at c1 c2 ⊢
  generalize Xm * 2 ^ k1 = XP at a1 a2 c1 c2
  have hS0 : (1 : Int) ≤ S := by exact_mod_cast hS1
  constructor <;> omega

theorem cycles_1207140000 (S : Nat) (hS1 : 1 ≤ S) (hS : S < 2 ^ 41) :
    2 ^ 50 * ((phaseCycles S 1207140000).scaled 128 * (2 ^ 31 * 1000) - S * 1207140000 * 2 ^ 128) ≤ S * 1207140000 * 2 ^ 128 ∧
    -((S : Int) * 1207140000 * 2 ^ 128) ≤ 2 ^ 50 * ((phaseCycles S 1207140000).scaled 128 * (2 ^ 31 * 1000) - S * 1207140000 * 2 ^ 128) := by
  unfold phaseCycles
  have hw : wavelength 1207140000 = { m := 8947729026540650, e := -55 } := by decide +kernel
  obtain ⟨k1, Xm, hX, hXpos, a1, a2⟩ := lightms_core S (-31) hS1 hS
  rw [hX, hw]
  obtain ⟨k2, Cm, hC, b1, b2⟩ := div_core { m := Xm, e := -31 + -34 + k1 } { m := 8947729026540650, e := -55 } hXpos (by decide)
  have hbl : bitLen (8947729026540650 : Int).natAbs = 53 := by decide +kernel
  simp only [hbl] at hC b1 b2
  rw [hC]
  unfold Val.scaled
  simp only []
  have hexp : ((-31 + -34 + (k1 : Int) - -55 - ((64 + 53 : Nat) : Int) + (k2 : Int) + 128).toNat) = k2 + k1 + 1 := by omega
  rw [hexp, pow_split]
  have hP1 : (0 : Int) < 2 ^ k1 := Int.pow_pos (by omega)
  have c1 := Int.mul_le_mul_of_nonneg_right b1 (Int.le_of_lt hP1)
  have c2 := Int.mul_le_mul_of_nonneg_right b2 (Int.le_of_lt hP1)
  have e1 : 2 ^ 53 * (Cm * 2 ^ k2 * 8947729026540650 - Xm * 2 ^ (64 + 53)) * 2 ^ k1 =
      2 ^ 53 * ((Cm * 2 ^ k2 * 2 ^ k1) * 8947729026540650 - (Xm * 2 ^ k1) * 2 ^ (64 + 53)) := by
    rw [Int.mul_assoc, shuffle]
  have e2 : Xm * 2 ^ (64 + 53) * 2 ^ k1 = (Xm * 2 ^ k1) * 2 ^ (64 + 53) := Int.mul_right_comm _ _ _
  rw [e1, e2] at c1
  rw [e1, Int.neg_mul, e2] at c2
  generalize Cm * 2 ^ k2 * 2 ^ k1 = Y at c1 c2 ⊢
  generalize Xm * 2 ^ k1 = XP at a1 a2 c1 c2
  have hS0 : (1 : Int) ≤ S := by exact_mod_cast hS1
  constructor <;> omega

theorem cycles_1191795000 (S : Nat) (hS1 : 1 ≤ S) (hS : S < 2 ^ 41) :
    2 ^ 50 * ((phaseCycles S 1191795000).scaled 128 * (2 ^ 31 * 1000) - S * 1191795000 * 2 ^ 128) ≤ S * 1191795000 * 2 ^ 128 ∧
    -((S : Int) * 1191795000 * 2 ^ 128) ≤ 2 ^ 50 * ((phaseCycles S 1191795000).scaled 128 * (2 ^ 31 * 1000) - S * 1191795000 * 2 ^ 128) := by
  unfold phaseCycles
  have hw : wavelength 1191795000 = { m := 4531467919020587, e := -54 } := by decide +kernel
  obtain ⟨k1, Xm, hX, hXpos, a1, a2⟩ := lightms_core S (-31) hS1 hS
  rw [hX, hw]
  obtain ⟨k2, Cm, hC, b1, b2⟩ := div_core { m := Xm, e := -31 + -34 + k1 } { m := 4531467919020587, e := -54 } hXpos (by decide)
  have hbl : bitLen (4531467919020587 : Int).natAbs = 53 := by decide +kernel
  simp only [hbl] at hC b1 b2
  rw [hC]
  unfold Val.scaled
  simp only []
  have hexp : ((-31 + -34 + (k1 : Int) - -54 - ((64 + 53 : Nat) : Int) + (k2 : Int) + 128).toNat) = k2 + k1 + 0 := by omega
  rw [hexp, pow_split]
  have hP1 : (0 : Int) < 2 ^ k1 := Int.pow_pos (by omega)
  have c1 := Int.mul_le_mul_of_nonneg_right b1 (Int.le_of_lt hP1)
  have c2 := Int.mul_le_mul_of_nonneg_right b2 (Int.le_of_lt hP1)
  have e1 : 2 ^ 53 * (Cm * 2 ^ k2 * 4531467919020587 - Xm * 2 ^ (64 + 53)) * 2 ^ k1 =
      2 ^ 53 * ((Cm * 2 ^ k2 * 2 ^ k1) * 4531467919020587 - (Xm * 2 ^ k1) * 2 ^ (64 + 53)) := by
    rw [Int.mul_assoc, shuffle]
  have e2 : Xm * 2 ^ (64 + 53) * 2 ^ k1 = (Xm * 2 ^ k1) * 2 ^ (64 + 53) := Int.mul_right_comm _ _ _
  rw [e1, e2] at c1
  rw [e1, Int.neg_mul, e2] at c2
  generalize Cm * 2 ^ k2 * 2 ^ k1 = Y at c1 c2 ⊢
  generalize Xm * 2 ^ k1 = XP at a1 a2 c1 c2
  have hS0 : (1 : Int) ≤ S := by exact_mod_cast hS1
  constructor <;> omega

theorem cycles_1602000000 (S : Nat) (hS1 : 1 ≤ S) (hS : S < 2 ^ 41) :
    2 ^ 50 * ((phaseCycles S 1602000000).scaled 128 * (2 ^ 31 * 1000) - S * 1602000000 * 2 ^ 128) ≤ S * 1602000000 * 2 ^ 128 ∧
    -((S : Int) * 1602000000 * 2 ^ 128) ≤ 2 ^ 50 * ((phaseCycles S 1602000000).scaled 128 * (2 ^ 31 * 1000) - S * 1602000000 * 2 ^ 128) := by
  unfold phaseCycles
  have hw : wavelength 1602000000 = { m := 6742298138013908, e := -55 } := by decide +kernel
  obtain ⟨k1, Xm, hX, hXpos, a1, a2⟩ := lightms_core S (-31) hS1 hS
  rw [hX, hw]
  obtain ⟨k2, Cm, hC, b1, b2⟩ := div_core { m := Xm, e := -31 + -34 + k1 } { m := 6742298138013908, e := -55 } hXpos (by decide)
  have hbl : bitLen (6742298138013908 : Int).natAbs = 53 := by decide +kernel
  simp only [hbl] at hC b1 b2
  rw [hC]
  unfold Val.scaled
  simp only []
  have hexp : ((-31 + -34 + (k1 : Int) - -55 - ((64 + 53 : Nat) : Int) + (k2 : Int) + 128).toNat) = k2 + k1 + 1 := by omega
  rw [hexp, pow_split]
  have hP1 : (0 : Int) < 2 ^ k1 := Int.pow_pos (by omega)
  have c1 := Int.mul_le_mul_of_nonneg_right b1 (Int.le_of_lt hP1)
  have c2 := Int.mul_le_mul_of_nonneg_right b2 (Int.le_of_lt hP1)
  have e1 : 2 ^ 53 * (Cm * 2 ^ k2 * 6742298138013908 - Xm * 2 ^ (64 + 53)) * 2 ^ k1 =
      2 ^ 53 * ((Cm * 2 ^ k2 * 2 ^ k1) * 6742298138013908 - (Xm * 2 ^ k1) * 2 ^ (64 + 53)) := by
    rw [Int.mul_assoc, shuffle]
  have e2 : Xm * 2 ^ (64 + 53) * 2 ^ k1 = (Xm * 2 ^ k1) * 2 ^ (64 + 53) := Int.mul_right_comm _ _ _
  rw [e1, e2] at c1
  rw [e1, Int.neg_mul, e2] at c2
  generalize Cm * 2 ^ k2 * 2 ^ k1 = Y at c1 c2 ⊢
  generalize Xm * 2 ^ k1 = XP at a1 a2 c1 c2
  have hS0 : (1 : Int) ≤ S := by exact_mod_cast hS1
  constructor <;> omega

theorem cycles_1246000000 (S : Nat) (hS1 : 1 ≤ S) (hS : S < 2 ^ 41) :
    2 ^ 50 * ((phaseCycles S 1246000000).scaled 128 * (2 ^ 31 * 1000) - S * 1246000000 * 2 ^ 128) ≤ S * 1246000000 * 2 ^ 128 ∧
    -((S : Int) * 1246000000 * 2 ^ 128) ≤ 2 ^ 50 * ((phaseCycles S 1246000000).scaled 128 * (2 ^ 31 * 1000) - S * 1246000000 * 2 ^ 128) := by
  unfold phaseCycles
  have hw : wavelength 1246000000 = { m := 8668669034589310, e := -55 } := by decide +kernel
  obtain ⟨k1, Xm, hX, hXpos, a1, a2⟩ := lightms_core S (-31) hS1 hS
  rw [hX, hw]
  obtain ⟨k2, Cm, hC, b1, b2⟩ := div_core { m := Xm, e := -31 + -34 + k1 } { m := 8668669034589310, e := -55 } hXpos (by decide)
  have hbl : bitLen (8668669034589310 : Int).natAbs = 53 := by decide +kernel
  simp only [hbl] at hC b1 b2
  rw [hC]
  unfold Val.scaled
  simp only []
  have hexp : ((-31 + -34 + (k1 : Int) - -55 - ((64 + 53 : Nat) : Int) + (k2 : Int) + 128).toNat) = k2 + k1 + 1 := by omega
  rw [hexp, pow_split]
  have hP1 : (0 : Int) < 2 ^ k1 := Int.pow_pos (by omega)
  have c1 := Int.mul_le_mul_of_nonneg_right b1 (Int.le_of_lt hP1)
  have c2 := Int.mul_le_mul_of_nonneg_right b2 (Int.le_of_lt hP1)
  have e1 : 2 ^ 53 * (Cm * 2 ^ k2 * 8668669034589310 - Xm * 2 ^ (64 + 53)) * 2 ^ k1 =
      2 ^ 53 * ((Cm * 2 ^ k2 * 2 ^ k1) * 8668669034589310 - (Xm * 2 ^ k1) * 2 ^ (64 + 53)) := by
    rw [Int.mul_assoc, shuffle]
  have e2 : Xm * 2 ^ (64 + 53) * 2 ^ k1 = (Xm * 2 ^ k1) * 2 ^ (64 + 53) := Int.mul_right_comm _ _ _
  rw [e1, e2] at c1
  rw [e1, Int.neg_mul, e2] at c2
  generalize Cm * 2 ^ k2 * 2 ^ k1 = Y at c1 c2 ⊢
  generalize Xm * 2 ^ k1 = XP at a1 a2 c1 c2
  have hS0 : (1 : Int) ≤ S := by exact_mod_cast hS1
  constructor <;> omega

theorem cycles_1561098000 (S : Nat) (hS1 : 1 ≤ S) (hS : S < 2 ^ 41) :
    2 ^ 50 * ((phaseCycles S 1561098000).scaled 128 * (2 ^ 31 * 1000) - S * 1561098000 * 2 ^ 128) ≤ S * 1561098000 * 2 ^ 128 ∧
    -((S : Int) * 1561098000 * 2 ^ 128) ≤ 2 ^ 50 * ((phaseCycles S 1561098000).scaled 128 * (2 ^ 31 * 1000) - S * 1561098000 * 2 ^ 128) := by
  unfold phaseCycles
  have hw : wavelength 1561098000 = { m := 6918951671899061, e := -55 } := by decide +kernel
  obtain ⟨k1, Xm, hX, hXpos, a1, a2⟩ := lightms_core S (-31) hS1 hS
  rw [hX, hw]
  obtain ⟨k2, Cm, hC, b1, b2⟩ := div_core { m := Xm, e := -31 + -34 + k1 } { m := 6918951671899061, e := -55 } hXpos (by decide)
  have hbl : bitLen (6918951671899061 : Int).natAbs = 53 := by decide +kernel
  simp only [hbl] at hC b1 b2
  rw [hC]
  unfold Val.scaled
  simp only []
  have hexp : ((-31 + -34 + (k1 : Int) - -55 - ((64 + 53 : Nat) : Int) + (k2 : Int) + 128).toNat) = k2 + k1 + 1 := by omega
  rw [hexp, pow_split]
  have hP1 : (0 : Int) < 2 ^ k1 := Int.pow_pos (by omega)
  have c1 := Int.mul_le_mul_of_nonneg_right b1 (Int.le_of_lt hP1)
  have c2 := Int.mul_le_mul_of_nonneg_right b2 (Int.le_of_lt hP1)
  have e1 : 2 ^ 53 * (Cm * 2 ^ k2 * 6918951671899061 - Xm * 2 ^ (64 + 53)) * 2 ^ k1 =
      2 ^ 53 * ((Cm * 2 ^ k2 * 2 ^ k1) * 6918951671899061 - (Xm * 2 ^ k1) * 2 ^ (64 + 53)) := by
    rw [Int.mul_assoc, shuffle]
  have e2 : Xm * 2 ^ (64 + 53) * 2 ^ k1 = (Xm * 2 ^ k1) * 2 ^ (64 + 53) := Int.mul_right_comm _ _ _
  rw [e1, e2] at c1
  rw [e1, Int.neg_mul, e2] at c2
  generalize Cm * 2 ^ k2 * 2 ^ k1 = Y at c1 c2 ⊢
  generalize Xm * 2 ^ k1 = XP at a1 a2 c1 c2
  have hS0 : (1 : Int) ≤ S := by exact_mod_cast hS1
  constructor <;> omega

theorem cycles_1268520000 (S : Nat) (hS1 : 1 ≤ S) (hS : S < 2 ^ 41) :
    2 ^ 50 * ((phaseCycles S 1268520000).scaled 128 * (2 ^ 31 * 1000) - S * 1268520000 * 2 ^ 128) ≤ S * 1268520000 * 2 ^ 128 ∧
    -((S : Int) * 1268520000 * 2 ^ 128) ≤ 2 ^ 50 * ((phaseCycles S 1268520000).scaled 128 * (2 ^ 31 * 1000) - S * 1268520000 * 2 ^ 128) := by
  unfold phaseCycles
  have hw : wavelength 1268520000 = { m := 8514774396224167, e := -55 } := by decide +kernel
  obtain ⟨k1, Xm, hX, hXpos, a1, a2⟩ := lightms_core S (-31) hS1 hS
  rw [hX, hw]
  obtain ⟨k2, Cm, hC, b1, b2⟩ := div_core { m := Xm, e := -31 + -34 + k1 } { m := 8514774396224167, e := -55 } hXpos (by decide)
  have hbl : bitLen (8514774396224167 : Int).natAbs = 53 := by decide +kernel
  simp only [hbl] at hC b1 b2
  rw [hC]
  unfold Val.scaled
  simp only []
  have hexp : ((-31 + -34 + (k1 : Int) - -55 - ((64 + 53 : Nat) : Int) + (k2 : Int) + 128).toNat) = k2 + k1 + 1 := by omega
  rw [hexp, pow_split]
  have hP1 : (0 : Int) < 2 ^ k1 := Int.pow_pos (by omega)
  have c1 := Int.mul_le_mul_of_nonneg_right b1 (Int.le_of_lt hP1)
  have c2 := Int.mul_le_mul_of_nonneg_right b2 (Int.le_of_lt hP1)
  have e1 : 2 ^ 53 * (Cm * 2 ^ k2 * 8514774396224167 - Xm * 2 ^ (64 + 53)) * 2 ^ k1 =
      2 ^ 53 * ((Cm * 2 ^ k2 * 2 ^ k1) * 8514774396224167 - (Xm * 2 ^ k1) * 2 ^ (64 + 53)) := by
    rw [Int.mul_assoc, shuffle]
  have e2 : Xm * 2 ^ (64 + 53) * 2 ^ k1 = (Xm * 2 ^ k1) * 2 ^ (64 + 53) := Int.mul_right_comm _ _ _
  rw [e1, e2] at c1
  rw [e1, Int.neg_mul, e2] at c2
  generalize Cm * 2 ^ k2 * 2 ^ k1 = Y at c1 c2 ⊢
  generalize Xm * 2 ^ k1 = XP at a1 a2 c1 c2
  have hS0 : (1 : Int) ≤ S := by exact_mod_cast hS1
  constructor <;> omega

/-- The carrier frequencies (Hz) of the signal tables. -/
def carrierFrequencies : List Nat :=
  [1575420000, 1227600000, 1176450000, 1278750000, 1207140000, 1191795000, 1602000000, 1246000000, 1561098000, 1268520000]

/-- **Phase range in cycles, to within floating-point rounding**, for every carrier frequency of
    the tables and every aggregate phase range: within 2^-50 of `S · f / (2^31 · 1000)`
    (= `S/2^31` ms × 299792.458 m/ms ÷ (299792458 / f) m). -/
theorem cycles_accuracy (f : Nat) (hf : f ∈ carrierFrequencies) (S : Nat) (hS1 : 1 ≤ S) (hS : S < 2 ^ 41) :
    2 ^ 50 * ((phaseCycles S f).scaled 128 * (2 ^ 31 * 1000) - S * f * 2 ^ 128) ≤ S * f * 2 ^ 128 ∧
    -((S : Int) * f * 2 ^ 128) ≤ 2 ^ 50 * ((phaseCycles S f).scaled 128 * (2 ^ 31 * 1000) - S * f * 2 ^ 128) := by
  simp only [carrierFrequencies, List.mem_cons, List.not_mem_nil, or_false] at hf
  rcases hf with rfl | rfl | rfl | rfl | rfl | rfl | rfl | rfl | rfl | rfl
  · exact cycles_1575420000 S hS1 hS
  · exact cycles_1227600000 S hS1 hS
  · exact cycles_1176450000 S hS1 hS
  · exact cycles_1278750000 S hS1 hS
  · exact cycles_1207140000 S hS1 hS
  · exact cycles_1191795000 S hS1 hS
  · exact cycles_1602000000 S hS1 hS
  · exact cycles_1246000000 S hS1 hS
  · exact cycles_1561098000 S hS1 hS
  · exact cycles_1268520000 S hS1 hS

end Ntrip.F64
