import Ntrip.Model.Range
import Ntrip.Proofs.Bits
/-! Arithmetic of the scaled range values. -/
namespace Ntrip

theorem shl_or_disjoint (a b s1 s2 : Nat) (hb : b <<< s2 < 2^s1) : (a <<< s1) ||| (b <<< s2) = a * 2^s1 + b * 2^s2 := by
  rw [Nat.shiftLeft_eq, Nat.shiftLeft_eq] at *
  rw [Nat.mul_comm a]
  exact (Nat.two_pow_add_eq_or_of_lt hb a).symm

/-- The scaled value is the plain sum when nothing wraps. -/
theorem scaledValue_eq (v1 s1 v2 s2 : Nat) (delta : Int)
    (hdis : v2 <<< s2 < 2^s1) (hfit : v1 * 2^s1 + v2 * 2^s2 < 2^63)
    (hnn : 0 ≤ (v1 * 2^s1 + v2 * 2^s2 : Nat) + delta) (hlt : (v1 * 2^s1 + v2 * 2^s2 : Nat) + delta < 2^63) :
    (scaledValue v1 s1 v2 s2 delta : Int) = (v1 * 2^s1 + v2 * 2^s2 : Nat) + delta := by
  unfold scaledValue
  have h63 : (2:Nat)^63 < 2^64 := by decide
  have e1 : (v1 <<< s1) % 2^64 = v1 <<< s1 := by
    rw [Nat.shiftLeft_eq]; apply Nat.mod_eq_of_lt; omega
  have e2 : (v2 <<< s2) % 2^64 = v2 <<< s2 := by
    rw [Nat.shiftLeft_eq]; apply Nat.mod_eq_of_lt; omega
  simp only [e1, e2]
  rw [shl_or_disjoint v1 v2 s1 s2 hdis, Nat.mod_eq_of_lt (by omega), toI64_lo _ hfit]
  have h64 : (2:Int)^64 = 18446744073709551616 := by decide
  have h63' : (2:Int)^63 = 9223372036854775808 := by decide
  rw [h64]
  rw [h63'] at hlt
  rw [Int.toNat_of_nonneg (Int.emod_nonneg _ (by omega))]
  exact Int.emod_eq_of_lt hnn (by omega)
end Ntrip
