import Ntrip.Generated.Funcs
import Ntrip.Model.Range
import Ntrip.Model.Bits
/-!
The functions that the translator (`extract/translate.go`) regenerates from the source on every
run (`Generated/Funcs.lean`) are the hand-written model's functions: for these, the model is not
merely compared with the code, it is derived from it.
-/
namespace Ntrip

theorem go64_toI_eq (u : Nat) : Go64.toI u = toI64 u := rfl

theorem ofI_toI_ofI (y : Int) : Go64.ofI (Go64.toI (Go64.ofI y)) = Go64.ofI y := by
  unfold Go64.ofI Go64.toI
  have h0 : (0 : Int) ≤ y % 2 ^ 64 := Int.emod_nonneg _ (by decide)
  have h1 : y % 2 ^ 64 < 2 ^ 64 := Int.emod_lt_of_pos _ (by decide)
  split <;> omega

/-- The translated `getScaledValue` IS the model's `scaledValue`, for all arguments. -/
theorem translated_getScaledValue (v1 s1 v2 s2 : Nat) (delta : Int) :
    Gen.fn_utils_getScaledValue v1 s1 v2 s2 delta = scaledValue v1 s1 v2 s2 delta := by
  unfold Gen.fn_utils_getScaledValue scaledValue
  simp only [Go64.orU, Go64.shlU, Go64.addI, Go64.wrapI]
  have hor : ((v1 <<< s1) % 2 ^ 64 ||| (v2 <<< s2) % 2 ^ 64) % 2 ^ 64 = ((v1 <<< s1) % 2 ^ 64 ||| (v2 <<< s2) % 2 ^ 64) :=
    Nat.mod_eq_of_lt (Nat.or_lt_two_pow (Nat.mod_lt _ (by decide)) (Nat.mod_lt _ (by decide)))
  rw [hor, ofI_toI_ofI, go64_toI_eq]
  rfl

theorem translated_GetScaledRange (w f : Nat) (d : Int) :
    Gen.fn_utils_GetScaledRange w f d = scaledValue w 29 f 19 d := by
  unfold Gen.fn_utils_GetScaledRange; exact translated_getScaledValue _ _ _ _ _

theorem translated_GetScaledPhaseRange (w f : Nat) (d : Int) :
    Gen.fn_utils_GetScaledPhaseRange w f d = scaledValue w 31 f 21 d := by
  unfold Gen.fn_utils_GetScaledPhaseRange; exact translated_getScaledValue _ _ _ _ _

theorem wrapI_of_range (y : Int) (h : -(2 ^ 63 : Int) ≤ y ∧ y < 2 ^ 63) : Go64.wrapI y = y := by
  unfold Go64.wrapI Go64.ofI Go64.toI
  have h0 : (0 : Int) ≤ y % 2 ^ 64 := Int.emod_nonneg _ (by decide)
  have h1 : y % 2 ^ 64 < 2 ^ 64 := Int.emod_lt_of_pos _ (by decide)
  split <;> omega

/-- The translated rate aggregation is `rate · 10000 + delta` for all field values (no wrap). -/
theorem translated_GetScaledPhaseRangeRate (rate delta : Int)
    (hr : -(2 ^ 13 : Int) ≤ rate ∧ rate < 2 ^ 13) (hd : -(2 ^ 14 : Int) ≤ delta ∧ delta < 2 ^ 14) :
    Gen.fn_utils_GetScaledPhaseRangeRate rate delta = rate * 10000 + delta := by
  unfold Gen.fn_utils_GetScaledPhaseRangeRate
  simp only [Go64.mulI, Go64.addI]
  rw [wrapI_of_range (rate * 10000) (by omega), wrapI_of_range _ (by omega)]

theorem idx_map (buf : Bytes) (k : Nat) : Go64.idx (buf.map (·.toNat)) k = match buf[k]? with | some b => b.toNat | none => 0 := by
  unfold Go64.idx
  rw [List.getElem?_map]
  cases buf[k]? <;> rfl

theorem subU_small (r : Nat) (h : r ≤ 7) : Go64.subU 7 r = 7 - r := by
  unfold Go64.subU Go64.ofI
  omega

/-- The translated loop body of `GetBitsAsUint64` is the model's step. -/
theorem translated_bits_body (buf : Bytes) (pos len acc k : Nat) :
    Gen.fn_utils_GetBitsAsUint64_body (buf.map (·.toNat)) pos len (pos + k) acc = stepU buf pos acc k := by
  unfold Gen.fn_utils_GetBitsAsUint64_body stepU bitAt
  simp only [Go64.divU, Go64.modU, Go64.shrU, Go64.andU, Go64.orU, Go64.shlU]
  rw [idx_map, subU_small _ (by omega)]
  rw [Nat.or_mod_two_pow]
  cases buf[(pos + k) / 8]? with
  | none => simp
  | some b =>
    simp only [Nat.and_one_is_mod]
    have : (b.toNat >>> (7 - (pos + k) % 8)) % 2 % 2 ^ 64 = (b.toNat >>> (7 - (pos + k) % 8)) % 2 := by
      apply Nat.mod_eq_of_lt; omega
    rw [this]

theorem subU_len (len : Nat) (h2 : 2 ≤ len) (h : len < 2 ^ 64) : Go64.subU len 2 = len - 2 := by
  unfold Go64.subU Go64.ofI
  omega

/-- The translated two's-complement branch of `GetBitsAsInt64` is the model's, for every bit
    pattern and every length a `uint` can hold from 2 upwards. -/
theorem translated_neg_branch (uval len : Nat) (h2 : 2 ≤ len) (h : len < 2 ^ 64) :
    Gen.fn_utils_GetBitsAsInt64_neg uval len =
      wrapI64 (wrapI64 (-1 * toI64 (uval &&& ((2 <<< (len - 2)) % 2 ^ 64)))
        + toI64 (uval &&& notU64 ((2 <<< (len - 2)) % 2 ^ 64))) := by
  unfold Gen.fn_utils_GetBitsAsInt64_neg
  simp only [Go64.addI, Go64.mulI, Go64.andU, Go64.shlU, Go64.notU, subU_len len h2 h]
  rfl

/-- `GetBitsAsInt64` of the model, with its arithmetic branch replaced by the translated code. -/
theorem getBitsI_translated (buf : Bytes) (pos len : Nat) (h2 : 2 ≤ len) (h : len < 2 ^ 64) :
    getBitsI buf pos len =
      if getBitsU buf pos 1 == 1 then Gen.fn_utils_GetBitsAsInt64_neg (getBitsU buf pos len) len
      else toI64 (getBitsU buf pos len) := by
  rw [translated_neg_branch _ _ h2 h]
  unfold getBitsI
  simp only [h2, if_true]
  rfl

end Ntrip
