import Ntrip.Model.Report
/-! Sanitise removes all markup characters; filling clean holes keeps the template's markup count. -/
namespace Ntrip

theorem sanitise_no_lt : ∀ s : List Char, '<' ∉ sanitise s ∧ '>' ∉ sanitise s
  | [] => by simp [sanitise]
  | c :: rest => by
    obtain ⟨h1, h2⟩ := sanitise_no_lt rest
    unfold sanitise
    split
    · refine ⟨?_, ?_⟩ <;> simp [h1, h2]
    · split
      · refine ⟨?_, ?_⟩ <;> simp [h1, h2]
      · rename_i n1 n2
        refine ⟨?_, ?_⟩
        · simp only [List.mem_cons, not_or]; exact ⟨fun h => n1 h.symm, h1⟩
        · simp only [List.mem_cons, not_or]; exact ⟨fun h => n2 h.symm, h2⟩

theorem countC_append (c : Char) (a b : List Char) : countC c (a ++ b) = countC c a + countC c b := by
  simp [countC, List.filter_append]

theorem countC_zero_of_not_mem (c : Char) (s : List Char) (h : c ∉ s) : countC c s = 0 := by
  unfold countC
  rw [List.length_eq_zero_iff, List.filter_eq_nil_iff]
  intro a ha hac
  have : a = c := by simpa using hac
  rw [this] at ha
  exact h ha

/-- Filling holes that contain no occurrence of `c` leaves the number of `c` in the page equal
    to that in the template. -/
theorem countC_fill (c : Char) : ∀ (parts holes : List (List Char)), (∀ h ∈ holes, c ∉ h) →
    countC c (fill parts holes) = (parts.map (countC c)).sum
  | [], _, _ => by simp [fill, countC]
  | [p], _, _ => by simp [fill]
  | p :: q :: ps, h :: hs, hh => by
    simp only [fill, countC_append, List.map_cons, List.sum_cons]
    rw [countC_fill c (q :: ps) hs (fun x hx => hh x (List.mem_cons_of_mem _ hx)),
      countC_zero_of_not_mem c h (hh h (List.mem_cons_self ..))]
    simp
  | p :: q :: ps, [], hh => by
    simp only [fill, countC_append, List.map_cons, List.sum_cons]
    rw [countC_fill c (q :: ps) [] (by simp)]
    simp

theorem messageDisplay_no_markup (texts : List (List Char)) :
    '<' ∉ messageDisplay texts ∧ '>' ∉ messageDisplay texts := by
  unfold messageDisplay
  have hhead : '<' ∉ "\nMessages\n\n".toList ∧ '>' ∉ "\nMessages\n\n".toList := by decide
  constructor
  · simp only [List.mem_append, List.mem_flatten, List.mem_map, not_or, not_exists, not_and]
    refine ⟨hhead.1, ?_⟩
    intro l ⟨t, _, hl⟩ hmem
    subst hl
    simp [(sanitise_no_lt t).1] at hmem
  · simp only [List.mem_append, List.mem_flatten, List.mem_map, not_or, not_exists, not_and]
    refine ⟨hhead.2, ?_⟩
    intro l ⟨t, _, hl⟩ hmem
    subst hl
    simp [(sanitise_no_lt t).2] at hmem
end Ntrip
