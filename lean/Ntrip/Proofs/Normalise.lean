import Ntrip.Proofs.Recognise
/-! Merging adjacent runs of other data; C03/C12 for arbitrary segment lists. -/
namespace Ntrip

/-- Merge adjacent runs of other data. -/
def normalise : List Seg → List Seg
  | [] => []
  | [s] => [s]
  | a :: b :: rest =>
    match a, b with
    | .junk x, .junk y => normalise (.junk (x ++ y) :: rest)
    | _, _ => a :: normalise (b :: rest)
termination_by l => l.length

theorem normalise_jj (x y : Bytes) (rest : List Seg) :
    normalise (.junk x :: .junk y :: rest) = normalise (.junk (x ++ y) :: rest) := by
  rw [normalise]

theorem normalise_other (a b : Seg) (rest : List Seg) (h : ¬ (a.isJunk = true ∧ b.isJunk = true)) :
    normalise (a :: b :: rest) = a :: normalise (b :: rest) := by
  cases a <;> cases b
  case junk.junk => simp [Seg.isJunk] at h
  all_goals (rw [normalise]; try (intro x y h1 h2; simp at h1 h2))

theorem seg_cases (a b : Seg) : (∃ x y, a = .junk x ∧ b = .junk y) ∨ ¬ (a.isJunk = true ∧ b.isJunk = true) := by
  cases a <;> cases b <;> simp [Seg.isJunk]

theorem normalise_stream (tail : Bytes) : ∀ (n : Nat) (segs : List Seg), segs.length = n →
    streamOf (normalise segs) tail = streamOf segs tail := by
  intro n
  induction n using Nat.strongRecOn with
  | _ n ih =>
    intro segs hn
    match segs with
    | [] => simp [normalise]
    | [s] => simp [normalise]
    | a :: b :: rest =>
      rcases seg_cases a b with ⟨x, y, rfl, rfl⟩ | hno
      · rw [normalise_jj, ih _ (by simp at hn ⊢; omega) _ rfl]
        simp [streamOf, Seg.bytes]
      · rw [normalise_other _ _ _ hno]
        have := ih (b :: rest).length (by simp at hn ⊢; omega) (b :: rest) rfl
        simp only [streamOf, List.map_cons, List.flatten_cons, List.append_assoc] at this ⊢
        rw [this]

theorem normalise_wf (crc : Bytes → Nat) : ∀ (n : Nat) (segs : List Seg), segs.length = n →
    (∀ s ∈ segs, s.WF crc) → ∀ s ∈ normalise segs, s.WF crc := by
  intro n
  induction n using Nat.strongRecOn with
  | _ n ih =>
    intro segs hn hwf
    match segs with
    | [] => simp [normalise]
    | [s] => simpa [normalise] using hwf
    | a :: b :: rest =>
      rcases seg_cases a b with ⟨x, y, rfl, rfl⟩ | hno
      · rw [normalise_jj]
        apply ih _ (by simp at hn ⊢; omega) _ rfl
        intro s hs
        simp only [List.mem_cons] at hs
        rcases hs with rfl | hs
        · obtain ⟨hx1, hx2⟩ : x ≠ [] ∧ (0xD3 : UInt8) ∉ x := hwf (.junk x) (by simp)
          obtain ⟨hy1, hy2⟩ : y ≠ [] ∧ (0xD3 : UInt8) ∉ y := hwf (.junk y) (by simp)
          exact ⟨by simp [hx1], by simp [hx2, hy2]⟩
        · exact hwf s (by simp [hs])
      · rw [normalise_other _ _ _ hno]
        intro s hs
        simp only [List.mem_cons] at hs
        rcases hs with rfl | hs
        · exact hwf _ (by simp)
        · exact ih (b :: rest).length (by simp at hn ⊢; omega) (b :: rest) rfl
            (fun s hs => hwf s (List.mem_cons_of_mem _ hs)) s hs

theorem normalise_head_junk : ∀ (n : Nat) (segs : List Seg), segs.length = n →
    ∀ h t, normalise segs = h :: t → h.isJunk = true → ∃ h' t', segs = h' :: t' ∧ h'.isJunk = true := by
  intro n
  induction n using Nat.strongRecOn with
  | _ n ih =>
    intro segs hn h t hnorm hj
    match segs with
    | [] => simp [normalise] at hnorm
    | [s] => simp [normalise] at hnorm; exact ⟨s, [], rfl, by rw [hnorm.1]; exact hj⟩
    | a :: b :: rest =>
      rcases seg_cases a b with ⟨x, y, rfl, rfl⟩ | hno
      · exact ⟨_, _, rfl, rfl⟩
      · rw [normalise_other _ _ _ hno] at hnorm
        simp only [List.cons.injEq] at hnorm
        exact ⟨a, _, rfl, by rw [hnorm.1]; exact hj⟩

theorem normalise_noAdjacent : ∀ (n : Nat) (segs : List Seg), segs.length = n →
    NoAdjacentJunk (normalise segs) := by
  intro n
  induction n using Nat.strongRecOn with
  | _ n ih =>
    intro segs hn
    match segs with
    | [] => simp [normalise, NoAdjacentJunk]
    | [s] => simp [normalise, NoAdjacentJunk]
    | a :: b :: rest =>
      rcases seg_cases a b with ⟨x, y, rfl, rfl⟩ | hno
      · rw [normalise_jj]; exact ih _ (by simp at hn ⊢; omega) _ rfl
      · rw [normalise_other _ _ _ hno]
        have ihb := ih (b :: rest).length (by simp at hn ⊢; omega) (b :: rest) rfl
        cases hnb : normalise (b :: rest) with
        | nil => simp [NoAdjacentJunk]
        | cons h t =>
          rw [hnb] at ihb
          refine ⟨?_, ihb⟩
          rintro ⟨ha, hh⟩
          obtain ⟨h', t', e, hj'⟩ := normalise_head_junk _ (b :: rest) rfl h t hnb hh
          simp only [List.cons.injEq] at e
          obtain ⟨rfl, _⟩ := e
          exact hno ⟨ha, hj'⟩

/-- C03 + C12 for an arbitrary (not necessarily merged) segment list. -/
theorem segmentS_recognises' (crc : Bytes → Nat) (tail : Bytes) (htail : TruncTail crc tail)
    (segs : List Seg) (hwf : ∀ s ∈ segs, s.WF crc) :
    segmentS crc (streamOf segs tail) = (normalise segs).map Seg.expected ++ expectedTail tail := by
  rw [← normalise_stream tail _ segs rfl]
  exact segmentS_recognises crc tail htail _ (normalise_wf crc _ segs rfl hwf) (normalise_noAdjacent _ segs rfl)
end Ntrip
