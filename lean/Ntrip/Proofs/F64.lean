import Ntrip.Model.F64
/-!
Rounding lemmas for the binary64 model and the exactness of the four-decimal display of a
scaled integer (`float64(n) * 0.0001` printed with `%.4f`).
-/
namespace Ntrip.F64

theorem rhe_err (m p : Int) (hp : 0 < p) :
    2 * (rhe m p * p - m) ≤ p ∧ -p ≤ 2 * (rhe m p * p - m) := by
  have h1 := Int.emod_add_mul_ediv m p
  have h2 := Int.emod_nonneg m (Int.ne_of_gt hp)
  have h3 := Int.emod_lt_of_pos m hp
  have hc : (m / p + 1) * p = p * (m / p) + p := by rw [Int.add_mul, Int.one_mul, Int.mul_comm]
  have hc0 : (m / p) * p = p * (m / p) := Int.mul_comm _ _
  unfold rhe
  split
  · rw [hc0]; omega
  · split
    · rw [hc]; omega
    · split
      · rw [hc0]; omega
      · rw [hc]; omega

/-- An integer within less than half a unit of `m / p` is what `rhe` returns. -/
theorem rhe_unique (m p N : Int) (hp : 0 < p) (h1 : 2 * (m - N * p) < p) (h2 : -p < 2 * (m - N * p)) :
    rhe m p = N := by
  have e1 := Int.emod_add_mul_ediv m p
  have e2 := Int.emod_nonneg m (Int.ne_of_gt hp)
  have e3 := Int.emod_lt_of_pos m hp
  have hNp : N * p = p * N := Int.mul_comm _ _
  rw [hNp] at h1 h2
  -- q = m / p is N or N - 1
  have hq : m / p = N ∨ m / p = N - 1 := by
    rcases Int.lt_trichotomy (m / p) N with hlt | heq | hgt
    · right
      by_cases h : m / p = N - 1
      · exact h
      · exfalso
        have : m / p ≤ N - 2 := by omega
        have := Int.mul_le_mul_of_nonneg_left this (Int.le_of_lt hp)
        rw [Int.mul_sub] at this
        omega
    · left; exact heq
    · exfalso
      have : N + 1 ≤ m / p := by omega
      have := Int.mul_le_mul_of_nonneg_left this (Int.le_of_lt hp)
      rw [Int.mul_add, Int.mul_one] at this
      omega
  unfold rhe
  rcases hq with hq | hq
  · rw [hq] at e1 ⊢
    have : 2 * (m % p) < p := by omega
    rw [if_pos this]
  · rw [hq] at e1 ⊢
    rw [Int.mul_sub, Int.mul_one] at e1
    have h3 : ¬ 2 * (m % p) < p := by omega
    have h4 : p < 2 * (m % p) := by omega
    rw [if_neg h3, if_pos h4]; omega

theorem rhe_one (m : Int) : rhe m 1 = m := by
  apply rhe_unique <;> omega

theorem bitLen_le {a b : Nat} (h : a < 2 ^ b) : bitLen a ≤ b := by
  unfold bitLen
  split
  · omega
  · rename_i h0
    have := (Nat.log2_lt h0).mpr h
    omega

/-- Integers of at most 53 bits convert exactly. -/
theorem ofInt_exact (n : Int) (h : n.natAbs < 2 ^ 53) : ofInt n = { m := n, e := 0 } := by
  have hb := bitLen_le h
  unfold ofInt round53
  have hk : bitLen n.natAbs - 53 = 0 := by omega
  simp only [hk, Int.pow_zero, rhe_one]
  rfl

end Ntrip.F64

namespace Ntrip.F64

theorem natAbs_mul_lt {n c : Int} {B : Nat} (hn : n.natAbs < B) (hc : 0 < c.natAbs) : (n * c).natAbs < B * c.natAbs := by
  rw [Int.natAbs_mul]
  exact Nat.mul_lt_mul_of_pos_right hn hc

theorem two_pow_le {k b : Nat} (h : k ≤ b) : (2 : Int) ^ k ≤ 2 ^ b := by
  have := Nat.pow_le_pow_right (by omega : 0 < 2) h
  exact_mod_cast this

/-- **Display exactness.**  For every integer `n` of at most 38 bits (signed), the binary64
    product `float64(n) * 0.0001`, printed with `%.4f`, is exactly `n` units of 0.0001: both
    roundings (of the constant 0.0001 and of the product) together move the value by less than
    2^-29, far below the 0.00005 that would change the fourth decimal. -/
theorem scaled_display_exact (n : Int) (h : n.natAbs < 2 ^ 38) :
    fixed4 (mul (ofInt n) c0001) = n := by
  have hof : ofInt n = { m := n, e := 0 } :=
    ofInt_exact n (Nat.lt_of_lt_of_le h (Nat.pow_le_pow_right (by omega) (by omega)))
  rw [hof]
  unfold mul round53 c0001
  simp only []
  -- M = n * C, k = bitLen |M| - 53 ≤ 38
  generalize hk : bitLen (n * 7378697629483821).natAbs - 53 = k
  have hkb : k ≤ 38 := by
    have h1 : (n * 7378697629483821).natAbs < 2 ^ 38 * (7378697629483821 : Int).natAbs := natAbs_mul_lt h (by decide)
    have h2 : (2 : Nat) ^ 38 * (7378697629483821 : Int).natAbs < 2 ^ 91 := by decide
    have := bitLen_le (Nat.lt_trans h1 h2)
    omega
  -- P = 2^k, Q = 2^(66-k), P*Q = 2^66
  have hP : (0 : Int) < 2 ^ k := Int.pow_pos (by omega)
  have hPle : (2 : Int) ^ k ≤ 2 ^ 38 := two_pow_le hkb
  have hPQ : (2 : Int) ^ (66 - k) * 2 ^ k = 2 ^ 66 := by
    rw [← Int.pow_add]; congr 1; omega
  have hQ : (0 : Int) < 2 ^ (66 - k) := Int.pow_pos (by omega)
  obtain ⟨r1, r2⟩ := rhe_err (n * 7378697629483821) (2 ^ k) hP
  generalize rhe (n * 7378697629483821) (2 ^ k) = X at r1 r2 ⊢
  unfold fixed4
  have hneg : ¬ (0 : Int) ≤ (0 + -66 + (k : Int)) := by omega
  simp only []
  rw [if_neg hneg]
  have hexp : (-(0 + -66 + (k : Int))).toNat = 66 - k := by omega
  rw [hexp]
  have hnb : -(2 : Int) ^ 38 < n ∧ n < 2 ^ 38 := by
    have : (n.natAbs : Int) < 2 ^ 38 := by exact_mod_cast h
    omega
  -- D = X*10000 - n*Q; D*P = 10000*(X*P - M) + 3536*n
  have hDP : (X * 10000 - n * 2 ^ (66 - k)) * 2 ^ k = 10000 * (X * 2 ^ k - n * 7378697629483821) + 3536 * n := by
    rw [Int.sub_mul, Int.mul_assoc n, hPQ, Int.mul_assoc X, Int.mul_comm 10000, ← Int.mul_assoc X]
    omega
  apply rhe_unique _ _ _ hQ
  · -- 2 * D < Q
    apply Int.lt_of_not_ge
    intro hge
    have := Int.mul_le_mul_of_nonneg_right hge (Int.le_of_lt hP)
    rw [hPQ, Int.mul_assoc 2, hDP] at this
    omega
  · apply Int.lt_of_not_ge
    intro hge
    have hge' : (2 : Int) ^ (66 - k) ≤ -(2 * (X * 10000 - n * 2 ^ (66 - k))) := by omega
    have := Int.mul_le_mul_of_nonneg_right hge' (Int.le_of_lt hP)
    rw [hPQ, Int.neg_mul, Int.mul_assoc 2, hDP] at this
    omega

end Ntrip.F64

namespace Ntrip.F64

theorem le_of_bitLen {a : Nat} (h : 1 ≤ bitLen a) : 2 ^ (bitLen a - 1) ≤ a := by
  unfold bitLen at h ⊢
  split at h
  · omega
  · rename_i h0
    rw [if_neg h0]
    simpa using Nat.log2_self_le h0

/-- **Rounding to 53 bits is accurate to half a unit in the last place**: the rounded value
    differs from the exact one by at most `2^-53` of its magnitude. -/
theorem round53_err (A : Int) :
    2 ^ 53 * (rhe A (2 ^ (bitLen A.natAbs - 53)) * 2 ^ (bitLen A.natAbs - 53) - A) ≤ (A.natAbs : Int) ∧
    -(A.natAbs : Int) ≤ 2 ^ 53 * (rhe A (2 ^ (bitLen A.natAbs - 53)) * 2 ^ (bitLen A.natAbs - 53) - A) := by
  generalize hk : bitLen A.natAbs - 53 = k
  by_cases h0 : k = 0
  · subst h0
    simp only [Int.pow_zero, rhe_one, Int.mul_one, Int.sub_self, Int.mul_zero]
    omega
  · have hP : (0 : Int) < 2 ^ k := Int.pow_pos (by omega)
    obtain ⟨r1, r2⟩ := rhe_err A (2 ^ k) hP
    have hb : 1 ≤ bitLen A.natAbs := by omega
    have hlow := le_of_bitLen hb
    have hsplit : bitLen A.natAbs - 1 = 52 + k := by omega
    rw [hsplit, Nat.pow_add] at hlow
    have hlow' : (2 : Int) ^ 52 * 2 ^ k ≤ (A.natAbs : Int) := by exact_mod_cast hlow
    generalize rhe A (2 ^ k) * 2 ^ k = XP at r1 r2 ⊢
    generalize (2 : Int) ^ k = P at hP r1 r2 hlow'
    omega

end Ntrip.F64

namespace Ntrip.F64

/-- **Range in metres is accurate to two units in the last place.**  For every aggregate
    (scaled) range `S`, the binary64 computation `float64(S) / 2^29 * OneLightMillisecond` — an
    exact conversion, an exact division by a power of two, the constant 299792.458 rounded to
    binary64 and one rounded multiplication — differs from the formula `S / 2^29 × 299792.458`
    by at most `2^-51` of its value.  (Both sides are multiplied by `1000 · 2^63` to state this
    over the integers.) -/
theorem range_metres_accuracy (S : Nat) (hS : S < 2 ^ 41) :
    let R := mul (scale2 (ofInt S) (-29)) cLightMs
    2 ^ 51 * (1000 * R.scaled 63 - S * 299792458 * 2 ^ 34) ≤ S * 299792458 * 2 ^ 34 ∧
    -((S : Int) * 299792458 * 2 ^ 34) ≤ 2 ^ 51 * (1000 * R.scaled 63 - S * 299792458 * 2 ^ 34) := by
  intro R
  have hof : ofInt (S : Int) = { m := S, e := 0 } :=
    ofInt_exact S (by rw [Int.natAbs_natCast]; exact Nat.lt_of_lt_of_le hS (Nat.pow_le_pow_right (by omega) (by omega)))
  have hR : R = round53 { m := (S : Int) * 5150395210789814, e := -29 + -34 } := by
    show mul (scale2 (ofInt S) (-29)) cLightMs = _
    rw [hof]; rfl
  obtain ⟨r1, r2⟩ := round53_err ((S : Int) * 5150395210789814)
  have hA : (((S : Int) * 5150395210789814).natAbs : Int) = (S : Int) * 5150395210789814 := by
    rw [Int.natAbs_mul]; simp
  rw [hA] at r1 r2
  have hscaled : R.scaled 63 = rhe ((S : Int) * 5150395210789814) (2 ^ (bitLen ((S : Int) * 5150395210789814).natAbs - 53)) *
      2 ^ (bitLen ((S : Int) * 5150395210789814).natAbs - 53) := by
    rw [hR]; unfold round53 Val.scaled
    simp only []
    congr 2
    omega
  rw [hscaled]
  generalize rhe ((S : Int) * 5150395210789814) (2 ^ (bitLen ((S : Int) * 5150395210789814).natAbs - 53)) *
      2 ^ (bitLen ((S : Int) * 5150395210789814).natAbs - 53) = XP at r1 r2 ⊢
  have hS0 : (0 : Int) ≤ S := Int.natCast_nonneg S
  constructor <;> omega

end Ntrip.F64

namespace Ntrip.F64

/-- **The phase range rate in m/s is correctly rounded**: `float64(A) / 10000` differs from the
    exact quotient `A / 10000` by at most `2^-53` of its magnitude (stated ×10000·2^78 over the integers). -/
theorem rate_accuracy (A : Int) (hA : A.natAbs < 2 ^ 53) :
    let R := divConst (ofInt A) 10000
    2 ^ 53 * (10000 * R.scaled 78 - A * 2 ^ 78) ≤ (A.natAbs : Int) * 2 ^ 78 ∧
    -((A.natAbs : Int) * 2 ^ 78) ≤ 2 ^ 53 * (10000 * R.scaled 78 - A * 2 ^ 78) := by
  intro R
  have hof : ofInt A = { m := A, e := 0 } := ofInt_exact A hA
  by_cases h0 : A = 0
  · subst h0
    have : R = { m := 0, e := 0 } := by
      show divConst (ofInt 0) 10000 = _
      rw [hof]; rfl
    rw [this]
    simp [Val.scaled]
  · have hbl : bitLen 10000 = 14 := by decide
    -- the scaled numerator and its quotient
    generalize hk : bitLen ((A * 2 ^ 78).natAbs / 10000) - 53 = k
    have hR : R = { m := rhe (A * 2 ^ 78) ((10000 : Int) * 2 ^ k), e := 0 - (78 : Nat) + k } := by
      show divConst (ofInt A) 10000 = _
      rw [hof]
      unfold divConst
      simp only [if_neg h0, hbl]
      rw [show (64 + 14 : Nat) = 78 by rfl, hk]
      rfl
    have hscaled : R.scaled 78 = rhe (A * 2 ^ 78) ((10000 : Int) * 2 ^ k) * 2 ^ k := by
      rw [hR]; unfold Val.scaled
      simp only []
      congr 2
      omega
    rw [hscaled]
    have hP : (0 : Int) < 2 ^ k := Int.pow_pos (by omega)
    have hp : (0 : Int) < 10000 * 2 ^ k := by omega
    obtain ⟨r1, r2⟩ := rhe_err (A * 2 ^ 78) (10000 * 2 ^ k) hp
    -- the quotient has at least 64 bits, so k ≥ 11 and 2^(52+k) ≤ q
    have hApos : 1 ≤ A.natAbs := by omega
    have hN : (A * 2 ^ 78).natAbs = A.natAbs * 2 ^ 78 := by
      rw [Int.natAbs_mul]; rfl
    have hq : 2 ^ 64 ≤ (A * 2 ^ 78).natAbs / 10000 := by
      rw [hN, Nat.le_div_iff_mul_le (by omega)]
      have : 2 ^ 64 * 10000 ≤ 1 * 2 ^ 78 := by decide
      exact Nat.le_trans this (Nat.mul_le_mul_right _ hApos)
    have hbq : 65 ≤ bitLen ((A * 2 ^ 78).natAbs / 10000) := by
      apply Nat.le_of_not_lt
      intro hlt
      have : (A * 2 ^ 78).natAbs / 10000 < 2 ^ 64 := by
        have h1 : bitLen ((A * 2 ^ 78).natAbs / 10000) ≤ 64 := by omega
        unfold bitLen at h1
        split at h1
        · omega
        · rename_i hne
          exact (Nat.log2_lt hne).mp (by omega)
      omega
    have hlow := le_of_bitLen (a := (A * 2 ^ 78).natAbs / 10000) (by omega)
    have hsplit : bitLen ((A * 2 ^ 78).natAbs / 10000) - 1 = 52 + k := by omega
    rw [hsplit, Nat.pow_add] at hlow
    have hqd := Nat.div_mul_le_self (A * 2 ^ 78).natAbs 10000
    have hlow2 : 2 ^ 52 * 2 ^ k * 10000 ≤ (A * 2 ^ 78).natAbs := Nat.le_trans (Nat.mul_le_mul_right _ hlow) hqd
    rw [hN] at hlow2
    have hlow3 : (2 : Int) ^ 52 * 2 ^ k * 10000 ≤ (A.natAbs : Int) * 2 ^ 78 := by
      have h' := Int.ofNat_le.mpr hlow2
      simp only [Int.natCast_mul, Int.natCast_pow] at h'
      exact h'
    have hmul : rhe (A * 2 ^ 78) (10000 * 2 ^ k) * (10000 * 2 ^ k) = 10000 * (rhe (A * 2 ^ 78) (10000 * 2 ^ k) * 2 ^ k) := by
      rw [← Int.mul_assoc, Int.mul_comm _ 10000, Int.mul_assoc]
    rw [hmul] at r1 r2
    generalize rhe (A * 2 ^ 78) (10000 * 2 ^ k) * 2 ^ k = XP at r1 r2 ⊢
    generalize (2 : Int) ^ k = P at hP hp r1 r2 hlow3
    constructor <;> omega

end Ntrip.F64

namespace Ntrip.F64

theorem lt_pow_bitLen (a : Nat) : a < 2 ^ bitLen a := by
  unfold bitLen
  split
  · rename_i h; subst h; decide
  · rename_i h; exact Nat.lt_log2_self

theorem bitLen_ge {a b : Nat} (h : 2 ^ b ≤ a) : b + 1 ≤ bitLen a := by
  apply Nat.le_of_not_lt
  intro hlt
  have h1 : bitLen a ≤ b := by omega
  have h2 := lt_pow_bitLen a
  have h3 : 2 ^ bitLen a ≤ 2 ^ b := Nat.pow_le_pow_right (by omega) h1
  omega

/-- **Division is correctly rounded.**  For a non-zero dividend mantissa `am` and a positive divisor
    mantissa `d`, the quotient mantissa `Z·2^-k` chosen by `divVal` satisfies
    `|Z·d − am·2^s| ≤ 2^-53 · |am|·2^s` (with `s = 64 + bitLen d`, `Z` already multiplied by `2^k`). -/
theorem div_err (am : Int) (d : Nat) (ha : am ≠ 0) (hd : 0 < d) :
    let s := 64 + bitLen d
    let n := am * 2 ^ s
    let k := bitLen (n.natAbs / d) - 53
    let Z := rhe n ((d : Int) * 2 ^ k) * 2 ^ k
    2 ^ 53 * (Z * d - n) ≤ (n.natAbs : Int) ∧ -(n.natAbs : Int) ≤ 2 ^ 53 * (Z * d - n) := by
  intro s n k Z
  have hP : (0 : Int) < 2 ^ k := Int.pow_pos (by omega)
  have hD : (0 : Int) < (d : Int) := by exact_mod_cast hd
  have hp : (0 : Int) < (d : Int) * 2 ^ k := Int.mul_pos hD hP
  obtain ⟨r1, r2⟩ := rhe_err n ((d : Int) * 2 ^ k) hp
  -- |n| ≥ 2^64 * d
  have hApos : 1 ≤ am.natAbs := by omega
  have hN : n.natAbs = am.natAbs * 2 ^ s := by
    show (am * 2 ^ s).natAbs = _
    rw [Int.natAbs_mul, Int.natAbs_pow]; rfl
  have hdlt := lt_pow_bitLen d
  have hq : 2 ^ 64 ≤ n.natAbs / d := by
    rw [hN, Nat.le_div_iff_mul_le hd]
    have h1 : 2 ^ 64 * d ≤ 2 ^ 64 * 2 ^ bitLen d := Nat.mul_le_mul_left _ (Nat.le_of_lt hdlt)
    have h2 : 2 ^ 64 * 2 ^ bitLen d = 2 ^ s := by rw [← Nat.pow_add]
    have h3 : 2 ^ s ≤ am.natAbs * 2 ^ s := Nat.le_mul_of_pos_left _ hApos
    omega
  have hbq : 65 ≤ bitLen (n.natAbs / d) := bitLen_ge hq
  have hlow := le_of_bitLen (a := n.natAbs / d) (by omega)
  have hsplit : bitLen (n.natAbs / d) - 1 = 52 + k := by show _ = 52 + (bitLen (n.natAbs / d) - 53); omega
  rw [hsplit, Nat.pow_add] at hlow
  have hqd := Nat.div_mul_le_self n.natAbs d
  have hlow2 : 2 ^ 52 * 2 ^ k * d ≤ n.natAbs := Nat.le_trans (Nat.mul_le_mul_right _ hlow) hqd
  have hlow3 : (2 : Int) ^ 52 * ((d : Int) * 2 ^ k) ≤ (n.natAbs : Int) := by
    have h' := Int.ofNat_le.mpr hlow2
    simp only [Int.natCast_mul, Int.natCast_pow] at h'
    have e : (2 : Int) ^ 52 * ((d : Int) * 2 ^ k) = ((2 : Nat) : Int) ^ 52 * ((2 : Nat) : Int) ^ k * (d : Int) := by
      rw [Int.mul_comm (d : Int), Int.mul_assoc]; rfl
    rw [e]; exact h'
  have hmul : rhe n ((d : Int) * 2 ^ k) * ((d : Int) * 2 ^ k) = Z * d := by
    show _ = rhe n ((d : Int) * 2 ^ k) * 2 ^ k * (d : Int)
    rw [Int.mul_assoc, Int.mul_comm (d : Int)]
  rw [hmul] at r1 r2
  generalize Z * (d : Int) = ZD at r1 r2 ⊢
  generalize (d : Int) * 2 ^ k = DP at hp r1 r2 hlow3
  constructor <;> omega

end Ntrip.F64

namespace Ntrip.F64

/-- The two roundings in front of the division: `X = fl(S/2^31 · cLight)`. -/
theorem lightms_core (S : Nat) (j0 : Int) (hS1 : 1 ≤ S) (hS : S < 2 ^ 41) :
    ∃ (k1 : Nat) (Xm : Int), mul (scale2 (ofInt S) j0) cLightMs = { m := Xm, e := j0 + -34 + k1 } ∧ 0 < Xm ∧
      2 ^ 53 * (Xm * 2 ^ k1 - S * 5150395210789814) ≤ S * 5150395210789814 ∧
      -((S : Int) * 5150395210789814) ≤ 2 ^ 53 * (Xm * 2 ^ k1 - S * 5150395210789814) := by
  have hof : ofInt (S : Int) = { m := S, e := 0 } :=
    ofInt_exact S (by rw [Int.natAbs_natCast]; exact Nat.lt_of_lt_of_le hS (Nat.pow_le_pow_right (by omega) (by omega)))
  obtain ⟨r1, r2⟩ := round53_err ((S : Int) * 5150395210789814)
  have hA : (((S : Int) * 5150395210789814).natAbs : Int) = (S : Int) * 5150395210789814 := by
    rw [Int.natAbs_mul]; simp
  rw [hA] at r1 r2
  refine ⟨bitLen ((S : Int) * 5150395210789814).natAbs - 53, rhe ((S : Int) * 5150395210789814) (2 ^ (bitLen ((S : Int) * 5150395210789814).natAbs - 53)), ?_, ?_, r1, r2⟩
  · show mul (scale2 (ofInt S) j0) cLightMs = _
    rw [hof]
    unfold mul scale2 cLightMs round53
    simp only [Int.zero_add]
  · have hS0 : (1 : Int) ≤ S := by exact_mod_cast hS1
    apply Int.lt_of_not_ge
    intro hle
    have hP : (0 : Int) < 2 ^ (bitLen ((S : Int) * 5150395210789814).natAbs - 53) := Int.pow_pos (by omega)
    have := Int.mul_le_mul_of_nonneg_right hle (Int.le_of_lt hP)
    rw [Int.zero_mul] at this
    omega
end Ntrip.F64

namespace Ntrip.F64
theorem div_core (X W : Val) (hX : 0 < X.m) (hW : 0 < W.m) :
    ∃ (k2 : Nat) (Cm : Int),
      divVal X W = { m := Cm, e := X.e - W.e - ((64 + bitLen W.m.natAbs : Nat) : Int) + k2 } ∧
      2 ^ 53 * (Cm * 2 ^ k2 * W.m - X.m * 2 ^ (64 + bitLen W.m.natAbs)) ≤ X.m * 2 ^ (64 + bitLen W.m.natAbs) ∧
      -(X.m * 2 ^ (64 + bitLen W.m.natAbs)) ≤ 2 ^ 53 * (Cm * 2 ^ k2 * W.m - X.m * 2 ^ (64 + bitLen W.m.natAbs)) := by
  have hd : 0 < W.m.natAbs := by omega
  have hcast : ((W.m.natAbs : Nat) : Int) = W.m := by omega
  obtain ⟨r1, r2⟩ := div_err X.m W.m.natAbs (by omega) hd
  have hn : ((X.m * 2 ^ (64 + bitLen W.m.natAbs)).natAbs : Int) = X.m * 2 ^ (64 + bitLen W.m.natAbs) := by
    have : (0 : Int) ≤ X.m * 2 ^ (64 + bitLen W.m.natAbs) := Int.mul_nonneg (by omega) (Int.le_of_lt (Int.pow_pos (by omega)))
    omega
  rw [hn, hcast] at r1 r2
  refine ⟨_, _, ?_, r1, r2⟩
  unfold divVal
  have hne : ¬ X.m = 0 := by omega
  simp only [if_neg hne, hcast]
end Ntrip.F64
