import Ntrip.Proofs.FieldRoundTrip
/-! Reading back sequences of encoded fields. -/
namespace Ntrip

/-- Fields laid out one after the other. -/
def encodeFields : List Col → List Int → List Bool
  | (_, w) :: cs, v :: vs => fieldBits w v ++ encodeFields cs vs
  | _, _ => []

/-- Values fit their fields (and the widths are ones the bit readers support). -/
def FieldsWF : List Col → List Int → Prop
  | [], [] => True
  | (s, w) :: cs, v :: vs => 1 ≤ w ∧ w ≤ 64 ∧ (s = true → 2 ≤ w) ∧ InRange s w v ∧ FieldsWF cs vs
  | _, _ => False

theorem encodeFields_length : ∀ (cols : List Col) (vals : List Int), FieldsWF cols vals →
    (encodeFields cols vals).length = widthOf cols
  | [], [], _ => rfl
  | (s, w) :: cs, v :: vs, h => by
    simp only [encodeFields, List.length_append, fieldBits, natBits_length, widthOf, List.map_cons, List.sum_cons]
    rw [encodeFields_length cs vs h.2.2.2.2]; rfl
  | [], _ :: _, h => by simp [FieldsWF] at h
  | _ :: _, [], h => by simp [FieldsWF] at h

/-- Reading back a sequence of encoded fields. -/
theorem readFields_encode (bs : Bytes) : ∀ (cols : List Col) (vals : List Int) (pos : Nat),
    FieldsWF cols vals → Agrees bs pos (encodeFields cols vals) → pos + widthOf cols ≤ 8 * bs.length →
    readFields bs cols pos = .ok vals
  | [], [], _, _, _, _ => rfl
  | (s, w) :: cs, v :: vs, pos, hwf, hag, hfit => by
    obtain ⟨h1, h2, h3, h4, h5⟩ := hwf
    have hwid : widthOf ((s, w) :: cs) = w + widthOf cs := by simp [widthOf]
    rw [hwid] at hfit
    obtain ⟨ha, hb⟩ := Agrees.split (a := fieldBits w v) (b := encodeFields cs vs) hag
    have hl : (fieldBits w v).length = w := natBits_length _ _
    rw [hl] at hb
    simp only [readFields, bind, pure]
    rw [rdField_fieldBits bs pos s w v h1 h2 h3 h4 (by omega) ha]
    simp only
    rw [readFields_encode bs cs vs (pos + w) h5 hb (by omega)]
  | [], _ :: _, _, h, _, _ => by simp [FieldsWF] at h
  | _ :: _, [], _, h, _, _ => by simp [FieldsWF] at h
end Ntrip
