import Ntrip.Spec.Encode
import Ntrip.Proofs.Bits
/-! Packing/unpacking lemmas for the round-trip proofs. -/
namespace Ntrip

theorem bitN_le (bits : List Bool) (i : Nat) : bitN bits i ≤ 1 := by unfold bitN; split <;> omega

theorem byteOf_lt (f : Nat → Nat) (hf : ∀ i, f i ≤ 1) (k : Nat) : byteOf f k < 256 := by
  unfold byteOf
  have := hf (8*k); have := hf (8*k+1); have := hf (8*k+2); have := hf (8*k+3)
  have := hf (8*k+4); have := hf (8*k+5); have := hf (8*k+6); have := hf (8*k+7)
  omega

theorem byteOf_bit (f : Nat → Nat) (hf : ∀ i, f i ≤ 1) (k j : Nat) (hj : j < 8) :
    (byteOf f k >>> (7 - j)) % 2 = f (8*k + j) := by
  unfold byteOf
  have := hf (8*k); have := hf (8*k+1); have := hf (8*k+2); have := hf (8*k+3)
  have := hf (8*k+4); have := hf (8*k+5); have := hf (8*k+6); have := hf (8*k+7)
  rw [Nat.shiftRight_eq_div_pow]
  have h8 : j = 0 ∨ j = 1 ∨ j = 2 ∨ j = 3 ∨ j = 4 ∨ j = 5 ∨ j = 6 ∨ j = 7 := by omega
  rcases h8 with rfl | rfl | rfl | rfl | rfl | rfl | rfl | rfl <;> simp <;> omega

/-- Packing then addressing a bit gives that bit (and 0 in the padding and beyond). -/
theorem bitAt_packBits (bits : List Bool) (i : Nat) : bitAt (packBits bits) i = bitN bits i := by
  unfold bitAt packBits
  by_cases h : i / 8 < (bits.length + 7) / 8
  · rw [List.getElem?_map, List.getElem?_range h]
    simp only [Option.map_some]
    have hlt := byteOf_lt (bitN bits) (bitN_le bits) (i / 8)
    have : (UInt8.ofNat (byteOf (bitN bits) (i / 8))).toNat = byteOf (bitN bits) (i / 8) := by
      simp [UInt8.toNat_ofNat, Nat.mod_eq_of_lt hlt]
    rw [this, byteOf_bit _ (bitN_le bits) _ _ (Nat.mod_lt _ (by omega))]
    congr 1; omega
  · have : (List.map (fun k => UInt8.ofNat (byteOf (bitN bits) k)) (List.range ((bits.length + 7) / 8)))[i / 8]? = none := by
      rw [List.getElem?_eq_none]; simp; omega
    rw [this]
    simp only
    unfold bitN
    have : bits.getD i false = false := by
      rw [List.getD_eq_getElem?_getD, List.getElem?_eq_none (by omega)]; rfl
    rw [this]; rfl

theorem packBits_length (bits : List Bool) : (packBits bits).length = (bits.length + 7) / 8 := by
  simp [packBits]

theorem specU_eq_valN (buf : Bytes) (f : Nat → Nat) (pos : Nat) : ∀ n,
    (∀ i, i < n → bitAt buf (pos + i) = f (pos + i)) → specU buf pos n = valN f pos n
  | 0, _ => rfl
  | n+1, h => by
    simp only [specU, valN]
    rw [specU_eq_valN buf f pos n (fun i hi => h i (by omega)), h n (by omega)]

theorem valN_congr (f g : Nat → Nat) (pos : Nat) : ∀ n,
    (∀ i, i < n → f (pos + i) = g (pos + i)) → valN f pos n = valN g pos n
  | 0, _ => rfl
  | n+1, h => by
    simp only [valN]
    rw [valN_congr f g pos n (fun i hi => h i (by omega)), h n (by omega)]

/-- The first `n` of the `w` bits of `v` are the top `n` bits of `v % 2^w`. -/
theorem valN_natBits_prefix (w v : Nat) (f : Nat → Nat) (pos : Nat)
    (hf : ∀ i, i < w → f (pos + i) = (v / 2^(w - 1 - i)) % 2) : ∀ n, n ≤ w →
    valN f pos n = (v / 2^(w - n)) % 2^n
  | 0, _ => by simp [valN, Nat.mod_one]
  | n+1, hn => by
    simp only [valN]
    rw [valN_natBits_prefix w v f pos hf n (by omega), hf n (by omega)]
    have e1 : w - 1 - n = w - (n + 1) := by omega
    rw [e1]
    have e2 : v / 2^(w - n) = (v / 2^(w - (n+1))) / 2 := by
      rw [Nat.div_div_eq_div_mul]
      congr 1
      have : w - n = (w - (n+1)) + 1 := by omega
      rw [this, Nat.pow_succ]
    rw [e2]
    generalize v / 2^(w - (n+1)) = q
    rw [Nat.pow_succ, Nat.mul_comm (2^n) 2, Nat.mod_mul]
    omega

theorem valN_natBits (w v : Nat) (f : Nat → Nat) (pos : Nat)
    (hf : ∀ i, i < w → f (pos + i) = (v / 2^(w - 1 - i)) % 2) : valN f pos w = v % 2^w := by
  rw [valN_natBits_prefix w v f pos hf w (Nat.le_refl _)]; simp

theorem natBits_length (w v : Nat) : (natBits w v).length = w := by simp [natBits]

theorem bitN_natBits (w v i : Nat) (hi : i < w) : bitN (natBits w v) i = (v / 2^(w - 1 - i)) % 2 := by
  unfold bitN natBits
  rw [List.getD_eq_getElem?_getD, List.getElem?_map, List.getElem?_range hi]
  simp only [Option.map_some, Option.getD_some, beq_iff_eq]
  have := Nat.mod_two_eq_zero_or_one (v / 2^(w - 1 - i))
  split <;> omega

theorem bitN_append_left (a b : List Bool) (i : Nat) (h : i < a.length) : bitN (a ++ b) i = bitN a i := by
  unfold bitN; rw [List.getD_eq_getElem?_getD, List.getD_eq_getElem?_getD, List.getElem?_append_left h]

theorem bitN_append_right (a b : List Bool) (i : Nat) : bitN (a ++ b) (a.length + i) = bitN b i := by
  unfold bitN
  rw [List.getD_eq_getElem?_getD, List.getD_eq_getElem?_getD, List.getElem?_append_right (by omega)]
  have : a.length + i - a.length = i := by omega
  rw [this]
end Ntrip
