import Ntrip.Proofs.F64Cycles
/-!
Accuracy of the Doppler in Hz, `-(fl(fl(A/10000) / wavelength))`: two roundings on top of the
rounded wavelength; within 2^-50 of `-(A/10000) · f / 299792458`.  One theorem per carrier
frequency (generated text, identical up to the literals).
-/
namespace Ntrip.F64

theorem div_core' (X W : Val) (hX : X.m ≠ 0) (hW : 0 < W.m) :
    ∃ (k2 : Nat) (Cm : Int),
      divVal X W = { m := Cm, e := X.e - W.e - ((64 + bitLen W.m.natAbs : Nat) : Int) + k2 } ∧
      2 ^ 53 * (Cm * 2 ^ k2 * W.m - X.m * 2 ^ (64 + bitLen W.m.natAbs)) ≤ (X.m.natAbs : Int) * 2 ^ (64 + bitLen W.m.natAbs) ∧
      -((X.m.natAbs : Int) * 2 ^ (64 + bitLen W.m.natAbs)) ≤ 2 ^ 53 * (Cm * 2 ^ k2 * W.m - X.m * 2 ^ (64 + bitLen W.m.natAbs)) := by
  have hd : 0 < W.m.natAbs := by omega
  have hcast : ((W.m.natAbs : Nat) : Int) = W.m := by omega
  obtain ⟨r1, r2⟩ := div_err X.m W.m.natAbs hX hd
  have hn : ((X.m * 2 ^ (64 + bitLen W.m.natAbs)).natAbs : Int) = (X.m.natAbs : Int) * 2 ^ (64 + bitLen W.m.natAbs) := by
    rw [Int.natAbs_mul, Int.natAbs_pow]; simp
  rw [hn, hcast] at r1 r2
  refine ⟨_, _, ?_, r1, r2⟩
  unfold divVal
  simp only [if_neg hX, hcast]

theorem rate_core (A : Int) (hA : A.natAbs < 2 ^ 53) (h0 : A ≠ 0) :
    ∃ (k : Nat) (Rm : Int), divConst (ofInt A) 10000 = { m := Rm, e := -78 + k } ∧ Rm ≠ 0 ∧
      2 ^ 53 * (10000 * (Rm * 2 ^ k) - A * 2 ^ 78) ≤ (A.natAbs : Int) * 2 ^ 78 ∧
      -((A.natAbs : Int) * 2 ^ 78) ≤ 2 ^ 53 * (10000 * (Rm * 2 ^ k) - A * 2 ^ 78) := by
  have hof : ofInt A = { m := A, e := 0 } := ofInt_exact A hA
  obtain ⟨r1, r2⟩ := div_err A 10000 h0 (by decide)
  have hbl : bitLen 10000 = 14 := by decide
  simp only [hbl] at r1 r2
  have hn : ((A * 2 ^ (64 + 14)).natAbs : Int) = (A.natAbs : Int) * 2 ^ 78 := by
    rw [Int.natAbs_mul, Int.natAbs_pow]; simp
  rw [hn] at r1 r2
  refine ⟨bitLen ((A * 2 ^ (64 + 14)).natAbs / 10000) - 53, rhe (A * 2 ^ (64 + 14)) (((10000 : Nat) : Int) * 2 ^ (bitLen ((A * 2 ^ (64 + 14)).natAbs / 10000) - 53)), ?_, ?_, ?_, ?_⟩
  · rw [hof]; unfold divConst
    simp only [if_neg h0, hbl]
    rfl
  · intro hz
    rw [hz] at r1 r2
    simp only [Int.zero_mul] at r1 r2
    have hApos : (1 : Int) ≤ (A.natAbs : Int) := by omega
    have : A * 2 ^ (64 + 14) = A * 2 ^ 78 := rfl
    rw [this] at r1 r2
    omega
  · have e : (10000 : Int) * (rhe (A * 2 ^ (64 + 14)) (((10000 : Nat) : Int) * 2 ^ (bitLen ((A * 2 ^ (64 + 14)).natAbs / 10000) - 53)) * 2 ^ (bitLen ((A * 2 ^ (64 + 14)).natAbs / 10000) - 53)) =
        rhe (A * 2 ^ (64 + 14)) (((10000 : Nat) : Int) * 2 ^ (bitLen ((A * 2 ^ (64 + 14)).natAbs / 10000) - 53)) * 2 ^ (bitLen ((A * 2 ^ (64 + 14)).natAbs / 10000) - 53) * ((10000 : Nat) : Int) := by
      rw [Int.mul_comm]; rfl
    rw [e]; exact r1
  · have e : (10000 : Int) * (rhe (A * 2 ^ (64 + 14)) (((10000 : Nat) : Int) * 2 ^ (bitLen ((A * 2 ^ (64 + 14)).natAbs / 10000) - 53)) * 2 ^ (bitLen ((A * 2 ^ (64 + 14)).natAbs / 10000) - 53)) =
        rhe (A * 2 ^ (64 + 14)) (((10000 : Nat) : Int) * 2 ^ (bitLen ((A * 2 ^ (64 + 14)).natAbs / 10000) - 53)) * 2 ^ (bitLen ((A * 2 ^ (64 + 14)).natAbs / 10000) - 53) * ((10000 : Nat) : Int) := by
      rw [Int.mul_comm]; rfl
    rw [e]; exact r2

theorem doppler_1575420000 (A : Int) (hA : A.natAbs < 2 ^ 53) (h0 : A ≠ 0) :
    2 ^ 50 * ((dopplerHz A 1575420000).scaled 141 * (10000 * 299792458) + A * 1575420000 * 2 ^ 141) ≤ (A.natAbs : Int) * 1575420000 * 2 ^ 141 ∧
    -((A.natAbs : Int) * 1575420000 * 2 ^ 141) ≤ 2 ^ 50 * ((dopplerHz A 1575420000).scaled 141 * (10000 * 299792458) + A * 1575420000 * 2 ^ 141) := by
  unfold dopplerHz
  have hw : wavelength 1575420000 = { m := 6856052111245433, e := -55 } := by decide +kernel
  obtain ⟨k1, Xm, hX, hXne, a1, a2⟩ := rate_core A hA h0
  rw [hX, hw]
  obtain ⟨k2, Cm, hC, b1, b2⟩ := div_core' { m := Xm, e := -78 + k1 } { m := 6856052111245433, e := -55 } hXne (by decide)
  have hbl : bitLen (6856052111245433 : Int).natAbs = 53 := by decide +kernel
  simp only [hbl] at hC b1 b2
  rw [hC]
  unfold Val.scaled neg
  simp only []
  have hexp : ((-78 + (k1 : Int) - -55 - ((64 + 53 : Nat) : Int) + (k2 : Int) + 141).toNat) = k2 + k1 + 1 := by omega
  rw [hexp, Int.neg_mul, pow_split]
  have hP1 : (0 : Int) < 2 ^ k1 := Int.pow_pos (by omega)
  have c1 := Int.mul_le_mul_of_nonneg_right b1 (Int.le_of_lt hP1)
  have c2 := Int.mul_le_mul_of_nonneg_right b2 (Int.le_of_lt hP1)
  have e1 : 2 ^ 53 * (Cm * 2 ^ k2 * 6856052111245433 - Xm * 2 ^ (64 + 53)) * 2 ^ k1 =
      2 ^ 53 * ((Cm * 2 ^ k2 * 2 ^ k1) * 6856052111245433 - (Xm * 2 ^ k1) * 2 ^ (64 + 53)) := by
    rw [Int.mul_assoc, shuffle]
  have e2 : (Xm.natAbs : Int) * 2 ^ (64 + 53) * 2 ^ k1 = (((Xm * 2 ^ k1).natAbs : Nat) : Int) * 2 ^ (64 + 53) := by
    rw [Int.natAbs_mul, Int.natAbs_pow, Int.mul_right_comm]; simp
  rw [e1, e2] at c1
  rw [e1, Int.neg_mul, e2] at c2
  generalize Cm * 2 ^ k2 * 2 ^ k1 = Y at c1 c2 ⊢
  generalize Xm * 2 ^ k1 = XP at a1 a2 c1 c2
  constructor <;> omega

theorem doppler_1227600000 (A : Int) (hA : A.natAbs < 2 ^ 53) (h0 : A ≠ 0) :
    2 ^ 50 * ((dopplerHz A 1227600000).scaled 141 * (10000 * 299792458) + A * 1227600000 * 2 ^ 141) ≤ (A.natAbs : Int) * 1227600000 * 2 ^ 141 ∧
    -((A.natAbs : Int) * 1227600000 * 2 ^ 141) ≤ 2 ^ 50 * ((dopplerHz A 1227600000).scaled 141 * (10000 * 299792458) + A * 1227600000 * 2 ^ 141) := by
  unfold dopplerHz
  have hw : wavelength 1227600000 = { m := 8798600209431639, e := -55 } := by decide +kernel
  obtain ⟨k1, Xm, hX, hXne, a1, a2⟩ := rate_core A hA h0
  rw [hX, hw]
  obtain ⟨k2, Cm, hC, b1, b2⟩ := div_core' { m := Xm, e := -78 + k1 } { m := 8798600209431639, e := -55 } hXne (by decide)
  have hbl : bitLen (8798600209431639 : Int).natAbs = 53 := by decide +kernel
  simp only [hbl] at hC b1 b2
  rw [hC]
  unfold Val.scaled neg
  simp only []
  have hexp : ((-78 + (k1 : Int) - -55 - ((64 + 53 : Nat) : Int) + (k2 : Int) + 141).toNat) = k2 + k1 + 1 := by omega
  rw [hexp, Int.neg_mul, pow_split]
  have hP1 : (0 : Int) < 2 ^ k1 := Int.pow_pos (by omega)
  have c1 := Int.mul_le_mul_of_nonneg_right b1 (Int.le_of_lt hP1)
  have c2 := Int.mul_le_mul_of_nonneg_right b2 (Int.le_of_lt hP1)
  have e1 : 2 ^ 53 * (Cm * 2 ^ k2 * 8798600209431639 - Xm * 2 ^ (64 + 53)) * 2 ^ k1 =
      2 ^ 53 * ((Cm * 2 ^ k2 * 2 ^ k1) * 8798600209431639 - (Xm * 2 ^ k1) * 2 ^ (64 + 53)) := by
    rw [Int.mul_assoc, shuffle]
  have e2 : (Xm.natAbs : Int) * 2 ^ (64 + 53) * 2 ^ k1 = (((Xm * 2 ^ k1).natAbs : Nat) : Int) * 2 ^ (64 + 53) := by
    rw [Int.natAbs_mul, Int.natAbs_pow, Int.mul_right_comm]; simp
  rw [e1, e2] at c1
  rw [e1, Int.neg_mul, e2] at c2
  generalize Cm * 2 ^ k2 * 2 ^ k1 = Y at c1 c2 ⊢
  generalize Xm * 2 ^ k1 = XP at a1 a2 c1 c2
  constructor <;> omega

theorem doppler_1176450000 (A : Int) (hA : A.natAbs < 2 ^ 53) (h0 : A ≠ 0) :
    2 ^ 50 * ((dopplerHz A 1176450000).scaled 141 * (10000 * 299792458) + A * 1176450000 * 2 ^ 141) ≤ (A.natAbs : Int) * 1176450000 * 2 ^ 141 ∧
    -((A.natAbs : Int) * 1176450000 * 2 ^ 141) ≤ 2 ^ 50 * ((dopplerHz A 1176450000).scaled 141 * (10000 * 299792458) + A * 1176450000 * 2 ^ 141) := by
  unfold dopplerHz
  have hw : wavelength 1176450000 = { m := 4590574022312160, e := -54 } := by decide +kernel
  obtain ⟨k1, Xm, hX, hXne, a1, a2⟩ := rate_core A hA h0
  rw [hX, hw]
  obtain ⟨k2, Cm, hC, b1, b2⟩ := div_core' { m := Xm, e := -78 + k1 } { m := 4590574022312160, e := -54 } hXne (by decide)
  have hbl : bitLen (4590574022312160 : Int).natAbs = 53 := by decide +kernel
  simp only [hbl] at hC b1 b2
  rw [hC]
  unfold Val.scaled neg
  simp only []
  have hexp : ((-78 + (k1 : Int) - -54 - ((64 + 53 : Nat) : Int) + (k2 : Int) + 141).toNat) = k2 + k1 + 0 := by omega
  rw [hexp, Int.neg_mul, pow_split]
  have hP1 : (0 : Int) < 2 ^ k1 := Int.pow_pos (by omega)
  have c1 := Int.mul_le_mul_of_nonneg_right b1 (Int.le_of_lt hP1)
  have c2 := Int.mul_le_mul_of_nonneg_right b2 (Int.le_of_lt hP1)
  have e1 : 2 ^ 53 * (Cm * 2 ^ k2 * 4590574022312160 - Xm * 2 ^ (64 + 53)) * 2 ^ k1 =
      2 ^ 53 * ((Cm * 2 ^ k2 * 2 ^ k1) * 4590574022312160 - (Xm * 2 ^ k1) * 2 ^ (64 + 53)) := by
    rw [Int.mul_assoc, shuffle]
  have e2 : (Xm.natAbs : Int) * 2 ^ (64 + 53) * 2 ^ k1 = (((Xm * 2 ^ k1).natAbs : Nat) : Int) * 2 ^ (64 + 53) := by
    rw [Int.natAbs_mul, Int.natAbs_pow, Int.mul_right_comm]; simp
  rw [e1, e2] at c1
  rw [e1, Int.neg_mul, e2] at c2
  generalize Cm * 2 ^ k2 * 2 ^ k1 = Y at c1 c2 ⊢
  generalize Xm * 2 ^ k1 = XP at a1 a2 c1 c2
  constructor <;> omega

theorem doppler_1278750000 (A : Int) (hA : A.natAbs < 2 ^ 53) (h0 : A ≠ 0) :
    2 ^ 50 * ((dopplerHz A 1278750000).scaled 141 * (10000 * 299792458) + A * 1278750000 * 2 ^ 141) ≤ (A.natAbs : Int) * 1278750000 * 2 ^ 141 ∧
    -((A.natAbs : Int) * 1278750000 * 2 ^ 141) ≤ 2 ^ 50 * ((dopplerHz A 1278750000).scaled 141 * (10000 * 299792458) + A * 1278750000 * 2 ^ 141) := by
  unfold dopplerHz
  have hw : wavelength 1278750000 = { m := 8446656201054374, e := -55 } := by decide +kernel
  obtain ⟨k1, Xm, hX, hXne, a1, a2⟩ := rate_core A hA h0
  rw [hX, hw]
  obtain ⟨k2, Cm, hC, b1, b2⟩ := div_core' { m := Xm, e := -78 + k1 } { m := 8446656201054374, e := -55 } hXne (by decide)
  have hbl : bitLen (8446656201054374 : Int).natAbs = 53 := by decide +kernel
  simp only [hbl] at hC b1 b2
  rw [hC]
  unfold Val.scaled neg
  simp only []
  have hexp : ((-78 + (k1 : Int) - -55 - ((64 + 53 : Nat) : Int) + (k2 : Int) + 141).toNat) = k2 + k1 + 1 := by omega
  rw [hexp, Int.neg_mul, pow_split]
  have hP1 : (0 : Int) < 2 ^ k1 := Int.pow_pos (by omega)
  have c1 := Int.mul_le_mul_of_nonneg_right b1 (Int.le_of_lt hP1)
  have c2 := Int.mul_le_mul_of_nonneg_right b2 (Int.le_of_lt hP1)
  have e1 : 2 ^ 53 * (Cm * 2 ^ k2 * 8446656201054374 - Xm * 2 ^ (64 + 53)) * 2 ^ k1 =
      2 ^ 53 * ((Cm * 2 ^ k2 * 2 ^ k1) * 8446656201054374 - (Xm * 2 ^ k1) * 2 ^ (64 + 53)) := by
    rw [Int.mul_assoc, shuffle]
  have e2 : (Xm.natAbs : Int) * 2 ^ (64 + 53) * 2 ^ k1 = (((Xm * 2 ^ k1).natAbs : Nat) : Int) * 2 ^ (64 + 53) := by
    rw [Int.natAbs_mul, Int.natAbs_pow, Int.mul_right_comm]; simp
  rw [e1, e2] at c1
  rw [e1, Int.neg_mul, e2] at c2
  generalize Cm * 2 ^ k2 * 2 ^ k1 = Y at c1 c2 ⊢
  generalize Xm * 2 ^ k1 = XP at a1 a2 c1 c2
  constructor <;> omega

theorem doppler_1207140000 (A : Int) (hA : A.natAbs < 2 ^ 53) (h0 : A ≠ 0) :
    2 ^ 50 * ((dopplerHz A 1207140000).scaled 141 * (10000 * 299792458) + A * 1207140000 * 2 ^ 141) ≤ (A.natAbs : Int) * 1207140000 * 2 ^ 141 ∧
    -((A.natAbs : Int) * 1207140000 * 2 ^ 141) ≤ 2 ^ 50 * ((dopplerHz A 1207140000).scaled 141 * (10000 * 299792458) + A * 1207140000 * 2 ^ 141) := by
  unfold dopplerHz
  have hw : wavelength 1207140000 = { m := 8947729026540650, e := -55 } := by decide +kernel
  obtain ⟨k1, Xm, hX, hXne, a1, a2⟩ := rate_core A hA h0
  rw [hX, hw]
  obtain ⟨k2, Cm, hC, b1, b2⟩ := div_core' { m := Xm, e := -78 + k1 } { m := 8947729026540650, e := -55 } hXne (by decide)
  have hbl : bitLen (8947729026540650 : Int).natAbs = 53 := by decide +kernel
  simp only [hbl] at hC b1 b2
  rw [hC]
  unfold Val.scaled neg
  simp only []
  have hexp : ((-78 + (k1 : Int) - -55 - ((64 + 53 : Nat) : Int) + (k2 : Int) + 141).toNat) = k2 + k1 + 1 := by omega
  rw [hexp, Int.neg_mul, pow_split]
  have hP1 : (0 : Int) < 2 ^ k1 := Int.pow_pos (by omega)
  have c1 := Int.mul_le_mul_of_nonneg_right b1 (Int.le_of_lt hP1)
  have c2 := Int.mul_le_mul_of_nonneg_right b2 (Int.le_of_lt hP1)
  have e1 : 2 ^ 53 * (Cm * 2 ^ k2 * 8947729026540650 - Xm * 2 ^ (64 + 53)) * 2 ^ k1 =
      2 ^ 53 * ((Cm * 2 ^ k2 * 2 ^ k1) * 8947729026540650 - (Xm * 2 ^ k1) * 2 ^ (64 + 53)) := by
    rw [Int.mul_assoc, shuffle]
  have e2 : (Xm.natAbs : Int) * 2 ^ (64 + 53) * 2 ^ k1 = (((Xm * 2 ^ k1).natAbs : Nat) : Int) * 2 ^ (64 + 53) := by
    rw [Int.natAbs_mul, Int.natAbs_pow, Int.mul_right_comm]; simp
  rw [e1, e2] at c1
  rw [e1, Int.neg_mul, e2] at c2
  generalize Cm * 2 ^ k2 * 2 ^ k1 = Y at c1 c2 ⊢
  generalize Xm * 2 ^ k1 = XP at a1 a2 c1 c2
  constructor <;> omega

theorem doppler_1191795000 (A : Int) (hA : A.natAbs < 2 ^ 53) (h0 : A ≠ 0) :
    2 ^ 50 * ((dopplerHz A 1191795000).scaled 141 * (10000 * 299792458) + A * 1191795000 * 2 ^ 141) ≤ (A.natAbs : Int) * 1191795000 * 2 ^ 141 ∧
    -((A.natAbs : Int) * 1191795000 * 2 ^ 141) ≤ 2 ^ 50 * ((dopplerHz A 1191795000).scaled 141 * (10000 * 299792458) + A * 1191795000 * 2 ^ 141) := by
  unfold dopplerHz
  have hw : wavelength 1191795000 = { m := 4531467919020587, e := -54 } := by decide +kernel
  obtain ⟨k1, Xm, hX, hXne, a1, a2⟩ := rate_core A hA h0
  rw [hX, hw]
  obtain ⟨k2, Cm, hC, b1, b2⟩ := div_core' { m := Xm, e := -78 + k1 } { m := 4531467919020587, e := -54 } hXne (by decide)
  have hbl : bitLen (4531467919020587 : Int).natAbs = 53 := by decide +kernel
  simp only [hbl] at hC b1 b2
  rw [hC]
  unfold Val.scaled neg
  simp only []
  have hexp : ((-78 + (k1 : Int) - -54 - ((64 + 53 : Nat) : Int) + (k2 : Int) + 141).toNat) = k2 + k1 + 0 := by omega
  rw [hexp, Int.neg_mul, pow_split]
  have hP1 : (0 : Int) < 2 ^ k1 := Int.pow_pos (by omega)
  have c1 := Int.mul_le_mul_of_nonneg_right b1 (Int.le_of_lt hP1)
  have c2 := Int.mul_le_mul_of_nonneg_right b2 (Int.le_of_lt hP1)
  have e1 : 2 ^ 53 * (Cm * 2 ^ k2 * 4531467919020587 - Xm * 2 ^ (64 + 53)) * 2 ^ k1 =
      2 ^ 53 * ((Cm * 2 ^ k2 * 2 ^ k1) * 4531467919020587 - (Xm * 2 ^ k1) * 2 ^ (64 + 53)) := by
    rw [Int.mul_assoc, shuffle]
  have e2 : (Xm.natAbs : Int) * 2 ^ (64 + 53) * 2 ^ k1 = (((Xm * 2 ^ k1).natAbs : Nat) : Int) * 2 ^ (64 + 53) := by
    rw [Int.natAbs_mul, Int.natAbs_pow, Int.mul_right_comm]; simp
  rw [e1, e2] at c1
  rw [e1, Int.neg_mul, e2] at c2
  generalize Cm * 2 ^ k2 * 2 ^ k1 = Y at c1 c2 ⊢
  generalize Xm * 2 ^ k1 = XP at a1 a2 c1 c2
  constructor <;> omega

theorem doppler_1602000000 (A : Int) (hA : A.natAbs < 2 ^ 53) (h0 : A ≠ 0) :
    2 ^ 50 * ((dopplerHz A 1602000000).scaled 141 * (10000 * 299792458) + A * 1602000000 * 2 ^ 141) ≤ (A.natAbs : Int) * 1602000000 * 2 ^ 141 ∧
    -((A.natAbs : Int) * 1602000000 * 2 ^ 141) ≤ 2 ^ 50 * ((dopplerHz A 1602000000).scaled 141 * (10000 * 299792458) + A * 1602000000 * 2 ^ 141) := by
  unfold dopplerHz
  have hw : wavelength 1602000000 = { m := 6742298138013908, e := -55 } := by decide +kernel
  obtain ⟨k1, Xm, hX, hXne, a1, a2⟩ := rate_core A hA h0
  rw [hX, hw]
  obtain ⟨k2, Cm, hC, b1, b2⟩ := div_core' { m := Xm, e := -78 + k1 } { m := 6742298138013908, e := -55 } hXne (by decide)
  have hbl : bitLen (6742298138013908 : Int).natAbs = 53 := by decide +kernel
  simp only [hbl] at hC b1 b2
  rw [hC]
  unfold Val.scaled neg
  simp only []
  have hexp : ((-78 + (k1 : Int) - -55 - ((64 + 53 : Nat) : Int) + (k2 : Int) + 141).toNat) = k2 + k1 + 1 := by omega
  rw [hexp, Int.neg_mul, pow_split]
  have hP1 : (0 : Int) < 2 ^ k1 := Int.pow_pos (by omega)
  have c1 := Int.mul_le_mul_of_nonneg_right b1 (Int.le_of_lt hP1)
  have c2 := Int.mul_le_mul_of_nonneg_right b2 (Int.le_of_lt hP1)
  have e1 : 2 ^ 53 * (Cm * 2 ^ k2 * 6742298138013908 - Xm * 2 ^ (64 + 53)) * 2 ^ k1 =
      2 ^ 53 * ((Cm * 2 ^ k2 * 2 ^ k1) * 6742298138013908 - (Xm * 2 ^ k1) * 2 ^ (64 + 53)) := by
    rw [Int.mul_assoc, shuffle]
  have e2 : (Xm.natAbs : Int) * 2 ^ (64 + 53) * 2 ^ k1 = (((Xm * 2 ^ k1).natAbs : Nat) : Int) * 2 ^ (64 + 53) := by
    rw [Int.natAbs_mul, Int.natAbs_pow, Int.mul_right_comm]; simp
  rw [e1, e2] at c1
  rw [e1, Int.neg_mul, e2] at c2
  generalize Cm * 2 ^ k2 * 2 ^ k1 = Y at c1 c2 ⊢
  generalize Xm * 2 ^ k1 = XP at a1 a2 c1 c2
  constructor <;> omega

theorem doppler_1246000000 (A : Int) (hA : A.natAbs < 2 ^ 53) (h0 : A ≠ 0) :
    2 ^ 50 * ((dopplerHz A 1246000000).scaled 141 * (10000 * 299792458) + A * 1246000000 * 2 ^ 141) ≤ (A.natAbs : Int) * 1246000000 * 2 ^ 141 ∧
    -((A.natAbs : Int) * 1246000000 * 2 ^ 141) ≤ 2 ^ 50 * ((dopplerHz A 1246000000).scaled 141 * (10000 * 299792458) + A * 1246000000 * 2 ^ 141) := by
  unfold dopplerHz
  have hw : wavelength 1246000000 = { m := 8668669034589310, e := -55 } := by decide +kernel
  obtain ⟨k1, Xm, hX, hXne, a1, a2⟩ := rate_core A hA h0
  rw [hX, hw]
  obtain ⟨k2, Cm, hC, b1, b2⟩ := div_core' { m := Xm, e := -78 + k1 } { m := 8668669034589310, e := -55 } hXne (by decide)
  have hbl : bitLen (8668669034589310 : Int).natAbs = 53 := by decide +kernel
  simp only [hbl] at hC b1 b2
  rw [hC]
  unfold Val.scaled neg
  simp only []
  have hexp : ((-78 + (k1 : Int) - -55 - ((64 + 53 : Nat) : Int) + (k2 : Int) + 141).toNat) = k2 + k1 + 1 := by omega
  rw [hexp, Int.neg_mul, pow_split]
  have hP1 : (0 : Int) < 2 ^ k1 := Int.pow_pos (by omega)
  have c1 := Int.mul_le_mul_of_nonneg_right b1 (Int.le_of_lt hP1)
  have c2 := Int.mul_le_mul_of_nonneg_right b2 (Int.le_of_lt hP1)
  have e1 : 2 ^ 53 * (Cm * 2 ^ k2 * 8668669034589310 - Xm * 2 ^ (64 + 53)) * 2 ^ k1 =
      2 ^ 53 * ((Cm * 2 ^ k2 * 2 ^ k1) * 8668669034589310 - (Xm * 2 ^ k1) * 2 ^ (64 + 53)) := by
    rw [Int.mul_assoc, shuffle]
  have e2 : (Xm.natAbs : Int) * 2 ^ (64 + 53) * 2 ^ k1 = (((Xm * 2 ^ k1).natAbs : Nat) : Int) * 2 ^ (64 + 53) := by
    rw [Int.natAbs_mul, Int.natAbs_pow, Int.mul_right_comm]; simp
  rw [e1, e2] at c1
  rw [e1, Int.neg_mul, e2] at c2
  generalize Cm * 2 ^ k2 * 2 ^ k1 = Y at c1 c2 ⊢
  generalize Xm * 2 ^ k1 = XP at a1 a2 c1 c2
  constructor <;> omega

theorem doppler_1561098000 (A : Int) (hA : A.natAbs < 2 ^ 53) (h0 : A ≠ 0) :
    2 ^ 50 * ((dopplerHz A 1561098000).scaled 141 * (10000 * 299792458) + A * 1561098000 * 2 ^ 141) ≤ (A.natAbs : Int) * 1561098000 * 2 ^ 141 ∧
    -((A.natAbs : Int) * 1561098000 * 2 ^ 141) ≤ 2 ^ 50 * ((dopplerHz A 1561098000).scaled 141 * (10000 * 299792458) + A * 1561098000 * 2 ^ 141) := by
  unfold dopplerHz
  have hw : wavelength 1561098000 = { m := 6918951671899061, e := -55 } := by decide +kernel
  obtain ⟨k1, Xm, hX, hXne, a1, a2⟩ := rate_core A hA h0
  rw [hX, hw]
  obtain ⟨k2, Cm, hC, b1, b2⟩ := div_core' { m := Xm, e := -78 + k1 } { m := 6918951671899061, e := -55 } hXne (by decide)
  have hbl : bitLen (6918951671899061 : Int).natAbs = 53 := by decide +kernel
  simp only [hbl] at hC b1 b2
  rw [hC]
  unfold Val.scaled neg
  simp only []
  have hexp : ((-78 + (k1 : Int) - -55 - ((64 + 53 : Nat) : Int) + (k2 : Int) + 141).toNat) = k2 + k1 + 1 := by omega
  rw [hexp, Int.neg_mul, pow_split]
  have hP1 : (0 : Int) < 2 ^ k1 := Int.pow_pos (by omega)
  have c1 := Int.mul_le_mul_of_nonneg_right b1 (Int.le_of_lt hP1)
  have c2 := Int.mul_le_mul_of_nonneg_right b2 (Int.le_of_lt hP1)
  have e1 : 2 ^ 53 * (Cm * 2 ^ k2 * 6918951671899061 - Xm * 2 ^ (64 + 53)) * 2 ^ k1 =
      2 ^ 53 * ((Cm * 2 ^ k2 * 2 ^ k1) * 6918951671899061 - (Xm * 2 ^ k1) * 2 ^ (64 + 53)) := by
    rw [Int.mul_assoc, shuffle]
  have e2 : (Xm.natAbs : Int) * 2 ^ (64 + 53) * 2 ^ k1 = (((Xm * 2 ^ k1).natAbs : Nat) : Int) * 2 ^ (64 + 53) := by
    rw [Int.natAbs_mul, Int.natAbs_pow, Int.mul_right_comm]; simp
  rw [e1, e2] at c1
  rw [e1, Int.neg_mul, e2] at c2
  generalize Cm * 2 ^ k2 * 2 ^ k1 = Y at c1 c2 ⊢
  generalize Xm * 2 ^ k1 = XP at a1 a2 c1 c2
  constructor <;> omega

theorem doppler_1268520000 (A : Int) (hA : A.natAbs < 2 ^ 53) (h0 : A ≠ 0) :
    2 ^ 50 * ((dopplerHz A 1268520000).scaled 141 * (10000 * 299792458) + A * 1268520000 * 2 ^ 141) ≤ (A.natAbs : Int) * 1268520000 * 2 ^ 141 ∧
    -((A.natAbs : Int) * 1268520000 * 2 ^ 141) ≤ 2 ^ 50 * ((dopplerHz A 1268520000).scaled 141 * (10000 * 299792458) + A * 1268520000 * 2 ^ 141) := by
  unfold dopplerHz
  have hw : wavelength 1268520000 = { m := 8514774396224167, e := -55 } := by decide +kernel
  obtain ⟨k1, Xm, hX, hXne, a1, a2⟩ := rate_core A hA h0
  rw [hX, hw]
  obtain ⟨k2, Cm, hC, b1, b2⟩ := div_core' { m := Xm, e := -78 + k1 } { m := 8514774396224167, e := -55 } hXne (by decide)
  have hbl : bitLen (8514774396224167 : Int).natAbs = 53 := by decide +kernel
  simp only [hbl] at hC b1 b2
  rw [hC]
  unfold Val.scaled neg
  simp only []
  have hexp : ((-78 + (k1 : Int) - -55 - ((64 + 53 : Nat) : Int) + (k2 : Int) + 141).toNat) = k2 + k1 + 1 := by omega
  rw [hexp, Int.neg_mul, pow_split]
  have hP1 : (0 : Int) < 2 ^ k1 := Int.pow_pos (by omega)
  have c1 := Int.mul_le_mul_of_nonneg_right b1 (Int.le_of_lt hP1)
  have c2 := Int.mul_le_mul_of_nonneg_right b2 (Int.le_of_lt hP1)
  have e1 : 2 ^ 53 * (Cm * 2 ^ k2 * 8514774396224167 - Xm * 2 ^ (64 + 53)) * 2 ^ k1 =
      2 ^ 53 * ((Cm * 2 ^ k2 * 2 ^ k1) * 8514774396224167 - (Xm * 2 ^ k1) * 2 ^ (64 + 53)) := by
    rw [Int.mul_assoc, shuffle]
  have e2 : (Xm.natAbs : Int) * 2 ^ (64 + 53) * 2 ^ k1 = (((Xm * 2 ^ k1).natAbs : Nat) : Int) * 2 ^ (64 + 53) := by
    rw [Int.natAbs_mul, Int.natAbs_pow, Int.mul_right_comm]; simp
  rw [e1, e2] at c1
  rw [e1, Int.neg_mul, e2] at c2
  generalize Cm * 2 ^ k2 * 2 ^ k1 = Y at c1 c2 ⊢
  generalize Xm * 2 ^ k1 = XP at a1 a2 c1 c2
  constructor <;> omega

/-- **Doppler in Hz, to within floating-point rounding**, for every carrier frequency of the tables
    and every non-zero aggregate rate: within 2^-50 of `-(A/10000) · f / 299792458`. -/
theorem doppler_accuracy (f : Nat) (hf : f ∈ carrierFrequencies) (A : Int) (hA : A.natAbs < 2 ^ 53) (h0 : A ≠ 0) :
    2 ^ 50 * ((dopplerHz A f).scaled 141 * (10000 * 299792458) + A * f * 2 ^ 141) ≤ (A.natAbs : Int) * f * 2 ^ 141 ∧
    -((A.natAbs : Int) * f * 2 ^ 141) ≤ 2 ^ 50 * ((dopplerHz A f).scaled 141 * (10000 * 299792458) + A * f * 2 ^ 141) := by
  simp only [carrierFrequencies, List.mem_cons, List.not_mem_nil, or_false] at hf
  rcases hf with rfl | rfl | rfl | rfl | rfl | rfl | rfl | rfl | rfl | rfl
  · exact doppler_1575420000 A hA h0
  · exact doppler_1227600000 A hA h0
  · exact doppler_1176450000 A hA h0
  · exact doppler_1278750000 A hA h0
  · exact doppler_1207140000 A hA h0
  · exact doppler_1191795000 A hA h0
  · exact doppler_1602000000 A hA h0
  · exact doppler_1246000000 A hA h0
  · exact doppler_1561098000 A hA h0
  · exact doppler_1268520000 A hA h0

end Ntrip.F64
