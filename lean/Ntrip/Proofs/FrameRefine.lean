import Ntrip.Proofs.FrameBasic
import Ntrip.Spec.Scan
import Ntrip.Proofs.ListLemmas
/-! The channel-level `fetchC` (push-back buffer, byte channel) refines the list-level `scan`. -/
namespace Ntrip

def FetchC.abs : FetchC → Scan
  | .done => .done
  | .junk raw s => .junk raw s.stream
  | .frame f s => .frame f s.stream

def FetchC.pbOk : FetchC → Prop
  | .done => True
  | .junk _ s => s.pb.length ≤ 1
  | .frame _ s => s.pb.length ≤ 1

theorem pushBack_stream (s : In) (b : UInt8) (h : s.pb = []) : (pushBack s b).stream = b :: s.stream := by
  simp [pushBack, In.stream, h]

/-- Phase 3 against the list-level description. -/
theorem phase3_refines (f : Bytes) (len : Nat) (s2 : In) (hp : s2.pb.length = 0)
    (hf : f.length ≤ len + 6) :
    (fetchPhase3 f len s2).abs =
      (if (f ++ s2.stream).length < len + 6 then Scan.junk (f ++ s2.stream) []
       else .frame ((f ++ s2.stream).take (len + 6)) ((f ++ s2.stream).drop (len + 6)))
    ∧ (fetchPhase3 f len s2).pbOk := by
  unfold fetchPhase3
  obtain ⟨c3, q1, q2, q3, q4, q5, q6⟩ := readMore_spec (len + 6 - f.length) s2 f
  rcases hr3 : readMore (len + 6 - f.length) s2 f with ⟨f3, s3, ok3⟩
  rw [hr3] at q1 q2 q3 q4 q5 q6
  simp only at q1 q2 q3 q4 q5 q6
  subst q1
  have hp3 : s3.pb.length = 0 := by omega
  cases ok3 with
  | false =>
    obtain ⟨hl3, hs3⟩ := q6 rfl
    refine ⟨?_, by simp [FetchC.pbOk, hp3]⟩
    have hslen : (f ++ s2.stream).length < len + 6 := by
      rw [q2, hs3]; simp; omega
    simp only [hslen, if_true, FetchC.abs, hs3]
    rw [q2, hs3]; simp
  | true =>
    have hl3 : c3.length = len + 6 - f.length := q5 rfl
    refine ⟨?_, by simp [FetchC.pbOk, hp3]⟩
    have hflen : (f ++ c3).length = len + 6 := by simp [hl3]; omega
    have hst3 : f ++ s2.stream = (f ++ c3) ++ s3.stream := by rw [q2]; simp
    have hslen : ¬ (f ++ s2.stream).length < len + 6 := by
      rw [hst3]; simp only [List.length_append] at hflen ⊢; omega
    simp only [hslen, if_false, FetchC.abs]
    rw [hst3, List.take_left' hflen, List.drop_left' hflen]

/-- Phase 2 (and 3) after a single byte `b` has been read. -/
theorem phase2_refines (b : UInt8) (s1 : In) (hp : s1.pb.length = 0) :
    (fetchPhase2 [b] s1).abs =
      (let st := b :: s1.stream
       if s1.stream.length < 4 then Scan.junk st []
       else
         let hdr := st.take 5
         let lt := lengthAndType hdr
         if lt.2.2 ≠ .none then .junk hdr (st.drop 5)
         else if st.length < lt.1 + 6 then .junk st []
         else .frame (st.take (lt.1 + 6)) (st.drop (lt.1 + 6)))
    ∧ (fetchPhase2 [b] s1).pbOk := by
  unfold fetchPhase2
  obtain ⟨c2, r1, r2, r3, r4, r5, r6⟩ := readMore_spec 4 s1 [b]
  rcases hr : readMore 4 s1 [b] with ⟨f2, s2, ok2⟩
  rw [hr] at r1 r2 r3 r4 r5 r6
  simp only at r1 r2 r3 r4 r5 r6
  subst r1
  have hp2 : s2.pb.length = 0 := by omega
  cases ok2 with
  | false =>
    obtain ⟨hlt, hs2⟩ := r6 rfl
    rw [hs2, List.append_nil] at r2
    refine ⟨?_, by simp [FetchC.pbOk, hp2]⟩
    simp [FetchC.abs, r2, hs2, hlt]
  | true =>
    have hlen4 : c2.length = 4 := r5 rfl
    have htake5 : (b :: s1.stream).take 5 = [b] ++ c2 := by
      rw [r2]; simp [List.take_append_of_le_length, hlen4]
    have hdrop5 : (b :: s1.stream).drop 5 = s2.stream := by
      rw [r2]; simp [List.drop_append_of_le_length, hlen4]
    have hnot : ¬ s1.stream.length < 4 := by rw [r2]; simp [hlen4]
    simp only [hnot, if_false, htake5, hdrop5]
    rcases hlt : lengthAndType ([b] ++ c2) with ⟨len, typ, e⟩
    have hall : b :: s1.stream = ([b] ++ c2) ++ s2.stream := by rw [r2]; simp
    cases e with
    | none =>
      simp only [ne_eq, not_true_eq_false, if_false]
      have hlen5 : ([b] ++ c2).length ≤ len + 6 := by simp [hlen4]
      have := phase3_refines ([b] ++ c2) len s2 hp2 hlen5
      rw [← hall] at this
      exact this
    | short | badLeader | zeroLength | incomplete | crc | tsShort | timeRange | unknownConst =>
      exact ⟨by simp [FetchC.abs], by simp [FetchC.pbOk, hp2]⟩

/-- The channel-level fetch refines the list-level `scan`, and keeps the push-back buffer
    at no more than one byte. -/
theorem fetchC_refines (s : In) (hpb : s.pb.length ≤ 1) :
    (fetchC s).abs = scan s.stream ∧ (fetchC s).pbOk := by
  unfold fetchC
  obtain ⟨c, e1, e2, e3, e4, e5, e6⟩ := eat_spec s []
  rcases he : eat s [] with ⟨frame, s1, ok⟩
  rw [he] at e1 e2 e3 e4 e5 e6
  simp only [List.nil_append] at e1 e2 e3 e4 e5 e6
  subst e1
  simp only
  cases ok with
  | false =>
    obtain ⟨hc, hs1⟩ := e6 rfl
    rw [hs1, List.append_nil] at e2
    cases frame with
    | nil => simp [e2, scan, FetchC.abs, FetchC.pbOk]
    | cons b t =>
      have hb : b ≠ 0xD3 := by intro h; apply hc; simp [h]
      have hp1 : s1.pb.length = 0 := by simp at e3; omega
      cases t with
      | nil =>
        -- one non-start byte, then end of input
        have := phase2_refines b s1 hp1
        simp only [hs1] at this
        simp only [Bool.not_false, List.isEmpty_cons, Bool.and_false, Bool.false_eq_true, if_false,
          List.length_singleton, Nat.lt_irrefl]
        refine ⟨?_, this.2⟩
        rw [this.1, e2]
        simp [scan, hb]
      | cons b2 t2 =>
        have hlast : ((b :: b2 :: t2).getLast? == some (0xD3 : UInt8)) = false := by
          rw [beq_eq_false_iff_ne]
          intro h
          have := List.mem_of_getLast? h
          exact hc this
        simp only [List.length_cons, hlast]
        simp [e2, scan, hb, FetchC.abs, FetchC.pbOk, hs1, takeWhile_of_not_mem _ hc, dropWhile_of_not_mem _ hc, hp1]
  | true =>
    obtain ⟨j, rfl, hj⟩ := e5 rfl
    cases j with
    | cons b t =>
      -- junk followed by a start byte: the start byte is pushed back
      have hb : b ≠ 0xD3 := by intro h; apply hj; simp [h]
      have hpb1 : s1.pb = [] := by
        have : s1.pb.length = 0 := by simp at e3; omega
        exact List.eq_nil_of_length_eq_zero this
      have hlast : (((b :: t) ++ [0xD3]).getLast? == some (0xD3 : UInt8)) = true := by
        rw [List.getLast?_append]; simp
      have hlen : ((b :: t) ++ [0xD3]).length > 1 := by simp
      simp only [hlen, hlast, if_true]
      have hdl : ((b :: t) ++ [0xD3]).dropLast = b :: t := by
        rw [List.dropLast_append_of_ne_nil (by simp)]; simp
      simp only [Bool.not_true, Bool.false_and, Bool.false_eq_true, if_false, hdl]
      refine ⟨?_, ?_⟩
      · simp only [FetchC.abs, pushBack_stream _ _ hpb1]
        rw [e2]
        simp only [List.append_assoc, List.cons_append, List.nil_append]
        unfold scan
        simp only [hb, ne_eq, not_false_eq_true, if_true]
        have h1 := takeWhile_of_split (b :: t) s1.stream hj
        have h2 := dropWhile_of_split (b :: t) s1.stream hj
        simp only [List.cons_append] at h1 h2
        rw [h1, h2]
      · simp [FetchC.pbOk, pushBack, hpb1]
    | nil =>
      -- a start byte first: try to read a frame
      simp only [List.nil_append, List.length_singleton, Bool.not_true, Bool.false_and,
        Bool.false_eq_true, if_false, Nat.lt_irrefl]
      have hp1 : s1.pb.length = 0 := by simp at e3; omega
      have := phase2_refines 0xD3 s1 hp1
      refine ⟨?_, this.2⟩
      rw [this.1]
      simp only [List.nil_append, List.singleton_append] at e2
      rw [e2]
      simp [scan]
end Ntrip
