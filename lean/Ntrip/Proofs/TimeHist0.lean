import Ntrip.Proofs.TimeArith
import Ntrip.Proofs.Tables
/-! Histories of MSM observations: events, admissibility, the state invariant. -/
namespace Ntrip

def timeSpec (t : Int) : String :=
  if t = 1074 ∨ t = 1077 then "getUTCFromGPSTime" else if t = 1084 ∨ t = 1087 then "getUTCFromGlonassTime"
  else if t = 1094 ∨ t = 1097 then "getUTCFromGalileoTime" else if t = 1124 ∨ t = 1127 then "getUTCFromBeidouTime"
  else "error"

theorem time_dispatch (t : Int) : timeMethod t = timeSpec t := by
  unfold timeMethod
  simp only [Gen.handler_getTimeFromTimeStamp]
  apply lookup_getD_eq
  · decide
  · intro t ht
    simp only [List.map_cons, List.map_nil, List.mem_cons, List.not_mem_nil, or_false, not_or] at ht
    simp [timeSpec, ht]

/-- An observation event or an illegal timestamp, of either resolution (MSM4 / MSM7). -/
inductive Ev
  | obs (c : Constellation) (hi : Bool) (u : Int)
  | bad (c : Constellation) (hi : Bool) (ts : Nat)
deriving Repr

def typOf (c : Constellation) (hi : Bool) : Int :=
  match c, hi with
  | .gps, false => 1074 | .gps, true => 1077
  | .glonass, false => 1084 | .glonass, true => 1087
  | .galileo, false => 1094 | .galileo, true => 1097
  | .beidou, false => 1124 | .beidou, true => 1127

/-- The last observation time seen per constellation. -/
structure Last where
  gps : Option Int := none
  gal : Option Int := none
  glo : Option Int := none
  bei : Option Int := none

def Last.get (L : Last) : Constellation → Option Int
  | .gps => L.gps | .galileo => L.gal | .glonass => L.glo | .beidou => L.bei

def Last.set (L : Last) (c : Constellation) (u : Int) : Last :=
  match c with
  | .gps => { L with gps := some u } | .galileo => { L with gal := some u }
  | .glonass => { L with glo := some u } | .beidou => { L with bei := some u }

def gloDay (u : Int) : Nat := ((weekPos .glonass u) / 86400000).toNat

/-- The handler state after the observations recorded in `L` (start time `T`). -/
structure Inv (T : Int) (L : Last) (st : TState) : Prop where
  gps : st.gps = trueWeekStart .gps (L.gps.getD T)
  pGps : st.pGps = (L.gps.map (trueTs .gps)).getD 0
  gal : st.gal = trueWeekStart .galileo (L.gal.getD T)
  pGal : st.pGal = (L.gal.map (trueTs .galileo)).getD 0
  bei : st.bei = trueWeekStart .beidou (L.bei.getD T)
  pBei : st.pBei = (L.bei.map (trueTs .beidou)).getD 0
  glo : st.glo = trueWeekStart .glonass (L.glo.getD T)
  gDay : st.gDay = (L.glo.map gloDay).getD 0

theorem inv_new (T : Int) : Inv T {} (newState T) := by
  obtain ⟨p1, p2, p3, p4⟩ := newState_prev T
  exact ⟨newState_gps T, by simp [p1], newState_gal T, by simp [p2], newState_bei T, by simp [p3],
    newState_glo T, by simp [p4]⟩

/-- Admissibility of an observation at `u` for constellation `c`, given the last one. -/
def Admissible (T : Int) (L : Last) (c : Constellation) (u : Int) : Prop :=
  match L.get c with
  | none => trueWeekStart c u = trueWeekStart c T
  | some p => p ≤ u ∧ u - p < 518400000

theorem sow_gps (st : TState) (hi : Bool) : startOfWeek st (typOf .gps hi) = some st.gps := by
  cases hi <;> simp [startOfWeek, Gen.handler_getStartOfWeek, typOf, List.lookup]
theorem sow_gal (st : TState) (hi : Bool) : startOfWeek st (typOf .galileo hi) = some st.gal := by
  cases hi <;> simp [startOfWeek, Gen.handler_getStartOfWeek, typOf, List.lookup]
theorem sow_glo (st : TState) (hi : Bool) : startOfWeek st (typOf .glonass hi) = some st.glo := by
  cases hi <;> simp [startOfWeek, Gen.handler_getStartOfWeek, typOf, List.lookup]
theorem sow_bei (st : TState) (hi : Bool) : startOfWeek st (typOf .beidou hi) = some st.bei := by
  cases hi <;> simp [startOfWeek, Gen.handler_getStartOfWeek, typOf, List.lookup]

theorem weekStep (c : Constellation) (T : Int) (last : Option Int) (u : Int)
    (hc : c ≠ .glonass)
    (hadm : match last with | none => trueWeekStart c u = trueWeekStart c T | some p => p ≤ u ∧ u - p < 518400000) :
    weekConv (trueTs c u) ((last.map (trueTs c)).getD 0) (trueWeekStart c (last.getD T)) =
      some (u, trueWeekStart c u) := by
  have hts : ∀ v, trueTs c v = ((v - weekBase c) % 604800000).toNat := by
    intro v; cases c <;> simp [trueTs, weekPos] at hc ⊢
  cases last with
  | none =>
    simp only [Option.map_none, Option.getD_none, hts]
    exact weekConv_first (weekBase c) T u (by simpa [trueWeekStart, weekPos] using hadm)
  | some p =>
    simp only [Option.map_some, Option.getD_some, hts]
    exact weekConv_next (weekBase c) p u hadm.1 hadm.2
theorem gloStep (T : Int) (last : Option Int) (u : Int)
    (hadm : match last with | none => trueWeekStart .glonass u = trueWeekStart .glonass T | some p => p ≤ u ∧ u - p < 518400000) :
    let day := gloDay u
    let millis := ((weekPos .glonass u) % 86400000).toNat
    let g0 := trueWeekStart .glonass (last.getD T)
    let d0 := (last.map gloDay).getD 0
    let glo := if day != d0 && day < d0 then g0 + weekMs else g0
    glo = trueWeekStart .glonass u ∧ glo + day * dayMs + millis = u := by
  intro day millis g0 d0 glo
  have p0 : 0 ≤ weekPos .glonass u := Int.emod_nonneg _ (by omega)
  have p1 : weekPos .glonass u < 604800000 := Int.emod_lt_of_pos _ (by omega)
  have dd0 : 0 ≤ weekPos .glonass u / 86400000 := Int.ediv_nonneg p0 (by omega)
  have mm0 : 0 ≤ weekPos .glonass u % 86400000 := Int.emod_nonneg _ (by omega)
  have hday : (day : Int) = weekPos .glonass u / 86400000 := Int.toNat_of_nonneg dd0
  have hmil : (millis : Int) = weekPos .glonass u % 86400000 := Int.toNat_of_nonneg mm0
  cases last with
  | none =>
    have hd0 : d0 = 0 := rfl
    have hg : glo = g0 := by
      show (if day != d0 && day < d0 then g0 + weekMs else g0) = g0
      rw [hd0]; simp
    have hg0 : g0 = trueWeekStart .glonass u := hadm.symm
    refine ⟨by rw [hg, hg0], ?_⟩
    rw [hg, hg0, hday, hmil]
    simp only [trueWeekStart, dayMs]
    omega
  | some p =>
    obtain ⟨h1, h2⟩ := hadm
    have q0 : 0 ≤ weekPos .glonass p := Int.emod_nonneg _ (by omega)
    have q1 : weekPos .glonass p < 604800000 := Int.emod_lt_of_pos _ (by omega)
    have qd0 : 0 ≤ weekPos .glonass p / 86400000 := Int.ediv_nonneg q0 (by omega)
    have hd0 : (d0 : Int) = weekPos .glonass p / 86400000 := Int.toNat_of_nonneg qd0
    have hg0 : g0 = p - weekPos .glonass p := rfl
    have hglo : glo = trueWeekStart .glonass u := by
      show (if day != d0 && day < d0 then g0 + weekMs else g0) = trueWeekStart .glonass u
      simp only [trueWeekStart, hg0, weekMs, dayMs]
      simp only [weekPos, weekBase] at *
      split
      · rename_i hc
        simp only [Bool.and_eq_true, bne_iff_ne, ne_eq, decide_eq_true_eq] at hc
        omega
      · rename_i hc
        simp only [Bool.and_eq_true, bne_iff_ne, ne_eq, decide_eq_true_eq, not_and, Nat.not_lt] at hc
        by_cases hne : day = d0
        · omega
        · have := hc hne
          omega
    refine ⟨hglo, ?_⟩
    rw [hglo, hday, hmil]
    simp only [trueWeekStart, dayMs]
    omega
end Ntrip
