import Ntrip.Proofs.PipeInv0
/-! Preservation of the pipeline invariant by every step. -/
namespace Ntrip.Pipe
variable {M : Type}

theorem take_succ_of_get (l : List M) (n : Nat) (m : M) (h : l[n]? = some m) : l.take (n + 1) = l.take n ++ [m] := by
  rw [List.take_succ, h]; rfl

theorem cnt_congr (s s' : PS M) (i : Nat) (h1 : s'.dHold = s.dHold) (h2 : s'.fEmit = s.fEmit) : cnt s' i = cnt s i := by
  unfold cnt; rw [h1, h2]

theorem inv_step (c : Cfg M) (hc : c.WF) (s s' : PS M) (h : Inv c s) (hs : Step c s s') : Inv c s' := by
  cases hs with
  | rSend hp hlt hb hw =>
    exact { h with
      rLe := by show s.rSent + 1 ≤ c.nBytes; omega
      fr := by show s.fRecv + 1 = s.rSent + 1; rw [h.fr]
      bcl := by intro hb'; dsimp only at hb'; simp [hb] at hb'
      fe := by
        show s.fEmit ≤ c.produced (s.fRecv + 1) s.fSeenClosed
        exact Nat.le_trans h.fe (hc.prod_mono _ _ _ _ (by omega) id)
      cons := fun i hi hn => h.cons i hi hn }
  | rClose hp he hb =>
    exact { h with
      bcl := fun _ => he
      fsc := fun _ => rfl
      cons := fun i hi hn => h.cons i hi hn }
  | fSeeClosed hp hb hw =>
    exact { h with
      fsc := fun _ => hb
      fe := by
        show s.fEmit ≤ c.produced s.fRecv true
        exact Nat.le_trans h.fe (hc.prod_mono _ _ _ _ (Nat.le_refl _) (fun _ => rfl))
      mcl := fun hm => by
        have := h.mcl hm
        rw [hw.1] at this; simp at this
      cons := fun i hi hn => h.cons i hi hn }
  | fSend hp hlt hm hd hdd =>
    have hmi : s.mainIdx = 0 := by
      cases hmm : s.mainIdx with
      | zero => rfl
      | succ n => have := h.mi0 (by omega); rw [hdd] at this; simp at this
    exact { h with
      fe := by show s.fEmit + 1 ≤ c.produced s.fRecv s.fSeenClosed; omega
      mcl := fun hm' => by simp [hm] at hm'
      dh := fun j hj => by
        simp only [Option.some.injEq] at hj
        subst hj
        exact ⟨Nat.zero_le _, by show 1 ≤ s.fEmit + 1; omega, hdd, hmi⟩
      dd := fun hd' => by simp [hdd] at hd'
      cons := fun i hi hn => by
        have := h.cons i hi hn
        have e : cnt { s with fEmit := s.fEmit + 1, dHold := some 0 } i = cnt s i := by
          simp [cnt, hd]
        rw [e]; exact this }
  | fClose hp hsc he hm =>
    have hb := h.fsc hsc
    have hr := h.bcl hb
    exact { h with
      mcl := fun _ => ⟨hsc, by rw [he, h.fr, hr, hc.prod_final]⟩
      dd := fun hd => ⟨rfl, (h.dd hd).2⟩
      cons := fun i hi hn => h.cons i hi hn }
  | dSeeClosed hp hm hd hdd =>
    exact { h with
      dh := fun j hj => by simp [hd] at hj
      dd := fun _ => ⟨hm, hd⟩
      chc := fun i hi => by have := h.chc i hi; rw [hdd] at this; simp at this
      mi0 := fun _ => rfl
      mr := fun hr => by have := h.mr hr; rw [hdd] at this; simp at this
      cons := fun i hi hn => h.cons i hi hn }
  | dSkipNil j hp hd hj hn =>
    obtain ⟨d1, d2, d3, d4⟩ := h.dh j hd
    exact { h with
      dh := fun j' hj' => by
        simp only [Option.some.injEq] at hj'
        subst hj'
        exact ⟨by omega, d2, d3, d4⟩
      dd := fun hd' => by rw [d3] at hd'; simp at hd'
      cons := fun i hi hni => by
        have := h.cons i hi hni
        have hij : i ≠ j := by intro e; subst e; rw [hn] at hni; simp at hni
        have e : cnt { s with dHold := some (j + 1) } i = cnt s i := by
          simp only [cnt, hd]
          by_cases h1 : j ≤ i
          · have : j + 1 ≤ i := by omega
            simp [h1, this]
          · have : ¬ j + 1 ≤ i := by omega
            simp [h1, this]
        rw [e]; exact this }
  | dSendBuf j m hp hd hj hn hcl hlen hget =>
    obtain ⟨d1, d2, d3, d4⟩ := h.dh j hd
    exact { h with
      dh := fun j' hj' => by
        simp only [Option.some.injEq] at hj'
        subst hj'
        exact ⟨by omega, d2, d3, d4⟩
      dd := fun hd' => by rw [d3] at hd'; simp at hd'
      capOk := fun i hi => by
        by_cases hij : i = j
        · subst hij; simp only [upd_same, List.length_append, List.length_singleton]; omega
        · simp only [upd_other _ _ _ _ hij]; exact h.capOk i hi
      wd := fun i hi => by
        have := h.wd i hi
        by_cases hij : i = j
        · subst hij; rw [hcl] at this; simp at this
        · simp only [upd_other _ _ _ _ hij]; exact this
      cons := fun i hi hni => by
        have := h.cons i hi hni
        by_cases hij : i = j
        · subst hij
          have e0 : cnt s i = s.fEmit - 1 := by simp [cnt, hd]
          have e1 : cnt { s with buf := upd s.buf i (s.buf i ++ [m]), dHold := some (i + 1) } i = s.fEmit := by
            simp only [cnt]; rw [if_neg (by omega)]
          rw [e1]
          simp only [upd_same]
          rw [← List.append_assoc, this, e0]
          have : s.fEmit = (s.fEmit - 1) + 1 := by omega
          conv => rhs; rw [this]
          exact (take_succ_of_get _ _ _ hget).symm
        · simp only [upd_other _ _ _ _ hij]
          have e : cnt { s with buf := upd s.buf j (s.buf j ++ [m]), dHold := some (j + 1) } i = cnt s i := by
            simp only [cnt, hd]
            by_cases h1 : j ≤ i
            · have : j + 1 ≤ i := by omega
              simp [h1, this]
            · have : ¬ j + 1 ≤ i := by omega
              simp [h1, this]
          rw [e]; exact this }
  | dSendRv j m hp hd hj hn hcl hcap hcur hwd hbuf hget =>
    obtain ⟨d1, d2, d3, d4⟩ := h.dh j hd
    exact { h with
      dh := fun j' hj' => by
        simp only [Option.some.injEq] at hj'
        subst hj'
        exact ⟨by omega, d2, d3, d4⟩
      dd := fun hd' => by rw [d3] at hd'; simp at hd'
      wd := fun i hi => by
        have := h.wd i hi
        by_cases hij : i = j
        · subst hij; rw [hcl] at this; simp at this
        · simp only [upd_other _ _ _ _ hij]; exact this
      cons := fun i hi hni => by
        have := h.cons i hi hni
        by_cases hij : i = j
        · subst hij
          have e0 : cnt s i = s.fEmit - 1 := by simp [cnt, hd]
          have e1 : cnt { s with wCur := upd s.wCur i (some m), dHold := some (i + 1) } i = s.fEmit := by
            simp only [cnt]; rw [if_neg (by omega)]
          rw [e1]
          simp only [upd_same]
          rw [hcur, hbuf, e0] at this
          simp only [Option.toList_none, List.append_nil] at this
          rw [hbuf, this]
          simp only [Option.toList_some, List.append_nil]
          have : s.fEmit = (s.fEmit - 1) + 1 := by omega
          conv => rhs; rw [this]
          exact (take_succ_of_get _ _ _ hget).symm
        · simp only [upd_other _ _ _ _ hij]
          have e : cnt { s with wCur := upd s.wCur j (some m), dHold := some (j + 1) } i = cnt s i := by
            simp only [cnt, hd]
            by_cases h1 : j ≤ i
            · have : j + 1 ≤ i := by omega
              simp [h1, this]
            · have : ¬ j + 1 ≤ i := by omega
              simp [h1, this]
          rw [e]; exact this }
  | dSendClosed j hp hd hj hn hcl =>
    -- impossible: a closed consumer channel means the fan-out has returned
    have := (h.chc j hcl).1
    rw [(h.dh j hd).2.2.1] at this
    simp at this
  | dNext hp hd =>
    obtain ⟨d1, d2, d3, d4⟩ := h.dh c.k hd
    exact { h with
      dh := fun j hj => by simp at hj
      dd := fun hd' => by rw [d3] at hd'; simp at hd'
      cons := fun i hi hni => by
        have := h.cons i hi hni
        have e : cnt { s with dHold := none } i = cnt s i := by
          have : ¬ c.k ≤ i := by omega
          simp [cnt, hd, this]
        rw [e]; exact this }
  | mainClose hp hdd hlt hcl hn hch =>
    obtain ⟨m1, m2⟩ := h.dd hdd
    exact { h with
      dh := fun j hj => by rw [m2] at hj; simp at hj
      chc := fun i hi => by
        by_cases hij : i = s.mainIdx
        · subst hij; exact ⟨hdd, by show s.mainIdx < s.mainIdx + 1; omega, hcl⟩
        · simp only [upd_other _ _ _ _ hij] at hi
          obtain ⟨a, b, c'⟩ := h.chc i hi
          exact ⟨a, by show i < s.mainIdx + 1; omega, c'⟩
      wd := fun i hi => by
        obtain ⟨a, b, c'⟩ := h.wd i hi
        refine ⟨?_, b, c'⟩
        by_cases hij : i = s.mainIdx
        · subst hij; simp
        · simp only [upd_other _ _ _ _ hij]; exact a
      clb := fun i hi hci => by
        by_cases hij : i = s.mainIdx
        · subst hij; simp
        · simp only [upd_other _ _ _ _ hij]
          exact h.clb i (by have : i < s.mainIdx + 1 := hi; omega) hci
      mi := by show s.mainIdx + 1 ≤ c.k; omega
      mi0 := fun _ => hdd
      mr := fun hr => by have := (h.mr hr).1; omega
      cons := fun i hi hn => h.cons i hi hn }
  | mainCloseBad hp hdd hlt hcl hbad =>
    rcases hbad with hnil | hch
    · have := hc.closes_nonnil _ hcl; rw [hnil] at this; simp at this
    · have := (h.chc _ hch).2.1; omega
  | mainSkip hp hdd hlt hcl =>
    obtain ⟨m1, m2⟩ := h.dd hdd
    exact { h with
      dh := fun j hj => by rw [m2] at hj; simp at hj
      chc := fun i hi => by
        obtain ⟨a, b, c'⟩ := h.chc i hi
        exact ⟨a, by show i < s.mainIdx + 1; omega, c'⟩
      clb := fun i hi hci => by
        by_cases hij : i = s.mainIdx
        · subst hij; rw [hcl] at hci; simp at hci
        · exact h.clb i (by have : i < s.mainIdx + 1 := hi; omega) hci
      mi := by show s.mainIdx + 1 ≤ c.k; omega
      mi0 := fun _ => hdd
      mr := fun hr => by have := (h.mr hr).1; omega
      cons := fun i hi hn => h.cons i hi hn }
  | mainReturn hp hdd he hr hw =>
    exact { h with
      mr := fun _ => ⟨he, hdd, hw⟩
      cons := fun i hi hn => h.cons i hi hn }
  | wRecv j m rest hp hj hn hwd hcur hbuf =>
    exact { h with
      capOk := fun i hi => by
        by_cases hij : i = j
        · subst hij
          have := h.capOk i hi
          rw [hbuf] at this
          simp only [upd_same]; simp at this; omega
        · simp only [upd_other _ _ _ _ hij]; exact h.capOk i hi
      wd := fun i hi => by
        have := h.wd i hi
        by_cases hij : i = j
        · subst hij; rw [hwd] at hi; simp at hi
        · simp only [upd_other _ _ _ _ hij]; exact this
      cons := fun i hi hni => by
        have := h.cons i hi hni
        show _ = c.out.take (cnt s i)
        by_cases hij : i = j
        · subst hij
          simp only [upd_same]
          rw [hcur, hbuf] at this
          simpa using this
        · simp only [upd_other _ _ _ _ hij]; exact this }
  | wFinish j m hp hj hn hcur =>
    exact { h with
      wd := fun i hi => by
        have := h.wd i hi
        by_cases hij : i = j
        · subst hij; rw [hcur] at this; simp at this
        · simp only [upd_other _ _ _ _ hij]; exact this
      cons := fun i hi hni => by
        have := h.cons i hi hni
        show _ = c.out.take (cnt s i)
        by_cases hij : i = j
        · subst hij
          simp only [upd_same]
          rw [hcur] at this
          simpa using this
        · simp only [upd_other _ _ _ _ hij]; exact this }
  | wSeeClosed j hp hj hn hwd hcur hbuf hcl =>
    exact { h with
      wd := fun i hi => by
        by_cases hij : i = j
        · subst hij; exact ⟨hcl, hbuf, hcur⟩
        · simp only [upd_other _ _ _ _ hij] at hi; exact h.wd i hi
      mr := fun hr => by
        obtain ⟨a, b, c'⟩ := h.mr hr
        refine ⟨a, b, fun hw i hi hni => ?_⟩
        by_cases hij : i = j
        · subst hij; simp
        · simp only [upd_other _ _ _ _ hij]; exact c' hw i hi hni
      cons := fun i hi hn => h.cons i hi hn }
end Ntrip.Pipe
