import Ntrip.Model.Bits
/-!
Complete enumeration of a finite range by binary splitting, so that kernel evaluation
(`decide +kernel`) stays shallow; lifted to a universally quantified statement by
`allRange_sound`.  This is a proof (the whole table is enumerated), not a sample.
-/
namespace Ntrip

/-- `p` holds on `[lo, lo+n)`. -/
def allRange (p : Nat → Bool) : Nat → Nat → Nat → Bool
  | 0, lo, n => (List.range n).all (fun i => p (lo + i))
  | fuel+1, lo, n =>
    if n ≤ 8 then (List.range n).all (fun i => p (lo + i))
    else allRange p fuel lo (n / 2) && allRange p fuel (lo + n / 2) (n - n / 2)

theorem allRange_sound (p : Nat → Bool) : ∀ fuel lo n, allRange p fuel lo n = true →
    ∀ k, lo ≤ k → k < lo + n → p k = true := by
  intro fuel
  induction fuel with
  | zero =>
    intro lo n h k h1 h2
    simp only [allRange, List.all_eq_true, List.mem_range] at h
    have := h (k - lo) (by omega)
    rwa [show lo + (k - lo) = k by omega] at this
  | succ f ih =>
    intro lo n h k h1 h2
    unfold allRange at h
    split at h
    · simp only [List.all_eq_true, List.mem_range] at h
      have := h (k - lo) (by omega)
      rwa [show lo + (k - lo) = k by omega] at this
    · simp only [Bool.and_eq_true] at h
      by_cases hk : k < lo + n / 2
      · exact ih _ _ h.1 k h1 hk
      · exact ih _ _ h.2 k (by omega) (by omega)

/-- All message types: the sentinels −2, −1 and the 4096 twelve-bit values. -/
def allTypes : List Int := (List.range 4098).map (fun (n : Nat) => (n : Int) - 2)

theorem mem_allTypes {t : Int} : t ∈ allTypes ↔ -2 ≤ t ∧ t ≤ 4095 := by
  simp only [allTypes, List.mem_map, List.mem_range]
  constructor
  · rintro ⟨n, hn, rfl⟩; omega
  · intro h; exact ⟨(t + 2).toNat, by omega, by omega⟩

/-- Lift a complete kernel enumeration to all message types. -/
theorem forall_types (p : Int → Bool)
    (h : allRange (fun n => p ((n : Int) - 2)) 12 0 4098 = true) : ∀ t ∈ allTypes, p t = true := by
  intro t ht
  obtain ⟨h1, h2⟩ := mem_allTypes.mp ht
  have := allRange_sound _ 12 0 4098 h (t + 2).toNat (by omega) (by omega)
  rwa [show (((t + 2).toNat : Nat) : Int) - 2 = t by omega] at this

end Ntrip
