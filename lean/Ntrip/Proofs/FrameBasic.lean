import Ntrip.Model.Frame
/-! Basic facts about the push-back channel model and the read loops (core only). -/
namespace Ntrip
theorem getNextByte_none {s : In} : getNextByte s = none ↔ s.stream = [] := by
  unfold getNextByte In.stream
  cases hp : s.pb <;> cases hr : s.rest <;> simp

theorem getNextByte_some {s s' : In} {b : UInt8} (h : getNextByte s = some (b, s')) :
    s.stream = b :: s'.stream ∧ s'.pb.length = s.pb.length - 1 ∧ s'.size + 1 = s.size := by
  refine ⟨?_, ?_, getNextByte_size h⟩
  all_goals
    unfold getNextByte at h
    cases hp : s.pb with
    | cons x xs => simp [hp] at h; obtain ⟨rfl, rfl⟩ := h; simp [In.stream, hp]
    | nil =>
      simp [hp] at h
      cases hr : s.rest with
      | nil => simp [hr] at h
      | cons y ys => simp [hr] at h; obtain ⟨rfl, rfl⟩ := h; simp [In.stream, hp, hr]

/-- Characterisation of `eatUntilStartOfFrame`. -/
theorem eat_spec (s : In) (acc : Bytes) :
    ∃ c, (eat s acc).1 = acc ++ c ∧ s.stream = c ++ (eat s acc).2.1.stream ∧
      (eat s acc).2.1.pb.length = s.pb.length - c.length ∧
      (eat s acc).2.1.size + c.length = s.size ∧
      ((eat s acc).2.2 = true → ∃ j, c = j ++ [0xD3] ∧ (0xD3 : UInt8) ∉ j) ∧
      ((eat s acc).2.2 = false → (0xD3 : UInt8) ∉ c ∧ (eat s acc).2.1.stream = []) := by
  fun_induction eat s acc with
  | case1 s acc h =>
    refine ⟨[], by simp, by simp, by simp, by simp, by simp, ?_⟩
    intro _; exact ⟨by simp, getNextByte_none.mp h⟩
  | case2 s acc s' h =>
    obtain ⟨h1, h2, h3⟩ := getNextByte_some h
    refine ⟨[0xD3], by simp, by simp [h1], by simp [h2], by simp; omega, ?_, by simp⟩
    intro _; exact ⟨[], by simp, by simp⟩
  | case3 s acc b s' h hb ih =>
    obtain ⟨h1, h2, h3⟩ := getNextByte_some h
    obtain ⟨c, e1, e2, e3, e4, e5, e6⟩ := ih
    refine ⟨b :: c, by simp [e1], by rw [h1, e2]; simp, by simp [e3, h2]; omega, by simp; omega, ?_, ?_⟩
    · intro hok
      obtain ⟨j, rfl, hj⟩ := e5 hok
      exact ⟨b :: j, by simp, by simp [hj]; exact fun h => hb h.symm⟩
    · intro hok
      obtain ⟨hc, hs⟩ := e6 hok
      exact ⟨by simp [hc]; exact fun h => hb h.symm, hs⟩
/-- Characterisation of the read loops of phases 2 and 3. -/
theorem readMore_spec : ∀ (n : Nat) (s : In) (frame : Bytes),
    ∃ c, (readMore n s frame).1 = frame ++ c ∧ s.stream = c ++ (readMore n s frame).2.1.stream ∧
      (readMore n s frame).2.1.pb.length = s.pb.length - c.length ∧
      (readMore n s frame).2.1.size + c.length = s.size ∧
      ((readMore n s frame).2.2 = true → c.length = n) ∧
      ((readMore n s frame).2.2 = false → c.length < n ∧ (readMore n s frame).2.1.stream = [])
  | 0, s, frame => ⟨[], by simp [readMore], by simp [readMore], by simp [readMore], by simp [readMore],
      by simp [readMore], by simp [readMore]⟩
  | n+1, s, frame => by
    unfold readMore
    cases h : getNextByte s with
    | none =>
      refine ⟨[], by simp, by simp, by simp, by simp, by simp, ?_⟩
      intro _; exact ⟨by simp, getNextByte_none.mp h⟩
    | some p =>
      obtain ⟨b, s'⟩ := p
      obtain ⟨h1, h2, h3⟩ := getNextByte_some h
      obtain ⟨c, e1, e2, e3, e4, e5, e6⟩ := readMore_spec n s' (frame ++ [b])
      simp only
      refine ⟨b :: c, by simp [e1], by rw [h1, e2]; simp, by simp [e3, h2]; omega, by simp; omega, ?_, ?_⟩
      · intro hok; simp [e5 hok]
      · intro hok; obtain ⟨hc, hs⟩ := e6 hok; exact ⟨by simp; omega, hs⟩
def FetchC.sizeLe (n : Nat) : FetchC → Prop
  | .done => True
  | .junk _ s => s.size ≤ n
  | .frame _ s => s.size ≤ n

theorem FetchC.sizeLe_mono {n m : Nat} (h : n ≤ m) : ∀ r : FetchC, r.sizeLe n → r.sizeLe m
  | .done, _ => trivial
  | .junk _ s, hs => Nat.le_trans hs h
  | .frame _ s, hs => Nat.le_trans hs h

theorem pushBack_size (s : In) (b : UInt8) : (pushBack s b).size = s.size + 1 := by
  simp [pushBack, In.size]; omega

theorem phase3_size (f : Bytes) (len : Nat) (s2 : In) : (fetchPhase3 f len s2).sizeLe s2.size := by
  unfold fetchPhase3
  obtain ⟨c3, q1, q2, q3, q4, q5, q6⟩ := readMore_spec (len + 6 - f.length) s2 f
  rcases hr3 : readMore (len + 6 - f.length) s2 f with ⟨f3, s3, ok3⟩
  rw [hr3] at q4
  cases ok3 <;> simp [FetchC.sizeLe] <;> simp at q4 <;> omega

theorem phase2_size (f : Bytes) (s1 : In) : (fetchPhase2 f s1).sizeLe s1.size := by
  unfold fetchPhase2
  obtain ⟨c2, r1, r2, r3, r4, r5, r6⟩ := readMore_spec 4 s1 f
  rcases hr : readMore 4 s1 f with ⟨f2, s2, ok2⟩
  rw [hr] at r4
  simp only at r4
  cases ok2 with
  | false => simp [FetchC.sizeLe]; omega
  | true =>
    simp only
    rcases hlt : lengthAndType f2 with ⟨len, typ, e⟩
    cases e with
    | none =>
      exact FetchC.sizeLe_mono (by omega) _ (phase3_size f2 len s2)
    | short | badLeader | zeroLength | incomplete | crc | tsShort | timeRange | unknownConst =>
      simp [FetchC.sizeLe]; omega

/-- Every fetch that returns a message consumes at least one byte (net of the push-back). -/
theorem fetchC_size (s : In) : (fetchC s).sizeLe (s.size - 1) ∧ (fetchC s ≠ .done → 0 < s.size) := by
  unfold fetchC
  obtain ⟨c, e1, e2, e3, e4, e5, e6⟩ := eat_spec s []
  rcases he : eat s [] with ⟨frame, s1, ok⟩
  rw [he] at e1 e2 e3 e4 e5 e6
  simp only [List.nil_append] at e1 e2 e3 e4 e5 e6
  subst e1
  simp only
  by_cases hdone : (!ok && frame.isEmpty) = true
  · simp [hdone, FetchC.sizeLe]
  · rw [if_neg hdone]
    have hne : frame ≠ [] := by
      intro h
      subst h
      cases ok with
      | false => simp at hdone
      | true => obtain ⟨j, hj, _⟩ := e5 rfl; simp at hj
    have hpos : 0 < frame.length := List.length_pos_iff.mpr hne
    have e4' : s1.size + frame.length = s.size := e4
    refine ⟨?_, fun _ => by omega⟩
    by_cases hl : frame.length > 1
    · rw [if_pos hl]
      split
      · simp only [FetchC.sizeLe, pushBack_size]; omega
      · simp only [FetchC.sizeLe]; omega
    · rw [if_neg hl]
      exact FetchC.sizeLe_mono (by omega) _ (phase2_size frame s1)
end Ntrip
