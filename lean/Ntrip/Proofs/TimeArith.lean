import Ntrip.Spec.Time
/-! Arithmetic of the timestamp conversion (week starts, rollovers), all by `omega` on literal constants. -/
namespace Ntrip

theorem startOfLastSunday_eq (x : Int) : startOfLastSunday x = x - (x - 259200000) % 604800000 := by
  unfold startOfLastSunday dayMs
  simp only
  omega

theorem newState_gps (T : Int) : (newState T).gps = trueWeekStart .gps T := by
  simp only [newState, startOfLastSunday_eq, gpsOffsetMs, Gen.utils_GPSLeapSeconds, Gen.utils_GPSTimeOffset,
    trueWeekStart, weekPos, weekBase]
  omega
theorem newState_gal (T : Int) : (newState T).gal = trueWeekStart .galileo T := by
  simp only [newState, startOfLastSunday_eq, gpsOffsetMs, Gen.utils_GPSLeapSeconds, Gen.utils_GPSTimeOffset,
    trueWeekStart, weekPos, weekBase]
  omega
theorem newState_bei (T : Int) : (newState T).bei = trueWeekStart .beidou T := by
  simp only [newState, startOfLastSunday_eq, beidouOffsetMs, Gen.utils_BeidouLeapSeconds, Gen.utils_BeidouTimeOffset,
    trueWeekStart, weekPos, weekBase]
  omega
theorem newState_glo (T : Int) : (newState T).glo = trueWeekStart .glonass T := by
  simp only [newState, startOfLastSunday_eq, glonassOffsetMs, Gen.utils_GlonassTimeOffset,
    trueWeekStart, weekPos, weekBase]
  omega
theorem newState_prev (T : Int) : (newState T).pGps = 0 ∧ (newState T).pGal = 0 ∧ (newState T).pBei = 0 ∧ (newState T).gDay = 0 := by
  simp [newState, prevInit, Gen.handler_New_timestampFromPreviousGPSMessage,
    Gen.handler_New_timestampFromPreviousGalileoMessage, Gen.handler_New_timestampFromPreviousBeidouMessage]

/-- One week-based conversion step (GPS, Galileo, BeiDou share `getUTCFromTimestamp`). -/
theorem weekConv_first (b T u : Int)
    (hsame : u - (u - b) % 604800000 = T - (T - b) % 604800000) :
    weekConv ((u - b) % 604800000).toNat 0 (T - (T - b) % 604800000) =
      some (u, u - (u - b) % 604800000) := by
  unfold weekConv weekMs dayMs
  simp only [Gen.utils_MaxTimestamp]
  have h1 : 0 ≤ (u - b) % 604800000 := Int.emod_nonneg _ (by omega)
  have h2 : (u - b) % 604800000 < 604800000 := Int.emod_lt_of_pos _ (by omega)
  have h3 : (((u - b) % 604800000).toNat : Int) = (u - b) % 604800000 := Int.toNat_of_nonneg h1
  simp only [h3]
  have : ¬ (u - b) % 604800000 > 604799999 := by omega
  simp only [this, if_false, Nat.not_lt_zero]
  congr 1
  ext <;> simp <;> omega

theorem weekConv_next (b u1 u2 : Int) (h1 : u1 ≤ u2) (h2 : u2 - u1 < 518400000) :
    weekConv ((u2 - b) % 604800000).toNat ((u1 - b) % 604800000).toNat (u1 - (u1 - b) % 604800000) =
      some (u2, u2 - (u2 - b) % 604800000) := by
  unfold weekConv weekMs dayMs
  simp only [Gen.utils_MaxTimestamp]
  have a1 : 0 ≤ (u1 - b) % 604800000 := Int.emod_nonneg _ (by omega)
  have a2 : (u1 - b) % 604800000 < 604800000 := Int.emod_lt_of_pos _ (by omega)
  have b1 : 0 ≤ (u2 - b) % 604800000 := Int.emod_nonneg _ (by omega)
  have b2 : (u2 - b) % 604800000 < 604800000 := Int.emod_lt_of_pos _ (by omega)
  have h3 : (((u2 - b) % 604800000).toNat : Int) = (u2 - b) % 604800000 := Int.toNat_of_nonneg b1
  simp only [h3]
  have : ¬ (u2 - b) % 604800000 > 604799999 := by omega
  simp only [this, if_false]
  split
  · rename_i hgt
    have : (u2 - b) % 604800000 < (u1 - b) % 604800000 := by omega
    congr 1; ext <;> simp <;> omega
  · rename_i hgt
    have : (u1 - b) % 604800000 ≤ (u2 - b) % 604800000 := by omega
    congr 1; ext <;> simp <;> omega
theorem parseGlonass_true (p : Int) (h0 : 0 ≤ p) (h1 : p < 604800000) :
    parseGlonass ((p / 86400000).toNat * 2^27 + (p % 86400000).toNat) =
      some ((p / 86400000).toNat, (p % 86400000).toNat) := by
  unfold parseGlonass
  simp only [Gen.utils_MaxTimestampGlonass, Gen.utils_MillisIn24Hours]
  have d0 : 0 ≤ p / 86400000 := Int.ediv_nonneg h0 (by omega)
  have d1 : p / 86400000 ≤ 6 := by omega
  have m0 : 0 ≤ p % 86400000 := Int.emod_nonneg _ (by omega)
  have m1 : p % 86400000 < 86400000 := Int.emod_lt_of_pos _ (by omega)
  obtain ⟨d, hd⟩ : ∃ d : Nat, (p / 86400000) = d := ⟨(p / 86400000).toNat, (Int.toNat_of_nonneg d0).symm⟩
  obtain ⟨m, hm⟩ : ∃ m : Nat, (p % 86400000) = m := ⟨(p % 86400000).toNat, (Int.toNat_of_nonneg m0).symm⟩
  rw [hd, hm]
  simp only [Int.toNat_natCast]
  have hd6 : d ≤ 6 := by omega
  have hm2 : m < 86400000 := by omega
  have e27 : (2:Nat)^27 = 134217728 := by decide
  rw [e27]
  have hs : (d * 134217728 + m) >>> 27 = d := by
    rw [Nat.shiftRight_eq_div_pow, e27]; omega
  have hmod : (d * 134217728 + m) % 134217728 = m := by omega
  have hle : ¬ ((d * 134217728 + m : Nat) : Int) > 891706367 := by omega
  simp only [hle, if_false, hs, hmod]
  have : ¬ ((m : Nat) : Int) ≥ 86400000 := by omega
  simp [this]
end Ntrip
