import Ntrip.Spec.Frame
import Ntrip.Spec.Scan
import Ntrip.Proofs.Bits
/-! Facts about `scan`, `lengthAndType`, `msgOfFrame` in terms of `ValidFrame` (list level). -/
namespace Ntrip

theorem bitAt_take (f : Bytes) (k i : Nat) (h : i < 8 * k) : bitAt (f.take k) i = bitAt f i := by
  unfold bitAt
  have : i / 8 < k := by omega
  rw [List.getElem?_take_of_lt this]

theorem specU_take (f : Bytes) (k pos n : Nat) (h : pos + n ≤ 8 * k) :
    specU (f.take k) pos n = specU f pos n :=
  specU_congr _ _ pos n (fun i hi => bitAt_take f k (pos + i) (by omega))

/-- `getMessageLengthAndType` in terms of the bit fields of the leader. -/
theorem lengthAndType_spec (f : Bytes) (h5 : 5 ≤ f.length) (hd : f.head? = some 0xD3) :
    lengthAndType f =
      if specU f 8 6 ≠ 0 then (0, -1, .badLeader)
      else if specU f 14 10 = 0 then (0, ((specU f 24 12 : Nat) : Int), .zeroLength)
      else (specU f 14 10, ((specU f 24 12 : Nat) : Int), .none) := by
  unfold lengthAndType
  have h1 : ¬ f.length < 5 := by omega
  simp only [h1, if_false, hd, bne_self_eq_false, Bool.false_eq_true,
    getBitsU_eq _ _ _ (show 6 ≤ 64 by omega), getBitsU_eq _ _ _ (show 10 ≤ 64 by omega),
    getBitsU_eq _ _ _ (show 12 ≤ 64 by omega)]
  by_cases hr : specU f 8 6 = 0
  · simp [hr]
  · simp [hr]

theorem lengthAndType_take5 (f : Bytes) (h5 : 5 ≤ f.length) (hd : f.head? = some 0xD3) :
    lengthAndType (f.take 5) = lengthAndType f := by
  have hd' : (f.take 5).head? = some 0xD3 := by
    cases f with
    | nil => simp at hd
    | cons a t => simpa using hd
  rw [lengthAndType_spec f h5 hd, lengthAndType_spec (f.take 5) (by simp; omega) hd',
    specU_take f 5 8 6 (by omega), specU_take f 5 14 10 (by omega), specU_take f 5 24 12 (by omega)]

theorem validFrame_lengthAndType {crc : Bytes → Nat} {f : Bytes} (hv : ValidFrame crc f) :
    lengthAndType f = (f.length - 6, typeOf f, .none) ∧ 7 ≤ f.length := by
  have hlen := hv.size
  have hnz := hv.lenNonzero
  refine ⟨?_, by omega⟩
  rw [lengthAndType_spec f (by omega) hv.preamble]
  have : ¬ specU f 14 10 = 0 := by omega
  simp only [hv.reserved, ne_eq, not_true_eq_false, if_false, this, typeOf]
  congr 1; omega

/-- A byte string with a sound leader and the announced length is scanned as one frame. -/
theorem scan_of_leader (f rest : Bytes) (hd : f.head? = some 0xD3) (h6 : 6 ≤ f.length)
    (t : Int) (hlt : lengthAndType (f.take 5) = (f.length - 6, t, .none)) :
    scan (f ++ rest) = .frame f rest := by
  cases f with
  | nil => simp at hd
  | cons b r =>
    simp only [List.head?_cons, Option.some.injEq] at hd
    subst hd
    unfold scan
    simp only [List.cons_append, ne_eq, not_true_eq_false, if_false]
    have h4 : ¬ (r ++ rest).length < 4 := by simp at h6 ⊢; omega
    simp only [h4, if_false]
    have ht5 : List.take 5 (0xD3 :: (r ++ rest)) = List.take 5 (0xD3 :: r) := by
      have : (0xD3 :: (r ++ rest)) = (0xD3 :: r) ++ rest := by simp
      rw [this, List.take_append_of_le_length (by simp at h6 ⊢; omega)]
    rw [ht5, hlt]
    simp only [ne_eq, not_true_eq_false, if_false]
    have hl : ¬ (0xD3 :: (r ++ rest)).length < (0xD3 :: r).length - 6 + 6 := by
      simp at h6 ⊢; omega
    simp only [hl, if_false]
    have e : (0xD3 :: r).length - 6 + 6 = (0xD3 :: r).length := by omega
    rw [e]
    have : (0xD3 :: (r ++ rest)) = (0xD3 :: r) ++ rest := by simp
    rw [this, List.take_left' rfl, List.drop_left' rfl]

theorem scan_valid {crc : Bytes → Nat} {f : Bytes} (hv : ValidFrame crc f) (rest : Bytes) :
    scan (f ++ rest) = .frame f rest := by
  obtain ⟨h1, h2⟩ := validFrame_lengthAndType hv
  apply scan_of_leader f rest hv.preamble (by omega) (typeOf f)
  rw [lengthAndType_take5 f (by omega) hv.preamble, h1]

theorem checkCRC_iff (crc : Bytes → Nat) (f : Bytes) (h6 : 6 ≤ f.length) :
    checkCRC crc f = true ↔ f.drop (f.length - 3) = crcBytes (crc (f.take (f.length - 3))) := by
  unfold checkCRC
  have : ¬ f.length < 6 := by omega
  simp [this]

/-- `GetMessage` on a byte string with a sound leader and exactly the announced length. -/
theorem msgOfFrame_of_leader (crc : Bytes → Nat) (f : Bytes) (hd : f.head? = some 0xD3) (h6 : 6 ≤ f.length)
    (t : Int) (hlt : lengthAndType f = (f.length - 6, t, .none)) :
    msgOfFrame crc f =
      if checkCRC crc f then { typ := t, raw := f } else { typ := -1, raw := f, err := .crc } := by
  unfold msgOfFrame getMessageCore
  have hne : f ≠ [] := by intro h; simp [h] at h6
  simp only [hne, if_false, hd, bne_self_eq_false, Bool.false_eq_true, hlt]
  have e : f.length - 6 + 6 = f.length := by omega
  simp only [e, Nat.lt_irrefl, gt_iff_lt, if_false, List.take_length]
  cases hc : checkCRC crc f <;> simp

theorem msgOfFrame_valid {crc : Bytes → Nat} {f : Bytes} (hv : ValidFrame crc f) :
    msgOfFrame crc f = { typ := typeOf f, raw := f } := by
  obtain ⟨h1, h2⟩ := validFrame_lengthAndType hv
  rw [msgOfFrame_of_leader crc f hv.preamble (by omega) _ h1]
  have := (checkCRC_iff crc f (by omega)).mpr hv.crcOk
  simp [this]
end Ntrip
