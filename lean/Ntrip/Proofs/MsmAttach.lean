import Ntrip.Model.Analyse
import Ntrip.Proofs.MsmSafe
/-! Index facts about the cell attachment loop. -/
namespace Ntrip

theorem attachRow_indices (sigs : List Nat) (satIdx satId : Nat) (rows : List (List Int)) (n : Nat) :
    ∀ (row : List Bool) (j c : Nat), ∀ cell ∈ (attachRow sigs satIdx satId rows n row j c).1,
      cell.satIdx = satIdx ∧ j ≤ cell.sigIdx ∧ cell.sigIdx < j + row.length ∧ cell.cellIdx < n
  | [], _, _, cell, h => by simp [attachRow] at h
  | b :: rest, j, c, cell, h => by
    unfold attachRow at h
    split at h
    · rename_i hc
      simp only [Bool.and_eq_true, decide_eq_true_eq] at hc
      simp only [List.mem_cons] at h
      rcases h with rfl | h
      · exact ⟨rfl, Nat.le_refl _, by simp, hc.1⟩
      · have := attachRow_indices sigs satIdx satId rows n rest (j+1) (c+1) cell h
        exact ⟨this.1, by omega, by simp; omega, this.2.2.2⟩
    · have := attachRow_indices sigs satIdx satId rows n rest (j+1) c cell h
      exact ⟨this.1, by omega, by simp; omega, this.2.2.2⟩

theorem attach_indices (sats sigs : List Nat) (rows : List (List Int)) (n : Nat) :
    ∀ (cells : List (List Bool)) (i c : Nat), ∀ r ∈ attach sats sigs rows n cells i c, ∀ cell ∈ r,
      i ≤ cell.satIdx ∧ cell.satIdx < i + cells.length ∧ cell.cellIdx < n ∧
      ∃ row ∈ cells, cell.sigIdx < row.length
  | [], _, _, r, h => by simp [attach] at h
  | row :: rest, i, c, r, h => by
    intro cell hcell
    unfold attach at h
    simp only [List.mem_cons] at h
    rcases h with rfl | h
    · have := attachRow_indices sigs i (sats.getD i 0) rows n row 0 c cell hcell
      exact ⟨by omega, by simp; omega, this.2.2.2, row, by simp, by omega⟩
    · have := attach_indices sats sigs rows n rest (i+1) _ r h cell hcell
      obtain ⟨a, b, c', row', hr, hl⟩ := this
      exact ⟨by omega, by simp; omega, c', row', by simp [hr], hl⟩

theorem cellsOfMask_shape (mask nsat nsig : Nat) :
    (cellsOfMask mask nsat nsig).length = nsat ∧ ∀ row ∈ cellsOfMask mask nsat nsig, row.length = nsig := by
  unfold cellsOfMask
  refine ⟨by simp, ?_⟩
  intro row hrow
  simp only [List.mem_map, List.mem_range] at hrow
  obtain ⟨i, _, rfl⟩ := hrow
  simp
/-- The shape of a successful MSM decode. -/
theorem decodeMsm_ok_form (k : MsmKind) (bs : Bytes) (m : MsmMsg) (hm : decodeMsm k bs = .ok m) :
    ∃ pos satV colsV n, getMSMHeader bs = .ok (m.hdr, pos) ∧
      m.sats = transpose satV m.hdr.sats.length ∧
      m.sigs = attach m.hdr.sats m.hdr.sigs colsV n m.hdr.cells 0 0 := by
  unfold decodeMsm at hm
  obtain ⟨hnp, hok⟩ := getMSMHeader_safe bs
  cases hh : getMSMHeader bs with
  | panic => exact absurd hh hnp
  | err e => rw [hh] at hm; simp [bind] at hm
  | ok hp =>
    obtain ⟨h, pos⟩ := hp
    obtain ⟨hpos, hfit, _, _⟩ := hok h pos hh
    rw [hh] at hm
    simp only [bind] at hm
    by_cases hf : (!k.accepts (h.typ : Int)) = true
    · rw [if_pos hf] at hm; simp at hm
    · rw [if_neg hf] at hm
      obtain ⟨scols, hsc, _, _⟩ := satCols_facts k
      rw [hsc] at hm
      simp only at hm
      obtain ⟨snp, sok⟩ := getSatelliteCells_safe k bs pos h.sats.length
      cases hs : getSatelliteCells k bs pos h.sats.length with
      | panic => exact absurd hs snp
      | err e => rw [hs] at hm; simp at hm
      | ok v =>
        obtain ⟨cols', hc', hfit2⟩ := sok v hs
        rw [hsc] at hc'
        injection hc' with hc'
        subst hc'
        rw [hs] at hm
        simp only at hm
        obtain ⟨gnp, gok⟩ := getSignalCells_safe k bs (pos + h.sats.length * widthOf scols) h (by omega)
        cases hg : getSignalCells k bs (pos + h.sats.length * widthOf scols) h with
        | panic => exact absurd hg gnp
        | err e => rw [hg] at hm; simp at hm
        | ok v2 =>
          rw [hg] at hm
          simp only [pure] at hm
          injection hm with hm
          subst hm
          obtain ⟨colsV, n, hform⟩ := gok v2 hg
          exact ⟨pos, v, colsV, n, rfl, rfl, hform⟩

/-- Every index the attachment loop (and later the display) uses is in range: the satellite
    cell a signal cell points to exists (`&satCells[i]` — never nil), and so does its signal
    id (`header.Signals[j]`). -/
theorem decodeMsm_indices (k : MsmKind) (bs : Bytes) (m : MsmMsg) (hm : decodeMsm k bs = .ok m) :
    m.sats.length = m.hdr.sats.length ∧
    ∀ r ∈ m.sigs, ∀ cell ∈ r, cell.satIdx < m.sats.length ∧ cell.sigIdx < m.hdr.sigs.length := by
  obtain ⟨pos, satV, colsV, n, hh, hsats, hsigs⟩ := decodeMsm_ok_form k bs m hm
  have hlenS : m.sats.length = m.hdr.sats.length := by rw [hsats]; simp [transpose]
  refine ⟨hlenS, ?_⟩
  obtain ⟨_, _, hcells, _⟩ := (getMSMHeader_safe bs).2 m.hdr pos hh
  obtain ⟨hlen, hrows⟩ := cellsOfMask_shape m.hdr.cellMask m.hdr.sats.length m.hdr.sigs.length
  intro r hr cell hc
  rw [hsigs] at hr
  obtain ⟨_, h2, _, row, hrow, hl⟩ := attach_indices m.hdr.sats m.hdr.sigs colsV n m.hdr.cells 0 0 r hr cell hc
  rw [hcells] at h2 hrow
  rw [hlen] at h2
  exact ⟨by omega, by rw [← hrows row hrow]; exact hl⟩
end Ntrip
