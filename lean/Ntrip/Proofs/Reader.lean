import Ntrip.Model.Reader
/-! The read loop forwards exactly the bytes it was given (C13). -/
namespace Ntrip

theorem bytesOf_append (a b : List ReadRes) : bytesOf (a ++ b) = bytesOf a ++ bytesOf b := by
  induction a with
  | nil => rfl
  | cons r t ih => cases r <;> simp [bytesOf, ih]

def RStep.st : RStep → RState
  | .cont s => s
  | .stop s _ => s

/-- One iteration consumes one read result and forwards exactly the byte it carried (if any). -/
theorem stepReader_spec (cfg : RCfg) (r : ReadRes) (st : RState) :
    (stepReader cfg r st).st.consumed = st.consumed + 1 ∧
    (stepReader cfg r st).st.forwarded = st.forwarded ++ bytesOf [r] := by
  unfold stepReader
  cases r with
  | byte b => simp [RStep.st, bytesOf]
  | other => simp [RStep.st, bytesOf]
  | eof =>
    simp only
    split
    · simp [RStep.st, bytesOf]
    · split <;> (try split) <;> simp [RStep.st, bytesOf]
  | timeout =>
    simp only
    split
    · simp [RStep.st, bytesOf]
    · split <;> (try split) <;> simp [RStep.st, bytesOf]

/-- Every byte the source supplies before the handler stops is forwarded exactly once, in
    order — whatever the placement of EOF/timeout results and whatever the clock says; and
    nothing else is forwarded. -/
theorem forwarded_exact (cfg : RCfg) : ∀ (script : List ReadRes) (st : RState),
    st.consumed ≤ (runReader cfg script st).1.consumed ∧
    (runReader cfg script st).1.consumed ≤ st.consumed + script.length ∧
    (runReader cfg script st).1.forwarded =
      st.forwarded ++ bytesOf (script.take ((runReader cfg script st).1.consumed - st.consumed)) := by
  intro script
  induction script with
  | nil => intro st; simp [runReader, bytesOf]
  | cons r rest ih =>
    intro st
    obtain ⟨s1, s2⟩ := stepReader_spec cfg r st
    unfold runReader
    cases hstep : stepReader cfg r st with
    | stop st' why =>
      rw [hstep] at s1 s2
      simp only [RStep.st] at s1 s2
      simp only
      refine ⟨by omega, by simp; omega, ?_⟩
      have : st'.consumed - st.consumed = 1 := by omega
      rw [this, s2]; simp
    | cont st' =>
      rw [hstep] at s1 s2
      simp only [RStep.st] at s1 s2
      simp only
      obtain ⟨h1, h2, h3⟩ := ih st'
      refine ⟨by omega, by simp; omega, ?_⟩
      rw [h3, s2]
      have : (runReader cfg rest st').1.consumed - st.consumed = ((runReader cfg rest st').1.consumed - st'.consumed) + 1 := by omega
      rw [this, List.take_succ_cons, List.append_assoc]
      congr 1
      have : bytesOf (r :: List.take ((runReader cfg rest st').1.consumed - st'.consumed) rest)
          = bytesOf [r] ++ bytesOf (List.take ((runReader cfg rest st').1.consumed - st'.consumed) rest) := by
        rw [← bytesOf_append]; rfl
      rw [this]
def ReadRes.isByte : ReadRes → Bool
  | .byte _ => true
  | _ => false

def ReadRes.isSoftFailure : ReadRes → Bool
  | .eof => true
  | .timeout => true
  | _ => false

/-- EOF/timeout results are isolated: never two in a row, and no other error. -/
def Isolated : List ReadRes → Prop
  | [] => True
  | [r] => r ≠ .other
  | a :: b :: rest => a ≠ .other ∧ (a.isSoftFailure = true → b.isByte = true) ∧ Isolated (b :: rest)

/-- With a non-zero tolerance, isolated EOF/timeout results never stop the handler: the whole
    script is consumed and every byte forwarded, whatever the clock says. -/
theorem isolated_failures_tolerated (cfg : RCfg) (hτ : cfg.tau ≠ 0) : ∀ (script : List ReadRes) (st : RState),
    Isolated script → (st.firstEOF.isSome → ∀ r rest, script = r :: rest → r.isByte = true) →
    (runReader cfg script st).2 = .scriptEnd ∧
    (runReader cfg script st).1.forwarded = st.forwarded ++ bytesOf script := by
  intro script
  induction script with
  | nil => intro st _ _; simp [runReader, bytesOf]
  | cons r rest ih =>
    intro st hiso hfirst
    have hrest : Isolated rest := by
      cases rest with
      | nil => trivial
      | cons b t => exact hiso.2.2
    have hne : r ≠ .other := by
      cases rest with
      | nil => exact hiso
      | cons b t => exact hiso.1
    unfold runReader
    cases r with
    | other => exact absurd rfl hne
    | byte b =>
      simp only [stepReader]
      have := ih { st with consumed := st.consumed + 1, forwarded := st.forwarded ++ [b], firstEOF := none } hrest
        (by intro h; simp at h)
      simp only at this
      refine ⟨this.1, ?_⟩
      rw [this.2]; simp [bytesOf]
    | eof =>
      have hnone : st.firstEOF = none := by
        cases hf : st.firstEOF with
        | none => rfl
        | some t => have := hfirst (by simp [hf]) .eof rest rfl; simp [ReadRes.isByte] at this
      have hnext : ∀ r' rest', rest = r' :: rest' → r'.isByte = true := by
        intro r' rest' he
        subst he
        exact hiso.2.1 rfl
      simp only [stepReader, hτ, if_false, hnone]
      cases hc : st.clock with
      | nil =>
        simp only
        have := ih { st with consumed := st.consumed + 1, firstEOF := some 0 } hrest (fun _ => hnext)
        simp only [hc] at this
        exact ⟨this.1, by rw [this.2]; simp [bytesOf]⟩
      | cons t c' =>
        simp only
        have := ih { st with consumed := st.consumed + 1, firstEOF := some t, clock := c' } hrest (fun _ => hnext)
        simp only at this
        exact ⟨this.1, by rw [this.2]; simp [bytesOf]⟩
    | timeout =>
      have hnone : st.firstEOF = none := by
        cases hf : st.firstEOF with
        | none => rfl
        | some t => have := hfirst (by simp [hf]) .timeout rest rfl; simp [ReadRes.isByte] at this
      have hnext : ∀ r' rest', rest = r' :: rest' → r'.isByte = true := by
        intro r' rest' he
        subst he
        exact hiso.2.1 rfl
      simp only [stepReader, hτ, if_false, hnone]
      cases hc : st.clock with
      | nil =>
        simp only
        have := ih { st with consumed := st.consumed + 1, firstEOF := some 0 } hrest (fun _ => hnext)
        simp only [hc] at this
        exact ⟨this.1, by rw [this.2]; simp [bytesOf]⟩
      | cons t c' =>
        simp only
        have := ih { st with consumed := st.consumed + 1, firstEOF := some t, clock := c' } hrest (fun _ => hnext)
        simp only at this
        exact ⟨this.1, by rw [this.2]; simp [bytesOf]⟩

/-- A zero tolerance stops the handler at the first EOF/timeout; any other error stops it
    whatever the tolerance; in both cases everything received before is forwarded. -/
theorem stops_at_first_failure (cfg : RCfg) (pre : List UInt8) (f : ReadRes) (post : List ReadRes) (st : RState)
    (hf : f = .other ∨ (cfg.tau = 0 ∧ f.isSoftFailure = true)) :
    (runReader cfg (pre.map ReadRes.byte ++ f :: post) st).1.forwarded = st.forwarded ++ pre ∧
    (runReader cfg (pre.map ReadRes.byte ++ f :: post) st).1.consumed = st.consumed + pre.length + 1 ∧
    (runReader cfg (pre.map ReadRes.byte ++ f :: post) st).2 ≠ .scriptEnd := by
  induction pre generalizing st with
  | nil =>
    simp only [List.map_nil, List.nil_append, List.length_nil, List.append_nil, Nat.add_zero]
    unfold runReader
    rcases hf with rfl | ⟨h0, hs⟩
    · simp [stepReader]
    · cases f <;> simp [ReadRes.isSoftFailure] at hs <;> simp [stepReader, h0]
  | cons b t ih =>
    simp only [List.map_cons, List.cons_append]
    unfold runReader
    simp only [stepReader]
    have := ih { st with consumed := st.consumed + 1, forwarded := st.forwarded ++ [b], firstEOF := none }
    simp only at this
    refine ⟨by rw [this.1]; simp, by rw [this.2.1]; simp; omega, this.2.2⟩
end Ntrip
