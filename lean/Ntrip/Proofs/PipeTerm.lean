import Ntrip.Proofs.PipeProgress
/-! Termination of the pipeline: a measure that every step decreases. -/
namespace Ntrip.Pipe
variable {M : Type}

def sumTo (k : Nat) (f : Nat → Nat) : Nat := ((List.range k).map f).sum

theorem sumTo_succ (k : Nat) (f : Nat → Nat) : sumTo (k + 1) f = sumTo k f + f k := by
  simp [sumTo, List.range_succ]

theorem sumTo_congr (k : Nat) (f g : Nat → Nat) (h : ∀ j, j < k → g j = f j) : sumTo k g = sumTo k f := by
  induction k with
  | zero => rfl
  | succ n ih => rw [sumTo_succ, sumTo_succ, ih (fun j hj => h j (by omega)), h n (by omega)]

/-- Changing one summand by a strictly smaller one makes the sum strictly smaller. -/
theorem sumTo_lt (k : Nat) (f g : Nat → Nat) (i : Nat) (hi : i < k) (ho : ∀ j, j ≠ i → g j = f j)
    (hlt : g i < f i) : sumTo k g < sumTo k f := by
  induction k with
  | zero => omega
  | succ n ih =>
    rw [sumTo_succ, sumTo_succ]
    by_cases hin : i = n
    · subst hin
      rw [sumTo_congr i f g (fun j hj => ho j (by omega))]
      omega
    · rw [ho n (by omega)]
      have := ih (by omega)
      omega

theorem sumTo_le (k : Nat) (f g : Nat → Nat) (i : Nat) (ho : ∀ j, j ≠ i → g j = f j)
    (hle : g i ≤ f i) : sumTo k g ≤ sumTo k f := by
  induction k with
  | zero => simp [sumTo]
  | succ n ih =>
    rw [sumTo_succ, sumTo_succ]
    by_cases hin : n = i
    · subst hin; omega
    · rw [ho n hin]; omega

def b2n (b : Bool) : Nat := if b then 1 else 0

/-- Work left for writer `i`: two steps per message not yet handled (one less when one is in
    hand), plus the final step of seeing the channel closed. -/
def wWork (c : Cfg M) (s : PS M) (i : Nat) : Nat :=
  2 * (c.out.length - (s.handled i).length) - b2n (s.wCur i).isSome + b2n (!s.wDone i)

def dWork (c : Cfg M) (s : PS M) : Nat :=
  match s.dHold with
  | some j => c.k + 2 - j
  | none => 0

/-- The termination measure: the number of steps the system can still make is bounded by it. -/
def measure (c : Cfg M) (s : PS M) : Nat :=
  (c.nBytes - s.rSent) + b2n (!s.bClosed) + b2n (!s.fSeenClosed) + b2n (!s.mClosed) + b2n (!s.dDone) +
  (c.out.length - s.fEmit) * (c.k + 3) + dWork c s + sumTo c.k (wWork c s) + (c.k - s.mainIdx) +
  b2n (!s.mainReturned)
end Ntrip.Pipe

namespace Ntrip.Pipe
variable {M : Type}

theorem b2n_le (b : Bool) : b2n b ≤ 1 := by cases b <;> simp [b2n]

/-- **Termination**: every step from a state satisfying the invariant strictly decreases the
    measure, so every schedule is finite (at most `measure c init` steps). -/
theorem measure_decreases (c : Cfg M) (hc : c.WF) (s s' : PS M) (h : Inv c s) (hs : Step c s s') :
    measure c s' < measure c s := by
  have hL := hc.prod_le s.fRecv s.fSeenClosed
  cases hs with
  | rSend hp hlt hb hw =>
    have hw' : sumTo c.k (wWork c { s with rSent := s.rSent + 1, fRecv := s.fRecv + 1 }) = sumTo c.k (wWork c s) := rfl
    unfold measure dWork
    rw [hw']
    simp only
    omega
  | rClose hp he hb =>
    have hw' : sumTo c.k (wWork c { s with bClosed := true }) = sumTo c.k (wWork c s) := rfl
    unfold measure dWork
    rw [hw']
    simp only [hb, b2n]
    simp
  | fSeeClosed hp hb hw =>
    have hw' : sumTo c.k (wWork c { s with fSeenClosed := true }) = sumTo c.k (wWork c s) := rfl
    unfold measure dWork
    rw [hw']
    simp only [hw.1, b2n]
    simp
  | fSend hp hlt hm hd hdd =>
    have hw' : sumTo c.k (wWork c { s with fEmit := s.fEmit + 1, dHold := some 0 }) = sumTo c.k (wWork c s) := rfl
    unfold measure dWork
    rw [hw']
    simp only [hd]
    have h1 : s.fEmit < c.out.length := by omega
    have h2 : (c.out.length - (s.fEmit + 1)) * (c.k + 3) + (c.k + 3) = (c.out.length - s.fEmit) * (c.k + 3) := by
      have : c.out.length - s.fEmit = (c.out.length - (s.fEmit + 1)) + 1 := by omega
      rw [this, Nat.add_mul]; omega
    omega
  | fClose hp hsc he hm =>
    have hw' : sumTo c.k (wWork c { s with mClosed := true }) = sumTo c.k (wWork c s) := rfl
    unfold measure dWork
    rw [hw']
    simp only [hm, b2n]
    simp
  | dSeeClosed hp hm hd hdd =>
    have hw' : sumTo c.k (wWork c { s with dDone := true }) = sumTo c.k (wWork c s) := rfl
    unfold measure dWork
    rw [hw']
    simp only [hdd, hd, b2n]
    simp
  | dSkipNil j hp hd hj hn =>
    have hw' : sumTo c.k (wWork c { s with dHold := some (j + 1) }) = sumTo c.k (wWork c s) := rfl
    unfold measure dWork
    rw [hw']
    simp only [hd]
    omega
  | dSendBuf j m hp hd hj hn hcl hlen hget =>
    have hw' : sumTo c.k (wWork c { s with buf := upd s.buf j (s.buf j ++ [m]), dHold := some (j + 1) }) = sumTo c.k (wWork c s) := rfl
    unfold measure dWork
    rw [hw']
    simp only [hd]
    omega
  | dSendRv j m hp hd hj hn hcl hcap hcur hwd hbuf hget =>
    have hw' : sumTo c.k (wWork c { s with wCur := upd s.wCur j (some m), dHold := some (j + 1) }) ≤ sumTo c.k (wWork c s) := by
      apply sumTo_le c.k _ _ j
      · intro i hi; simp [wWork, upd_other _ _ _ _ hi]
      · simp only [wWork, upd_same, hcur, Option.isSome_some, Option.isSome_none, b2n]; simp
    unfold measure dWork
    simp only [hd]
    omega
  | dSendClosed j hp hd hj hn hcl =>
    have := (h.chc j hcl).1
    rw [(h.dh j hd).2.2.1] at this
    simp at this
  | dNext hp hd =>
    have hw' : sumTo c.k (wWork c { s with dHold := none }) = sumTo c.k (wWork c s) := rfl
    unfold measure dWork
    rw [hw']
    simp only [hd]
    omega
  | mainClose hp hdd hlt hcl hn hch =>
    have hw' : sumTo c.k (wWork c { s with chClosed := upd s.chClosed s.mainIdx true, mainIdx := s.mainIdx + 1 }) = sumTo c.k (wWork c s) := rfl
    unfold measure dWork
    rw [hw']
    simp only
    omega
  | mainCloseBad hp hdd hlt hcl hbad =>
    rcases hbad with hnil | hch
    · have := hc.closes_nonnil _ hcl; rw [hnil] at this; simp at this
    · have := (h.chc _ hch).2.1; omega
  | mainSkip hp hdd hlt hcl =>
    have hw' : sumTo c.k (wWork c { s with mainIdx := s.mainIdx + 1 }) = sumTo c.k (wWork c s) := rfl
    unfold measure dWork
    rw [hw']
    simp only
    omega
  | mainReturn hp hdd he hr hw =>
    have hw' : sumTo c.k (wWork c { s with mainReturned := true }) = sumTo c.k (wWork c s) := rfl
    unfold measure dWork
    rw [hw']
    simp only [hr, b2n]
    simp
  | wRecv j m rest hp hj hn hwd hcur hbuf =>
    have hlen : (s.handled j).length < c.out.length := by
      have := congrArg List.length (h.cons j hj hn)
      rw [hcur, hbuf] at this
      simp at this
      have hle : (List.take (cnt s j) c.out).length ≤ c.out.length := by simp; omega
      simp at hle
      omega
    have hw' : sumTo c.k (wWork c { s with buf := upd s.buf j rest, wCur := upd s.wCur j (some m) }) < sumTo c.k (wWork c s) := by
      apply sumTo_lt c.k _ _ j hj
      · intro i hi; simp [wWork, upd_other _ _ _ _ hi]
      · simp only [wWork, upd_same, hcur, Option.isSome_some, Option.isSome_none, b2n]
        simp
        omega
    unfold measure dWork
    simp only
    omega
  | wFinish j m hp hj hn hcur =>
    have hlen : (s.handled j).length < c.out.length := by
      have := congrArg List.length (h.cons j hj hn)
      rw [hcur] at this
      simp at this
      omega
    have hw' : sumTo c.k (wWork c { s with wCur := upd s.wCur j none, handled := upd s.handled j (s.handled j ++ [m]) }) < sumTo c.k (wWork c s) := by
      apply sumTo_lt c.k _ _ j hj
      · intro i hi; simp [wWork, upd_other _ _ _ _ hi]
      · simp only [wWork, upd_same, hcur, Option.isSome_some, Option.isSome_none, b2n, List.length_append,
          List.length_singleton]
        simp
        omega
    unfold measure dWork
    simp only
    omega
  | wSeeClosed j hp hj hn hwd hcur hbuf hcl =>
    have hw' : sumTo c.k (wWork c { s with wDone := upd s.wDone j true }) < sumTo c.k (wWork c s) := by
      apply sumTo_lt c.k _ _ j hj
      · intro i hi; simp [wWork, upd_other _ _ _ _ hi]
      · simp only [wWork, upd_same, hwd, b2n]
        simp
    unfold measure dWork
    simp only
    omega
end Ntrip.Pipe
