import Ntrip.Model.Msm
/-! Index safety of the MSM decoders: every checked read is in range (towards C07). -/
namespace Ntrip

theorem inRange_of_le {bs : Bytes} {pos len : Nat} (h : pos + len ≤ 8 * bs.length) : inRange bs pos len = true := by
  unfold inRange
  by_cases h0 : len = 0
  · simp [h0]
  · simp only [Bool.or_eq_true, beq_iff_eq, decide_eq_true_eq]; right; omega

theorem rdU_ok {bs : Bytes} {pos len : Nat} (h : pos + len ≤ 8 * bs.length) :
    rdU bs pos len = .ok (getBitsU bs pos len) := by
  unfold rdU getBitsU?; rw [inRange_of_le h]; rfl

theorem rdField_ok {bs : Bytes} {pos len : Nat} (s : Bool) (h1 : 1 ≤ len) (h : pos + len ≤ 8 * bs.length) :
    ∃ v, rdField bs pos s len = .ok v := by
  unfold rdField
  cases s with
  | true =>
    simp only [if_true]
    unfold getBitsI?
    rw [inRange_of_le h, inRange_of_le (show pos + 1 ≤ 8 * bs.length by omega)]
    exact ⟨_, rfl⟩
  | false =>
    simp only [Bool.false_eq_true, if_false]
    unfold getBitsU?
    rw [inRange_of_le h]
    exact ⟨_, rfl⟩

theorem readColumn_ok (bs : Bytes) (s : Bool) (len : Nat) (h1 : 1 ≤ len) : ∀ (n pos : Nat),
    pos + n * len ≤ 8 * bs.length → ∃ vs, readColumn bs s len n pos = .ok vs ∧ vs.length = n
  | 0, _, _ => ⟨[], rfl, rfl⟩
  | n+1, pos, h => by
    have hh : pos + len ≤ 8 * bs.length := by rw [Nat.succ_mul] at h; omega
    obtain ⟨v, hv⟩ := rdField_ok s h1 hh
    obtain ⟨vs, hvs, hl⟩ := readColumn_ok bs s len h1 n (pos + len) (by rw [Nat.succ_mul] at h; omega)
    refine ⟨v :: vs, ?_, by simp [hl]⟩
    simp only [readColumn, hv, hvs, bind, pure]

theorem readColumns_ok (bs : Bytes) (n : Nat) : ∀ (cols : List Col) (pos : Nat),
    (∀ c ∈ cols, 1 ≤ c.2) → pos + n * widthOf cols ≤ 8 * bs.length →
    ∃ vs, readColumns bs n cols pos = .ok vs ∧ vs.length = cols.length ∧ ∀ c ∈ vs, c.length = n
  | [], _, _, _ => ⟨[], rfl, rfl, by simp⟩
  | (s, w) :: cols, pos, hw, h => by
    have hwid : widthOf ((s, w) :: cols) = w + widthOf cols := by simp [widthOf]
    rw [hwid, Nat.mul_add] at h
    obtain ⟨c, hc, hcl⟩ := readColumn_ok bs s w (hw (s, w) (by simp)) n pos (by omega)
    obtain ⟨vs, hvs, hl, hall⟩ := readColumns_ok bs n cols (pos + n * w)
      (fun c hc => hw c (by simp [hc])) (by omega)
    refine ⟨c :: vs, ?_, by simp [hl], ?_⟩
    · simp only [readColumns, hc, hvs, bind, pure]
    · intro x hx
      simp only [List.mem_cons] at hx
      rcases hx with rfl | hx
      · exact hcl
      · exact hall x hx
theorem readFields_ok (bs : Bytes) : ∀ (cols : List Col) (pos : Nat), (∀ c ∈ cols, 1 ≤ c.2) →
    pos + widthOf cols ≤ 8 * bs.length → ∃ vs, readFields bs cols pos = .ok vs
  | [], _, _, _ => ⟨[], rfl⟩
  | (s, w) :: cs, pos, hw, h => by
    have hwid : widthOf ((s, w) :: cs) = w + widthOf cs := by simp [widthOf]
    rw [hwid] at h
    obtain ⟨v, hv⟩ := rdField_ok (bs := bs) (pos := pos) s (hw (s, w) (by simp)) (by omega)
    obtain ⟨vs, hvs⟩ := readFields_ok bs cs (pos + w) (fun c hc => hw c (by simp [hc])) (by omega)
    exact ⟨v :: vs, by simp only [readFields, hv, hvs, bind, pure]⟩

theorem hdrCols_facts : ∃ cols, hdrCols = some cols ∧ (∀ c ∈ cols, 1 ≤ c.2) ∧ widthOf cols = 169 :=
  ⟨_, rfl, by decide, by decide⟩

/-- The header reader never panics; when it succeeds the header ends 24 bits or more before
    the end of the frame and is followed by `nsat * nsig ≤ 64` cell-mask bits. -/
theorem getMSMHeader_safe (bs : Bytes) :
    getMSMHeader bs ≠ .panic ∧
    ∀ h pos, getMSMHeader bs = .ok (h, pos) →
      pos = 193 + h.sats.length * h.sigs.length ∧ pos + 24 ≤ 8 * bs.length ∧
      h.cells = cellsOfMask h.cellMask h.sats.length h.sigs.length ∧
      h.sats.length * h.sigs.length ≤ 64 := by
  obtain ⟨cols, hc, hw, hwid⟩ := hdrCols_facts
  unfold getMSMHeader
  rw [hc]
  simp only [Gen.header_minBitsInHeader]
  by_cases hg : ((bs.length : Int) - 6) * 8 < 169
  · simp [hg]
  · have hl : 217 ≤ 8 * bs.length := by omega
    rw [if_neg hg]
    obtain ⟨vals, hv⟩ := readFields_ok bs cols 24 hw (by omega)
    rw [hv]
    simp only [bind]
    split
    · simp
    · split
      · simp
      · split
        · simp
        · rename_i h1 h2
          rw [hwid] at *
          rw [rdU_ok (by omega)]
          simp only [pure]
          refine ⟨by simp, ?_⟩
          intro h pos heq
          injection heq with heq
          injection heq with e1 e2
          subst e1 e2
          refine ⟨rfl, ?_, rfl, ?_⟩
          · show 24 + 169 + _ + 24 ≤ _; omega
          · exact Nat.le_of_not_lt h1

theorem satCols_facts (k : MsmKind) : ∃ cols, k.satCols = some cols ∧ (∀ c ∈ cols, 1 ≤ c.2) ∧
    widthOf cols = (match k with | .msm4 => 18 | .msm7 => 36) := by
  cases k
  · exact ⟨_, rfl, by decide, by decide⟩
  · exact ⟨_, rfl, by decide, by decide⟩

theorem sigCols_facts (k : MsmKind) : ∃ cols, k.sigCols = some cols ∧ (∀ c ∈ cols, 1 ≤ c.2) ∧
    0 < widthOf cols := by
  cases k
  · exact ⟨_, rfl, by decide, by decide⟩
  · exact ⟨_, rfl, by decide, by decide⟩

theorem sat_guard_generic (bs : Bytes) (start nsat : Nat) (cols : List Col) (extra : Nat)
    (hw : ∀ c ∈ cols, 1 ≤ c.2) :
    let r : Res (List (List Int)) :=
      if ((bs.length : Int) * 8 - start) - extra < (nsat * widthOf cols : Nat) then .err .satOverrun
      else readColumns bs nsat cols start
    r ≠ .panic ∧ ∀ v, r = .ok v → start + nsat * widthOf cols + extra ≤ 8 * bs.length := by
  intro r
  by_cases hg : ((bs.length : Int) * 8 - start) - extra < (nsat * widthOf cols : Nat)
  · have : r = .err .satOverrun := by simp only [r, hg, if_true]
    rw [this]; exact ⟨by simp, by intro v h; simp at h⟩
  · have hfit : start + nsat * widthOf cols + extra ≤ 8 * bs.length := by omega
    have : r = readColumns bs nsat cols start := by simp only [r, hg, if_false]
    rw [this]
    obtain ⟨vs, hvs, _, _⟩ := readColumns_ok bs nsat cols start hw (by omega)
    rw [hvs]
    exact ⟨by simp, fun _ _ => hfit⟩

/-- The satellite reader never panics; success implies its data ended inside the frame
    (MSM4: 24 bits or more before the end). -/
theorem getSatelliteCells_safe (k : MsmKind) (bs : Bytes) (start nsat : Nat) :
    getSatelliteCells k bs start nsat ≠ .panic ∧
    ∀ v, getSatelliteCells k bs start nsat = .ok v →
      ∃ cols, k.satCols = some cols ∧ start + nsat * widthOf cols + crcSlack k ≤ 8 * bs.length := by
  obtain ⟨cols, hc, hw, _⟩ := satCols_facts k
  have hgen := sat_guard_generic bs start nsat cols (crcSlack k) hw
  have heq : getSatelliteCells k bs start nsat =
      (if ((bs.length : Int) * 8 - start) - (crcSlack k : Nat) < (nsat * widthOf cols : Nat) then .err .satOverrun
       else readColumns bs nsat cols start) := by
    unfold getSatelliteCells
    rw [hc]
  rw [heq]
  exact ⟨hgen.1, fun v hv => ⟨cols, hc, hgen.2 v hv⟩⟩

theorem sig_guard_generic (bs : Bytes) (pos : Nat) (cols : List Col) (extra : Nat) (multiple : Bool) (numCells : Nat)
    (f : List (List Int) → Nat → List (List SigCell))
    (hw : ∀ c ∈ cols, 1 ≤ c.2) (hbpc : 0 < widthOf cols) (hp : pos + extra ≤ 8 * bs.length) :
    let bitsLeft : Int := (bs.length : Int) * 8 - pos
    let chk : Int := bitsLeft - extra
    let r : Res (List (List SigCell)) :=
      if chk < 0 then .panic
      else
        let cellsAvailable := (bitsLeft / (widthOf cols : Nat)).toNat
        let n := if cellsAvailable < numCells then cellsAvailable else numCells
        if multiple && chk < (widthOf cols : Nat) then .err .sigOverrunMulti
        else if !multiple && n < numCells then .err .sigOverrun
        else do
          let colsV ← readColumns bs n cols pos
          pure (f colsV n)
    r ≠ .panic ∧ ∀ v, r = .ok v → ∃ colsV n, v = f colsV n := by
  intro bitsLeft chk r
  have hnn : (0 : Int) ≤ bitsLeft := by simp only [bitsLeft]; omega
  have hchk : ¬ chk < 0 := by simp only [chk, bitsLeft]; omega
  have hfit : ∀ n : Nat, n ≤ (bitsLeft / (widthOf cols : Nat)).toNat →
      pos + n * widthOf cols ≤ 8 * bs.length := by
    intro n hn
    have hq : (0 : Int) ≤ bitsLeft / (widthOf cols : Nat) := Int.ediv_nonneg hnn (by omega)
    have hmul := Int.ediv_mul_le bitsLeft (b := ((widthOf cols : Nat) : Int)) (by omega)
    have hn' : (n : Int) ≤ bitsLeft / (widthOf cols : Nat) := by omega
    have : (n : Int) * (widthOf cols : Nat) ≤ bitsLeft / (widthOf cols : Nat) * (widthOf cols : Nat) :=
      Int.mul_le_mul_of_nonneg_right hn' (by omega)
    have h3 : ((n * widthOf cols : Nat) : Int) = (n : Int) * (widthOf cols : Nat) := by push_cast; rfl
    simp only [bitsLeft] at *
    omega
  simp only [r, hchk, if_false]
  generalize hn : (if (bitsLeft / (widthOf cols : Nat)).toNat < numCells then (bitsLeft / (widthOf cols : Nat)).toNat else numCells) = n
  have hn_le : n ≤ (bitsLeft / (widthOf cols : Nat)).toNat := by rw [← hn]; split <;> omega
  split
  · exact ⟨by simp, by intro v h; simp at h⟩
  · split
    · exact ⟨by simp, by intro v h; simp at h⟩
    · obtain ⟨vs, hvs, _, _⟩ := readColumns_ok bs n cols pos hw (hfit n hn_le)
      rw [hvs]
      refine ⟨by simp [bind, pure], ?_⟩
      intro v hv
      simp only [bind, pure] at hv
      injection hv with hv
      exact ⟨vs, n, hv.symm⟩

/-- The signal reader never panics, provided the satellite data ended inside the frame
    (which the satellite guard established): the `uint` subtractions of the Go code do not
    wrap and every read is in range. -/
theorem getSignalCells_safe (k : MsmKind) (bs : Bytes) (pos : Nat) (h : MsmHeader)
    (hp : pos + crcSlack k ≤ 8 * bs.length) :
    getSignalCells k bs pos h ≠ .panic ∧
    ∀ v, getSignalCells k bs pos h = .ok v → ∃ colsV n, v = attach h.sats h.sigs colsV n h.cells 0 0 := by
  obtain ⟨cols, hc, hw, hbpc⟩ := sigCols_facts k
  have hgen := sig_guard_generic bs pos cols (crcSlack k) h.multiple h.numCells
    (fun colsV n => attach h.sats h.sigs colsV n h.cells 0 0) hw hbpc hp
  unfold getSignalCells
  rw [hc]
  exact hgen

/-- **No MSM frame can make the decoders index out of range.** -/
theorem decodeMsm_no_panic (k : MsmKind) (bs : Bytes) : decodeMsm k bs ≠ .panic := by
  unfold decodeMsm
  obtain ⟨hnp, hok⟩ := getMSMHeader_safe bs
  cases hh : getMSMHeader bs with
  | panic => exact absurd hh hnp
  | err e => simp [bind]
  | ok hp =>
    obtain ⟨h, pos⟩ := hp
    obtain ⟨hpos, hfit, _, _⟩ := hok h pos hh
    simp only [bind]
    by_cases hf : (!k.accepts (h.typ : Int)) = true
    · rw [if_pos hf]; simp
    · rw [if_neg hf]
      obtain ⟨scols, hsc, _, _⟩ := satCols_facts k
      rw [hsc]
      simp only
      obtain ⟨snp, sok⟩ := getSatelliteCells_safe k bs pos h.sats.length
      cases hs : getSatelliteCells k bs pos h.sats.length with
      | panic => exact absurd hs snp
      | err e => simp
      | ok v =>
        obtain ⟨cols', hc', hfit2⟩ := sok v hs
        rw [hsc] at hc'
        injection hc' with hc'
        subst hc'
        simp only
        have := (getSignalCells_safe k bs (pos + h.sats.length * widthOf scols) h (by omega)).1
        cases hg : getSignalCells k bs (pos + h.sats.length * widthOf scols) h with
        | panic => exact absurd hg this
        | err e => simp
        | ok v2 => simp [pure]
end Ntrip
