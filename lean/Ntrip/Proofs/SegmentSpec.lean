import Ntrip.Proofs.FrameSpec
/-! List-level theorems behind C01 and C02. -/
namespace Ntrip

/-- Leader facts delivered by `lengthAndType … = (len, t, none)`. -/
theorem leader_of_lengthAndType {f : Bytes} (h5 : 5 ≤ f.length) (hd : f.head? = some 0xD3)
    {len : Nat} {t : Int} (h : lengthAndType f = (len, t, .none)) :
    specU f 8 6 = 0 ∧ 1 ≤ specU f 14 10 ∧ len = specU f 14 10 ∧ t = ((specU f 24 12 : Nat) : Int) := by
  rw [lengthAndType_spec f h5 hd] at h
  by_cases hr : specU f 8 6 = 0
  · simp only [hr, ne_eq, not_true_eq_false, if_false] at h
    by_cases hz : specU f 14 10 = 0
    · simp [hz] at h
    · simp only [hz, if_false, Prod.mk.injEq] at h
      exact ⟨hr, by omega, h.1.symm, h.2.1.symm⟩
  · simp [hr] at h

/-- What `GetMessage` makes of a frame that `scan` delivered: its bytes are kept, and it is
    typed only if it is a valid frame. -/
theorem msgOfFrame_scan (crc : Bytes → Nat) {st f rest : Bytes} (h : scan st = .frame f rest) :
    (msgOfFrame crc f).raw = f ∧
    (0 ≤ (msgOfFrame crc f).typ →
      ValidFrame crc f ∧ (msgOfFrame crc f).typ = typeOf f ∧ (msgOfFrame crc f).err = .none) ∧
    ((msgOfFrame crc f).typ < 0 → (msgOfFrame crc f) = { typ := -1, raw := f, err := .crc }) := by
  obtain ⟨h1, h6, hd, hlt⟩ := scan_frame_spec h
  rw [lengthAndType_take5 f (by omega) hd] at hlt
  obtain ⟨l1, l2, l3, l4⟩ := leader_of_lengthAndType (by omega) hd hlt
  have hm := msgOfFrame_of_leader crc f hd h6 _ hlt
  cases hc : checkCRC crc f with
  | false =>
    rw [hc] at hm
    simp only [Bool.false_eq_true, if_false] at hm
    rw [hm]
    exact ⟨rfl, fun h => by simp at h, fun _ => rfl⟩
  | true =>
    rw [hc] at hm
    simp only [if_true] at hm
    rw [hm]
    refine ⟨rfl, ?_, ?_⟩
    · intro _
      refine ⟨⟨hd, l1, l2, by omega, (checkCRC_iff crc f h6).mp hc⟩, ?_, rfl⟩
      simp only [typeOf]; exact l4
    · intro hneg
      simp only at hneg
      rw [l4] at hneg
      omega

/-- C02 (list level): the delivered raw bytes concatenate to the input; none is empty. -/
theorem segmentS_lossless (crc : Bytes → Nat) : ∀ (n : Nat) (st : Bytes), st.length = n →
    ((segmentS crc st).map (·.raw)).flatten = st ∧ ∀ m ∈ segmentS crc st, m.raw ≠ [] := by
  intro n
  induction n using Nat.strongRecOn with
  | _ n ih =>
    intro st hn
    rw [segmentS]
    split
    · rename_i hs
      have := scan_done.mp hs
      simp [this]
    · rename_i raw rest hs
      obtain ⟨h1, h2⟩ := scan_junk_spec hs
      have hlt := scan_rest_lt.1 _ _ hs
      obtain ⟨i1, i2⟩ := ih rest.length (by omega) rest rfl
      refine ⟨by simp [nonRTCM, i1, h1], ?_⟩
      intro m hm
      simp only [List.mem_cons] at hm
      rcases hm with rfl | hm
      · simpa [nonRTCM] using h2
      · exact i2 m hm
    · rename_i f rest hs
      obtain ⟨h1, h6, _, _⟩ := scan_frame_spec hs
      have hlt := scan_rest_lt.2 _ _ hs
      obtain ⟨i1, i2⟩ := ih rest.length (by omega) rest rfl
      have hraw := (msgOfFrame_scan crc hs).1
      refine ⟨by simp [hraw, i1, h1], ?_⟩
      intro m hm
      simp only [List.mem_cons] at hm
      rcases hm with rfl | hm
      · rw [hraw]; intro h; simp [h] at h6
      · exact i2 m hm

/-- C01 (list level): a typed message carries exactly one valid frame. -/
theorem segmentS_typed_valid (crc : Bytes → Nat) : ∀ (n : Nat) (st : Bytes), st.length = n →
    ∀ m ∈ segmentS crc st, 0 ≤ m.typ → ValidFrame crc m.raw ∧ m.typ = typeOf m.raw ∧ m.err = .none := by
  intro n
  induction n using Nat.strongRecOn with
  | _ n ih =>
    intro st hn m hm htyp
    rw [segmentS] at hm
    split at hm
    · simp at hm
    · rename_i raw rest hs
      have hlt := scan_rest_lt.1 _ _ hs
      simp only [List.mem_cons] at hm
      rcases hm with rfl | hm
      · simp [nonRTCM] at htyp
      · exact ih rest.length (by omega) rest rfl m hm htyp
    · rename_i f rest hs
      have hlt := scan_rest_lt.2 _ _ hs
      simp only [List.mem_cons] at hm
      rcases hm with rfl | hm
      · obtain ⟨hraw, hv, _⟩ := msgOfFrame_scan crc hs
        obtain ⟨v1, v2, v3⟩ := hv htyp
        rw [hraw]
        exact ⟨v1, v2, v3⟩
      · exact ih rest.length (by omega) rest rfl m hm htyp

/-- C01, single-frame clause: `GetMessage` returns a typed message without an error only for
    bytes that start with exactly one valid frame, and the message holds exactly that frame. -/
theorem getMessageCore_typed_valid (crc : Bytes → Nat) (bs : Bytes) (m : Msg)
    (h : getMessageCore crc bs = .msg m) (htyp : 0 ≤ m.typ) (herr : m.err = .none) :
    ValidFrame crc m.raw ∧ m.raw <+: bs ∧ m.typ = typeOf m.raw := by
  unfold getMessageCore at h
  split at h
  · simp at h
  · rename_i hne
    split at h
    · injection h with h; subst h; simp [nonRTCM] at htyp
    · rename_i hd
      have hd' : bs.head? = some 0xD3 := by simpa using hd
      rcases hlt : lengthAndType bs with ⟨len, typ, e⟩
      rw [hlt] at h
      simp only at h
      split at h
      · rename_i he
        injection h with h; subst h
        simp only at herr
        simp [herr] at he
      · rename_i he
        have he' : e = .none := by simpa using he
        subst he'
        split at h
        · injection h with h; subst h; simp at htyp
        · rename_i hlen
          split at h
          · injection h with h; subst h; simp at htyp
          · rename_i hcrc
            injection h with h; subst h
            simp only at htyp ⊢
            have h5 : 5 ≤ bs.length := by
              unfold lengthAndType at hlt
              by_cases h5 : bs.length < 5
              · simp [h5] at hlt
              · omega
            obtain ⟨l1, l2, l3, l4⟩ := leader_of_lengthAndType h5 hd' hlt
            have hlen' : len + 6 ≤ bs.length := by omega
            have htl : (bs.take (len + 6)).length = len + 6 := by rw [List.length_take]; omega
            have hs1 : specU (bs.take (len + 6)) 8 6 = specU bs 8 6 := specU_take _ _ _ _ (by omega)
            have hs2 : specU (bs.take (len + 6)) 14 10 = specU bs 14 10 := specU_take _ _ _ _ (by omega)
            have hs3 : specU (bs.take (len + 6)) 24 12 = specU bs 24 12 := specU_take _ _ _ _ (by omega)
            have hcrc' : checkCRC crc (bs.take (len + 6)) = true := by simpa using hcrc
            refine ⟨⟨?_, by rw [hs1]; exact l1, by rw [hs2]; exact l2, by rw [hs2, htl]; omega, ?_⟩,
              List.take_prefix _ _, by simp only [typeOf, hs3]; exact l4⟩
            · cases bs with
              | nil => simp at hne
              | cons a t => simpa using hd'
            · exact (checkCRC_iff crc _ (by omega)).mp hcrc'
/-- Every delivered message is either typed (type ≥ 0) or the non-RTCM sentinel −1. -/
theorem segmentS_typ (crc : Bytes → Nat) : ∀ (n : Nat) (st : Bytes), st.length = n →
    ∀ m ∈ segmentS crc st, 0 ≤ m.typ ∨ m.typ = -1 := by
  intro n
  induction n using Nat.strongRecOn with
  | _ n ih =>
    intro st hn m hm
    rw [segmentS] at hm
    split at hm
    · simp at hm
    · rename_i raw rest hs
      have hlt := scan_rest_lt.1 _ _ hs
      simp only [List.mem_cons] at hm
      rcases hm with rfl | hm
      · right; rfl
      · exact ih rest.length (by omega) rest rfl m hm
    · rename_i f rest hs
      have hlt := scan_rest_lt.2 _ _ hs
      simp only [List.mem_cons] at hm
      rcases hm with rfl | hm
      · obtain ⟨_, _, hneg⟩ := msgOfFrame_scan crc hs
        by_cases h0 : 0 ≤ (msgOfFrame crc f).typ
        · exact Or.inl h0
        · right
          have := hneg (by omega)
          rw [this]
      · exact ih rest.length (by omega) rest rfl m hm
end Ntrip
