import Ntrip.Proofs.PipeSafe
/-! Deadlock freedom of the pipeline. -/
namespace Ntrip.Pipe
variable {M : Type}

/-- Everything has finished: main has returned and every writer has ended. -/
def Final (c : Cfg M) (s : PS M) : Prop :=
  s.mainReturned = true ∧ ∀ i, i < c.k → c.isNil i = false → s.wDone i = true

/-- A writer whose channel is closed can always make a step until it is done. -/
theorem writer_can_move (c : Cfg M) (s : PS M) (hp : s.panic = false) (i : Nat) (hi : i < c.k)
    (hn : c.isNil i = false) (hcl : s.chClosed i = true) (hnd : s.wDone i = false) : ∃ s', Step c s s' := by
  cases hcur : s.wCur i with
  | some m => exact ⟨_, Step.wFinish s i m hp hi hn hcur⟩
  | none =>
    cases hb : s.buf i with
    | nil => exact ⟨_, Step.wSeeClosed s i hp hi hn hnd hcur hb hcl⟩
    | cons m rest => exact ⟨_, Step.wRecv s i m rest hp hi hn hnd hcur hb⟩

/-- **Deadlock freedom**: in every reachable state that is not final some goroutine can move,
    whatever the capacities and the schedule so far (main closes every non-nil channel). -/
theorem progress (c : Cfg M) (hc : c.WF) (hall : ∀ i, i < c.k → c.isNil i = false → c.closes i = true)
    {s : PS M} (h : Reach c s) (hnf : ¬ Final c s) : ∃ s', Step c s s' := by
  have hI := reach_inv c hc h
  have hp := hI.noPanic
  cases hd : s.dHold with
  | some j =>
    -- the fan-out holds a message
    obtain ⟨d1, d2, d3, d4⟩ := hI.dh j hd
    by_cases hjk : j = c.k
    · subst hjk; exact ⟨_, Step.dNext s hp hd⟩
    · have hj : j < c.k := by omega
      cases hn : c.isNil j with
      | true => exact ⟨_, Step.dSkipNil s j hp hd hj hn⟩
      | false =>
        have hcl : s.chClosed j = false := by
          cases hh : s.chClosed j with
          | false => rfl
          | true => have := (hI.chc j hh).1; rw [d3] at this; simp at this
        have hget : ∃ m, c.out[s.fEmit - 1]? = some m := by
          have h1 := hI.fe
          have h2 := hc.prod_le s.fRecv s.fSeenClosed
          have : s.fEmit - 1 < c.out.length := by omega
          exact ⟨c.out[s.fEmit - 1], List.getElem?_eq_getElem this⟩
        obtain ⟨m, hm⟩ := hget
        by_cases hroom : (s.buf j).length < c.cap j
        · exact ⟨_, Step.dSendBuf s j m hp hd hj hn hcl hroom hm⟩
        · -- the channel is full (or unbuffered): the writer can move, or a rendezvous is possible
          have hnd : s.wDone j = false := by
            cases hh : s.wDone j with
            | false => rfl
            | true => have := (hI.wd j hh).1; rw [hcl] at this; simp at this
          cases hcur : s.wCur j with
          | some m' => exact ⟨_, Step.wFinish s j m' hp hj hn hcur⟩
          | none =>
            cases hb : s.buf j with
            | cons m' rest => exact ⟨_, Step.wRecv s j m' rest hp hj hn hnd hcur hb⟩
            | nil =>
              have hcap : c.cap j = 0 := by rw [hb] at hroom; simp at hroom; omega
              exact ⟨_, Step.dSendRv s j m hp hd hj hn hcl hcap hcur hnd hb hm⟩
  | none =>
    cases hdd : s.dDone with
    | false =>
      cases hm : s.mClosed with
      | true => exact ⟨_, Step.dSeeClosed s hp hm hd hdd⟩
      | false =>
        -- the framer or the reader can move
        by_cases hlt : s.fEmit < c.produced s.fRecv s.fSeenClosed
        · exact ⟨_, Step.fSend s hp hlt hm hd hdd⟩
        · have heq : s.fEmit = c.produced s.fRecv s.fSeenClosed := by have := hI.fe; omega
          cases hsc : s.fSeenClosed with
          | true => exact ⟨_, Step.fClose s hp hsc (by rw [heq, hsc]) hm⟩
          | false =>
            have hw : fWantsRecv c s := ⟨hsc, by rw [heq, hsc]⟩
            cases hb : s.bClosed with
            | true => exact ⟨_, Step.fSeeClosed s hp hb hw⟩
            | false =>
              by_cases hr : s.rSent < c.nBytes
              · exact ⟨_, Step.rSend s hp hr hb hw⟩
              · exact ⟨_, Step.rClose s hp (by have := hI.rLe; omega) hb⟩
    | true =>
      -- the fan-out has returned: main closes the channels, the writers drain them
      by_cases hmi : s.mainIdx < c.k
      · cases hcl : c.closes s.mainIdx with
        | false => exact ⟨_, Step.mainSkip s hp hdd hmi hcl⟩
        | true =>
          have hn := hc.closes_nonnil _ hcl
          have hch : s.chClosed s.mainIdx = false := by
            cases hh : s.chClosed s.mainIdx with
            | false => rfl
            | true => have := (hI.chc _ hh).2.1; omega
          exact ⟨_, Step.mainClose s hp hdd hmi hcl hn hch⟩
      · have hmk : s.mainIdx = c.k := by have := hI.mi; omega
        -- is there a writer still running?
        by_cases hw : ∀ i, i < c.k → c.isNil i = false → s.wDone i = true
        · cases hr : s.mainReturned with
          | false => exact ⟨_, Step.mainReturn s hp hdd hmk hr (fun _ => hw)⟩
          | true => exact absurd ⟨hr, hw⟩ hnf
        · have : ∃ i, i < c.k ∧ c.isNil i = false ∧ s.wDone i = false := by
            apply Classical.byContradiction
            intro hne
            apply hw
            intro i hi hn
            cases hh : s.wDone i with
            | true => rfl
            | false => exact absurd ⟨i, hi, hn, hh⟩ hne
          obtain ⟨i, hi, hn, hnd⟩ := this
          -- its channel is closed, because main has closed all of them
          have hcli : s.chClosed i = true := by
            exact hI.clb i (by omega) (hall i hi hn)
          exact writer_can_move c s hp i hi hn hcli hnd
end Ntrip.Pipe
