import Ntrip.Model.Pipeline
/-! The invariant of the pipeline transition system. -/
namespace Ntrip.Pipe
variable {M : Type}

structure Inv (c : Cfg M) (s : PS M) : Prop where
  noPanic : s.panic = false
  rLe : s.rSent ≤ c.nBytes
  fr : s.fRecv = s.rSent
  bcl : s.bClosed = true → s.rSent = c.nBytes
  fsc : s.fSeenClosed = true → s.bClosed = true
  fe : s.fEmit ≤ c.produced s.fRecv s.fSeenClosed
  mcl : s.mClosed = true → s.fSeenClosed = true ∧ s.fEmit = c.out.length
  dh : ∀ j, s.dHold = some j → j ≤ c.k ∧ 1 ≤ s.fEmit ∧ s.dDone = false ∧ s.mainIdx = 0
  dd : s.dDone = true → s.mClosed = true ∧ s.dHold = none
  cons : ∀ i, i < c.k → c.isNil i = false →
    s.handled i ++ (s.wCur i).toList ++ s.buf i = c.out.take (cnt s i)
  capOk : ∀ i, i < c.k → (s.buf i).length ≤ c.cap i
  chc : ∀ i, s.chClosed i = true → s.dDone = true ∧ i < s.mainIdx ∧ c.closes i = true
  wd : ∀ i, s.wDone i = true → s.chClosed i = true ∧ s.buf i = [] ∧ s.wCur i = none
  clb : ∀ i, i < s.mainIdx → c.closes i = true → s.chClosed i = true
  mi : s.mainIdx ≤ c.k
  mi0 : 0 < s.mainIdx → s.dDone = true
  mr : s.mainReturned = true → s.mainIdx = c.k ∧ s.dDone = true ∧
    (c.waits = true → ∀ i, i < c.k → c.isNil i = false → s.wDone i = true)

theorem inv_init (c : Cfg M) : Inv c (init M) := by
  refine ⟨rfl, by simp [init], rfl, by simp [init], by simp [init], by simp [init], by simp [init],
    by simp [init], by simp [init], ?_, by simp [init], by simp [init], by simp [init], by simp [init], by simp [init],
    by simp [init], by simp [init]⟩
  intro i _ _
  simp [init, cnt]

theorem cnt_le (s : PS M) (i : Nat) : cnt s i ≤ s.fEmit := by
  unfold cnt; split <;> (try split) <;> omega
end Ntrip.Pipe
