import Ntrip.Spec.MsmCodec
import Ntrip.Proofs.Tables
/-! The MSM round trip (C04). -/
namespace Ntrip

theorem rdU_natBits (bs : Bytes) (pos w v : Nat) (hw : w ≤ 64) (hv : v < 2^w)
    (hfit : pos + w ≤ 8 * bs.length) (hag : Agrees bs pos (natBits w v)) : rdU bs pos w = .ok v := by
  rw [rdU_ok hfit, getBitsU_eq _ _ _ hw]
  congr 1
  rw [specU_eq_valN bs (fun j => bitN (natBits w v) (j - pos)) pos w
    (fun i hi => by rw [hag i (by rw [natBits_length]; exact hi)]; simp)]
  rw [valN_natBits w v]
  · exact Nat.mod_eq_of_lt hv
  · intro i hi
    simp only [Nat.add_sub_cancel_left]
    exact bitN_natBits w v i hi

theorem isMSM_of_accepts (k : MsmKind) (t : Int) (h : k.accepts t = true) : isMSM t = true := by
  cases k <;> simp [MsmKind.accepts] at h <;> simp [isMSM, h]

theorem headerAccepts_of_isMSM (t : Int) (h : isMSM t = true) : headerAccepts t = true := by
  unfold headerAccepts
  simp only [Gen.header_getMSMType]
  rw [lookup_getD_eq _ _ (fun t => if isMSM t then "accept" else "reject")]
  · simp [h]
  · intro kv hkv
    revert kv; decide
  · intro t ht
    simp only [List.map_cons, List.map_nil, List.mem_cons, List.not_mem_nil, or_false, not_or] at ht
    have : isMSM t = false := by
      simp only [isMSM, isMSM4, isMSM7, Gen.utils_MSM4MessageTypes, Gen.utils_MSM7MessageTypes, Option.getD_some]
      simp [List.contains_eq_mem, ht]
    simp [this]
theorem hdrCols_std : hdrCols = some hdrStd := by decide
theorem satCols_std (k : MsmKind) : k.satCols = some (satStd k) := by cases k <;> decide
theorem sigCols_std (k : MsmKind) : k.sigCols = some (sigStd k) := by cases k <;> decide
theorem width_hdrStd : widthOf hdrStd = 169 := by decide
theorem slack_le (k : MsmKind) : crcSlack k ≤ 24 := by cases k <;> decide
theorem sigStd_pos (k : MsmKind) : 0 < widthOf (sigStd k) := by cases k <;> decide

/-- Reading the header of an encoded message. -/
theorem header_roundtrip (bs : Bytes) (k : MsmKind) (m : MsmSpec) (hwf : MsmWF k m)
    (hag : Agrees bs 24 (encodeFields hdrStd m.hvals ++ natBits (m.nsat * m.nsig) m.cellMask))
    (hlen : 24 + 169 + m.nsat * m.nsig + 24 ≤ 8 * bs.length) :
    getMSMHeader bs = .ok (mkHeader m.hvals m.cellMask, 193 + m.nsat * m.nsig) := by
  obtain ⟨ha, hb⟩ := Agrees.split hag
  rw [encodeFields_length hdrStd m.hvals hwf.hdr, width_hdrStd] at hb
  unfold getMSMHeader
  rw [hdrCols_std]
  simp only [Gen.header_minBitsInHeader]
  have hg : ¬ ((bs.length : Int) - 6) * 8 < 169 := by omega
  rw [if_neg hg]
  rw [readFields_encode bs hdrStd m.hvals 24 hwf.hdr ha (by rw [width_hdrStd]; omega)]
  simp only [bind]
  have hacc : headerAccepts (((m.hvals.getD 0 0).toNat : Nat) : Int) = true := by
    have htyp0 : 0 ≤ m.hvals.getD 0 0 := by
      have := hwf.hdr
      cases hv : m.hvals with
      | nil => simp [hv, FieldsWF, hdrStd] at this
      | cons v vs =>
        rw [hv] at this
        simp only [hdrStd, FieldsWF, InRange] at this
        simp only [List.getD_cons_zero]
        exact this.2.2.2.1.1
    rw [Int.toNat_of_nonneg htyp0]
    exact headerAccepts_of_isMSM _ (isMSM_of_accepts k _ hwf.family)
  simp only [hacc, Bool.not_true, Bool.false_eq_true, if_false]
  have hL : ¬ (idsOfMask 64 (m.hvals.getD 10 0).toNat).length * (idsOfMask 32 (m.hvals.getD 11 0).toNat).length > 64 := by
    have := hwf.cellsFit
    simp only [MsmSpec.nsat, MsmSpec.nsig, MsmSpec.sats, MsmSpec.sigs] at this
    omega
  rw [if_neg hL]
  have hS : ¬ bs.length * 8 < 24 + 24 + 169 +
      (idsOfMask 64 (m.hvals.getD 10 0).toNat).length * (idsOfMask 32 (m.hvals.getD 11 0).toNat).length := by
    simp only [MsmSpec.nsat, MsmSpec.nsig, MsmSpec.sats, MsmSpec.sigs] at hlen
    omega
  rw [if_neg hS, width_hdrStd]
  have hrd := rdU_natBits bs (24 + 169) (m.nsat * m.nsig) m.cellMask (by have := hwf.cellsFit; omega)
    hwf.cellMaskLt (by omega) hb
  simp only [MsmSpec.nsat, MsmSpec.nsig, MsmSpec.sats, MsmSpec.sigs] at hrd
  rw [hrd]
  rfl

/-- Reading the satellite data of an encoded message. -/
theorem sat_roundtrip (bs : Bytes) (k : MsmKind) (m : MsmSpec) (hwf : MsmWF k m) (pos : Nat)
    (hag : Agrees bs pos (encodeColumns (satStd k) m.satCols))
    (hlen : pos + m.nsat * widthOf (satStd k) + 24 ≤ 8 * bs.length) :
    getSatelliteCells k bs pos m.nsat = .ok m.satCols := by
  unfold getSatelliteCells
  rw [satCols_std]
  simp only
  have := slack_le k
  have hg : ¬ ((bs.length : Int) * 8 - pos) - (crcSlack k : Nat) < (m.nsat * widthOf (satStd k) : Nat) := by
    push_cast; omega
  rw [if_neg hg]
  exact readColumns_encode bs m.nsat (satStd k) m.satCols pos hwf.sats hag (by omega)

/-- Reading and attaching the signal data of an encoded message. -/
theorem sig_roundtrip (bs : Bytes) (k : MsmKind) (m : MsmSpec) (hwf : MsmWF k m) (pos : Nat)
    (hag : Agrees bs pos (encodeColumns (sigStd k) m.sigCols))
    (hlen : pos + m.ncells * widthOf (sigStd k) + 24 ≤ 8 * bs.length) :
    getSignalCells k bs pos (mkHeader m.hvals m.cellMask) =
      .ok (attach m.sats m.sigs m.sigCols m.ncells m.cells 0 0) := by
  unfold getSignalCells
  rw [sigCols_std]
  simp only
  have hs := slack_le k
  have hw := sigStd_pos k
  have hnum : (mkHeader m.hvals m.cellMask).numCells = m.ncells := rfl
  have hmult : (mkHeader m.hvals m.cellMask).multiple = m.multiple := rfl
  have hsats : (mkHeader m.hvals m.cellMask).sats = m.sats := rfl
  have hsigs : (mkHeader m.hvals m.cellMask).sigs = m.sigs := rfl
  have hcells : (mkHeader m.hvals m.cellMask).cells = m.cells := rfl
  rw [hnum, hmult, hsats, hsigs, hcells]
  have hchk : ¬ ((bs.length : Int) * 8 - pos) - (crcSlack k : Nat) < 0 := by omega
  rw [if_neg hchk]
  -- cells available ≥ ncells
  have hbl : ((m.ncells * widthOf (sigStd k) : Nat) : Int) ≤ (bs.length : Int) * 8 - pos := by push_cast; omega
  have hav : m.ncells ≤ (((bs.length : Int) * 8 - pos) / (widthOf (sigStd k) : Nat)).toNat := by
    have h1 : ((m.ncells : Nat) : Int) ≤ ((bs.length : Int) * 8 - pos) / (widthOf (sigStd k) : Nat) := by
      apply Int.le_ediv_of_mul_le (by omega)
      push_cast at hbl ⊢; exact hbl
    omega
  have hn : (if (((bs.length : Int) * 8 - pos) / (widthOf (sigStd k) : Nat)).toNat < m.ncells
      then (((bs.length : Int) * 8 - pos) / (widthOf (sigStd k) : Nat)).toNat else m.ncells) = m.ncells := by
    rw [if_neg (by omega)]
  simp only [hn]
  have hmul : ¬ (m.multiple && decide (((bs.length : Int) * 8 - pos) - (crcSlack k : Nat) < (widthOf (sigStd k) : Nat))) = true := by
    intro hh
    simp only [Bool.and_eq_true, decide_eq_true_eq] at hh
    have h1 := hwf.multi hh.1
    have : widthOf (sigStd k) ≤ m.ncells * widthOf (sigStd k) := Nat.le_mul_of_pos_left _ h1
    have h2 := hh.2
    push_cast at hbl
    omega
  rw [if_neg hmul]
  have hnm : ¬ (!m.multiple && decide (m.ncells < m.ncells)) = true := by simp
  rw [if_neg hnm]
  rw [readColumns_encode bs m.ncells (sigStd k) m.sigCols pos hwf.sigs hag (by omega)]
  rfl
theorem agrees_payload (leader : Bytes) (hl : leader.length = 3) (bits : List Bool) (rest : Bytes) :
    Agrees (leader ++ (packBits bits ++ rest)) 24 bits := by
  intro i hi
  have h24 : 24 = 8 * leader.length := by omega
  rw [h24, bitAt_append_right, bitAt_append_left _ _ _ (by rw [packBits_length]; omega), bitAt_packBits]

theorem satStd_width (k : MsmKind) : widthOf (satStd k) = (match k with | .msm4 => 18 | .msm7 => 36) := by
  cases k <;> decide

/-- **C04 round trip.** -/
theorem msm_roundtrip (k : MsmKind) (m : MsmSpec) (pad : Nat) (leader crc : Bytes)
    (hl : leader.length = 3) (hc : crc.length = 3) (hwf : MsmWF k m) :
    decodeMsm k (msmFrame leader k m pad crc) = .ok (msmView m) := by
  have hH := encodeFields_length hdrStd m.hvals hwf.hdr
  rw [width_hdrStd] at hH
  have hS := encodeColumns_length m.nsat (satStd k) m.satCols hwf.sats
  have hG := encodeColumns_length m.ncells (sigStd k) m.sigCols hwf.sigs
  have hB : (msmBits k m).length = 169 + m.nsat * m.nsig + m.nsat * widthOf (satStd k) + m.ncells * widthOf (sigStd k) := by
    simp only [msmBits, List.length_append, hH, hS, hG, natBits_length]; omega
  have hlen : (msmFrame leader k m pad crc).length = 3 + ((msmBits k m).length + 7) / 8 + pad + 3 := by
    simp [msmFrame, packBits_length, hl, hc]; omega
  have hag : Agrees (msmFrame leader k m pad crc) 24 (msmBits k m) := agrees_payload leader hl _ _
  -- split the agreement along the four parts of the message
  have hag' : Agrees (msmFrame leader k m pad crc) 24
      ((encodeFields hdrStd m.hvals ++ natBits (m.nsat * m.nsig) m.cellMask) ++
        (encodeColumns (satStd k) m.satCols ++ encodeColumns (sigStd k) m.sigCols)) := by
    have : msmBits k m = (encodeFields hdrStd m.hvals ++ natBits (m.nsat * m.nsig) m.cellMask) ++
        (encodeColumns (satStd k) m.satCols ++ encodeColumns (sigStd k) m.sigCols) := by
      simp [msmBits]
    rw [← this]; exact hag
  obtain ⟨hagH, hagR⟩ := Agrees.split hag'
  have hHL : (encodeFields hdrStd m.hvals ++ natBits (m.nsat * m.nsig) m.cellMask).length = 169 + m.nsat * m.nsig := by
    simp [hH, natBits_length]
  rw [hHL] at hagR
  obtain ⟨hagS, hagG⟩ := Agrees.split hagR
  rw [hS] at hagG
  have h8 : (msmBits k m).length ≤ 8 * (((msmBits k m).length + 7) / 8) := by omega
  have hhdr := header_roundtrip _ k m hwf hagH (by rw [hlen]; omega)
  have hpos1 : 24 + (169 + m.nsat * m.nsig) = 193 + m.nsat * m.nsig := by omega
  rw [hpos1] at hagS hagG
  have hsat := sat_roundtrip _ k m hwf (193 + m.nsat * m.nsig) hagS (by rw [hlen]; omega)
  have hsig := sig_roundtrip _ k m hwf (193 + m.nsat * m.nsig + m.nsat * widthOf (satStd k)) hagG (by rw [hlen]; omega)
  unfold decodeMsm
  rw [hhdr]
  simp only [bind]
  have hfam : k.accepts (((mkHeader m.hvals m.cellMask).typ : Nat) : Int) = true := by
    have htyp0 : 0 ≤ m.hvals.getD 0 0 := by
      have := hwf.hdr
      cases hv : m.hvals with
      | nil => simp [hv, FieldsWF, hdrStd] at this
      | cons v vs =>
        rw [hv] at this
        simp only [hdrStd, FieldsWF, InRange] at this
        simp only [List.getD_cons_zero]
        exact this.2.2.2.1.1
    have : (((mkHeader m.hvals m.cellMask).typ : Nat) : Int) = m.typ := by
      show (((m.hvals.getD 0 0).toNat : Nat) : Int) = m.hvals.getD 0 0
      exact Int.toNat_of_nonneg htyp0
    rw [this]; exact hwf.family
  simp only [hfam, Bool.not_true, Bool.false_eq_true, if_false]
  rw [satCols_std]
  simp only
  have hns : (mkHeader m.hvals m.cellMask).sats.length = m.nsat := rfl
  rw [hns, hsat]
  simp only
  rw [hsig]
  rfl
/-- Positions (signal index) of the set bits of one cell-mask row, from column `j`. -/
def rowPositions : List Bool → Nat → List Nat
  | [], _ => []
  | b :: rest, j => if b then j :: rowPositions rest (j + 1) else rowPositions rest (j + 1)

/-- Row-major positions (satellite index, signal index) of the set bits of the cell mask. -/
def cellPositions : List (List Bool) → Nat → List (Nat × Nat)
  | [], _ => []
  | row :: rest, i => (rowPositions row 0).map (fun j => (i, j)) ++ cellPositions rest (i + 1)

/-- Number a list from `c`. -/
def numberFrom {α : Type} : List α → Nat → List (α × Nat)
  | [], _ => []
  | a :: rest, c => (a, c) :: numberFrom rest (c + 1)

theorem numberFrom_append {α : Type} (l1 l2 : List α) (c : Nat) :
    numberFrom (l1 ++ l2) c = numberFrom l1 c ++ numberFrom l2 (c + l1.length) := by
  induction l1 generalizing c with
  | nil => simp [numberFrom]
  | cons a t ih =>
    simp only [List.cons_append, numberFrom, ih, List.length_cons]
    have : c + 1 + t.length = c + (t.length + 1) := by omega
    rw [this]

theorem numberFrom_map {α β : Type} (f : α → β) (l : List α) (c : Nat) :
    numberFrom (l.map f) c = (numberFrom l c).map (fun p => (f p.1, p.2)) := by
  induction l generalizing c with
  | nil => rfl
  | cons a t ih => simp [numberFrom, ih]

def mkCell (sats sigs : List Nat) (rows : List (List Int)) (i j c : Nat) : SigCell :=
  { satIdx := i, sigIdx := j, cellIdx := c, satId := sats.getD i 0, sigId := sigs.getD j 0, vals := rowOf rows c }

theorem countRow (row : List Bool) (j : Nat) : (rowPositions row j).length = (row.filter id).length := by
  induction row generalizing j with
  | nil => rfl
  | cons b t ih => cases b <;> simp [rowPositions, ih]

/-- One row of the attachment loop, when every remaining cell is present (`c + set bits ≤ n`). -/
theorem attachRow_spec (sats sigs : List Nat) (rows : List (List Int)) (n i : Nat) :
    ∀ (row : List Bool) (j c : Nat), c + (row.filter id).length ≤ n →
      (attachRow sigs i (sats.getD i 0) rows n row j c).1 =
        (numberFrom (rowPositions row j) c).map (fun p => mkCell sats sigs rows i p.1 p.2) ∧
      (attachRow sigs i (sats.getD i 0) rows n row j c).2 = c + (row.filter id).length
  | [], _, _, _ => by simp [attachRow, rowPositions, numberFrom]
  | b :: rest, j, c, h => by
    cases b with
    | false =>
      have ih := attachRow_spec sats sigs rows n i rest (j+1) c (by simpa using h)
      simp only [attachRow, Bool.and_false, Bool.false_eq_true, if_false, rowPositions]
      simpa using ih
    | true =>
      have hlt : c < n := by simp at h; omega
      have ih := attachRow_spec sats sigs rows n i rest (j+1) (c+1) (by simp at h; omega)
      simp only [attachRow, hlt, decide_true, Bool.and_self, if_true, rowPositions, numberFrom,
        List.map_cons, List.filter_cons, id, List.length_cons]
      rw [ih.1, ih.2]
      exact ⟨rfl, by omega⟩

/-- **Attachment is row-major numbering of the set cell-mask bits**: the `c`-th set bit
    (satellite index `i`, signal index `j`) gets satellite `sats[i]`, signal id `sigs[j]` and
    the `c`-th entry of every signal array. -/
theorem attach_spec (sats sigs : List Nat) (rows : List (List Int)) (n : Nat) :
    ∀ (cells : List (List Bool)) (i c : Nat), c + countCells cells ≤ n →
      (attach sats sigs rows n cells i c).flatten =
        (numberFrom (cellPositions cells i) c).map (fun p => mkCell sats sigs rows p.1.1 p.1.2 p.2)
  | [], _, _, _ => by simp [attach, cellPositions, numberFrom]
  | row :: rest, i, c, h => by
    have hcount : countCells (row :: rest) = (row.filter id).length + countCells rest := by
      simp [countCells]
    rw [hcount] at h
    obtain ⟨h1, h2⟩ := attachRow_spec sats sigs rows n i row 0 c (by omega)
    unfold attach
    simp only [List.flatten_cons]
    rw [h1, h2, attach_spec sats sigs rows n rest (i+1) _ (by omega)]
    simp only [cellPositions, numberFrom_append, numberFrom_map, List.map_append, List.map_map,
      List.length_map, countRow]
    rfl
end Ntrip
