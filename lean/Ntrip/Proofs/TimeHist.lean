import Ntrip.Proofs.TimeHist0
/-! The history theorem behind C06 and C17. -/
namespace Ntrip

def evTyp : Ev → Int
  | .obs c hi _ => typOf c hi
  | .bad c hi _ => typOf c hi

def evTs : Ev → Nat
  | .obs c _ u => trueTs c u
  | .bad _ _ ts => ts

/-- The (result, start of week) pairs the handler reports for a history of MSM messages. -/
def runTimes (st : TState) : List Ev → List (TimeRes × Option Int)
  | [] => []
  | e :: rest =>
    let r := msmTime st (evTyp e) (evTs e)
    (r.1, startOfWeek r.2 (evTyp e)) :: runTimes r.2 rest

/-- Precondition of C06/C17 on a history (per constellation: first observation in the week of
    the start time, later ones not earlier than and less than six days after the previous one);
    illegal timestamps may be inserted anywhere. -/
def Pre (T : Int) : Last → List Ev → Prop
  | _, [] => True
  | L, .obs c _ u :: rest => Admissible T L c u ∧ Pre T (L.set c u) rest
  | L, .bad c _ ts :: rest => ¬ legalTs c ts ∧ Pre T L rest

/-- What must be reported: the true time and week start of every observation; an error for an
    illegal timestamp (the week start shown with it is the current, undisturbed one). -/
def expectedTimes (T : Int) : Last → List Ev → List (TimeRes × Option Int)
  | _, [] => []
  | L, .obs c _ u :: rest => (.ok u, some (trueWeekStart c u)) :: expectedTimes T (L.set c u) rest
  | L, .bad c _ _ :: rest =>
    (.rangeErr, some (trueWeekStart c ((L.get c).getD T))) :: expectedTimes T L rest

theorem step_obs {T : Int} {L : Last} {st : TState} (hinv : Inv T L st) (c : Constellation) (hi : Bool) (u : Int)
    (hadm : Admissible T L c u) :
    (msmTime st (typOf c hi) (trueTs c u)).1 = .ok u ∧
    Inv T (L.set c u) (msmTime st (typOf c hi) (trueTs c u)).2 ∧
    startOfWeek (msmTime st (typOf c hi) (trueTs c u)).2 (typOf c hi) = some (trueWeekStart c u) := by
  unfold Admissible at hadm
  cases c with
  | gps =>
    have hm : timeMethod (typOf .gps hi) = "getUTCFromGPSTime" := by
      rw [time_dispatch]; cases hi <;> simp [timeSpec, typOf]
    have hw := weekStep .gps T L.gps u (by decide) hadm
    unfold msmTime
    simp only [hm, beq_self_eq_true, if_true, hinv.gps, hinv.pGps, hw]
    refine ⟨by first | rfl | trivial, ?_, ?_⟩
    · exact { hinv with gps := by simp [Last.set], pGps := by simp [Last.set] }
    · rw [sow_gps]
  | galileo =>
    have hm : timeMethod (typOf .galileo hi) = "getUTCFromGalileoTime" := by
      rw [time_dispatch]; cases hi <;> simp [timeSpec, typOf]
    have hw := weekStep .galileo T L.gal u (by decide) hadm
    unfold msmTime
    have n1 : ("getUTCFromGalileoTime" == "getUTCFromGPSTime") = false := by decide
    simp only [hm, beq_self_eq_true, if_true, n1, Bool.false_eq_true, if_false, hinv.gal, hinv.pGal, hw]
    refine ⟨by first | rfl | trivial, ?_, ?_⟩
    · exact { hinv with gal := by simp [Last.set], pGal := by simp [Last.set] }
    · rw [sow_gal]
  | beidou =>
    have hm : timeMethod (typOf .beidou hi) = "getUTCFromBeidouTime" := by
      rw [time_dispatch]; cases hi <;> simp [timeSpec, typOf]
    have hw := weekStep .beidou T L.bei u (by decide) hadm
    unfold msmTime
    have n1 : ("getUTCFromBeidouTime" == "getUTCFromGPSTime") = false := by decide
    have n2 : ("getUTCFromBeidouTime" == "getUTCFromGalileoTime") = false := by decide
    simp only [hm, beq_self_eq_true, if_true, n1, n2, Bool.false_eq_true, if_false, hinv.bei, hinv.pBei, hw]
    refine ⟨by first | rfl | trivial, ?_, ?_⟩
    · exact { hinv with bei := by simp [Last.set], pBei := by simp [Last.set] }
    · rw [sow_bei]
  | glonass =>
    have hm : timeMethod (typOf .glonass hi) = "getUTCFromGlonassTime" := by
      rw [time_dispatch]; cases hi <;> simp [timeSpec, typOf]
    have p0 : 0 ≤ weekPos .glonass u := Int.emod_nonneg _ (by omega)
    have p1 : weekPos .glonass u < 604800000 := Int.emod_lt_of_pos _ (by omega)
    have hp := parseGlonass_true (weekPos .glonass u) p0 p1
    obtain ⟨g1, g2⟩ := gloStep T L.glo u hadm
    unfold msmTime
    have n1 : ("getUTCFromGlonassTime" == "getUTCFromGPSTime") = false := by decide
    have n2 : ("getUTCFromGlonassTime" == "getUTCFromGalileoTime") = false := by decide
    have n3 : ("getUTCFromGlonassTime" == "getUTCFromBeidouTime") = false := by decide
    simp only [hm, beq_self_eq_true, if_true, n1, n2, n3, Bool.false_eq_true, if_false, trueTs, hp,
      hinv.glo, hinv.gDay]
    simp only [gloDay] at g1 g2
    refine ⟨congrArg TimeRes.ok g2, ?_, ?_⟩
    · exact { hinv with glo := by simp only [Last.set, Option.getD_some]; exact g1,
                         gDay := by simp [Last.set, gloDay] }
    · rw [sow_glo]; exact congrArg some g1

theorem parseGlonass_illegal (ts : Nat) (h : ¬ legalTs .glonass ts) : parseGlonass ts = none := by
  unfold parseGlonass
  simp only [Gen.utils_MaxTimestampGlonass, Gen.utils_MillisIn24Hours]
  simp only [legalTs] at h
  have e27 : (2:Nat)^27 = 134217728 := by decide
  rw [e27] at h ⊢
  by_cases hle : ((ts : Nat) : Int) > 891706367
  · simp only [hle, if_true]
  · have : ts / 134217728 ≤ 6 := by omega
    have hm : ¬ ts % 134217728 < 86400000 := fun hh => h ⟨this, hh⟩
    have : ((ts % 134217728 : Nat) : Int) ≥ 86400000 := by omega
    simp only [hle, if_false, this, if_true]

theorem step_bad {T : Int} {L : Last} {st : TState} (hinv : Inv T L st) (c : Constellation) (hi : Bool) (ts : Nat)
    (hbad : ¬ legalTs c ts) :
    msmTime st (typOf c hi) ts = (.rangeErr, st) ∧
    startOfWeek st (typOf c hi) = some (trueWeekStart c ((L.get c).getD T)) := by
  have hwk : ∀ (prev : Nat) (start : Int), ts ≥ 604800000 → weekConv ts prev start = none := by
    intro prev start h
    unfold weekConv; simp only [Gen.utils_MaxTimestamp]
    have : ((ts : Nat) : Int) > 604799999 := by omega
    simp [this]
  cases c with
  | gps =>
    have hm : timeMethod (typOf .gps hi) = "getUTCFromGPSTime" := by
      rw [time_dispatch]; cases hi <;> simp [timeSpec, typOf]
    have : ts ≥ 604800000 := by simp only [legalTs] at hbad; omega
    unfold msmTime
    simp only [hm, beq_self_eq_true, if_true, hwk _ _ this]
    exact ⟨by first | rfl | trivial, by rw [sow_gps, hinv.gps]; rfl⟩
  | galileo =>
    have hm : timeMethod (typOf .galileo hi) = "getUTCFromGalileoTime" := by
      rw [time_dispatch]; cases hi <;> simp [timeSpec, typOf]
    have : ts ≥ 604800000 := by simp only [legalTs] at hbad; omega
    have n1 : ("getUTCFromGalileoTime" == "getUTCFromGPSTime") = false := by decide
    unfold msmTime
    simp only [hm, beq_self_eq_true, if_true, n1, Bool.false_eq_true, if_false, hwk _ _ this]
    exact ⟨by first | rfl | trivial, by rw [sow_gal, hinv.gal]; rfl⟩
  | beidou =>
    have hm : timeMethod (typOf .beidou hi) = "getUTCFromBeidouTime" := by
      rw [time_dispatch]; cases hi <;> simp [timeSpec, typOf]
    have : ts ≥ 604800000 := by simp only [legalTs] at hbad; omega
    have n1 : ("getUTCFromBeidouTime" == "getUTCFromGPSTime") = false := by decide
    have n2 : ("getUTCFromBeidouTime" == "getUTCFromGalileoTime") = false := by decide
    unfold msmTime
    simp only [hm, beq_self_eq_true, if_true, n1, n2, Bool.false_eq_true, if_false, hwk _ _ this]
    exact ⟨by first | rfl | trivial, by rw [sow_bei, hinv.bei]; rfl⟩
  | glonass =>
    have hm : timeMethod (typOf .glonass hi) = "getUTCFromGlonassTime" := by
      rw [time_dispatch]; cases hi <;> simp [timeSpec, typOf]
    have n1 : ("getUTCFromGlonassTime" == "getUTCFromGPSTime") = false := by decide
    have n2 : ("getUTCFromGlonassTime" == "getUTCFromGalileoTime") = false := by decide
    have n3 : ("getUTCFromGlonassTime" == "getUTCFromBeidouTime") = false := by decide
    unfold msmTime
    simp only [hm, beq_self_eq_true, if_true, n1, n2, n3, Bool.false_eq_true, if_false,
      parseGlonass_illegal ts hbad]
    exact ⟨by first | rfl | trivial, by rw [sow_glo, hinv.glo]; rfl⟩

/-- C06 / C17: every reported time and start of week is the true one, for every history. -/
theorem times_correct (T : Int) : ∀ (evs : List Ev) (L : Last) (st : TState), Inv T L st → Pre T L evs →
    runTimes st evs = expectedTimes T L evs
  | [], _, _, _, _ => rfl
  | .obs c hi u :: rest, L, st, hinv, hpre => by
    obtain ⟨hadm, hrest⟩ := hpre
    obtain ⟨h1, h2, h3⟩ := step_obs hinv c hi u hadm
    simp only [runTimes, expectedTimes, evTyp, evTs, h1, h3]
    rw [times_correct T rest _ _ h2 hrest]
  | .bad c hi ts :: rest, L, st, hinv, hpre => by
    obtain ⟨hbad, hrest⟩ := hpre
    obtain ⟨h1, h2⟩ := step_bad hinv c hi ts hbad
    simp only [runTimes, expectedTimes, evTyp, evTs, h1, h2]
    rw [times_correct T rest _ _ hinv hrest]
end Ntrip
