import Ntrip.Model.QueueConc
namespace Ntrip.QC
open Ntrip

/-- Keys strictly ascending and below `NextIndex` (so an assignment at `NextIndex` is an append). -/
structure WFQ {M : Type} (q : CQ M) : Prop where
  asc : (keysOf q.items).Pairwise (· < ·)
  below : ∀ k ∈ keysOf q.items, k < q.next

theorem finishEvict_short {M : Type} (max : Int) (items : List (Int × M)) (ks : List Int)
    (h : ¬ (items.length : Int) ≥ max) : finishEvict max items ks = items := by
  induction ks with
  | nil => rfl
  | cons k ks ih => simp only [finishEvict, if_neg h, ih]

theorem delKey_head {M : Type} (kv : Int × M) (rest : List (Int × M))
    (h : ∀ k ∈ keysOf rest, kv.1 < k) : delKey kv.1 (kv :: rest) = rest := by
  unfold delKey
  rw [List.filter_cons]
  simp only [bne_self_eq_false, Bool.false_eq_true, if_false]
  apply List.filter_eq_self.mpr
  intro x hx
  have := h x.1 (List.mem_map_of_mem hx)
  simp only [bne_iff_ne, ne_eq]
  omega

theorem finishEvict_eq_evict {M : Type} (max : Int) : ∀ (items : List (Int × M)),
    (keysOf items).Pairwise (· < ·) → finishEvict max items (keysOf items) = evict max items
  | [], _ => rfl
  | kv :: rest, h => by
    have hp := List.pairwise_cons.mp h
    show finishEvict max (kv :: rest) (kv.1 :: keysOf rest) = _
    unfold finishEvict evict
    split
    · rw [delKey_head kv rest hp.1]
      exact finishEvict_eq_evict max rest hp.2
    · rename_i hlt
      exact finishEvict_short max _ _ hlt

theorem finishW_addTest {M : Type} (q : CQ M) (m : M) (h : WFQ q) : finishW (.addTest m) q = q.add m := by
  unfold finishW CQ.add
  simp only [finishEvict_eq_evict q.max q.items h.asc]

theorem lookup_append_right {M : Type} (k : Int) (pre l : List (Int × M)) (h : k ∉ keysOf pre) :
    lookupKey k (pre ++ l) = lookupKey k l := by
  induction pre with
  | nil => rfl
  | cons kv pre ih =>
    obtain ⟨k', v⟩ := kv
    have h1 : k' ≠ k := by
      intro e; apply h; simp [keysOf, e]
    have h2 : k ∉ keysOf pre := by
      intro e; apply h; simp only [keysOf, List.map_cons, List.mem_cons]; right; exact e
    simp only [List.cons_append, lookupKey, if_neg h1, ih h2]

theorem collect_suffix {M : Type} : ∀ (suf pre : List (Int × M)) (acc : List M),
    (keysOf (pre ++ suf)).Pairwise (· < ·) →
    collect (pre ++ suf) (keysOf suf) acc = acc ++ suf.map (·.2)
  | [], pre, acc, _ => by simp [keysOf, collect]
  | (k, v) :: suf, pre, acc, h => by
    show collect (pre ++ (k, v) :: suf) (k :: keysOf suf) acc = _
    unfold collect
    have hk : k ∉ keysOf pre := by
      intro hmem
      unfold keysOf at h hmem
      rw [List.map_append, List.pairwise_append] at h
      have := h.2.2 k hmem k (by simp)
      omega
    rw [lookup_append_right k pre _ hk]
    simp only [lookupKey, if_true]
    have := collect_suffix suf (pre ++ [(k, v)]) (acc ++ [v]) (by simpa using h)
    simp only [List.append_assoc, List.singleton_append] at this
    rw [this]
    simp

theorem finishR_getKeys {M : Type} (q : CQ M) (n : Nat) (h : WFQ q) : finishR (.getKeys n) q = q.get := by
  unfold finishR CQ.get
  have := collect_suffix q.items [] [] (by simpa using h.asc)
  simpa using this

theorem evict_suffix {M : Type} (max : Int) : ∀ items : List (Int × M), ∃ pre, items = pre ++ evict max items
  | [] => ⟨[], rfl⟩
  | kv :: rest => by
    unfold evict
    split
    · obtain ⟨pre, hpre⟩ := evict_suffix max rest
      exact ⟨kv :: pre, by rw [List.cons_append, ← hpre]⟩
    · exact ⟨[], rfl⟩

theorem wfq_new {M : Type} (max : Int) : WFQ (CQ.new max : CQ M) := ⟨by simp [CQ.new, keysOf], by simp [CQ.new, keysOf]⟩

theorem wfq_add {M : Type} (q : CQ M) (m : M) (h : WFQ q) : WFQ (q.add m) := by
  unfold CQ.add
  have hsub : ∃ pre, q.items = pre ++ (if (q.items.length : Int) ≥ q.max then evict q.max q.items else q.items) := by
    split
    · exact evict_suffix _ _
    · exact ⟨[], rfl⟩
  obtain ⟨pre, hpre⟩ := hsub
  generalize (if (q.items.length : Int) ≥ q.max then evict q.max q.items else q.items) = kept at hpre
  have hasc : (keysOf kept).Pairwise (· < ·) := by
    have := h.asc
    rw [hpre] at this
    unfold keysOf at this ⊢
    rw [List.map_append, List.pairwise_append] at this
    exact this.2.1
  have hbelow : ∀ k ∈ keysOf kept, k < q.next := by
    intro k hk
    apply h.below
    rw [hpre]; unfold keysOf at hk ⊢
    rw [List.map_append]; exact List.mem_append_right _ hk
  constructor
  · show (keysOf (kept ++ [(q.next, m)])).Pairwise (· < ·)
    unfold keysOf at hasc hbelow ⊢
    rw [List.map_append, List.pairwise_append]
    refine ⟨hasc, by simp, ?_⟩
    intro a ha b hb
    simp only [List.map_cons, List.map_nil, List.mem_singleton] at hb
    rw [hb]; exact hbelow a ha
  · intro k hk
    show k < q.next + 1
    unfold keysOf at hk hbelow
    simp only [List.map_append, List.map_cons, List.map_nil, List.mem_append, List.mem_singleton] at hk
    rcases hk with hk | hk
    · have := hbelow k hk; omega
    · omega

theorem wfq_adds {M : Type} (ms : List M) : ∀ (q : CQ M), WFQ q → WFQ (q.adds ms) := by
  induction ms with
  | nil => intro q h; exact h
  | cons m ms ih => intro q h; exact ih _ (wfq_add q m h)

end Ntrip.QC

namespace Ntrip.QC
open Ntrip

def T.getN {M : Type} : T M → Option Nat
  | .getKeys n | .getLoop n _ _ | .getDone n _ => some n
  | _ => none

theorem upd_same {α : Type} (f : Nat → α) (i : Nat) (v : α) : upd f i v i = v := by simp [upd]
theorem upd_other {α : Type} (f : Nat → α) (i j : Nat) (v : α) (h : j ≠ i) : upd f i v j = f j := by simp [upd, h]

/-- A writer's micro-step stays in the critical section and does not change where the section ends. -/
theorem micro_W {M : Type} (t : T M) (q : CQ M) (h : t.inW = true) (hu : t ≠ .addUnlock) :
    (micro t q).1.inW = true ∧ (micro t q).1.inR = false ∧ (micro t q).1.getN = none ∧
    finishW (micro t q).1 (micro t q).2 = finishW t q := by
  cases t with
  | addTest m =>
    by_cases hc : (q.items.length : Int) ≥ q.max <;> simp [micro, T.inW, T.inR, T.getN, finishW, hc]
  | addEvict m ks =>
    cases ks with
    | nil => simp [micro, T.inW, T.inR, T.getN, finishW, finishEvict]
    | cons k ks =>
      by_cases hc : (q.items.length : Int) ≥ q.max <;> simp [micro, T.inW, T.inR, T.getN, finishW, finishEvict, hc]
  | addIns m => simp [micro, T.inW, T.inR, T.getN, finishW]
  | addInc m => simp [micro, T.inW, T.inR, T.getN, finishW]
  | addUnlock => exact absurd rfl hu
  | _ => simp [T.inW] at h

/-- A reader's micro-step stays in the critical section, leaves the shared state alone and does
    not change the snapshot the section will return. -/
theorem micro_R {M : Type} (t : T M) (q : CQ M) (h : t.inR = true) (hu : ∀ n acc, t ≠ .getLoop n [] acc) :
    (micro t q).1.inR = true ∧ (micro t q).1.inW = false ∧ (micro t q).1.getN = t.getN ∧ (micro t q).2 = q ∧
    finishR (micro t q).1 q = finishR t q := by
  cases t with
  | getKeys n => simp [micro, T.inW, T.inR, T.getN, finishR]
  | getLoop n ks acc =>
    cases ks with
    | nil => exact absurd rfl (hu n acc)
    | cons k ks => simp [micro, T.inW, T.inR, T.getN, finishR, collect]
  | _ => simp [T.inR] at h

/-- The invariant of the lock discipline. -/
structure Inv {M : Type} (max : Int) (s : S M) : Prop where
  excl : ∀ t u, t ≠ u → (s.th t).inW = true → (s.th u).inW = false ∧ (s.th u).inR = false
  absIdle : (∀ t, (s.th t).inW = false) → s.q = (CQ.new max).adds s.order
  absW : ∀ t, (s.th t).inW = true → finishW (s.th t) s.q = (CQ.new max).adds s.order
  rd : ∀ t n, (s.th t).getN = some n →
    n ≤ s.order.length ∧ finishR (s.th t) s.q = ((CQ.new max).adds (s.order.take n)).get
  rets : ∀ p ∈ s.rets, p.1 ≤ s.order.length ∧ p.2 = ((CQ.new max).adds (s.order.take p.1)).get

theorem adds_snoc {M : Type} (q : CQ M) (ms : List M) (m : M) : q.adds (ms ++ [m]) = (q.adds ms).add m := by
  simp [CQ.adds, List.foldl_append]

theorem inv_init {M : Type} (max : Int) : Inv max (init M max) := by
  refine ⟨?_, ?_, ?_, ?_, ?_⟩ <;> simp [init, T.inW, T.getN, CQ.adds]

end Ntrip.QC

namespace Ntrip.QC
open Ntrip

/-- A goroutine outside every critical section and holding no snapshot moves to another such
    state: nothing the invariant speaks about changes. -/
theorem inv_plain {M : Type} (max : Int) (s : S M) (t : Nat) (v : T M) (hi : Inv max s)
    (h0 : (s.th t).inW = false ∧ (s.th t).inR = false ∧ (s.th t).getN = none)
    (hv : v.inW = false ∧ v.inR = false ∧ v.getN = none) :
    Inv max { s with th := upd s.th t v } := by
  have hflag : ∀ u, (upd s.th t v u).inW = (s.th u).inW ∧ (upd s.th t v u).inR = (s.th u).inR ∧
      (upd s.th t v u).getN = (s.th u).getN := by
    intro u
    by_cases hu : u = t
    · subst hu; rw [upd_same]; simp [h0, hv]
    · rw [upd_other _ _ _ _ hu]; simp
  refine ⟨?_, ?_, ?_, ?_, hi.rets⟩
  · intro a b hab ha
    rw [(hflag a).1] at ha
    rw [(hflag b).1, (hflag b).2.1]
    exact hi.excl a b hab ha
  · intro hall
    apply hi.absIdle
    intro u; rw [← (hflag u).1]; exact hall u
  · intro u hu
    have hu' := hu
    rw [(hflag u).1] at hu'
    have hne : u ≠ t := by
      intro e; subst e; rw [h0.1] at hu'; cases hu'
    show finishW (upd s.th t v u) s.q = _
    rw [upd_other _ _ _ _ hne]
    exact hi.absW u hu'
  · intro u n hn
    rw [(hflag u).2.2] at hn
    have hne : u ≠ t := by
      intro e; subst e; rw [h0.2.2] at hn; cases hn
    show n ≤ s.order.length ∧ finishR (upd s.th t v u) s.q = _
    rw [upd_other _ _ _ _ hne]
    exact hi.rd u n hn

end Ntrip.QC

namespace Ntrip.QC
open Ntrip

theorem take_snoc_of_le {α : Type} (l : List α) (x : α) (n : Nat) (h : n ≤ l.length) : (l ++ [x]).take n = l.take n := by
  rw [List.take_append_of_le_length h]

/-- **The lock discipline keeps the invariant**, whatever goroutine moves. -/
theorem inv_step {M : Type} (max : Int) {s s' : S M} (hi : Inv max s) (hs : Step true s s') : Inv max s' := by
  cases hs with
  | invAdd t m h => exact inv_plain max s t _ hi (by simp [h, T.inW, T.inR, T.getN]) (by simp [T.inW, T.inR, T.getN])
  | invGet t h => exact inv_plain max s t _ hi (by simp [h, T.inW, T.inR, T.getN]) (by simp [T.inW, T.inR, T.getN])
  | lockW t m h hfree' =>
    have hfree := hfree' rfl
    have hq : s.q = (CQ.new max).adds s.order := hi.absIdle (fun u => (hfree u).1)
    have hwf : WFQ s.q := by rw [hq]; exact wfq_adds _ _ (wfq_new max)
    refine ⟨?_, ?_, ?_, ?_, ?_⟩
    · intro a b hab ha
      show (upd s.th t (T.addTest m) b).inW = false ∧ (upd s.th t (T.addTest m) b).inR = false
      have hat : a = t := by
        apply Classical.byContradiction
        intro hne
        have : (upd s.th t (T.addTest m) a).inW = true := ha
        rw [upd_other _ _ _ _ hne, (hfree a).1] at this
        cases this
      have hbt : b ≠ t := by rw [← hat]; exact fun e => hab e.symm
      rw [upd_other _ _ _ _ hbt]
      exact hfree b
    · intro hall
      have := hall t
      simp only [upd_same, T.inW] at this
      cases this
    · intro u hu
      have hut : u = t := by
        apply Classical.byContradiction
        intro hne
        have : (upd s.th t (T.addTest m) u).inW = true := hu
        rw [upd_other _ _ _ _ hne, (hfree u).1] at this
        cases this
      subst hut
      show finishW (upd s.th u (T.addTest m) u) s.q = (CQ.new max).adds (s.order ++ [m])
      rw [upd_same, finishW_addTest _ _ hwf, adds_snoc, ← hq]
    · intro u n hn
      have hut : u ≠ t := by
        intro e; subst e
        have : (upd s.th u (T.addTest m) u).getN = some n := hn
        rw [upd_same] at this; simp [T.getN] at this
      have hn' : (s.th u).getN = some n := by
        have : (upd s.th t (T.addTest m) u).getN = some n := hn
        rwa [upd_other _ _ _ _ hut] at this
      obtain ⟨h1, h2⟩ := hi.rd u n hn'
      show n ≤ (s.order ++ [m]).length ∧ finishR (upd s.th t (T.addTest m) u) s.q = ((CQ.new max).adds ((s.order ++ [m]).take n)).get
      rw [upd_other _ _ _ _ hut, take_snoc_of_le _ _ _ h1]
      exact ⟨by simp; omega, h2⟩
    · intro p hp
      obtain ⟨h1, h2⟩ := hi.rets p hp
      show p.1 ≤ (s.order ++ [m]).length ∧ p.2 = ((CQ.new max).adds ((s.order ++ [m]).take p.1)).get
      rw [take_snoc_of_le _ _ _ h1]
      exact ⟨by simp; omega, h2⟩
  | microW t hw hne =>
    obtain ⟨m1, m2, m3, m4⟩ := micro_W (s.th t) s.q hw hne
    have hothers : ∀ u, u ≠ t → (s.th u).inW = false ∧ (s.th u).inR = false := fun u hu => hi.excl t u (Ne.symm hu) hw
    refine ⟨?_, ?_, ?_, ?_, hi.rets⟩
    · intro a b hab ha
      show (upd s.th t (micro (s.th t) s.q).1 b).inW = false ∧ (upd s.th t (micro (s.th t) s.q).1 b).inR = false
      have hat : a = t := by
        apply Classical.byContradiction
        intro hne'
        have : (upd s.th t (micro (s.th t) s.q).1 a).inW = true := ha
        rw [upd_other _ _ _ _ hne', (hothers a hne').1] at this
        cases this
      have hbt : b ≠ t := by rw [← hat]; exact fun e => hab e.symm
      rw [upd_other _ _ _ _ hbt]
      exact hothers b hbt
    · intro hall
      have := hall t
      simp only [upd_same] at this
      rw [m1] at this; cases this
    · intro u hu
      have hut : u = t := by
        apply Classical.byContradiction
        intro hne'
        have : (upd s.th t (micro (s.th t) s.q).1 u).inW = true := hu
        rw [upd_other _ _ _ _ hne', (hothers u hne').1] at this
        cases this
      subst hut
      show finishW (upd s.th u (micro (s.th u) s.q).1 u) (micro (s.th u) s.q).2 = _
      rw [upd_same, m4]
      exact hi.absW u hw
    · intro u n hn
      have hut : u ≠ t := by
        intro e; subst e
        have : (upd s.th u (micro (s.th u) s.q).1 u).getN = some n := hn
        rw [upd_same, m3] at this; cases this
      have hn' : (s.th u).getN = some n := by
        have : (upd s.th t (micro (s.th t) s.q).1 u).getN = some n := hn
        rwa [upd_other _ _ _ _ hut] at this
      obtain ⟨h1, h2⟩ := hi.rd u n hn'
      show n ≤ s.order.length ∧ finishR (upd s.th t (micro (s.th t) s.q).1 u) (micro (s.th t) s.q).2 = _
      rw [upd_other _ _ _ _ hut]
      refine ⟨h1, ?_⟩
      -- u holds a snapshot number but is not in a reader section (t is writing): it is past its unlock
      have hnr := (hothers u hut).2
      cases hth : s.th u with
      | getDone n' r => rw [hth] at h2; simpa [finishR] using h2
      | getKeys n' => rw [hth] at hnr; simp [T.inR] at hnr
      | getLoop n' ks acc => rw [hth] at hnr; simp [T.inR] at hnr
      | _ => rw [hth] at hn'; simp [T.getN] at hn'
  | unlockW t h =>
    have hw : (s.th t).inW = true := by rw [h]; rfl
    have hothers : ∀ u, u ≠ t → (s.th u).inW = false ∧ (s.th u).inR = false := fun u hu => hi.excl t u (Ne.symm hu) hw
    have hq : s.q = (CQ.new max).adds s.order := by
      have := hi.absW t hw
      rwa [h] at this
    refine ⟨?_, ?_, ?_, ?_, hi.rets⟩
    · intro a b hab ha
      exfalso
      have : (upd s.th t T.idle a).inW = true := ha
      by_cases hat : a = t
      · subst hat; rw [upd_same] at this; cases this
      · rw [upd_other _ _ _ _ hat, (hothers a hat).1] at this; cases this
    · intro _; exact hq
    · intro u hu
      exfalso
      have : (upd s.th t T.idle u).inW = true := hu
      by_cases hut : u = t
      · subst hut; rw [upd_same] at this; cases this
      · rw [upd_other _ _ _ _ hut, (hothers u hut).1] at this; cases this
    · intro u n hn
      have hut : u ≠ t := by
        intro e; subst e
        have : (upd s.th u T.idle u).getN = some n := hn
        rw [upd_same] at this; cases this
      have hn' : (s.th u).getN = some n := by
        have : (upd s.th t T.idle u).getN = some n := hn
        rwa [upd_other _ _ _ _ hut] at this
      show n ≤ s.order.length ∧ finishR (upd s.th t T.idle u) s.q = _
      rw [upd_other _ _ _ _ hut]
      exact hi.rd u n hn'
  | lockR t h hfree' =>
    have hfree := hfree' rfl
    have hq : s.q = (CQ.new max).adds s.order := hi.absIdle hfree
    have hwf : WFQ s.q := by rw [hq]; exact wfq_adds _ _ (wfq_new max)
    refine ⟨?_, ?_, ?_, ?_, hi.rets⟩
    · intro a b hab ha
      exfalso
      have : (upd s.th t (T.getKeys s.order.length) a).inW = true := ha
      by_cases hat : a = t
      · subst hat; rw [upd_same] at this; cases this
      · rw [upd_other _ _ _ _ hat, hfree a] at this; cases this
    · intro _; exact hq
    · intro u hu
      exfalso
      have : (upd s.th t (T.getKeys s.order.length) u).inW = true := hu
      by_cases hut : u = t
      · subst hut; rw [upd_same] at this; cases this
      · rw [upd_other _ _ _ _ hut, hfree u] at this; cases this
    · intro u n hn
      show n ≤ s.order.length ∧ finishR (upd s.th t (T.getKeys s.order.length) u) s.q = _
      by_cases hut : u = t
      · subst hut
        have : (upd s.th u (T.getKeys s.order.length) u).getN = some n := hn
        rw [upd_same] at this ⊢
        simp only [T.getN, Option.some.injEq] at this
        subst this
        rw [finishR_getKeys _ _ hwf, List.take_length, ← hq]
        exact ⟨Nat.le_refl _, rfl⟩
      · have hn' : (s.th u).getN = some n := by
          have : (upd s.th t (T.getKeys s.order.length) u).getN = some n := hn
          rwa [upd_other _ _ _ _ hut] at this
        rw [upd_other _ _ _ _ hut]
        exact hi.rd u n hn'
  | microR t hr hne =>
    obtain ⟨m1, m2, m3, m4, m5⟩ := micro_R (s.th t) s.q hr hne
    have hnow : ∀ u, (s.th u).inW = false := by
      intro u
      cases hw : (s.th u).inW with
      | false => rfl
      | true =>
        by_cases hut : u = t
        · subst hut
          cases hth : s.th u <;> rw [hth] at hr hw <;> simp [T.inR, T.inW] at hr hw
        · have := (hi.excl u t hut hw).2
          rw [hr] at this; cases this
    have hflag : ∀ u, (upd s.th t (micro (s.th t) s.q).1 u).inW = (s.th u).inW ∧
        (upd s.th t (micro (s.th t) s.q).1 u).inR = (s.th u).inR := by
      intro u
      by_cases hut : u = t
      · subst hut; rw [upd_same, m1, m2, hr, hnow u]; exact ⟨rfl, rfl⟩
      · rw [upd_other _ _ _ _ hut]; exact ⟨rfl, rfl⟩
    refine ⟨?_, ?_, ?_, ?_, hi.rets⟩
    · intro a b hab ha
      have : (upd s.th t (micro (s.th t) s.q).1 a).inW = true := ha
      rw [(hflag a).1, hnow a] at this; cases this
    · intro _
      show (micro (s.th t) s.q).2 = _
      rw [m4]; exact hi.absIdle hnow
    · intro u hu
      have : (upd s.th t (micro (s.th t) s.q).1 u).inW = true := hu
      rw [(hflag u).1, hnow u] at this; cases this
    · intro u n hn
      show n ≤ s.order.length ∧ finishR (upd s.th t (micro (s.th t) s.q).1 u) (micro (s.th t) s.q).2 = _
      rw [m4]
      by_cases hut : u = t
      · subst hut
        have : (upd s.th u (micro (s.th u) s.q).1 u).getN = some n := hn
        rw [upd_same, m3] at this
        rw [upd_same, m5]
        exact hi.rd u n this
      · have hn' : (s.th u).getN = some n := by
          have : (upd s.th t (micro (s.th t) s.q).1 u).getN = some n := hn
          rwa [upd_other _ _ _ _ hut] at this
        rw [upd_other _ _ _ _ hut]
        exact hi.rd u n hn'
  | unlockR t n acc h =>
    have hflagW : ∀ u, (upd s.th t (T.getDone n acc) u).inW = (s.th u).inW := by
      intro u
      by_cases hut : u = t
      · subst hut; rw [upd_same, h]; rfl
      · rw [upd_other _ _ _ _ hut]
    refine ⟨?_, ?_, ?_, ?_, hi.rets⟩
    · intro a b hab ha
      have ha' : (s.th a).inW = true := by rw [← hflagW a]; exact ha
      have := hi.excl a b hab ha'
      show (upd s.th t (T.getDone n acc) b).inW = false ∧ (upd s.th t (T.getDone n acc) b).inR = false
      by_cases hbt : b = t
      · subst hbt; rw [upd_same]; exact ⟨rfl, rfl⟩
      · rw [upd_other _ _ _ _ hbt]; exact this
    · intro hall
      apply hi.absIdle
      intro u; rw [← hflagW u]; exact hall u
    · intro u hu
      have hu' : (s.th u).inW = true := by rw [← hflagW u]; exact hu
      have hut : u ≠ t := by
        intro e; subst e; rw [h] at hu'; cases hu'
      show finishW (upd s.th t (T.getDone n acc) u) s.q = _
      rw [upd_other _ _ _ _ hut]
      exact hi.absW u hu'
    · intro u n' hn
      show n' ≤ s.order.length ∧ finishR (upd s.th t (T.getDone n acc) u) s.q = _
      by_cases hut : u = t
      · subst hut
        have : (upd s.th u (T.getDone n acc) u).getN = some n' := hn
        rw [upd_same] at this ⊢
        simp only [T.getN, Option.some.injEq] at this
        subst this
        have := hi.rd u n (by rw [h]; rfl)
        rw [h] at this
        simpa [finishR, collect] using this
      · have hn' : (s.th u).getN = some n' := by
          have : (upd s.th t (T.getDone n acc) u).getN = some n' := hn
          rwa [upd_other _ _ _ _ hut] at this
        rw [upd_other _ _ _ _ hut]
        exact hi.rd u n' hn'
  | retGet t n r h =>
    have hold := hi.rd t n (by rw [h]; rfl)
    rw [h] at hold
    have hbase : Inv max { s with th := upd s.th t T.idle } := by
      have hflag : ∀ u, (upd s.th t T.idle u).inW = (s.th u).inW ∧ (upd s.th t T.idle u).inR = (s.th u).inR := by
        intro u
        by_cases hut : u = t
        · subst hut; rw [upd_same, h]; exact ⟨rfl, rfl⟩
        · rw [upd_other _ _ _ _ hut]; exact ⟨rfl, rfl⟩
      refine ⟨?_, ?_, ?_, ?_, hi.rets⟩
      · intro a b hab ha
        rw [(hflag a).1] at ha
        rw [(hflag b).1, (hflag b).2]
        exact hi.excl a b hab ha
      · intro hall
        apply hi.absIdle
        intro u; rw [← (hflag u).1]; exact hall u
      · intro u hu
        have hu' := hu
        rw [(hflag u).1] at hu'
        have hut : u ≠ t := by
          intro e; subst e; rw [h] at hu'; cases hu'
        show finishW (upd s.th t T.idle u) s.q = _
        rw [upd_other _ _ _ _ hut]
        exact hi.absW u hu'
      · intro u n' hn
        have hut : u ≠ t := by
          intro e; subst e
          have : (upd s.th u T.idle u).getN = some n' := hn
          rw [upd_same] at this; cases this
        have hn' : (s.th u).getN = some n' := by
          have : (upd s.th t T.idle u).getN = some n' := hn
          rwa [upd_other _ _ _ _ hut] at this
        show n' ≤ s.order.length ∧ finishR (upd s.th t T.idle u) s.q = _
        rw [upd_other _ _ _ _ hut]
        exact hi.rd u n' hn'
    refine ⟨hbase.excl, hbase.absIdle, hbase.absW, hbase.rd, ?_⟩
    intro p hp
    show p.1 ≤ s.order.length ∧ p.2 = _
    have hp' : p ∈ s.rets ++ [(n, r)] := hp
    rcases List.mem_append.mp hp' with hp | hp
    · exact hi.rets p hp
    · simp only [List.mem_singleton] at hp
      subst hp
      exact ⟨hold.1, by simpa [finishR] using hold.2⟩

theorem inv_reach {M : Type} (max : Int) {s : S M} (h : Reach true max s) : Inv max s := by
  induction h with
  | init => exact inv_init max
  | step _ hs ih => exact inv_step max ih hs

end Ntrip.QC
