import Ntrip.Model.Queue
/-! The circular queue keeps the last N messages (sequential specification). -/
namespace Ntrip

theorem evict_eq_drop {α : Type} (N : Nat) (hN : 1 ≤ N) : ∀ (l : List (Int × α)),
    evict (N : Int) l = l.drop (l.length - (N - 1))
  | [] => by simp [evict]
  | kv :: rest => by
    unfold evict
    by_cases h : (((kv :: rest).length : Nat) : Int) ≥ (N : Int)
    · rw [if_pos h, evict_eq_drop N hN rest]
      have hl : (kv :: rest).length ≥ N := by exact_mod_cast h
      simp only [List.length_cons] at hl ⊢
      have : rest.length + 1 - (N - 1) = (rest.length - (N - 1)) + 1 := by omega
      rw [this, List.drop_succ_cons]
    · rw [if_neg h]
      have hl : (kv :: rest).length < N := by
        have : ¬ ((kv :: rest).length ≥ N) := fun hh => h (by exact_mod_cast hh)
        omega
      have : (kv :: rest).length - (N - 1) = 0 := by omega
      rw [this, List.drop_zero]

/-- One `Add` keeps the last `N` of "everything so far". -/
theorem add_window {α : Type} (N : Nat) (hN : 1 ≤ N) (q : CQ α) (hmax : q.max = N) (all : List α)
    (hget : q.get = all.drop (all.length - N)) (hlen : q.items.length = min N all.length) (m : α) :
    (q.add m).get = (all ++ [m]).drop ((all ++ [m]).length - N) ∧
    (q.add m).items.length = min N (all ++ [m]).length ∧ (q.add m).max = N := by
  unfold CQ.add CQ.get at *
  simp only [hmax]
  by_cases hfull : ((q.items.length : Nat) : Int) ≥ (N : Int)
  · rw [if_pos hfull, evict_eq_drop N hN]
    have hl : q.items.length ≥ N := by exact_mod_cast hfull
    have hall : N ≤ all.length := by omega
    have hql : q.items.length = N := by omega
    refine ⟨?_, ?_, trivial⟩
    · simp only [List.map_append, List.map_drop, hget, List.map_cons, List.map_nil, List.drop_drop,
        List.length_append, List.length_singleton, hql]
      rw [List.drop_append_of_le_length (by omega)]
      congr 2; omega
    · simp only [List.length_append, List.length_drop, List.length_singleton, hql]; omega
  · rw [if_neg hfull]
    have hl : q.items.length < N := by
      have : ¬ (q.items.length ≥ N) := fun hh => hfull (by exact_mod_cast hh)
      omega
    have hall : all.length < N := by omega
    refine ⟨?_, ?_, trivial⟩
    · simp only [List.map_append, hget, List.map_cons, List.map_nil, List.length_append, List.length_singleton]
      have e1 : all.length - N = 0 := by omega
      have e2 : all.length + 1 - N = 0 := by omega
      rw [e1, e2]; simp
    · simp only [List.length_append, List.length_singleton]; omega

/-- **The queue holds the last `N` messages in arrival order** and never more than `N`. -/
theorem queue_spec {α : Type} (N : Nat) (hN : 1 ≤ N) (ms : List α) :
    ((CQ.new (N : Int)).adds ms).get = ms.drop (ms.length - N) ∧
    ((CQ.new (N : Int) : CQ α).adds ms).items.length = min N ms.length := by
  suffices h : ∀ (ms pre : List α) (q : CQ α), q.max = N → q.get = pre.drop (pre.length - N) →
      q.items.length = min N pre.length →
      (q.adds ms).get = (pre ++ ms).drop ((pre ++ ms).length - N) ∧
      (q.adds ms).items.length = min N (pre ++ ms).length by
    have := h ms [] (CQ.new N) rfl (by simp [CQ.new, CQ.get]) (by simp [CQ.new])
    simpa using this
  intro ms
  induction ms with
  | nil => intro pre q _ h1 h2; simpa [CQ.adds] using ⟨h1, h2⟩
  | cons m rest ih =>
    intro pre q hmax h1 h2
    obtain ⟨a1, a2, a3⟩ := add_window N hN q hmax pre h1 h2 m
    have := ih (pre ++ [m]) (q.add m) a3 a1 a2
    simpa [CQ.adds, List.append_assoc] using this
end Ntrip
