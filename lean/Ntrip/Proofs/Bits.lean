import Ntrip.Model.Bits
/-! Helper lemmas about bit extraction (used by C14 and by every decoder proof). -/
namespace Ntrip

theorem bitAt_lt (buf : Bytes) (i : Nat) : bitAt buf i < 2 := by
  unfold bitAt; split <;> omega

theorem specU_lt (buf : Bytes) (pos : Nat) : ∀ n, specU buf pos n < 2^n
  | 0 => by simp [specU]
  | n+1 => by
    have := specU_lt buf pos n
    have := bitAt_lt buf (pos+n)
    simp only [specU, Nat.pow_succ]; omega

theorem shl_or_bit (a b : Nat) (hb : b < 2) : (a <<< 1) ||| b = 2 * a + b := by
  rw [Nat.shiftLeft_eq, Nat.pow_one, Nat.mul_comm]
  have h : b < 2^1 := by simpa using hb
  have := Nat.two_pow_add_eq_or_of_lt h a
  simp only [Nat.pow_one] at this
  omega

theorem getBitsU_eq (buf : Bytes) (pos : Nat) : ∀ n, n ≤ 64 → getBitsU buf pos n = specU buf pos n := by
  intro n
  induction n with
  | zero => intro _; simp [getBitsU, specU]
  | succ n ih =>
    intro h
    have ih' := ih (by omega)
    unfold getBitsU at *
    rw [List.range_succ, List.foldl_append, ih']
    simp only [List.foldl_cons, List.foldl_nil, stepU, specU]
    rw [shl_or_bit _ _ (bitAt_lt _ _)]
    have h1 := specU_lt buf pos (n+1)
    simp only [specU] at h1
    have : 2^(n+1) ≤ 2^64 := Nat.pow_le_pow_right (by omega) h
    exact Nat.mod_eq_of_lt (by omega)

theorem getBitsU_lt (buf : Bytes) (pos n : Nat) (h : n ≤ 64) : getBitsU buf pos n < 2^n := by
  rw [getBitsU_eq _ _ _ h]; exact specU_lt _ _ _

/-- The value splits into the leading bit and the rest. -/
theorem specU_head (buf : Bytes) (pos : Nat) : ∀ n,
    specU buf pos (n+1) = bitAt buf pos * 2^n + specU buf (pos+1) n
  | 0 => by simp [specU]
  | n+1 => by
    have ih := specU_head buf pos n
    simp only [specU] at ih ⊢
    rw [ih, Nat.pow_succ]
    have : pos + 1 + n = pos + (n + 1) := by omega
    rw [this]
    have e : 2 * (bitAt buf pos * 2 ^ n + specU buf (pos + 1) n) =
        bitAt buf pos * (2 ^ n * 2) + 2 * specU buf (pos + 1) n := by
      rw [Nat.mul_add, ← Nat.mul_assoc, Nat.mul_comm 2 (bitAt buf pos), Nat.mul_assoc,
        Nat.mul_comm 2 (2 ^ n)]
    omega

theorem specU_one (buf : Bytes) (pos : Nat) : specU buf pos 1 = bitAt buf pos := by
  simp [specU]

/-- Concatenation of adjacent fields. -/
theorem specU_add (buf : Bytes) (pos a : Nat) : ∀ b,
    specU buf pos (a + b) = specU buf pos a * 2^b + specU buf (pos + a) b
  | 0 => by simp [specU]
  | b+1 => by
    have ih := specU_add buf pos a b
    have : a + (b+1) = (a + b) + 1 := by omega
    rw [this]
    simp only [specU]
    rw [ih, Nat.pow_succ]
    have : pos + (a + b) = pos + a + b := by omega
    rw [this]
    have e : 2 * (specU buf pos a * 2 ^ b + specU buf (pos + a) b) =
        specU buf pos a * (2 ^ b * 2) + 2 * specU buf (pos + a) b := by
      rw [Nat.mul_add, ← Nat.mul_assoc, Nat.mul_comm 2 (specU buf pos a), Nat.mul_assoc,
        Nat.mul_comm 2 (2 ^ b)]
    omega

/-- Buffers that agree on the addressed bits give the same value. -/
theorem specU_congr (b1 b2 : Bytes) (pos : Nat) : ∀ n,
    (∀ i, i < n → bitAt b1 (pos + i) = bitAt b2 (pos + i)) → specU b1 pos n = specU b2 pos n
  | 0 => by intro _; simp [specU]
  | n+1 => by
    intro h
    have ih := specU_congr b1 b2 pos n (fun i hi => h i (by omega))
    simp only [specU]
    rw [ih, h n (by omega)]

/-! ### Signed extraction -/

theorem two64N : (2:Nat)^64 = 18446744073709551616 := by decide
theorem two63N : (2:Nat)^63 = 9223372036854775808 := by decide
theorem two64I : (2:Int)^64 = 18446744073709551616 := by decide
theorem two63I : (2:Int)^63 = 9223372036854775808 := by decide
theorem toI64_lo (n : Nat) (h : n < 2^63) : toI64 n = (n : Int) := by
  unfold toI64; simp only [two64N, two63N, two64I] at *; split <;> omega
theorem toI64_hi (n : Nat) (h1 : 2^63 ≤ n) (h2 : n < 2^64) : toI64 n = (n : Int) - 2^64 := by
  unfold toI64; simp only [two64N, two63N, two64I] at *; split <;> omega
theorem wrapI64_id (i : Int) (h1 : -(2^63) ≤ i) (h2 : i < 2^63) : wrapI64 i = i := by
  unfold wrapI64 toI64
  simp only [two64N, two63N, two64I, two63I] at *
  split <;> omega
theorem wrapI64_two63 : wrapI64 (2^63) = -(2^63) := by
  unfold wrapI64 toI64
  simp only [two64N, two63N, two64I, two63I] at *
  split <;> omega
theorem and_two_pow_of_bit (u k : Nat) (hlo : 2^k ≤ u) (hhi : u < 2^(k+1)) :
    u &&& 2^k = 2^k := by
  apply Nat.eq_of_testBit_eq
  intro i
  rw [Nat.testBit_and, Nat.testBit_two_pow]
  by_cases h : k = i
  · subst h
    have := Nat.testBit_of_two_pow_le_and_two_pow_add_one_gt hlo hhi
    simp [this]
  · simp [h]

theorem and_not_two_pow_of_bit (u k : Nat) (hk : k < 64) (hlo : 2^k ≤ u) (hhi : u < 2^(k+1)) :
    u &&& (2^64 - 1 - 2^k) = u - 2^k := by
  have hk2 : 2^k < 2^64 := Nat.pow_lt_pow_right (by omega) hk
  have e : 2^64 - 1 - 2^k = 2^64 - (2^k + 1) := by omega
  rw [e]
  obtain ⟨low, rfl⟩ : ∃ low, u = 2^k + low := ⟨u - 2^k, by omega⟩
  have hlow : low < 2^k := by rw [Nat.pow_succ] at hhi; omega
  have : 2^k + low - 2^k = low := by omega
  rw [this]
  apply Nat.eq_of_testBit_eq
  intro i
  rw [Nat.testBit_and, Nat.testBit_two_pow_sub_succ hk2, Nat.testBit_two_pow]
  rcases Nat.lt_trichotomy i k with h | h | h
  · rw [Nat.testBit_two_pow_add_gt h]
    have : i < 64 := by omega
    have h2 : ¬ k = i := by omega
    simp [this, h2]
  · subst h
    have : low.testBit i = false := Nat.testBit_lt_two_pow hlow
    simp [this]
  · have h1 : (2^k + low).testBit i = false := by
      apply Nat.testBit_lt_two_pow
      have : 2^(k+1) ≤ 2^i := Nat.pow_le_pow_right (by omega) h
      omega
    have h2 : low.testBit i = false := by
      apply Nat.testBit_lt_two_pow
      have : 2^k ≤ 2^i := Nat.pow_le_pow_right (by omega) (by omega)
      omega
    simp [h1, h2]

theorem getBitsI_eq (buf : Bytes) (pos len : Nat) (h2 : 2 ≤ len) (h64 : len ≤ 64) :
    getBitsI buf pos len = specI buf pos len := by
  obtain ⟨k, rfl⟩ : ∃ k, len = k + 1 := ⟨len - 1, by omega⟩
  have hk : k ≤ 63 := by omega
  have hu1 : getBitsU buf pos 1 = bitAt buf pos := by
    rw [getBitsU_eq _ _ _ (by omega), specU_one]
  have hu : getBitsU buf pos (k+1) = specU buf pos (k+1) := getBitsU_eq _ _ _ h64
  have hhead := specU_head buf pos k
  have hlow := specU_lt buf (pos+1) k
  have hbit := bitAt_lt buf pos
  have hk63 : (2:Nat)^k ≤ 2^63 := Nat.pow_le_pow_right (by omega) hk
  unfold getBitsI specI
  rw [hu1, hu]
  by_cases hb : bitAt buf pos = 1
  · -- negative
    simp only [hb, beq_self_eq_true, if_true, h2]
    have hmask : (2 <<< (k + 1 - 2)) % 2^64 = 2^k := by
      rw [Nat.shiftLeft_eq]
      have : 2 * 2^(k+1-2) = 2^k := by
        have : k = (k + 1 - 2) + 1 := by omega
        conv => rhs; rw [this, Nat.pow_succ]
        omega
      rw [this]
      apply Nat.mod_eq_of_lt
      have : (2:Nat)^63 < 2^64 := by decide
      omega
    rw [hmask]
    have hlo : 2^k ≤ specU buf pos (k+1) := by rw [hhead, hb]; omega
    have hhi : specU buf pos (k+1) < 2^(k+1) := specU_lt _ _ _
    have hnot : notU64 (2^k) = 2^64 - 1 - 2^k := by
      unfold notU64
      rw [Nat.mod_eq_of_lt]
      have : (2:Nat)^63 < 2^64 := by decide
      omega
    rw [hnot, and_two_pow_of_bit _ _ hlo hhi, and_not_two_pow_of_bit _ _ (by omega) hlo hhi]
    have hsub : specU buf pos (k+1) - 2^k = specU buf (pos+1) k := by rw [hhead, hb]; omega
    rw [hsub, toI64_lo (specU buf (pos+1) k) (by omega)]
    have hval : (specU buf pos (k+1) : Int) = 2^k + (specU buf (pos+1) k : Int) := by
      rw [hhead, hb]; push_cast; omega
    rw [hval]
    have hpk : (((2:Nat)^k : Nat) : Int) = (2:Int)^k := by simp
    have hlowI : ((specU buf (pos+1) k : Nat) : Int) < (2:Int)^k := by rw [← hpk]; exact_mod_cast hlow
    have hk63I : (2:Int)^k ≤ 2^63 := by rw [← hpk]; exact_mod_cast hk63
    have hpos : (0:Int) ≤ (specU buf (pos+1) k : Nat) := Int.natCast_nonneg _
    have hsucc : (2:Int)^(k+1) = 2 * 2^k := by rw [Int.pow_succ]; omega
    rw [hsucc]
    by_cases hk' : k = 63
    · subst hk'
      rw [toI64_hi (2^63) (by omega) (by decide)]
      have e1 : (-1 * (((2:Nat)^63 : Nat) - (2:Int)^64) : Int) = 2^63 := by
        simp only [two64I, two63I]; decide
      rw [e1, wrapI64_two63, wrapI64_id] <;> simp only [two63I] at * <;> omega
    · have hk62 : k ≤ 62 := by omega
      have : (2:Nat)^k < 2^63 := Nat.pow_lt_pow_right (by omega) (by omega)
      rw [toI64_lo (2^k) this, hpk]
      have hlt : (2:Int)^k < 2^63 := by rw [← hpk]; exact_mod_cast this
      have hp : (0:Int) < 2^k := by rw [← hpk]; exact_mod_cast Nat.two_pow_pos k
      rw [wrapI64_id (-1 * 2^k) (by omega) (by omega), wrapI64_id] <;> omega
  · have hb0 : bitAt buf pos = 0 := by omega
    have : (bitAt buf pos == 1) = false := by simp [hb0]
    simp only [hb0]
    have hv : specU buf pos (k+1) = specU buf (pos+1) k := by rw [hhead, hb0]; omega
    rw [hv]
    simp
    exact toI64_lo _ (by omega)
end Ntrip
