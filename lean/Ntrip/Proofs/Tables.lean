import Ntrip.Model.Bits
/-! Table lemmas: a lookup with default / a membership test over a concrete table is
    characterised by checking its rows (finite, `decide`) and its behaviour off the keys. -/
namespace Ntrip

theorem lookup_getD_eq' {β : Type} (d : β) (f : Int → β) (t : Int) : ∀ (rows : List (Int × β)),
    (∀ kv ∈ rows, kv.1 = t → f t = kv.2) → (t ∉ rows.map (·.1) → f t = d) →
    (rows.lookup t).getD d = f t
  | [], _, h2 => by simp [List.lookup, h2 (by simp)]
  | (k, v) :: rest, h1, h2 => by
    simp only [List.lookup]
    by_cases h : t = k
    · subst h
      simp only [beq_self_eq_true]
      exact (h1 (t, v) (by simp) rfl).symm
    · have : (t == k) = false := by simpa using h
      simp only [this]
      apply lookup_getD_eq' d f t rest
      · intro kv hkv; exact h1 kv (by simp [hkv])
      · intro hn; apply h2; simp only [List.map_cons, List.mem_cons, not_or]; exact ⟨h, hn⟩

/-- A table lookup with default computes `f` when `f` agrees with every row and takes the
    default value off the keys. -/
theorem lookup_getD_eq {β : Type} (rows : List (Int × β)) (d : β) (f : Int → β)
    (hrows : ∀ kv ∈ rows, f kv.1 = kv.2) (hoff : ∀ t, t ∉ rows.map (·.1) → f t = d) (t : Int) :
    (rows.lookup t).getD d = f t :=
  lookup_getD_eq' d f t rows (fun kv hkv hk => by rw [← hk]; exact hrows kv hkv) (hoff t)

theorem contains_congr (l1 l2 : List Int) (h1 : ∀ x ∈ l1, x ∈ l2) (h2 : ∀ x ∈ l2, x ∈ l1) (t : Int) :
    l1.contains t = l2.contains t := by
  cases h : l2.contains t with
  | true => simp only [List.contains_eq_mem, decide_eq_true_eq] at h ⊢; exact h2 t h
  | false => simp only [List.contains_eq_mem, decide_eq_false_iff_not] at h ⊢; exact fun hh => h (h1 t hh)

end Ntrip
