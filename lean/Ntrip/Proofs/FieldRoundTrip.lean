import Ntrip.Proofs.Encode
import Ntrip.Proofs.MsmSafe
import Ntrip.Model.Base
/-! Reading back encoded fields (shared by C04 and C05). -/
namespace Ntrip

theorem bitAt_append_left (a b : Bytes) (i : Nat) (h : i < 8 * a.length) : bitAt (a ++ b) i = bitAt a i := by
  unfold bitAt; rw [List.getElem?_append_left (by omega)]

theorem bitAt_append_right (a b : Bytes) (i : Nat) : bitAt (a ++ b) (8 * a.length + i) = bitAt b i := by
  unfold bitAt
  rw [List.getElem?_append_right (by omega)]
  have e1 : (8 * a.length + i) / 8 - a.length = i / 8 := by omega
  have e2 : (8 * a.length + i) % 8 = i % 8 := by omega
  rw [e1, e2]

/-- The buffer carries the bit string `bits` from bit position `base` on. -/
def Agrees (bs : Bytes) (base : Nat) (bits : List Bool) : Prop :=
  ∀ i, i < bits.length → bitAt bs (base + i) = bitN bits i

theorem Agrees.split {bs : Bytes} {base : Nat} {a b : List Bool} (h : Agrees bs base (a ++ b)) :
    Agrees bs base a ∧ Agrees bs (base + a.length) b := by
  constructor
  · intro i hi
    rw [h i (by simp; omega), bitN_append_left _ _ _ hi]
  · intro i hi
    have := h (a.length + i) (by simp; omega)
    rw [bitN_append_right] at this
    rw [← this]; congr 1; omega

theorem pow_pred_double (w : Nat) (h : 1 ≤ w) : (2:Int)^w = 2 * 2^(w-1) := by
  have : w = (w - 1) + 1 := by omega
  conv => lhs; rw [this, Int.pow_succ]
  omega

/-- Reading back one encoded field. -/
theorem rdField_fieldBits (bs : Bytes) (pos : Nat) (s : Bool) (w : Nat) (v : Int)
    (hw1 : 1 ≤ w) (hw : w ≤ 64) (hs : s = true → 2 ≤ w) (hr : InRange s w v)
    (hfit : pos + w ≤ 8 * bs.length) (hag : Agrees bs pos (fieldBits w v)) :
    rdField bs pos s w = .ok v := by
  have hlen : (fieldBits w v).length = w := natBits_length _ _
  have hpos2 : (0:Int) < 2^w := Int.pow_pos (by omega)
  have hu0 : 0 ≤ v % 2^w := Int.emod_nonneg _ (by omega)
  have hu1 : v % 2^w < 2^w := Int.emod_lt_of_pos _ hpos2
  obtain ⟨u, hu⟩ : ∃ u : Nat, (v % 2^w) = u := ⟨(v % 2^w).toNat, (Int.toNat_of_nonneg hu0).symm⟩
  have hult : u < 2^w := by
    have : ((u : Nat) : Int) < ((2^w : Nat) : Int) := by rw [← hu]; push_cast; exact hu1
    exact_mod_cast this
  have hspec : specU bs pos w = u := by
    rw [specU_eq_valN bs (fun j => bitN (fieldBits w v) (j - pos)) pos w
      (fun i hi => by rw [hag i (by omega)]; simp)]
    rw [valN_natBits w u]
    · exact Nat.mod_eq_of_lt hult
    · intro i hi
      simp only [Nat.add_sub_cancel_left]
      unfold fieldBits
      rw [hu]; simp only [Int.toNat_natCast]
      exact bitN_natBits w u i hi
  unfold rdField
  cases s with
  | false =>
    simp only [Bool.false_eq_true, if_false]
    unfold getBitsU?
    rw [inRange_of_le hfit, getBitsU_eq _ _ _ hw, hspec]
    simp only [if_true]
    simp only [InRange, Bool.false_eq_true, if_false] at hr
    have : v % 2^w = v := Int.emod_eq_of_lt hr.1 hr.2
    rw [← hu, this]
  | true =>
    simp only [if_true]
    have h2 := hs rfl
    unfold getBitsI?
    rw [inRange_of_le hfit, inRange_of_le (show pos + 1 ≤ 8 * bs.length by omega),
      getBitsI_eq _ _ _ h2 hw]
    simp only [Bool.and_self, if_true]
    simp only [InRange, if_true] at hr
    have hval : specI bs pos w = v := by
      unfold specI
      rw [hspec]
      have hdouble := pow_pred_double w hw1
      -- the leading bit
      have hbit : bitAt bs pos = (u / 2^(w-1)) % 2 := by
        have := hag 0 (by omega)
        simp only [Nat.add_zero] at this
        rw [this]
        unfold fieldBits
        rw [hu]; simp only [Int.toNat_natCast]
        rw [bitN_natBits w u 0 (by omega), Nat.sub_zero]
      have hpw : (2:Nat)^w = 2 * 2^(w-1) := by
        have : w = (w - 1) + 1 := by omega
        conv => lhs; rw [this, Nat.pow_succ]
        omega
      have hcastp : ((2^(w-1) : Nat) : Int) = (2:Int)^(w-1) := by push_cast; rfl
      by_cases hneg : v < 0
      · -- u = v + 2^w ≥ 2^(w-1): leading bit 1
        have huv : (u : Int) = v + 2^w := by
          rw [← hu]
          have : (v + 2^w) % 2^w = v + 2^w := Int.emod_eq_of_lt (by omega) (by omega)
          rw [← this, Int.add_emod_right]
        have hge : 2^(w-1) ≤ u := by
          have : ((2^(w-1) : Nat) : Int) ≤ (u : Int) := by rw [huv, hcastp, hdouble]; omega
          exact_mod_cast this
        have hdiv : u / 2^(w-1) = 1 := by
          apply Nat.div_eq_of_lt_le <;> omega
        rw [hbit, hdiv]
        simp only [Nat.one_mod, if_true]
        rw [huv]; omega
      · have huv : (u : Int) = v := by
          rw [← hu]; exact Int.emod_eq_of_lt (by omega) (by omega)
        have hlt : u < 2^(w-1) := by
          have : (u : Int) < ((2^(w-1) : Nat) : Int) := by rw [huv, hcastp]; exact hr.2
          exact_mod_cast this
        have hdiv : u / 2^(w-1) = 0 := Nat.div_eq_of_lt hlt
        rw [hbit, hdiv]
        simp only [Nat.zero_mod, Nat.zero_ne_one, if_false]
        rw [huv]
    rw [hval]
end Ntrip
