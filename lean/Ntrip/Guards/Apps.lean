import Ntrip.Generated.Skeletons
/-!
Tie T1: the guards (`if` conditions), loop headers and effects (writes through pointers and fields,
calls made for their effect) of the applications and of the functions that fill in and display a
message, regenerated from the source on every run, are the ones the hand-written models were
written for.  A changed comparison, a dropped or added guard, a new write or helper call breaks
the obligation of the properties that re-export the theorem.
-/
namespace Ntrip.Guards

theorem reader :
    Gen.guards_fh_Handler_Handle = some ["for ;;", "if err!=nil", "if err!=io.EOF&&!strings.Contains()", "if handler.Config.SystemLog!=nil", "if handler.Config.TimeoutOnEOF()==0", "if handler.Config.SystemLog!=nil", "if timeOfFirstEOF==nil", "if handler.Config.WaitTimeOnEOF()!=0", "if handler.Config.SystemLog!=nil", "if now.Sub()>handler.Config.TimeoutOnEOF()", "if handler.Config.SystemLog!=nil", "if handler.Config.TimeoutOnEOF()!=0", "if n>0"] := by
  repeat' constructor
  all_goals decide

theorem fanout :
    Gen.guards_appcore_AppCore_HandleMessagesUntilEOF = some ["for ;;", "if !more", "if message.MessageType==utils.MessageTypeStop", "range appCore.Channels", "if appCore.Channels[i]!=nil"] := by
  repeat' constructor
  all_goals decide

theorem filter :
    Gen.guards_filter_HandleMessages = some ["if config.DisplayMessages", "if config.RecordMessages", "range channels"] ∧
    Gen.guards_filter_writeRTCMMessages = some ["for ;;", "if !ok", "if message.MessageType==utils.NonRTCMMessage", "if err!=nil", "if n!=len()"] ∧
    Gen.guards_filter_writeReadableMessages = some ["for ;;", "if !ok"] := by
  repeat' constructor
  all_goals decide

theorem display :
    Gen.guards_display_HandleMessages = some [] ∧
    Gen.guards_display_DisplayMessages = some ["for ;;", "if !ok", "if writeError!=nil"] := by
  repeat' constructor
  all_goals decide

theorem logger :
    Gen.guards_logger_start = some ["if cfg.LogEvents"] ∧
    Gen.guards_logger_readAndWrite = some ["for ;;", "if errRead==io.EOF", "if cfg.LogEvents", "if errRead!=nil", "if reportingReadErrors", "if !reportingReadErrors", "if n==0", "if cfg.LogEvents", "if errWrite!=nil", "if !reportingEventLogWriteErrors", "if cfg.LogEvents"] ∧
    Gen.guards_logger_recorder = some ["if writer==nil", "if cfg.LogEvents", "if recorderChannel==nil", "if cfg.LogEvents", "for ;;", "if !ok"] ∧
    Gen.guards_logger_writeRTCMLog = some ["if cfg.LogEvents", "if err!=nil", "if reportingEventLogWriteErrors", "if n!=len()", "if reportingLogWriteErrors", "if !reportingLogWriteErrors"] := by
  repeat' constructor
  all_goals decide

theorem proxy :
    Gen.guards_proxy_handleClientMessages = some ["for ;;", "if n>0", "for i:=0;i<n;i++", "if err!=nil&&err==io.EOF"] ∧
    Gen.guards_proxy_handleServerMessages = some ["for ;;", "if n>0", "if err!=nil&&err!=io.EOF"] ∧
    Gen.guards_proxy_keepCircularQueueUpdated = some ["for ;;", "if !more"] ∧
    Gen.guards_rf_ReportFeed_Status = some ["if rf.lastClientBuffer!=nil&&rf.lastClientBuffer.Content!=nil", "if rf.lastServerBuffer!=nil&&rf.lastServerBuffer.Content!=nil", "range rf.RecentMessages.GetMessages()"] := by
  repeat' constructor
  all_goals decide

theorem analyse :
    Gen.guards_handler_Analyse = some [] ∧
    Gen.guards_handler_analyseMSM4 = some ["if msm4Error!=nil"] ∧
    Gen.guards_handler_analyseMSM7 = some ["if msm7Error!=nil"] ∧
    Gen.guards_handler_analyse1005 = some ["if message1005Error!=nil"] ∧
    Gen.guards_handler_analyse1006 = some ["if message1006Error!=nil"] ∧
    Gen.guards_handler_Message_String = some ["if message.Readable==nil", "if message.LogLevel==slog.LevelDebug", "if len()>0", "if utils.MSM()", "if len()>0", "if message.MessageType==utils.NonRTCMMessage", "if len()>0", "if utils.MSM()", "if len()>0", "if message.MessageType==utils.NonRTCMMessage"] ∧
    Gen.guards_handler_Message_Copy = some [] ∧
    Gen.guards_handler_Message_displayable = some ["if message.MessageType==utils.NonRTCMMessage", "if utils.MSM()||message.MessageType==1005||message.MessageType==1006"] ∧
    Gen.effects_handler_Analyse = some ["call analyseMSM4()", "call analyseMSM7()", "call analyse1005()", "call analyse1006()", "message.Readable = readable", "message.Readable = readable"] ∧
    Gen.effects_handler_analyseMSM4 = some ["message.ErrorMessage = msm4Error.Error()", "message.Readable = msm4Message"] ∧
    Gen.effects_handler_analyseMSM7 = some ["message.ErrorMessage = msm7Error.Error()", "message.Readable = msm7Message"] ∧
    Gen.effects_handler_analyse1005 = some ["message.ErrorMessage = message1005Error.Error()", "message.Readable = message1005"] ∧
    Gen.effects_handler_analyse1006 = some ["message.ErrorMessage = message1006Error.Error()", "message.Readable = message1006"] ∧
    Gen.effects_handler_Message_String = some ["call PrepareForDisplay()"] ∧
    Gen.effects_handler_Message_Copy = some ["call copy()"] ∧
    Gen.effects_handler_NewMessage = some [] ∧
    Gen.effects_handler_NewNonRTCM = some [] := by
  repeat' constructor
  all_goals decide

end Ntrip.Guards
