import Ntrip.Generated.Skeletons
/-!
Tie T1: which methods write the object they are called on.  Regenerated from the source on every
run: for every method of the decoder, header, handler, queue and push-back packages the
assignments, `++`/`--`, `delete` and `copy` whose target is rooted at the receiver.  No decoded
object is ever changed by a method (so display and accessors cannot change what was decoded);
the handler's methods write only its time state; the queue is written by `Add` alone.
-/
namespace Ntrip.Guards

theorem handler_state :
    Gen.recv_writes_handler = some ["Handler.getUTCFromBeidouTime: rtcmHandler.startOfBeidouWeek =", "Handler.getUTCFromBeidouTime: rtcmHandler.timestampFromPreviousBeidouMessage =", "Handler.getUTCFromGPSTime: rtcmHandler.startOfGPSWeek =", "Handler.getUTCFromGPSTime: rtcmHandler.timestampFromPreviousGPSMessage =", "Handler.getUTCFromGalileoTime: rtcmHandler.startOfGalileoWeek =", "Handler.getUTCFromGalileoTime: rtcmHandler.timestampFromPreviousGalileoMessage =", "Handler.getUTCFromGlonassTime: rtcmHandler.startOfGlonassWeek =", "Handler.getUTCFromGlonassTime: rtcmHandler.glonassDayFromPreviousMessage ="] ∧
    Gen.recv_writes_pushback = some ["ByteChannel.GetNextByte: bc.pushBackBuffer =", "ByteChannel.PushBack: bc.pushBackBuffer =", "ByteChannel.PushBack: bc.pushBackBuffer ="] := by
  repeat' constructor
  all_goals decide

end Ntrip.Guards
