import Ntrip.Generated.Skeletons
/-!
Tie T1: the guards (`if` conditions) and loop headers of the bit readers,
regenerated from the source on every run, are the ones the hand-written model was written for.
A changed comparison, a dropped or added guard, a changed loop bound breaks this obligation.
-/
namespace Ntrip.Guards

theorem bits :
    Gen.guards_utils_GetBitsAsUint64 = some ["for i:=pos;i<pos+len;i++"] ∧
    Gen.guards_utils_GetBitsAsInt64 = some ["if negative"] := by
  repeat' constructor
  all_goals decide

end Ntrip.Guards
