import Ntrip.Generated.Skeletons
/-!
Tie T1: the two accessors through which `Handle` reads its tolerance (`TimeoutOnEOF`) and its retry
pause (`WaitTimeOnEOF`): each is its own configuration field in milliseconds, nothing else.
-/
namespace Ntrip.Guards

theorem tolerance_accessors :
    Gen.shape_jsonconfig_Config_TimeoutOnEOF = some "{ return time.Duration(config.TimeoutOnEOFMilliSeconds) * time.Millisecond }" ∧
    Gen.shape_jsonconfig_Config_WaitTimeOnEOF = some "{ return time.Duration(config.WaitTimeOnEOFMilliseconds) * time.Millisecond }" := by
  repeat' constructor
  all_goals decide

end Ntrip.Guards
