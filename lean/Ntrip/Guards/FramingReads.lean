import Ntrip.Generated.Skeletons
/-!
Tie T1: the bit fields the framing code reads (position, width, signedness): the six reserved bits,
the ten length bits and the twelve type bits of the leader, all unsigned; the 30-bit MSM timestamp.
-/
namespace Ntrip.Guards

theorem framing_reads :
    Gen.bitreads_handler_Handler_getMessageLengthAndType = some ["GetBitsAsUint64 8 6", "GetBitsAsUint64 14 10", "GetBitsAsUint64 24 12"] ∧
    Gen.bitreads_handler_Handler_GetMessage = some ["GetBitsAsUint64 timestampPosition header.LenTimeStamp"] := by
  repeat' constructor
  all_goals decide

end Ntrip.Guards
