import Ntrip.Generated.Skeletons
/-!
Tie T1: the guards (`if` conditions) and loop headers of the 1005/1006 decoders,
regenerated from the source on every run, are the ones the hand-written model was written for.
A changed comparison, a dropped or added guard, a changed loop bound breaks this obligation.
-/
namespace Ntrip.Guards

theorem base :
    Gen.guards_t1005_GetMessage = some ["if lenMessageInBits<lengthOfMessageInBits", "if messageType!=expectedMessageType"] ∧
    Gen.guards_t1006_GetMessage = some ["if lenMessageInBits<lengthOfMessageInBits", "if messageType!=expectedMessageType"] := by
  repeat' constructor
  all_goals decide

end Ntrip.Guards
