import Ntrip.Generated.Skeletons
/-!
Tie T1: the guards (`if` conditions), loop headers and effects (writes through pointers and fields,
calls made for their effect) of the applications and of the functions that fill in and display a
message, regenerated from the source on every run, are the ones the hand-written models were
written for.  A changed comparison, a dropped or added guard, a new write or helper call breaks
the obligation of the properties that re-export the theorem.
-/
namespace Ntrip.Guards

theorem reader :
    Gen.guards_fh_Handler_Handle = some ["for ;;", "if err!=nil", "if err!=io.EOF&&!strings.Contains()", "if handler.Config.SystemLog!=nil", "if handler.Config.TimeoutOnEOF()==0", "if handler.Config.SystemLog!=nil", "if timeOfFirstEOF==nil", "if handler.Config.WaitTimeOnEOF()!=0", "if handler.Config.SystemLog!=nil", "if now.Sub()>handler.Config.TimeoutOnEOF()", "if handler.Config.SystemLog!=nil", "if handler.Config.TimeoutOnEOF()!=0", "if n>0"] := by
  repeat' constructor
  all_goals decide

end Ntrip.Guards
