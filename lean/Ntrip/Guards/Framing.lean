import Ntrip.Generated.Skeletons
/-!
Tie T1: the guards (`if` conditions) and loop headers of the framing code (HandleMessages, FetchNextMessageFrame, eatUntilStartOfFrame, getMessageLengthAndType, GetMessage, CheckCRC, pushback.ByteChannel),
regenerated from the source on every run, are the ones the hand-written model was written for.
A changed comparison, a dropped or added guard, a changed loop bound breaks this obligation.
-/
namespace Ntrip.Guards

theorem framing :
    Gen.guards_handler_Handler_HandleMessages = some ["for ;;", "if err!=nil&&err.Error()==done"] ∧
    Gen.guards_handler_Handler_FetchNextMessageFrame = some ["if eatError!=nil", "if len()==0", "if len()>1", "if frame[len()-1]==utils.StartOfMessageFrame", "for i:=1;i<leaderAndMessageLength;i++", "if err!=nil", "if typeError!=nil", "for i:=0;i<wantBytes;i++", "if err!=nil"] ∧
    Gen.guards_handler_eatUntilStartOfFrame = some ["for ;;", "if err!=nil", "if b==utils.StartOfMessageFrame"] ∧
    Gen.guards_handler_Handler_getMessageLengthAndType = some ["if len()<(utils.LeaderLengthBytes+2)", "if bitStream[0]!=utils.StartOfMessageFrame", "if sanityCheck!=0", "if length==0"] ∧
    Gen.guards_handler_Handler_GetMessage = some ["if len()==0", "if bitStream[0]!=utils.StartOfMessageFrame", "if formatError!=nil", "if expectedFrameLength>frameLength", "if errorCRC!=nil", "if utils.MSM()", "if messageLength*8<minMessageBits", "if timeError!=nil"] ∧
    Gen.guards_handler_CheckCRC = some ["if len()<(utils.LeaderLengthBytes+utils.CRCLengthBytes)", "if crc24q.HiByte()!=crcHiByte||crc24q.MiByte()!=crcMiByte||crc24q.LoByte()!=crcLoByte"] ∧
    Gen.guards_pushback_ByteChannel_GetNextByte = some ["if len()>0"] ∧
    Gen.guards_pushback_ByteChannel_PushBack = some ["if bc.pushBackBuffer==nil"] ∧
    Gen.guards_pushback_ByteChannel_get = some ["if bc.byteChan==nil", "if !more"] := by
  repeat' constructor
  all_goals decide

end Ntrip.Guards
