import Ntrip.Generated.Skeletons
/-!
Tie T1: the guards (`if` conditions), loop headers and effects (writes through pointers and fields,
calls made for their effect) of the applications and of the functions that fill in and display a
message, regenerated from the source on every run, are the ones the hand-written models were
written for.  A changed comparison, a dropped or added guard, a new write or helper call breaks
the obligation of the properties that re-export the theorem.
-/
namespace Ntrip.Guards

theorem logger :
    Gen.guards_logger_start = some ["if cfg.LogEvents"] ∧
    Gen.guards_logger_readAndWrite = some ["for ;;", "if errRead==io.EOF", "if cfg.LogEvents", "if errRead!=nil", "if reportingReadErrors", "if !reportingReadErrors", "if n==0", "if cfg.LogEvents", "if errWrite!=nil", "if !reportingEventLogWriteErrors", "if cfg.LogEvents"] ∧
    Gen.guards_logger_recorder = some ["if writer==nil", "if cfg.LogEvents", "if recorderChannel==nil", "if cfg.LogEvents", "for ;;", "if !ok"] ∧
    Gen.guards_logger_writeRTCMLog = some ["if cfg.LogEvents", "if err!=nil", "if reportingEventLogWriteErrors", "if n!=len()", "if reportingLogWriteErrors", "if !reportingLogWriteErrors"] := by
  repeat' constructor
  all_goals decide

end Ntrip.Guards
