import Ntrip.Generated.Skeletons
/-!
Tie T1: which methods write the object they are called on.  Regenerated from the source on every
run: for every method of the decoder, header, handler, queue and push-back packages the
assignments, `++`/`--`, `delete` and `copy` whose target is rooted at the receiver.  No decoded
object is ever changed by a method (so display and accessors cannot change what was decoded);
the handler's methods write only its time state; the queue is written by `Add` alone.
-/
namespace Ntrip.Guards

theorem queue_writers :
    Gen.recv_writes_cq = some ["CircularQueue.Add: delete(cb.Items)", "CircularQueue.Add: cb.Items[cb.NextIndex] =", "CircularQueue.Add: cb.NextIndex++"] := by
  repeat' constructor
  all_goals decide

end Ntrip.Guards
