import Ntrip.Generated.Skeletons
/-!
Tie T1: the guards (`if` conditions), loop headers and effects (writes through pointers and fields,
calls made for their effect) of the applications and of the functions that fill in and display a
message, regenerated from the source on every run, are the ones the hand-written models were
written for.  A changed comparison, a dropped or added guard, a new write or helper call breaks
the obligation of the properties that re-export the theorem.
-/
namespace Ntrip.Guards

theorem display :
    Gen.guards_display_HandleMessages = some [] ∧
    Gen.guards_display_DisplayMessages = some ["for ;;", "if !ok", "if writeError!=nil"] := by
  repeat' constructor
  all_goals decide

end Ntrip.Guards
