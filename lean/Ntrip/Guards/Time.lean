import Ntrip.Generated.Skeletons
/-!
Tie T1: the guards (`if` conditions) and loop headers of the timestamp conversion,
regenerated from the source on every run, are the ones the hand-written model was written for.
A changed comparison, a dropped or added guard, a changed loop bound breaks this obligation.
-/
namespace Ntrip.Guards

theorem time :
    Gen.guards_handler_getUTCFromTimestamp = some ["if timestamp>utils.MaxTimestamp", "if timestampFromPreviousMessage>timestamp"] ∧
    Gen.guards_handler_Handler_getUTCFromGlonassTime = some ["if err!=nil", "if day!=rtcmHandler.glonassDayFromPreviousMessage", "if day<rtcmHandler.glonassDayFromPreviousMessage"] ∧
    Gen.guards_handler_getStartOfLastSundayUTC = some ["for ;;", "if now.Weekday()==time.Sunday"] ∧
    Gen.guards_handler_New = some [] ∧
    Gen.guards_utils_ParseTimestamp = some ["if constellation==Glonass", "if timestamp>MaxTimestampGlonass", "if millis>=MillisIn24Hours", "if timestamp>MaxTimestamp"] := by
  repeat' constructor
  all_goals decide

end Ntrip.Guards
