import Ntrip.Generated.Skeletons
/-!
Tie T1: the guards (`if` conditions), loop headers and effects (writes through pointers and fields,
calls made for their effect) of the applications and of the functions that fill in and display a
message, regenerated from the source on every run, are the ones the hand-written models were
written for.  A changed comparison, a dropped or added guard, a new write or helper call breaks
the obligation of the properties that re-export the theorem.
-/
namespace Ntrip.Guards

theorem proxy :
    Gen.guards_proxy_handleClientMessages = some ["for ;;", "if n>0", "for i:=0;i<n;i++", "if err!=nil&&err==io.EOF"] ∧
    Gen.guards_proxy_handleServerMessages = some ["for ;;", "if n>0", "if err!=nil&&err!=io.EOF"] ∧
    Gen.guards_proxy_keepCircularQueueUpdated = some ["for ;;", "if !more"] ∧
    Gen.guards_rf_ReportFeed_Status = some ["if rf.lastClientBuffer!=nil&&rf.lastClientBuffer.Content!=nil", "if rf.lastServerBuffer!=nil&&rf.lastServerBuffer.Content!=nil", "range rf.RecentMessages.GetMessages()"] := by
  repeat' constructor
  all_goals decide

end Ntrip.Guards
