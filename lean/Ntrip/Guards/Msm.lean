import Ntrip.Generated.Skeletons
/-!
Tie T1: the guards (`if` conditions) and loop headers of the MSM header, satellite and signal readers,
regenerated from the source on every run, are the ones the hand-written model was written for.
A changed comparison, a dropped or added guard, a changed loop bound breaks this obligation.
-/
namespace Ntrip.Guards

theorem msm :
    Gen.guards_header_GetMSMHeader = some ["if lenMessageInBits<minBitsInHeader", "if headerError!=nil", "if lenCellMaskBits>maxLengthOfCellMask", "if bitStreamLength<lengthRequired"] ∧
    Gen.guards_header_getMSMType = some ["if lenBitStream<LenMessageType"] ∧
    Gen.guards_header_getSatellites = some ["for satNum:=1;satNum<=lenSatelliteMask;satNum++", "if bit==1"] ∧
    Gen.guards_header_getSignals = some ["for sigNum:=1;sigNum<=lenSignalMask;sigNum++", "if bit==1"] ∧
    Gen.guards_header_getCells = some ["for i:=0;i<numberOfSatellites;i++", "for j:=0;j<numberOfSignalTypes;j++"] ∧
    Gen.guards_header_New = some ["range cells", "range cells[i]", "if cells[i][j]"] ∧
    Gen.guards_sat4_GetSatelliteCells = some ["if bitsLeftInMessage<bitsNeededForCells", "range Satellites", "range Satellites", "range Satellites"] ∧
    Gen.guards_sat7_GetSatelliteCells = some ["if ((len()*8)-int())<minBits", "range Satellites", "range Satellites", "range Satellites", "range Satellites", "range Satellites"] ∧
    Gen.guards_sig4_GetSignalCells = some ["if cellsAvailable<numSignalCells", "if header.MultipleMessage", "if bitsLeftInMessage<bitsPerCell", "if numSignalCells<header.NumSignalCells", "for i:=0;i<numSignalCells;i++", "for i:=0;i<numSignalCells;i++", "for i:=0;i<numSignalCells;i++", "for i:=0;i<numSignalCells;i++", "for i:=0;i<numSignalCells;i++", "range header.Cells", "range header.Cells[i]", "if c<numSignalCells", "if header.Cells[i][j]"] ∧
    Gen.guards_sig7_GetSignalCells = some ["if cellsAvailable<numSignalCells", "if header.MultipleMessage", "if bitsLeft<bitsPerCell", "if numSignalCells<header.NumSignalCells", "for i:=0;i<numSignalCells;i++", "for i:=0;i<numSignalCells;i++", "for i:=0;i<numSignalCells;i++", "for i:=0;i<numSignalCells;i++", "for i:=0;i<numSignalCells;i++", "for i:=0;i<numSignalCells;i++", "range header.Cells", "range header.Cells[i]", "if c<numSignalCells", "if header.Cells[i][j]"] ∧
    Gen.guards_msg4_GetMessage = some ["if headerError!=nil", "if !utils.MSM4()", "if fetchSatellitesError!=nil", "if fetchSignalsError!=nil"] ∧
    Gen.guards_msg7_GetMessage = some ["if headerError!=nil", "if !utils.MSM7()", "if fetchSatellitesError!=nil", "if fetchSignalsError!=nil"] := by
  repeat' constructor
  all_goals decide

end Ntrip.Guards
