import Ntrip.Generated.Skeletons
/-!
Tie T1: which methods write the object they are called on.  Regenerated from the source on every
run: for every method of the decoder, header, handler, queue and push-back packages the
assignments, `++`/`--`, `delete` and `copy` whose target is rooted at the receiver.  No decoded
object is ever changed by a method (so display and accessors cannot change what was decoded);
the handler's methods write only its time state; the queue is written by `Add` alone.
-/
namespace Ntrip.Guards

theorem decoders_pure :
    Gen.recv_writes_header = some [] ∧
    Gen.recv_writes_t1005 = some [] ∧
    Gen.recv_writes_t1006 = some [] ∧
    Gen.recv_writes_sat4 = some [] ∧
    Gen.recv_writes_sig4 = some [] ∧
    Gen.recv_writes_msg4 = some [] ∧
    Gen.recv_writes_sat7 = some [] ∧
    Gen.recv_writes_sig7 = some [] ∧
    Gen.recv_writes_msg7 = some [] := by
  repeat' constructor
  all_goals decide

end Ntrip.Guards
