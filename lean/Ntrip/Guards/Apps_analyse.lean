import Ntrip.Generated.Skeletons
/-!
Tie T1: the guards (`if` conditions), loop headers and effects (writes through pointers and fields,
calls made for their effect) of the applications and of the functions that fill in and display a
message, regenerated from the source on every run, are the ones the hand-written models were
written for.  A changed comparison, a dropped or added guard, a new write or helper call breaks
the obligation of the properties that re-export the theorem.
-/
namespace Ntrip.Guards

theorem analyse :
    Gen.guards_handler_Analyse = some [] ∧
    Gen.guards_handler_analyseMSM4 = some ["if msm4Error!=nil"] ∧
    Gen.guards_handler_analyseMSM7 = some ["if msm7Error!=nil"] ∧
    Gen.guards_handler_analyse1005 = some ["if message1005Error!=nil"] ∧
    Gen.guards_handler_analyse1006 = some ["if message1006Error!=nil"] ∧
    Gen.guards_handler_Message_String = some ["if message.Readable==nil", "if message.LogLevel==slog.LevelDebug", "if len()>0", "if utils.MSM()", "if len()>0", "if message.MessageType==utils.NonRTCMMessage", "if len()>0", "if utils.MSM()", "if len()>0", "if message.MessageType==utils.NonRTCMMessage"] ∧
    Gen.guards_handler_Message_Copy = some [] ∧
    Gen.guards_handler_Message_displayable = some ["if message.MessageType==utils.NonRTCMMessage", "if utils.MSM()||message.MessageType==1005||message.MessageType==1006"] ∧
    Gen.effects_handler_Analyse = some ["call analyseMSM4()", "call analyseMSM7()", "call analyse1005()", "call analyse1006()", "message.Readable = readable", "message.Readable = readable"] ∧
    Gen.effects_handler_analyseMSM4 = some ["message.ErrorMessage = msm4Error.Error()", "message.Readable = msm4Message"] ∧
    Gen.effects_handler_analyseMSM7 = some ["message.ErrorMessage = msm7Error.Error()", "message.Readable = msm7Message"] ∧
    Gen.effects_handler_analyse1005 = some ["message.ErrorMessage = message1005Error.Error()", "message.Readable = message1005"] ∧
    Gen.effects_handler_analyse1006 = some ["message.ErrorMessage = message1006Error.Error()", "message.Readable = message1006"] ∧
    Gen.effects_handler_Message_String = some ["call PrepareForDisplay()"] ∧
    Gen.effects_handler_Message_Copy = some ["call copy()"] ∧
    Gen.effects_handler_NewMessage = some [] ∧
    Gen.effects_handler_NewNonRTCM = some [] := by
  repeat' constructor
  all_goals decide

end Ntrip.Guards
