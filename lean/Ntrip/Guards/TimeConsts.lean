import Ntrip.Generated.Consts
/-!
Tie T1: the constants of the time conversion that the model and the proofs have as literals.
-/
namespace Ntrip.Guards

theorem time_consts :
    Gen.utils_MillisIn7Days = 604800000 ∧ Gen.utils_MaxTimestamp = 604799999 ∧ Gen.utils_MaxTimestampGlonass = 891706367 ∧
    Gen.utils_GlonassInvalidDay = 7 ∧ Gen.utils_GlonassDayBitMask = 939524096 := by decide

end Ntrip.Guards
