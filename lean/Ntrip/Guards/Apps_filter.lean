import Ntrip.Generated.Skeletons
/-!
Tie T1: the guards (`if` conditions), loop headers and effects (writes through pointers and fields,
calls made for their effect) of the applications and of the functions that fill in and display a
message, regenerated from the source on every run, are the ones the hand-written models were
written for.  A changed comparison, a dropped or added guard, a new write or helper call breaks
the obligation of the properties that re-export the theorem.
-/
namespace Ntrip.Guards

theorem filter :
    Gen.guards_filter_HandleMessages = some ["if config.DisplayMessages", "if config.RecordMessages", "range channels"] ∧
    Gen.guards_filter_writeRTCMMessages = some ["for ;;", "if !ok", "if message.MessageType==utils.NonRTCMMessage", "if err!=nil", "if n!=len()"] ∧
    Gen.guards_filter_writeReadableMessages = some ["for ;;", "if !ok"] := by
  repeat' constructor
  all_goals decide

end Ntrip.Guards
