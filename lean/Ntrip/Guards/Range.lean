import Ntrip.Generated.Skeletons
/-!
Tie T1: the guards (`if` conditions) and loop headers of the aggregate range computations,
regenerated from the source on every run, are the ones the hand-written model was written for.
A changed comparison, a dropped or added guard, a changed loop bound breaks this obligation.
-/
namespace Ntrip.Guards

theorem range :
    Gen.guards_utils_getScaledValue = some [] ∧
    Gen.guards_sig4_Cell_GetAggregateRange = some ["if cell.Satellite==nil", "if cell.Satellite.RangeWholeMillis==utils.InvalidRange", "if cell.RangeDelta==utils.InvalidRangeDelta"] ∧
    Gen.guards_sig4_Cell_GetAggregatePhaseRange = some ["if cell.Satellite==nil", "if cell.Satellite.RangeWholeMillis==utils.InvalidRange", "if cell.PhaseRangeDelta==utils.InvalidPhaseRangeDelta"] ∧
    Gen.guards_sig7_Cell_GetAggregateRange = some ["if cell.Satellite==nil", "if cell.Satellite.RangeWholeMillis==utils.InvalidRange", "if cell.RangeDelta==InvalidRangeDelta"] ∧
    Gen.guards_sig7_Cell_GetAggregatePhaseRange = some ["if cell.Satellite.RangeWholeMillis==utils.InvalidRange", "if cell.PhaseRangeDelta==InvalidPhaseRangeDelta"] ∧
    Gen.guards_sig7_Cell_GetAggregatePhaseRangeRate = some ["if cell.Satellite==nil", "if cell.Satellite.PhaseRangeRate==InvalidPhaseRangeRate", "if cell.PhaseRangeRateDelta!=InvalidPhaseRangeRateDelta"] := by
  repeat' constructor
  all_goals decide

end Ntrip.Guards
