import Ntrip.Generated.Consts
/-!
Tie T1: the constants of the framing code that the hand-written model has as literals (start byte,
leader and CRC lengths, the number of bytes read before the length field is parsed, the sentinel
types, the position and minimum length for the MSM timestamp), regenerated from the source.
-/
namespace Ntrip.Guards

theorem framing_consts :
    Gen.utils_StartOfMessageFrame = 211 ∧ Gen.utils_LeaderLengthBytes = 3 ∧ Gen.utils_CRCLengthBytes = 3 ∧
    Gen.utils_NonRTCMMessage = -1 ∧ Gen.utils_MessageTypeStop = -2 ∧ Gen.utils_MaxMessageType = 4095 ∧
    Gen.handler_Handler_FetchNextMessageFrame_leaderAndMessageLength = 5 ∧
    Gen.handler_Handler_GetMessage_minMessageBits = 54 ∧ Gen.handler_Handler_GetMessage_timestampPosition = 48 := by decide

end Ntrip.Guards
