import Ntrip.Generated.Skeletons
/-!
Tie T1: the guards (`if` conditions) and loop headers of the circular queue,
regenerated from the source on every run, are the ones the hand-written model was written for.
A changed comparison, a dropped or added guard, a changed loop bound breaks this obligation.
-/
namespace Ntrip.Guards

theorem queue :
    Gen.guards_cq_CircularQueue_Add = some ["if len()>=cb.MaxItems", "range keys", "if len()>=cb.MaxItems"] ∧
    Gen.guards_cq_CircularQueue_GetMessages = some ["range keys", "if ok"] := by
  repeat' constructor
  all_goals decide

end Ntrip.Guards
