#!/usr/bin/env python3
"""seed_prompts.py <tag> <ID>... : create scratch worktrees /tmp/wt-<tag><n> of /repo and the prompt files
/tmp/prompt-<tag><n>.full.txt for fresh sub-agents that are to seed a realistic regression (developer tool).
The prompt contains the property's text only — nothing from /verif."""
import json, subprocess, sys
tag, ids = sys.argv[1], sys.argv[2:]
structure_preserving = tag[0] in 'ef'
props = {json.loads(l)['id']: json.loads(l) for l in open('/verif/properties.jsonl')}
base = '''You are helping to evaluate a verification tool by producing a realistic regression for a Go project. Work ONLY inside the scratch git worktree {wt} (a checkout of the project goblimey/go-ntrip: a Go library and small applications that frame, CRC-check and decode RTCM3 GNSS messages from NTRIP byte streams). Do not read, list or touch /verif or /repo, and do not look at any other /tmp/wt-* directory; everything you need is in {wt}.

Every shell command needs these settings first (the sandbox has no network):
  export GOFLAGS=-mod=mod GOPROXY=off GOSUMDB=off GOTOOLCHAIN=local

Here is a semantic property the project's users rely on (JSON):

{prop}

Your task: make ONE realistic change to the project's non-test Go source in {wt} — the kind of plausible mistake or well-meant "improvement"/refactoring a maintainer could really commit — such that
  1. the project still compiles (`go build ./...`),
  2. the existing test suite still passes exactly as before: run `go test -vet=off -count=1 ./...` in {wt} before and after your change; note that `TestString` in package rtcm/handler fails already on the unchanged tree and may keep failing; nothing else may fail, and do not edit any existing test file,
  3. the property above is now violated for SOME input / schedule / configuration in its quantifier, which you demonstrate with a test.
The obvious mutations (flipping the comparison of a main guard, changing a well-known constant, deleting a whole check, removing a wait) have been tried already. Find something LESS obvious: a violation that needs a narrow corner of the input space (a particular alignment, a boundary value of a field, a rare combination of flags, a particular position of a special byte, a particular interleaving or timing), an "optimisation" or refactoring that is equivalent almost everywhere, a helper that is subtly wrong for one class of arguments, state that leaks between calls, an aliasing of buffers, a changed order of two steps. Prefer changes that keep the overall structure of the code (same functions, same if-statements) where that is possible. It must still be a real violation of the property as stated. Do not add panics-on-purpose, sleeps, random behaviour, environment checks or anything that looks like sabotage; it must read like honest code. Keep the change small.

Deliverables, all inside the directory {wt}/_seed/ (create it):
  - patch.diff : output of `git diff` for your source change only (it must apply to a clean checkout with `git apply`),
  - demo_test.go : a Go test file (state in meta.json which package directory it must be copied into and its package clause must match; use a test function name starting with TestDemo{pid}) that FAILS with your change applied and PASSES on the unchanged code; deterministic or very nearly so; finishes within a minute,
  - meta.json : {{"property": "{pid}", "summary": "<what you changed and why it looks innocent>", "needs_to_manifest": "<exactly which inputs/schedules/configurations expose the violation, and which do not>", "demo_placement": "<package directory for demo_test.go, e.g. rtcm/handler>", "demo_cmd": "<command that runs the demo>", "files_changed": [...]}}.
Verify both directions yourself (demo fails with the change; `git apply -R` the change, demo passes; re-apply). Leave the worktree with your change applied and the demo test file NOT inside the package directories (only in _seed/). Finish by replying with a short summary: the change, the exposing inputs, and the verification you did.'''
for i, pid in enumerate(ids, 1):
    wt = f'/tmp/wt-{tag}{i}'
    subprocess.run(['git', '-C', '/repo', 'worktree', 'add', '-q', '--detach', wt, 'HEAD'], check=True)
    p = props[pid]
    prop = json.dumps({k: p[k] for k in ('id', 'title', 'statement', 'quantifier', 'why_tests_cant')}, indent=1)
    text = base.format(wt=wt, prop=prop, pid=pid)
    if tag[0] == 'k':
        text = text.replace('Prefer changes that keep the overall structure of the code (same functions, same if-statements) where that is possible.',
            'IMPORTANT extra constraint for this round: the PRIMARY, most frequently inspected result must stay right. Break the property through a SECONDARY output that the property also covers but that is rarely looked at: an auxiliary or derived field of a decoded object, one line or one number of the readable display, the second of two output files, a value derived from the decoded data (a name, a wavelength, a count, a time line), the state left behind for the next call. The property as stated must really cover that output.')
    extra = {
        'm': 'IMPORTANT extra constraint for this round: the change must be a MODERNISATION - hand-written code replaced by what looks like its standard-library or idiomatic equivalent (encoding/binary, math/bits, bytes/strings/slices helpers, bufio.Scanner or io.ReadFull instead of a manual loop, time.Truncate/AddDate instead of arithmetic on durations, fmt verbs, strconv, a generic helper, min/max builtins, a range-over-int loop, errors.Is, sync.Once/atomic instead of a mutex, context or select with default instead of a blocking call, ...). It must read like a clean-up a reviewer would wave through, and be equivalent to the old code for the common inputs - but not for all inputs / schedules the property quantifies over.',
        'p': 'IMPORTANT extra constraint for this round: the change must be a PERFORMANCE OPTIMISATION - fewer allocations, a reused or pooled buffer, a cache or memo, a fast path for the common case, batching of reads or writes, a buffered channel or a bigger buffer, an early exit, a precomputed table, work moved out of a loop or done lazily, a lock held for a shorter time or replaced by something cheaper. It must be a genuine speed-up that is correct for the common case, and wrong only for some inputs / schedules the property quantifies over.',
        'x': 'IMPORTANT extra constraint for this round: the change must live on an ERROR, END-OF-INPUT, SHUTDOWN or CLEAN-UP path - how an error value is produced, wrapped, compared or propagated; what is returned together with an error; what happens to data already received when an error or end of input arrives; the order of close/flush/wait/unlock steps on the way out; a defer added, moved or removed; a resource released earlier. The normal path must stay byte-for-byte the same.',
    }
    extra['d'] = 'IMPORTANT extra constraint for this round: the change must be DEFENSIVE HARDENING - an added validation, sanity check, limit, clamp, timeout, size cap, retry bound, nil/empty guard, input normalisation (trimming, case folding, deduplication), or a stricter reading of the standard, introduced with the best intentions ("reject obviously bad input early", "never wait for ever", "protect against huge values"). It must leave all ordinary inputs untouched and wrongly reject, alter, truncate or give up on SOME legitimate input / schedule the property quantifies over.'
    extra['t'] = 'IMPORTANT extra constraint for this round: the change must be a TYPE, WIDTH, SIGNEDNESS or UNIT change - an int that becomes uint or the reverse, int64/uint64 narrowed to int32/uint32/uint16 (or a conversion through a narrower or a floating-point type on the way), a field or constant whose unit changes (milliseconds vs seconds vs time.Duration, bits vs bytes, metres vs millimetres, cycles vs metres), float32 instead of float64, integer division where a fraction mattered, a shift count or mask computed in the wrong width, len() of a string vs of its runes. It must compile without warnings and be exact for the everyday range of values, and wrong for some values the property quantifies over.'
    extra['n'], extra['q'] = extra['m'], extra['p']
    extra['u'], extra['v'] = extra['d'], extra['t']  # second batches of the same flavours
    if tag[0] in extra:
        text = text.replace('Prefer changes that keep the overall structure of the code (same functions, same if-statements) where that is possible.', extra[tag[0]])
    if tag[0] == 'g':
        text = text.replace('Prefer changes that keep the overall structure of the code (same functions, same if-statements) where that is possible.',
            'IMPORTANT extra constraint for this round: do NOT change the function that most obviously implements the property. Put the change into something the property depends on only INDIRECTLY - a helper, an accessor, a constructor, a constant or table, a utility in another package, the way a value is passed or stored between two stages - so that the code that "owns" the property still reads exactly as before, yet the property breaks through the dependency. Keep the change small and honest-looking.')
    if structure_preserving:
        text = text.replace('Prefer changes that keep the overall structure of the code (same functions, same if-statements) where that is possible.',
            'IMPORTANT extra constraint for this round: keep the STRUCTURE of the code textually unchanged - do not add, remove or edit any `if` condition, `for`/`range` header, `switch`/`case` line, function signature, `go` statement, channel operation, lock call or `defer`; do not add or remove functions or calls of helper functions. Change only what is INSIDE: an operand, an arithmetic expression, an index or slice bound, a constant, a shift amount, a format verb, the argument of a call, the order of two adjacent plain statements, which variable is assigned or returned. (The existing structure must survive a diff that looks only at conditions and loop headers.)')
    open(f'/tmp/prompt-{tag}{i}.full.txt', 'w').write(text)
    print(wt, pid)
