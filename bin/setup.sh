#!/bin/bash
# Offline build of the extractor, the generated facts, the Lean project (proofs + driver) and the harness.
set -e
cd "$(dirname "$0")/.."
export GOFLAGS=-mod=mod GOPROXY=off GOSUMDB=off GOTOOLCHAIN=local
REPO=${VERIF_REPO:-/repo}
(cd extract && go build -o bin/extract .)
extract/bin/extract -repo "$REPO" -out lean/Ntrip/Generated
(cd lean && lake build)
cp "$REPO/go.sum" harness/go.sum
(cd harness && go build -o bin/corr ./cmd/corr && go build -o bin/procs ./cmd/procs)
echo "setup done"
