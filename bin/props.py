"""Per-property configuration shared by bin/check and bin/gen_manifest.py."""

TRUSTED_BASE = [
    "Lean 4.33.0 kernel (thorough tier: compiled module re-checked by leanchecker)",
    "axioms allowed in property theorems: propext, Classical.choice, Quot.sound (audited with #print axioms on every run; "
    "no sorry/admit/axiom/native_decide/bv_decide/implemented_by/unsafe: token gate on every run)",
    "fact extractor /verif/extract (go/parser, syntax only) that regenerates Ntrip/Generated/*.lean from /repo's working tree",
    "correspondence harness /verif/harness (real go-ntrip code in-process vs. the compiled Lean model, same op lines) and its generators",
    "all Go code of /repo is modelled by hand and tied by the above, not verified by a sound translation",
    "Go runtime, standard library (fmt, time, bufio, os, net, sync, encoding/hex), IEEE-754 hardware floats, go-crc24q, go-tools/dailylogger",
]

PROPS = {
    "C14": {
        "title": "Bit-field extraction returns exactly the addressed bits, signed or unsigned",
        "design_ref": "DESIGN.md §7 C14, §4.1",
        "technique": "Lean 4 proof (induction on field width over the uint64 loop model; wrapped int64 arithmetic) + differential correspondence bitsu/bitsi",
        "text": "Kernel-checked theorems: for every buffer, bit offset and width 1..64 (signed 2..64) inside the buffer the model of "
                "GetBitsAsUint64/GetBitsAsInt64 (uint64 accumulator and int64 wrap modelled explicitly) returns the big-endian value / "
                "two's complement of exactly the addressed bits and is independent of every other bit. The model is tied to the Go code by "
                "differential correspondence over all 8 alignments x all widths x pattern classes, plus an independent math/big oracle.",
        "note": "Unbounded in buffer length and position; widths are the complete range 1..64. Assumes pos+len does not overflow uint (positions < 2^63). "
                "Tie is differential testing (T2), not a translation.",
        "assumptions": ["bit positions and widths fit a machine word without overflow (pos + len < 2^64)"],
    },
}
NOT_APPLICABLE = {}
