"""Per-property configuration shared by bin/check and bin/gen_manifest.py."""

TRUSTED_BASE = [
    "Lean 4.33.0 kernel (thorough tier: compiled module re-checked by leanchecker)",
    "axioms allowed in property theorems: propext, Classical.choice, Quot.sound (audited with #print axioms on every run; "
    "no sorry/admit/axiom/native_decide/bv_decide/implemented_by/unsafe: token gate on every run)",
    "fact extractor /verif/extract (go/parser, syntax only) that regenerates Ntrip/Generated/*.lean from /repo's working tree",
    "correspondence harness /verif/harness (real go-ntrip code in-process vs. the compiled Lean model, same op lines) and its generators",
    "all Go code of /repo is modelled by hand and tied by the above, not verified by a sound translation",
    "Go runtime, standard library (fmt, time, bufio, os, net, sync, encoding/hex), IEEE-754 hardware floats, go-crc24q, go-tools/dailylogger",
]

PROPS = {
    "C14": {
        "title": "Bit-field extraction returns exactly the addressed bits, signed or unsigned",
        "design_ref": "DESIGN.md §7 C14, §4.1",
        "technique": "Lean 4 proof (induction on field width over the uint64 loop model; wrapped int64 arithmetic) + loop body TRANSLATED from the Go source on every run and proved equal to the model step + differential correspondence bitsu/bitsi",
        "text": "Kernel-checked theorems: for every buffer, bit offset and width 1..64 (signed 2..64) inside the buffer the model of "
                "GetBitsAsUint64/GetBitsAsInt64 (uint64 accumulator and int64 wrap modelled explicitly) returns the big-endian value / "
                "two's complement of exactly the addressed bits and is independent of every other bit. translated_loop_body: the Lean function the translator regenerates from the body of the "
                "loop of GetBitsAsUint64 (index, shift, mask, accumulate in wrapping 64-bit arithmetic) IS the model's loop step, for every buffer, position and accumulator; the loop header and the guards of GetBitsAsInt64 are pinned. "
                "The whole is tied to the Go code by differential correspondence over all 8 alignments x all widths x pattern classes, plus an independent math/big oracle.",
        "note": "Unbounded in buffer length and position; widths are the complete range 1..64. Assumes pos+len does not overflow uint (positions < 2^63). "
                "GetBitsAsInt64's sign arithmetic is modelled by hand (tied by guards and correspondence), the loop body by translation.",
        "assumptions": ["bit positions and widths fit a machine word without overflow (pos + len < 2^64)"],
    },
    "C01": {
        "title": "Only complete CRC-valid frames are ever presented as typed RTCM messages",
        "design_ref": "DESIGN.md §7 C01, §4.3, §9.1",
        "technique": "Lean 4 proof (refinement of the push-back-channel framer to a list-level scanner, induction on the stream; arbitrary CRC function) + differential correspondence getmsg/stream",
        "text": "Kernel-checked theorems for every byte stream and every checksum function: each message the model of HandleMessages delivers with type >= 0 "
                "carries exactly one ValidFrame (preamble, zero reserved bits, non-zero length = payload size, matching CRC), reports its first 12 payload bits and no error; "
                "GetMessage returns a typed message without error only for bytes beginning with exactly one valid frame, and the message holds exactly that frame. "
                "The model (byte channel with push-back, FetchNextMessageFrame phases, GetMessage, CheckCRC) is tied to the Go code by differential correspondence and an "
                "independent Go oracle (own bitwise CRC-24Q).",
        "note": "Unbounded stream length. Single-frame clause read as in DESIGN §9.1 (the suite's TestGetMessage mandates accepting a frame followed by more data). "
                "CRC-24Q itself is tied to go-crc24q by correspondence only; the theorems hold for any crc function.",
        "assumptions": ["input channel is eventually closed (finite stream)", "go-crc24q.Hash equals the bitwise CRC-24Q of the model (checked by correspondence)"],
    },
    "C02": {
        "race": True,
        "title": "Stream segmentation is lossless: delivered raw bytes concatenate to the input",
        "design_ref": "DESIGN.md §7 C02, §4.3",
        "technique": "Lean 4 proof (termination measure + refinement to list-level scan, strong induction on stream length) + differential correspondence stream/streamcap",
        "text": "Kernel-checked theorems for every byte stream: the raw bytes of the messages delivered by the HandleMessages model concatenate to the input, none is empty, "
                "every fetch strictly consumes input (the loop terminates; this is the termination proof of the model itself), the push-back buffer never exceeds one byte. "
                "Tied to the Go code by correspondence over cut frames at every position, stray 0xD3 at every junk position, mixtures, and channel capacities 0/1/2/64, with a direct "
                "concat==input / closed / no-panic oracle on the real HandleMessages.",
        "note": "The all-schedules part (closed exactly once under any interleaving and capacity) is proved on the pipeline transition system (see C09) "
                "and exercised here with capacities 0,1,2,64; goroutine scheduling itself is runtime behaviour outside the model.",
        "assumptions": ["input channel is eventually closed (finite stream)"],
    },
    "C03": {
        "title": "Every valid frame not preceded by a stray 0xD3 is recognised, once, in order",
        "design_ref": "DESIGN.md §7 C03",
        "technique": "Lean 4 proof (induction on the segment list over the list-level scanner; normalisation lemma for adjacent junk) + differential correspondence streamseg",
        "text": "Kernel-checked theorem for every list of segments (valid frames of any type and length, non-empty 0xD3-free runs of other data, optional truncated last frame): "
                "the HandleMessages model delivers exactly normalise(segments) in order - each frame once, typed, with exactly its own bytes; maximal junk runs and the truncated tail as non-RTCM. "
                "Tied to the Go code by correspondence on generated segment sequences with an expected-messages oracle computed from the segment list.",
        "note": "ValidFrame is stated on bit fields (specU) for an arbitrary crc function.",
        "assumptions": ["input channel is eventually closed (finite stream)"],
    },
    "C12": {
        "title": "A frame corrupted in payload or CRC is discarded alone; its neighbours survive",
        "design_ref": "DESIGN.md §7 C12",
        "technique": "Lean 4 proof (same induction as C03 with a third segment kind: leader and length of a valid frame, CRC mismatch) + differential correspondence streamseg with victims",
        "text": "Kernel-checked theorems: for every segment list in which any number of frames are Corrupted (3-byte leader and length of a valid frame kept, CRC no longer matching, "
                "whatever bytes the payload/CRC now hold, 0xD3 included) the model delivers each corrupted frame as one non-RTCM message holding exactly its bytes and every other segment as in C03; "
                "one_victim states the before/after form. Tied by correspondence with 1-bit flips, bursts, 0xD3 injection, CRC-byte overwrites.",
        "note": "Corruption that happens to leave the CRC valid is outside the property (the statement requires the CRC to no longer match).",
        "assumptions": ["input channel is eventually closed (finite stream)"],
    },
    "C20": {
        "title": "Message-type classification is total and consistent across the library",
        "design_ref": "DESIGN.md §7 C20",
        "technique": "Lean 4 proof over tables regenerated from the source (row-by-row decide + symbolic off-key lemma, valid for every integer type) + exhaustive correspondence over all 4098 types",
        "text": "Kernel-checked theorems over the tables that the extractor regenerates from the current source (MSM4/MSM7 key sets, GetConstellation, getMSMType, the time and start-of-week dispatches, "
                "the shape of Analyse's switch, the decoder gates, the title table): for EVERY integer message type the classifications agree as the property states. "
                "The correspondence is complete, not sampled: all 4096 types and both sentinels go through the real functions and a synthetic CRC-valid frame of every type "
                "through GetMSMHeader/GetMessage/Analyse/String.",
        "note": "Theorems are about the extracted tables (tie T1) - a table the extractor cannot read becomes `none` and breaks the obligation.",
        "assumptions": ["the extractor reads the switch statements and map literals faithfully (cross-checked by the exhaustive correspondence)"],
    },
    "C06": {
        "title": "MSM timestamps are converted to the true UTC time across week rollovers",
        "design_ref": "DESIGN.md §7 C06, §4.7",
        "technique": "Lean 4 proof (state invariant per constellation preserved by every message, induction on the history; rollover arithmetic by omega) + extracted receiver/field facts + differential correspondence timehist through GetMessage",
        "text": "Kernel-checked theorem: for every start time T (any instant) and every history of GPS/Galileo/GLONASS/BeiDou MSM4/MSM7 messages satisfying the precondition - any interleaving, "
                "any length, any number of week rollovers, illegal timestamps inserted anywhere - the model of New(T) + GetMessage reports for every message exactly the true UTC instant and the true "
                "start of the constellation week (GPS/Galileo -18 s, BeiDou -4 s, GLONASS Sat 21:00 UTC), and an illegal timestamp yields an error and leaves the state untouched. "
                "Receiver kinds (pointer vs value), the fields each conversion reads/writes, the dispatch tables, New's initialisation and all constants are regenerated from the source and pinned by obligations. "
                "Tied to the Go code through the public interface (New + GetMessage on synthetic CRC-valid frames) with an independent time-package oracle.",
        "note": "Instants are modelled as integer milliseconds; Go's time.Time calendar arithmetic (AddDate in UTC, Weekday, Format/Parse) is trusted and tied by correspondence with start times dense around every rollover.",
        "assumptions": ["Go time package: AddDate(0,0,n) in UTC adds n*24h; Weekday() is correct", "leap-second offsets are the constants in the source (GPS 18 s, BeiDou 4 s)"],
    },
    "C17": {
        "title": "Any start time within the week of the first observation gives correct times",
        "design_ref": "DESIGN.md §7 C17",
        "technique": "Lean 4 proof (same invariant as C06 with the weaker precondition; corollary: start times of one week are interchangeable) + extracted initialisation shape of New + differential correspondence",
        "text": "Kernel-checked theorems: for every start time T and every history whose first observation per constellation lies in T's constellation week - before, at or after T - "
                "all reported times and week starts are the true ones; two start times in the same constellation weeks produce identical reports for every history. "
                "The extracted shape of New's initialisation of the stored timestamps (zero) is an obligation. Tied through New + GetMessage with first observations anywhere in the week.",
        "note": "As C06.",
        "assumptions": ["as C06"],
    },
    "C04": {
        "title": "MSM4/MSM7 messages decode to exactly the encoded header and cell data",
        "design_ref": "DESIGN.md §7 C04, §4.4",
        "technique": "Lean 4 proof (bit-packing theory, field and column round-trip lemmas by induction, header/satellite/signal stages, attachment = row-major numbering) over layouts regenerated from the source + differential correspondence with an independent Go encoder",
        "text": "Kernel-checked theorem msm_roundtrip: for both decoder families, every well-formed abstract message (any of the 14 types, any masks with at most 64 cells, any in-range field values incl. "
                "the 'invalid' markers and all-zero cells, multiple flag per the property, ANY number of trailing zero bytes, any leader/CRC bytes) the model of GetMessage returns exactly the encoded header, "
                "the lists implied by the masks, every satellite row and every signal cell (the harness also compares the constellation name and the carrier wavelength each decoded cell carries); attach_spec shows each cell is attached to the satellite/signal id of its cell-mask bit in row-major order; "
                "pad independence is a corollary. The field layouts and the source of the cell count are regenerated from the code and pinned. The Lean specification encoder is itself tied to an independent "
                "Go encoder (same bytes), whose messages the real decoder must decode to the expected values (direct oracle).",
        "note": "Unbounded in masks, values and padding; no fuel, no size bound. The 1023-byte frame limit is not needed by the theorem (it holds for any padding).",
        "assumptions": ["the decoder is handed the whole frame (leader + payload + CRC), as handler.Analyse does"],
    },
    "C05": {
        "title": "Base-position messages 1005/1006 decode exactly and display to 0.1 mm",
        "design_ref": "DESIGN.md §7 C05, §4.5",
        "technique": "Lean 4 proof (field round trip over the regenerated layouts; rejection and no-panic theorems; exact integer model of binary64 multiplication and %.4f with a rounding-error argument by omega) + differential correspondence incl. the float arithmetic bit for bit",
        "text": "Kernel-checked theorems: base_roundtrip (every well-formed 1005/1006 message, coordinates over the whole signed 38-bit range, any trailing payload bytes, decodes to exactly its fields), "
                "base_rejects_wrong_type, base_rejects_short (every too-short frame is an error), base_no_panic (every byte string). Layouts 12/12/6/4/38/2/38/2/38[/16] are regenerated from the source and pinned. "
                "Display to 0.1 mm: display_exact proves, in an exact integer model of IEEE-754 binary64 (round-to-nearest-even to 53 bits) and of %.4f (exact value rounded to 4 decimals), that "
                "float64(x)*0.0001 printed with %.4f shows exactly x/10^4 for EVERY 38-bit coordinate and 16-bit height (both roundings together move the value by < 2^-29); scale_constant pins the source's 0.0001 and "
                "shows the model constant is the binary64 nearest to it. The model of the float arithmetic is tied to the hardware and to fmt bit for bit (op disp4: sign, exponent, significand and text), and the "
                "displayed text of decoded messages is compared with exact integer decimals at both log levels.",
        "note": "The float model covers the one expression the display uses (an exactly converted integer times one constant); exponent range/subnormals are not modelled (values lie between 2^-14 and 2^24).",
        "assumptions": ["IEEE-754 binary64 hardware arithmetic and fmt's %.4f formatting behave as documented"],
    },
    "C07": {
        "title": "No input can crash or hang framing, decoding or display",
        "design_ref": "DESIGN.md §7 C07",
        "technique": "Lean 4 proof (every panicking Go operation modelled as a checked operation; range facts from the length guards by omega; termination measure) + extracted whitelist of risky display expressions + differential correspondence with recover",
        "text": "Kernel-checked theorems for EVERY byte string: the framing loop terminates (strictly decreasing measure), its leader and timestamp reads are in range, the MSM4/MSM7/1005/1006 decoders and Analyse never "
                "index out of range (the uint subtractions of the guards never wrap), masks announcing too many cells are an error, and in every decoded MSM the pointers/indices the display dereferences exist. "
                "Display itself (fmt, hex.Dump) is PARTIAL: the list of expressions in the String methods that can panic by themselves is regenerated from the source and pinned; totality of the formatting code is "
                "argued and swept (both log levels, under recover) rather than modelled.",
        "note": "Hang-freedom of display and of the standard library is not modelled; bounded time is checked per case by the harness.",
        "assumptions": ["fmt, hex.Dump and time formatting do not panic on any value"],
    },
    "C08": {
        "title": "Ranges, phase ranges and range rates equal the standard's formulas",
        "design_ref": "DESIGN.md §7 C08, §4.6, §0",
        "technique": "Lean 4 proof of the exact (scaled-integer) layer incl. 64-bit wrap modelling, invalid markers, MSM4=MSM7, over functions TRANSLATED from the Go source on every run; exact integer model of binary64 arithmetic with accuracy theorems for all four float results (omega over scaled integers, one instance per carrier frequency); frequency tables regenerated from the source; bit-for-bit comparison of the float model with the hardware",
        "text": "Kernel-checked theorems: the scaled integers GetAggregateRange/PhaseRange/PhaseRangeRate compute are exactly whole*2^29+frac*2^19+fine (MSM4: fine*32), whole*2^31+frac*2^21+phase (MSM4: *4), "
                "rough*10000+fine for all field values with non-negative true value (the |-of-shifted-parts is a sum, the uint64(int64()) cast is the identity - proved, wrap case exhibited); an invalid rough value gives zero, "
                "each invalid fine value falls back to the rough value, an MSM4 and an MSM7 cell encoding the same quantity agree. translated_is_model: the Lean functions the translator regenerates from getScaledValue, "
                "GetScaledRange, GetScaledPhaseRange and GetScaledPhaseRangeRate on every run ARE the model's functions. Frequency tables, markers and scale constants are regenerated from the source and pinned to the documented "
                "bands. Float layer, in an exact integer model of binary64 (round to 53 bits nearest-even; conversion, multiplication, division): range in metres within 2^-51 of scaled/2^29*299792.458; range rate within 2^-53 "
                "of scaled/10000; phase range in cycles within 2^-50 of scaled*f/(2^31*1000) and Doppler within 2^-50 of -(scaled/10000)*f/299792458 for every carrier frequency f of the regenerated tables (frequencies_covered), "
                "with wavelength = fl(299792458/f) as the code computes it. The float model is compared BIT FOR BIT (sign, exponent, significand) with the hardware results of RangeInMetres, PhaseRange, PhaseRangeRate and "
                "PhaseRangeRateDoppler on every generated cell, and all results with exact rational arithmetic.",
        "note": "The wavelength a DECODED cell carries (constellation of the type, signal id of its column) is compared in C04's observables with the oracle's own frequency table and with the model. Exponent range/subnormals are not modelled (all values lie between 2^-20 and 2^40); the hardware is tied to the model by comparison, not by proof. The display of these floats (fmt %f) is covered by C07/C15 sweeps only.",
        "assumptions": ["IEEE-754 binary64 arithmetic with round-to-nearest-even (compared bit for bit with the model on every generated cell)", "float64(uint64) conversion exact below 2^53"],
    },
    "C13": {
        "race": True,
        "title": "Transient end-of-file or read timeouts on the input lose and duplicate nothing",
        "design_ref": "DESIGN.md §7 C13",
        "technique": "Lean 4 proof (read loop as a step function over a script of read results and an arbitrary clock oracle; induction on the script) + skeleton tie + differential correspondence with a scripted io.Reader and real tolerances",
        "text": "Kernel-checked theorems for every script of read results, every tolerance and EVERY clock: the loop forwards exactly the bytes supplied before its stop point, once and in order; isolated EOF/timeout "
                "results with a non-zero tolerance are invisible (the delivered messages equal those of the uninterrupted stream, even inside a frame); a zero tolerance or any other error stops at once; persisting failures "
                "stop; whatever was received is still delivered losslessly (with C02). The skeleton of Handle (unbuffered channel, defer close, framing goroutine) is regenerated and pinned. Tied to the real Handle with a scripted "
                "reader under bufio and real sleeps.",
        "note": "Real clock and sleep behaviour (time.Now monotonicity, Sleep duration) is outside the model: the theorems quantify over all clock readings; the harness uses tolerances with wide margins (1 vs 80 ms, 15 vs 3 ms).",
        "assumptions": ["bufio.Reader returns an underlying read error once and then retries the underlying reader", "the byte channel delivers bytes in FIFO order"],
    },
    "C15": {
        "race": True,
        "title": "Decoding and display are deterministic and free of hidden state",
        "design_ref": "DESIGN.md §7 C15",
        "technique": "Lean 4 proof (decoders are functions of the frame only; time lines never touch type/raw) + extracted list of package-level variables and writes to them (none outside init) + differential correspondence across histories and concurrent handlers",
        "text": "Kernel-checked theorems: type, raw bytes and framing verdict of GetMessage are independent of the handler state (i.e. of all earlier frames); non-MSM messages are fully state independent; full decoding "
                "is a function of (type, raw) alone; the time lines never change type or raw bytes. The faithfulness of this functional shape is the regenerated tie: no package-level variable of any library package is written "
                "outside init. PARTIAL for aliasing and data races (runtime facts): checked by decoding each frame first / after others / in reverse / by four concurrent handlers, displaying twice, and modifying one consumer's copy.",
        "note": "'What another consumer does with its copy' is read as using the message API and its own struct fields (DESIGN §9), not writing through the shared RawData backing array.",
        "assumptions": ["Go value semantics of struct copies; no data race in the exercised schedules (thorough tier runs under -race)"],
    },
    "C18": {
        "race": True,
        "title": "The recent-message queue always holds the last N messages in arrival order",
        "design_ref": "DESIGN.md §7 C18",
        "technique": "Lean 4 proof (eviction loop = drop, window invariant by induction on the additions, any N >= 1; transition system of goroutines running Add/GetMessages as micro-steps under the RWMutex discipline with an inductive invariant; kernel-checked counterexample without the lock) + locking/receiver-writes ties + differential correspondence (exhaustive op patterns, long runs) + linearizability check of concurrent histories",
        "text": "Kernel-checked theorems for every capacity N >= 1 and every sequence of additions: a snapshot is exactly the last min(N, added) messages in order, the queue never holds more than N, snapshots interleaved with "
                "additions see contiguous runs. Concurrency: concurrent_snapshots_linearizable - in a transition system of ANY number of goroutines calling Add and GetMessages, each broken into its micro-steps on the shared map "
                "(test, key snapshot, one delete per iteration, assignment, increment; key snapshot, one lookup per iteration) and interleaved arbitrarily under the RWMutex discipline, every returned snapshot is the last min(N, n) "
                "of the first n additions in lock order (n = additions that obtained the lock before the reader; the lock is obtained between invocation and return, so real-time order is respected); no partial state is ever "
                "observed, and the same code without the lock has a kernel-checked execution that returns an empty snapshot from a non-empty queue. Ties regenerated from the source: Add runs under Lock and GetMessages under RLock "
                "(deferred unlocks), Add is the only method that writes the queue, nothing else touches its state, guards and loop headers. Checked on the real queue: sequential op sequences against the model, snapshots "
                "re-read after later additions (no aliasing), concurrent histories (contiguous run ending between the additions completed before invocation and begun before return), a deadlock watchdog, thorough tier under -race.",
        "note": "Capacity <= 0 is outside the property (N >= 1). Index overflow of NextIndex (after 2^63 additions) is not modelled. sync.RWMutex itself is trusted to implement the discipline the transition system assumes.",
        "assumptions": ["sync.RWMutex provides writer/reader exclusion"],
    },
    "C09": {
        "race": True,
        "title": "The reader-to-sinks pipeline delivers the same messages under every schedule",
        "design_ref": "DESIGN.md §7 C09, §4.8",
        "technique": "Lean 4 proof (labelled transition system of reader, framer, fan-out, k consumers and main with Go channel semantics; inductive invariant, deadlock-freedom, strictly decreasing termination measure) + goroutine/channel skeleton tie + differential correspondence through the real Handle/HandleMessagesUntilEOF with perturbed consumers",
        "text": "Kernel-checked theorems over the pipeline transition system for EVERY interleaving of its steps, every byte stream, every number of consumers, every channel capacity (0 = rendezvous), every set of nil entries "
                "and every timing of the framer (any monotone `produced`): no reachable state has panicked (no send on or close of a closed or nil channel); what each non-nil consumer has been handed is always a prefix of the "
                "sequential segmentation, and in every final state it is exactly that sequence; a non-final state always has an enabled step (no deadlock), every step strictly decreases a natural-number measure (every schedule "
                "is finite), and when main has returned every helper has finished. The goroutine/channel skeletons of Handle, HandleMessages and HandleMessagesUntilEOF are regenerated and pinned. Tied to the real code by "
                "running file_handler.Handle + appcore.HandleMessagesUntilEOF with chunked readers, slow/fast/buffered consumers, nil entries and GOMAXPROCS 1..16 against the model's sequential segmentation.",
        "note": "PARTIAL for data races and goroutine accounting: the Go memory model and scheduler are outside the transition system (it has Go's channel semantics, not its memory semantics); the thorough tier "
                "reruns the harness built with -race. Goroutine exit is observed by runtime.NumGoroutine settling.",
        "assumptions": ["Go channels behave as specified (FIFO, rendezvous for capacity 0, panic on send-on-closed / double close)", "the input reader eventually reports end of file"],
        "harness": ["C09"],
    },
    "C10": {
        "title": "rtcmfilter emits exactly the valid RTCM frames of its input, in order",
        "design_ref": "DESIGN.md §7 C10",
        "technique": "Lean 4 proof (C03/C12 recognition theorem composed with the pipeline transition system instantiated for rtcmfilter's three consumers) + skeleton tie + overlay test driving the real HandleMessages of package main",
        "text": "Kernel-checked theorems: in every final state of rtcmfilter's pipeline (stdout writer, display writer, recorder, any subset switched on; any schedule) the stdout consumer has handled exactly the sequential "
                "segmentation of the input, the record and display consumers the same sequence; the bytes writeRTCMMessages emits for a segmentation are exactly the raw bytes of its typed messages, each of which is a ValidFrame "
                "of the input (nothing else is emitted), and for every segment list (valid frames, junk, corrupted frames, truncated tail) they are exactly the concatenation of the valid frames in order. Tied to the real "
                "application by a test file injected into package main with `go test -overlay` (nothing written to /repo) that runs HandleMessages for all four display/record combinations.",
        "note": "The dailylogger files are read back after HandleMessages returned; dailylogger itself (go-tools) is trusted.",
        "assumptions": ["go-tools/dailylogger writes what it is given to <dir>/<leader><date><trailer>", "no midnight rollover during a run"],
        "harness": [],
        "overlays": [{"pkg": "apps/rtcmfilter", "files": ["helpers_verif_test.go", "eof_verif_test.go", "rtcmfilter_verif_test.go"], "run": "TestVerifFilter"}],
    },
    "C11": {
        "title": "When an application's message handling returns, all output has been written",
        "design_ref": "DESIGN.md §7 C11",
        "technique": "Lean 4 proof (pipeline transition system with a main that closes its channels and waits; theorem for every schedule and writer latency; kernel-checked counterexample for a main that does not wait) + skeleton tie (WaitGroup events) + overlay tests in both applications with slow writers",
        "text": "Kernel-checked theorems: in the pipeline transition system, if main waits for its writers (waits = true) then in EVERY reachable state in which main has returned, every non-nil consumer has completely handled "
                "the whole message sequence - for every schedule and any latency between a writer's begin and end steps; instantiated for displayrtcm3 (one buffered consumer) and rtcmfilter (three). not_waiting_loses_output is a "
                "kernel-checked execution of the same system with waits = false in which main returns before the writer has written: the wait is necessary. The tie pins the extracted skeletons: each HandleMessages closes its "
                "channels and performs WaitGroup Add/Done/Wait around the writer goroutines. Tied to the real code by overlay tests with writers sleeping 1/5/20 ms per call, comparing the bytes held at the instant of return.",
        "note": "os.Exit after return and the OS flushing of an os.File are outside the model.",
        "assumptions": ["sync.WaitGroup: Wait returns only after every Add has been matched by Done"],
        "harness": [],
        "overlays": [{"pkg": "apps/rtcmfilter", "files": ["helpers_verif_test.go", "eof_verif_test.go", "rtcmfilter_verif_test.go"], "run": "TestVerifFilter"},
                     {"pkg": "apps/displayrtcm3", "files": ["helpers_verif_test.go", "eof_verif_test.go", "display_verif_test.go"], "run": "TestVerifDisplay"}],
    },
    "C16": {
        "title": "rtcmlogger passes its input through unchanged and records an identical copy",
        "design_ref": "DESIGN.md §7 C16",
        "technique": "Lean 4 proof (copy loop by induction on the blocks; recorder hand-over as an instance of the pipeline transition system with a waiting main; counterexample without the wait) + skeleton tie + process-level runs of the real binary, incl. a build with a delayed recorder",
        "text": "Kernel-checked theorems: for every list of blocks read from stdin (any chunking, empty blocks included) the bytes written to stdout are their concatenation and the blocks handed to the recorder are the non-empty "
                "blocks in order; in every reachable state of the copy-loop/recorder system in which start has returned the recorder has handled every block (for every interleaving); the system cannot deadlock and every schedule is "
                "finite; without the wait there is a kernel-checked execution in which start returns with the record incomplete. The skeleton of start/readAndWrite/recorder (unbuffered channel, close, wait for the recorder) is "
                "regenerated and pinned. Tied to the real program at process level: the rtcmlogger binary is built from the current tree, fed stdin in random chunks, and stdout and the record file are compared after exit; "
                "every second run uses a build whose recorder write is delayed by 40 ms (source overlay), which turns a missing wait into a deterministic failure.",
        "note": "The OS pipe, os.File writes and go-tools/dailylogger are trusted. Runs are skipped within two minutes of local midnight (the daily log rotates by design).",
        "assumptions": ["os.Stdin reads return the bytes of the pipe in order; dailylogger appends what it is given"],
        "harness": [],
        "procs": True,
    },
    "C19": {
        "title": "The proxy relays both directions byte-for-byte and reports traffic safely",
        "design_ref": "DESIGN.md §7 C19",
        "technique": "Lean 4 proof (relay loop by induction on the chunks; parser leg = pipeline transition system with one rendezvous consumer: progress and termination; Sanitise and page assembly on character lists) + extracted template/holes/Sanitise tie + differential correspondence (Sanitise, real ReportFeed.Status) + loopback runs of the real proxy binary",
        "text": "Kernel-checked theorems: for every chunking the bytes written upstream (and fed to the parser) are exactly the bytes read from the client; the parser leg can always move until every byte has been accepted and every "
                "schedule of it is finite, whatever the traffic (and the parser cannot crash: C07), so parsing never stops the relay; every message listed in the report is a contiguous slice of the relayed bytes; Sanitise leaves no "
                "'<' or '>' in any text; a page assembled from the template with the two hex dumps and the message list passed through Sanitise has exactly the template's '<' and '>' - relayed data adds none. The tie pins, from the "
                "current source, the five holes of Status in order, how each is produced (which pass through Sanitise), Sanitise's replacement list, the template's own markup counts and the proxy's goroutine/channel skeletons. "
                "Tied to the real code by Sanitise vs the model, by the real ReportFeed.Status over a real queue filled by the real handler with markup-carrying traffic, and by a TCP loopback session through the real proxy binary "
                "in both directions with a /status/report fetch.",
        "note": "TCP, net/http, go-tools/statusreporter and TLS are trusted. The loopback relay comparison is per session (one client connection).",
        "assumptions": ["net.Conn Read/Write deliver bytes in order", "the leaders (connection number, formatted time) contain no markup"],
        "harness": ["C19"],
        "procs": True,
    },
}
NOT_APPLICABLE = {}
