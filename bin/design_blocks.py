#!/usr/bin/env python3
"""Rewrite the "As built (Cxx)" blocks of DESIGN.md section 7 from bin/props.py (developer tool)."""
import re, sys, textwrap
sys.path.insert(0, '/verif/bin')
import props
p = '/verif/DESIGN.md'
s = open(p).read()
n = 0
for pid, d in props.PROPS.items():
    m = re.search(r'> \*\*As built \(%s\)\.\*\*.*?(?=\n\n)' % pid, s, re.S)
    if not m:
        print('no block for', pid); continue
    body = '**As built (%s).** Technique: %s. %s Limits: %s' % (pid, d['technique'].rstrip('.'), d['text'].strip(), d['note'].strip())
    block = '\n'.join('> ' + l for l in textwrap.wrap(body, 98, break_long_words=False, break_on_hyphens=False))
    if block != m.group(0):
        n += 1
    s = s[:m.start()] + block + s[m.end():]
open(p, 'w').write(s)
print('blocks rewritten:', n)
