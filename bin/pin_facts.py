#!/usr/bin/env python3
"""pin_facts.py <theorem name> <fact name>... : print a Lean theorem that pins the CURRENT values of
generated facts (developer tool, used once when a model is written; the output is pasted into
lean/Ntrip/Guards/*.lean — it is never run by a check)."""
import re, sys
src = open('/verif/lean/Ntrip/Generated/Skeletons.lean').read()
name = sys.argv[1]
lines = []
for f in sys.argv[2:]:
    m = re.search(r'^def %s : [^\n]*? := (.*)$' % re.escape(f), src, re.M)
    if not m:
        sys.exit('no fact ' + f)
    lines.append('    Gen.%s = %s' % (f, m.group(1)))
print('theorem %s :\n%s := by\n  repeat\' constructor\n  all_goals decide\n' % (name, ' ∧\n'.join(lines)))
