#!/usr/bin/env python3
"""Print the table of seeded changes (seeded/*/meta.json) for DESIGN.md §13."""
import json, glob, os, re
rows = []
for d in sorted(glob.glob('/verif/seeded/*/')):
    m = json.load(open(d + 'meta.json'))
    name = os.path.basename(d.rstrip('/'))
    prop = m.get('breaks') or m.get('property')
    what = (m.get('summary') or m.get('kind') or '').strip().replace('\n', ' ').replace('|', '/')
    what = re.sub(r'\s+', ' ', what)
    if len(what) > 230:
        what = what[:227] + '…'
    det = m.get('detected_by') or ['(reverse of a fix: the check of the property reports the original defect again, see §8)']
    det = '<br>'.join(x.replace('|', '/') for x in det)
    origin = 'own' if name.startswith('revert-') else 'sub-agent'
    rows.append((prop, name, origin, what, det))
rows.sort()
print('| Property | Seed (`seeded/<name>/`) | Origin | The change | Which checks report it |')
print('|---|---|---|---|---|')
for r in rows:
    print('| %s | `%s` | %s | %s | %s |' % r)
