#!/usr/bin/env python3
"""Writes MANIFEST.json from bin/props.py (so the two never drift)."""
import json, os, sys
VERIF = os.path.dirname(os.path.dirname(os.path.abspath(__file__)))
sys.path.insert(0, os.path.join(VERIF, "bin"))
from props import PROPS, NOT_APPLICABLE

ids = [json.loads(l)["id"] for l in open(os.path.join(VERIF, "properties.jsonl"))]
checks = []
for pid in ids:
    if pid not in PROPS:
        continue
    c = PROPS[pid]
    checks.append({
        "property_id": pid,
        "quick_cmd": f"bin/check {pid} quick",
        "thorough_cmd": f"bin/check {pid} thorough",
        "evidence_file": f"/verif/evidence/{pid}.json",
        "replay_cmd_template": f"bin/check {pid} quick --replay {{path}}",
        "engine": "lean-proof+correspondence",
        "level_claimed": {"category": "proof", "text": c["text"], "design_ref": c["design_ref"]},
        "level_note": c["note"],
        "technique": c["technique"],
    })
na = [{"property_id": pid, "reason": NOT_APPLICABLE.get(pid, "check not built yet at this commit (work in progress; see DESIGN.md §7)")}
      for pid in ids if pid not in PROPS]
m = {
    "version": 1,
    "setup_cmd": "bin/setup.sh",
    "hooks": {
        "guard": "verif",
        "enable": "no hook is committed to /repo; instrumentation is injected at check time with go -overlay from /verif/harness/overlays",
        "baseline_off_cmd": "cd /repo && go test -mod=mod -json -vet=off -count=1 -timeout 25m ./...",
        "source_commits": [],
        "add_only": True,
    },
    "engines": [{
        "name": "lean-proof+correspondence",
        "path": "/verif/bin/check",
        "serves_properties": [c["property_id"] for c in checks],
        "kind_free_text": "Lean 4 theorems about a hand-written executable model (lean/Ntrip), facts regenerated from the source by "
                          "extract/ on every run, and a Go harness (harness/) that runs the real code and the compiled model on the same operations",
    }],
    "checks": checks,
    "not_applicable": na,
    "notes": "All checks rebuild from /repo's working tree: extract/ re-reads the sources, lake re-checks the theorems that depend on the "
             "regenerated facts, and the harness is rebuilt against /repo (replace directive). See DESIGN.md.",
}
json.dump(m, open(os.path.join(VERIF, "MANIFEST.json"), "w"), indent=1)
print("MANIFEST.json:", len(checks), "checks,", len(na), "not_applicable")
