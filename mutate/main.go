// mutate lists or applies single-point mutations of a Go source file (developer tool used to
// measure which mechanical changes to /repo the checks notice).
//
//	mutate list <file.go>            JSON lines: index, function, line, kind, original -> replacement
//	mutate apply <file.go> <index>   prints the mutated source to stdout
package main

import (
	"bytes"
	"encoding/json"
	"fmt"
	"go/ast"
	"go/format"
	"go/parser"
	"go/token"
	"os"
	"strconv"
)

type point struct {
	Index int    `json:"index"`
	Func  string `json:"func"`
	Line  int    `json:"line"`
	Kind  string `json:"kind"`
	Desc  string `json:"desc"`
	apply func()
}

var swaps = map[token.Token]token.Token{
	token.LSS: token.LEQ, token.LEQ: token.LSS, token.GTR: token.GEQ, token.GEQ: token.GTR,
	token.EQL: token.NEQ, token.NEQ: token.EQL, token.ADD: token.SUB, token.SUB: token.ADD,
	token.LAND: token.LOR, token.LOR: token.LAND, token.MUL: token.QUO,
}

func main() {
	if len(os.Args) < 3 {
		fmt.Fprintln(os.Stderr, "usage: mutate list|apply file [index]")
		os.Exit(2)
	}
	fset := token.NewFileSet()
	f, err := parser.ParseFile(fset, os.Args[2], nil, parser.ParseComments)
	if err != nil {
		fmt.Fprintln(os.Stderr, err)
		os.Exit(1)
	}
	var pts []*point
	add := func(fn string, pos token.Pos, kind, desc string, apply func()) {
		pts = append(pts, &point{Index: len(pts), Func: fn, Line: fset.Position(pos).Line, Kind: kind, Desc: desc, apply: apply})
	}
	for _, d := range f.Decls {
		fd, ok := d.(*ast.FuncDecl)
		if !ok || fd.Body == nil {
			continue
		}
		name := fd.Name.Name
		if fd.Recv != nil && len(fd.Recv.List) > 0 {
			switch t := fd.Recv.List[0].Type.(type) {
			case *ast.StarExpr:
				if id, ok := t.X.(*ast.Ident); ok {
					name = id.Name + "." + name
				}
			case *ast.Ident:
				name = t.Name + "." + name
			}
		}
		if name == "init" || name == "main" {
			continue
		}
		ast.Inspect(fd.Body, func(n ast.Node) bool {
			switch v := n.(type) {
			case *ast.BinaryExpr:
				if to, ok := swaps[v.Op]; ok {
					from := v.Op
					add(name, v.OpPos, "operator", from.String()+" -> "+to.String(), func() { v.Op = to })
				}
			case *ast.BasicLit:
				if v.Kind == token.INT {
					if n, err := strconv.ParseInt(v.Value, 0, 64); err == nil && n >= 0 && n < 100000 {
						orig := v.Value
						add(name, v.Pos(), "constant", orig+" -> "+strconv.FormatInt(n+1, 10), func() { v.Value = strconv.FormatInt(n+1, 10) })
						if n > 0 {
							add(name, v.Pos(), "constant", orig+" -> "+strconv.FormatInt(n-1, 10), func() { v.Value = strconv.FormatInt(n-1, 10) })
						}
					}
				}
			case *ast.IfStmt:
				cond := v.Cond
				add(name, v.Pos(), "negate-if", "if c -> if !(c)", func() { v.Cond = &ast.UnaryExpr{Op: token.NOT, X: &ast.ParenExpr{X: cond}} })
			case *ast.BlockStmt:
				for i, st := range v.List {
					i, st, blk := i, st, v
					switch s := st.(type) {
					case *ast.ExprStmt, *ast.IncDecStmt:
						add(name, st.Pos(), "delete-statement", "statement removed", func() { blk.List[i] = &ast.EmptyStmt{Semicolon: st.Pos()} })
					case *ast.AssignStmt:
						if s.Tok != token.DEFINE {
							add(name, st.Pos(), "delete-statement", "assignment removed", func() { blk.List[i] = &ast.EmptyStmt{Semicolon: st.Pos()} })
						}
					}
				}
			}
			return true
		})
	}
	switch os.Args[1] {
	case "list":
		enc := json.NewEncoder(os.Stdout)
		for _, p := range pts {
			enc.Encode(p)
		}
	case "apply":
		k, _ := strconv.Atoi(os.Args[3])
		if k < 0 || k >= len(pts) {
			fmt.Fprintln(os.Stderr, "no such mutation point")
			os.Exit(1)
		}
		pts[k].apply()
		var buf bytes.Buffer
		if err := format.Node(&buf, fset, f); err != nil {
			fmt.Fprintln(os.Stderr, err)
			os.Exit(1)
		}
		os.Stdout.Write(buf.Bytes())
	}
}
