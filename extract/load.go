package main

import (
	"fmt"
	"go/ast"
	"go/constant"
	"go/parser"
	"go/token"
	"os"
	"path/filepath"
	"sort"
	"strconv"
	"strings"
)

const modPath = "github.com/goblimey/go-ntrip"

// pkgAlias maps a directory of the repository to the prefix used in generated Lean names.
var pkgAlias = [][2]string{
	{"rtcm/utils", "utils"},
	{"rtcm/header", "header"},
	{"rtcm/type1005", "t1005"},
	{"rtcm/type1006", "t1006"},
	{"rtcm/type_msm4/satellite", "sat4"},
	{"rtcm/type_msm4/signal", "sig4"},
	{"rtcm/type_msm4/message", "msg4"},
	{"rtcm/type_msm7/satellite", "sat7"},
	{"rtcm/type_msm7/signal", "sig7"},
	{"rtcm/type_msm7/message", "msg7"},
	{"rtcm/handler", "handler"},
	{"rtcm/pushback", "pushback"},
	{"file_handler", "fh"},
	{"jsonconfig", "jsonconfig"},
	{"apps/appcore", "appcore"},
	{"apps/displayrtcm3", "display"},
	{"apps/rtcmfilter", "filter"},
	{"apps/rtcmlogger", "logger"},
	{"apps/proxy", "proxy"},
	{"apps/proxy/circular_queue", "cq"},
	{"apps/proxy/reportfeed", "rf"},
}

type pkg struct {
	dir   string
	alias string
	files []*ast.File
	// package-level const/var initialisers
	decls map[string]ast.Expr
	// implicit iota-free typed info: declared type name (may be "")
	types map[string]string
	funcs map[string]*ast.FuncDecl // "Recv.Name" or "Name"
}

type extractor struct {
	repo     string
	fset     *token.FileSet
	pkgs     map[string]*pkg // by dir
	byAlias  map[string]*pkg
	problems []string
	evalBusy map[string]bool
}

func newExtractor(repo string) *extractor {
	x := &extractor{repo: repo, fset: token.NewFileSet(), pkgs: map[string]*pkg{}, byAlias: map[string]*pkg{}, evalBusy: map[string]bool{}}
	for _, pa := range pkgAlias {
		p := &pkg{dir: pa[0], alias: pa[1], decls: map[string]ast.Expr{}, types: map[string]string{}, funcs: map[string]*ast.FuncDecl{}}
		matches, _ := filepath.Glob(filepath.Join(repo, pa[0], "*.go"))
		sort.Strings(matches)
		for _, m := range matches {
			if strings.HasSuffix(m, "_test.go") {
				continue
			}
			src, err := os.ReadFile(m)
			if err != nil {
				x.problem("cannot read %s: %v", m, err)
				continue
			}
			f, err := parser.ParseFile(x.fset, m, src, parser.SkipObjectResolution)
			if err != nil {
				x.problem("cannot parse %s: %v", m, err)
				continue
			}
			p.files = append(p.files, f)
			for _, d := range f.Decls {
				switch d := d.(type) {
				case *ast.GenDecl:
					if d.Tok != token.CONST && d.Tok != token.VAR {
						continue
					}
					for _, s := range d.Specs {
						vs := s.(*ast.ValueSpec)
						for i, n := range vs.Names {
							if i < len(vs.Values) {
								p.decls[n.Name] = vs.Values[i]
							}
							if id, ok := vs.Type.(*ast.Ident); ok {
								p.types[n.Name] = id.Name
							} else if se, ok := vs.Type.(*ast.SelectorExpr); ok {
								p.types[n.Name] = se.Sel.Name
							}
						}
					}
				case *ast.FuncDecl:
					name := d.Name.Name
					if d.Recv != nil && len(d.Recv.List) == 1 {
						name = recvTypeName(d.Recv.List[0].Type) + "." + name
					}
					p.funcs[name] = d
				}
			}
		}
		x.pkgs[pa[0]] = p
		x.byAlias[pa[1]] = p
	}
	return x
}

func recvTypeName(e ast.Expr) string {
	switch t := e.(type) {
	case *ast.StarExpr:
		return recvTypeName(t.X)
	case *ast.Ident:
		return t.Name
	}
	return "?"
}

// recvIsPointer reports whether a method has a pointer receiver.
func recvIsPointer(fd *ast.FuncDecl) bool {
	if fd.Recv == nil || len(fd.Recv.List) != 1 {
		return false
	}
	_, ok := fd.Recv.List[0].Type.(*ast.StarExpr)
	return ok
}

func (x *extractor) problem(format string, a ...any) {
	x.problems = append(x.problems, fmt.Sprintf(format, a...))
}

// importsOf maps the local import names of a file to repository directories.
func (x *extractor) importsOf(f *ast.File) map[string]string {
	m := map[string]string{}
	for _, im := range f.Imports {
		path, _ := strconv.Unquote(im.Path.Value)
		name := filepath.Base(path)
		if im.Name != nil {
			name = im.Name.Name
		}
		if strings.HasPrefix(path, modPath+"/") {
			m[name] = strings.TrimPrefix(path, modPath+"/")
		} else {
			m[name] = "ext:" + path
		}
	}
	return m
}

// fileOf finds the file of a package that contains a node position.
func (p *pkg) fileOf(fset *token.FileSet, pos token.Pos) *ast.File {
	for _, f := range p.files {
		if f.Pos() <= pos && pos <= f.End() {
			return f
		}
	}
	if len(p.files) > 0 {
		return p.files[0]
	}
	return nil
}

// scope is a chain of function-local constant declarations.
type scope map[string]ast.Expr

var externalConsts = map[string]constant.Value{
	"time.Nanosecond":  constant.MakeInt64(1),
	"time.Microsecond": constant.MakeInt64(1000),
	"time.Millisecond": constant.MakeInt64(1000000),
	"time.Second":      constant.MakeInt64(1000000000),
	"time.Minute":      constant.MakeInt64(60000000000),
	"time.Hour":        constant.MakeInt64(3600000000000),
}

var conversions = map[string]bool{"float64": true, "uint": true, "int": true, "uint64": true, "int64": true,
	"uint32": true, "byte": true, "time.Duration": true, "Duration": true}

// eval evaluates a constant expression in package p (with optional local scope).
func (x *extractor) eval(p *pkg, local scope, e ast.Expr) (constant.Value, bool) {
	switch e := e.(type) {
	case *ast.BasicLit:
		v := constant.MakeFromLiteral(e.Value, e.Kind, 0)
		return v, v.Kind() != constant.Unknown
	case *ast.ParenExpr:
		return x.eval(p, local, e.X)
	case *ast.Ident:
		if local != nil {
			if d, ok := local[e.Name]; ok {
				return x.eval(p, local, d)
			}
		}
		if d, ok := p.decls[e.Name]; ok {
			key := p.dir + "." + e.Name
			if x.evalBusy[key] {
				return nil, false
			}
			x.evalBusy[key] = true
			defer delete(x.evalBusy, key)
			return x.eval(p, nil, d)
		}
		if e.Name == "true" {
			return constant.MakeBool(true), true
		}
		if e.Name == "false" {
			return constant.MakeBool(false), true
		}
		return nil, false
	case *ast.SelectorExpr:
		id, ok := e.X.(*ast.Ident)
		if !ok {
			return nil, false
		}
		f := p.fileOf(x.fset, e.Pos())
		if f == nil {
			return nil, false
		}
		imp := x.importsOf(f)
		dir, ok := imp[id.Name]
		if !ok {
			return nil, false
		}
		if strings.HasPrefix(dir, "ext:") {
			v, ok := externalConsts[filepath.Base(strings.TrimPrefix(dir, "ext:"))+"."+e.Sel.Name]
			return v, ok
		}
		q, ok := x.pkgs[dir]
		if !ok {
			return nil, false
		}
		d, ok := q.decls[e.Sel.Name]
		if !ok {
			return nil, false
		}
		return x.eval(q, nil, d)
	case *ast.UnaryExpr:
		v, ok := x.eval(p, local, e.X)
		if !ok {
			return nil, false
		}
		switch e.Op {
		case token.SUB, token.ADD, token.XOR, token.NOT:
			return constant.UnaryOp(e.Op, v, 0), true
		}
		return nil, false
	case *ast.BinaryExpr:
		a, ok1 := x.eval(p, local, e.X)
		b, ok2 := x.eval(p, local, e.Y)
		if !ok1 || !ok2 {
			return nil, false
		}
		switch e.Op {
		case token.SHL, token.SHR:
			s, ok := constant.Uint64Val(constant.ToInt(b))
			if !ok {
				return nil, false
			}
			return constant.Shift(constant.ToInt(a), e.Op, uint(s)), true
		case token.ADD, token.SUB, token.MUL, token.AND, token.OR, token.XOR, token.AND_NOT, token.REM:
			return constant.BinaryOp(a, e.Op, b), true
		case token.QUO:
			if a.Kind() == constant.Int && b.Kind() == constant.Int {
				return constant.BinaryOp(a, token.QUO_ASSIGN, b), true
			}
			return constant.BinaryOp(a, token.QUO, b), true
		}
		return nil, false
	case *ast.CallExpr:
		if len(e.Args) != 1 {
			return nil, false
		}
		name := ""
		switch f := e.Fun.(type) {
		case *ast.Ident:
			name = f.Name
		case *ast.SelectorExpr:
			if id, ok := f.X.(*ast.Ident); ok {
				name = id.Name + "." + f.Sel.Name
			}
		}
		if conversions[name] {
			return x.eval(p, local, e.Args[0])
		}
		return nil, false
	}
	return nil, false
}

// localConsts collects the const declarations inside a function body.
func localConsts(fd *ast.FuncDecl) scope {
	s := scope{}
	if fd == nil || fd.Body == nil {
		return s
	}
	ast.Inspect(fd.Body, func(n ast.Node) bool {
		if ds, ok := n.(*ast.DeclStmt); ok {
			if gd, ok := ds.Decl.(*ast.GenDecl); ok && gd.Tok == token.CONST {
				for _, sp := range gd.Specs {
					vs := sp.(*ast.ValueSpec)
					for i, n := range vs.Names {
						if i < len(vs.Values) {
							s[n.Name] = vs.Values[i]
						}
					}
				}
			}
		}
		return true
	})
	return s
}

func leanIdent(s string) string {
	r := strings.NewReplacer(".", "_", "/", "_", "-", "_", " ", "_")
	return r.Replace(s)
}

func leanString(s string) string {
	var b strings.Builder
	b.WriteByte('"')
	for _, r := range s {
		switch {
		case r == '"':
			b.WriteString("\\\"")
		case r == '\\':
			b.WriteString("\\\\")
		case r == '\n':
			b.WriteString("\\n")
		case r == '\t':
			b.WriteString("\\t")
		case r < 0x20:
			b.WriteString(fmt.Sprintf("\\x%02x", r))
		default:
			b.WriteRune(r)
		}
	}
	b.WriteByte('"')
	return b.String()
}
