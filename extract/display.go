package main

import (
	"fmt"
	"go/ast"
	"sort"
	"strings"
)

// riskyExprs lists, for a function, every expression that can panic at run time by itself:
// index and slice expressions, explicit pointer dereferences, type assertions without ok,
// integer divisions/shifts by a non-constant, and selector chains through a pointer field
// that may be nil (reported as the chain text).  The Lean side compares the list with a
// whitelist each of whose entries is discharged by a model lemma.
func (x *extractor) riskyExprs(p *pkg, fd *ast.FuncDecl) []string {
	set := map[string]bool{}
	if fd == nil || fd.Body == nil {
		return nil
	}
	ast.Inspect(fd.Body, func(n ast.Node) bool {
		switch e := n.(type) {
		case *ast.IndexExpr:
			set["index "+exprText(e)] = true
		case *ast.SliceExpr:
			set["slice "+exprText(e)] = true
		case *ast.StarExpr:
			set["deref "+exprText(e)] = true
		case *ast.TypeAssertExpr:
			set["assert "+exprText(e.X)] = true
		case *ast.SelectorExpr:
			// a.b.c where a.b is a pointer-typed field we know of
			t := exprText(e)
			if strings.Contains(t, ".Satellite.") || strings.Contains(t, ".Header.") || strings.Contains(t, "message.Readable.") {
				set["chain "+t] = true
			}
		case *ast.BinaryExpr:
			if e.Op.String() == "/" || e.Op.String() == "%" || e.Op.String() == "<<" || e.Op.String() == ">>" {
				if _, ok := x.eval(p, localConsts(fd), e.Y); !ok {
					set["arith "+exprText(e)] = true
				}
			}
		}
		return true
	})
	var out []string
	for k := range set {
		out = append(out, k)
	}
	sort.Strings(out)
	return out
}

func (x *extractor) genSkeletonsDisplay(b *strings.Builder) {
	type fn struct{ alias, name string }
	fns := []fn{
		{"handler", "Message.String"}, {"handler", "PrepareForDisplay"}, {"handler", "Analyse"},
		{"handler", "Handler.getStartTimeDisplay"},
		{"header", "Header.String"},
		{"msg4", "Message.String"}, {"msg4", "Message.DisplaySatelliteCells"}, {"msg4", "Message.DisplaySignalCells"},
		{"msg7", "Message.String"}, {"msg7", "Message.DisplaySatelliteCells"}, {"msg7", "Message.DisplaySignalCells"},
		{"sat4", "Cell.String"}, {"sat7", "Cell.String"}, {"sig4", "Cell.String"}, {"sig7", "Cell.String"},
		{"sig4", "Cell.GetAggregateRange"}, {"sig4", "Cell.GetAggregatePhaseRange"}, {"sig4", "Cell.RangeInMetres"}, {"sig4", "Cell.PhaseRange"},
		{"sig7", "Cell.GetAggregateRange"}, {"sig7", "Cell.GetAggregatePhaseRange"}, {"sig7", "Cell.RangeInMetres"}, {"sig7", "Cell.PhaseRange"},
		{"sig7", "Cell.PhaseRangeRate"}, {"sig7", "Cell.PhaseRangeRateDoppler"}, {"sig7", "Cell.GetAggregatePhaseRangeRate"},
		{"t1005", "Message.String"}, {"t1006", "Message.String"},
	}
	for _, f := range fns {
		p, fd := x.fn(f.alias, f.name)
		name := leanIdent("display_" + f.alias + "_" + f.name)
		if fd == nil {
			x.problem("%s.%s not found", f.alias, f.name)
			fmt.Fprintf(b, "def %s : Option (List String) := none\n", name)
			continue
		}
		fmt.Fprintf(b, "def %s : Option (List String) := some [%s]\n", name, quoteJoin(x.riskyExprs(p, fd)))
	}
}
