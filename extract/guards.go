package main

import (
	"fmt"
	"go/ast"
	"strings"
)

// genGuards lists, per function, the conditions of its `if` statements and the headers of
// its `for` loops in source order.  The Lean side pins them: a changed comparison (`<` vs
// `<=`), a dropped or added guard, a changed loop bound breaks the obligation.
func (x *extractor) genGuards(b *strings.Builder) {
	type fn struct{ alias, name string }
	fns := []fn{
		{"handler", "Handler.HandleMessages"}, {"handler", "Handler.FetchNextMessageFrame"}, {"handler", "eatUntilStartOfFrame"},
		{"handler", "Handler.getMessageLengthAndType"}, {"handler", "Handler.GetMessage"}, {"handler", "CheckCRC"},
		{"handler", "getUTCFromTimestamp"}, {"handler", "Handler.getUTCFromGlonassTime"}, {"handler", "getStartOfLastSundayUTC"},
		{"handler", "New"},
		{"pushback", "ByteChannel.GetNextByte"}, {"pushback", "ByteChannel.PushBack"}, {"pushback", "ByteChannel.get"},
		{"utils", "ParseTimestamp"}, {"utils", "GetBitsAsUint64"}, {"utils", "GetBitsAsInt64"}, {"utils", "getScaledValue"},
		{"header", "GetMSMHeader"}, {"header", "getMSMType"}, {"header", "getSatellites"}, {"header", "getSignals"}, {"header", "getCells"}, {"header", "New"},
		{"sat4", "GetSatelliteCells"}, {"sat7", "GetSatelliteCells"}, {"sig4", "GetSignalCells"}, {"sig7", "GetSignalCells"},
		{"msg4", "GetMessage"}, {"msg7", "GetMessage"}, {"t1005", "GetMessage"}, {"t1006", "GetMessage"},
		{"sig4", "Cell.GetAggregateRange"}, {"sig4", "Cell.GetAggregatePhaseRange"},
		{"sig7", "Cell.GetAggregateRange"}, {"sig7", "Cell.GetAggregatePhaseRange"}, {"sig7", "Cell.GetAggregatePhaseRangeRate"},
		{"cq", "CircularQueue.Add"}, {"cq", "CircularQueue.GetMessages"},
		{"rf", "Sanitise"},
		// the applications and the plumbing around the library
		{"fh", "Handler.Handle"}, {"appcore", "AppCore.HandleMessagesUntilEOF"},
		{"filter", "HandleMessages"}, {"filter", "writeRTCMMessages"}, {"filter", "writeReadableMessages"},
		{"display", "HandleMessages"}, {"display", "DisplayMessages"},
		{"logger", "start"}, {"logger", "readAndWrite"}, {"logger", "recorder"}, {"logger", "writeRTCMLog"},
		{"proxy", "handleClientMessages"}, {"proxy", "handleServerMessages"}, {"proxy", "keepCircularQueueUpdated"},
		{"rf", "ReportFeed.Status"},
		{"handler", "Analyse"}, {"handler", "analyseMSM4"}, {"handler", "analyseMSM7"}, {"handler", "analyse1005"}, {"handler", "analyse1006"},
		{"handler", "Message.String"}, {"handler", "Message.Copy"}, {"handler", "Message.displayable"},
	}
	for _, f := range fns {
		_, fd := x.fn(f.alias, f.name)
		name := leanIdent("guards_" + f.alias + "_" + f.name)
		if fd == nil || fd.Body == nil {
			x.problem("%s.%s not found", f.alias, f.name)
			fmt.Fprintf(b, "def %s : Option (List String) := none\n", name)
			continue
		}
		var conds []string
		ast.Inspect(fd.Body, func(n ast.Node) bool {
			switch s := n.(type) {
			case *ast.IfStmt:
				conds = append(conds, "if "+exprText(s.Cond))
			case *ast.ForStmt:
				h := "for "
				if s.Init != nil {
					h += stmtsText([]ast.Stmt{s.Init})
				}
				h += ";"
				if s.Cond != nil {
					h += exprText(s.Cond)
				}
				h += ";"
				if s.Post != nil {
					if inc, ok := s.Post.(*ast.IncDecStmt); ok {
						h += exprText(inc.X) + inc.Tok.String()
					} else {
						h += stmtsText([]ast.Stmt{s.Post})
					}
				}
				conds = append(conds, h)
			case *ast.RangeStmt:
				conds = append(conds, "range "+exprText(s.X))
			}
			return true
		})
		fmt.Fprintf(b, "def %s : Option (List String) := some [%s]\n", name, quoteJoin(conds))
	}
	// effects: the writes through pointers/fields/indices and the calls made for their effect, in
	// source order, of the functions that fill in or display a message (hidden state, accumulation
	// and aliasing would have to show up here)
	for _, f := range []fn{{"handler", "Analyse"}, {"handler", "analyseMSM4"}, {"handler", "analyseMSM7"}, {"handler", "analyse1005"}, {"handler", "analyse1006"},
		{"handler", "Message.String"}, {"handler", "Message.Copy"}, {"handler", "NewMessage"}, {"handler", "NewNonRTCM"}} {
		_, fd := x.fn(f.alias, f.name)
		name := leanIdent("effects_" + f.alias + "_" + f.name)
		if fd == nil || fd.Body == nil {
			fmt.Fprintf(b, "def %s : Option (List String) := none\n", name)
			continue
		}
		var eff []string
		ast.Inspect(fd.Body, func(n ast.Node) bool {
			switch s := n.(type) {
			case *ast.AssignStmt:
				for i, l := range s.Lhs {
					switch l.(type) {
					case *ast.SelectorExpr, *ast.IndexExpr, *ast.StarExpr:
						rhs := ""
						if i < len(s.Rhs) {
							rhs = exprText(s.Rhs[i])
						}
						eff = append(eff, exprText(l)+" "+s.Tok.String()+" "+rhs)
					}
				}
			case *ast.ExprStmt:
				eff = append(eff, "call "+exprText(s.X))
			case *ast.IncDecStmt:
				eff = append(eff, exprText(s.X)+s.Tok.String())
			}
			return true
		})
		fmt.Fprintf(b, "def %s : Option (List String) := some [%s]\n", name, quoteJoin(eff))
	}
}
