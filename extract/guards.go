package main

import (
	"go/printer"
	"bytes"
	"go/token"
	"sort"
	"fmt"
	"go/ast"
	"strings"
)

// genGuards lists, per function, the conditions of its `if` statements and the headers of
// its `for` loops in source order.  The Lean side pins them: a changed comparison (`<` vs
// `<=`), a dropped or added guard, a changed loop bound breaks the obligation.
func (x *extractor) genGuards(b *strings.Builder) {
	type fn struct{ alias, name string }
	fns := []fn{
		{"handler", "Handler.HandleMessages"}, {"handler", "Handler.FetchNextMessageFrame"}, {"handler", "eatUntilStartOfFrame"},
		{"handler", "Handler.getMessageLengthAndType"}, {"handler", "Handler.GetMessage"}, {"handler", "CheckCRC"},
		{"handler", "getUTCFromTimestamp"}, {"handler", "Handler.getUTCFromGlonassTime"}, {"handler", "getStartOfLastSundayUTC"},
		{"handler", "New"},
		{"pushback", "ByteChannel.GetNextByte"}, {"pushback", "ByteChannel.PushBack"}, {"pushback", "ByteChannel.get"},
		{"utils", "ParseTimestamp"}, {"utils", "GetBitsAsUint64"}, {"utils", "GetBitsAsInt64"}, {"utils", "getScaledValue"},
		{"header", "GetMSMHeader"}, {"header", "getMSMType"}, {"header", "getSatellites"}, {"header", "getSignals"}, {"header", "getCells"}, {"header", "New"},
		{"sat4", "GetSatelliteCells"}, {"sat7", "GetSatelliteCells"}, {"sig4", "GetSignalCells"}, {"sig7", "GetSignalCells"},
		{"msg4", "GetMessage"}, {"msg7", "GetMessage"}, {"t1005", "GetMessage"}, {"t1006", "GetMessage"},
		{"sig4", "Cell.GetAggregateRange"}, {"sig4", "Cell.GetAggregatePhaseRange"},
		{"sig7", "Cell.GetAggregateRange"}, {"sig7", "Cell.GetAggregatePhaseRange"}, {"sig7", "Cell.GetAggregatePhaseRangeRate"},
		{"cq", "CircularQueue.Add"}, {"cq", "CircularQueue.GetMessages"},
		{"rf", "Sanitise"},
		// the applications and the plumbing around the library
		{"fh", "Handler.Handle"}, {"appcore", "AppCore.HandleMessagesUntilEOF"},
		{"filter", "HandleMessages"}, {"filter", "writeRTCMMessages"}, {"filter", "writeReadableMessages"},
		{"display", "HandleMessages"}, {"display", "DisplayMessages"},
		{"logger", "start"}, {"logger", "readAndWrite"}, {"logger", "recorder"}, {"logger", "writeRTCMLog"},
		{"proxy", "handleClientMessages"}, {"proxy", "handleServerMessages"}, {"proxy", "keepCircularQueueUpdated"},
		{"rf", "ReportFeed.Status"},
		{"handler", "Analyse"}, {"handler", "analyseMSM4"}, {"handler", "analyseMSM7"}, {"handler", "analyse1005"}, {"handler", "analyse1006"},
		{"handler", "Message.String"}, {"handler", "Message.Copy"}, {"handler", "Message.displayable"},
	}
	for _, f := range fns {
		_, fd := x.fn(f.alias, f.name)
		name := leanIdent("guards_" + f.alias + "_" + f.name)
		if fd == nil || fd.Body == nil {
			x.problem("%s.%s not found", f.alias, f.name)
			fmt.Fprintf(b, "def %s : Option (List String) := none\n", name)
			continue
		}
		var conds []string
		ast.Inspect(fd.Body, func(n ast.Node) bool {
			switch s := n.(type) {
			case *ast.IfStmt:
				conds = append(conds, "if "+exprText(s.Cond))
			case *ast.ForStmt:
				h := "for "
				if s.Init != nil {
					h += stmtsText([]ast.Stmt{s.Init})
				}
				h += ";"
				if s.Cond != nil {
					h += exprText(s.Cond)
				}
				h += ";"
				if s.Post != nil {
					if inc, ok := s.Post.(*ast.IncDecStmt); ok {
						h += exprText(inc.X) + inc.Tok.String()
					} else {
						h += stmtsText([]ast.Stmt{s.Post})
					}
				}
				conds = append(conds, h)
			case *ast.RangeStmt:
				conds = append(conds, "range "+exprText(s.X))
			}
			return true
		})
		fmt.Fprintf(b, "def %s : Option (List String) := some [%s]\n", name, quoteJoin(conds))
	}
	// effects: the writes through pointers/fields/indices and the calls made for their effect, in
	// source order, of the functions that fill in or display a message (hidden state, accumulation
	// and aliasing would have to show up here)
	for _, f := range []fn{{"handler", "Analyse"}, {"handler", "analyseMSM4"}, {"handler", "analyseMSM7"}, {"handler", "analyse1005"}, {"handler", "analyse1006"},
		{"handler", "Message.String"}, {"handler", "Message.Copy"}, {"handler", "NewMessage"}, {"handler", "NewNonRTCM"}} {
		_, fd := x.fn(f.alias, f.name)
		name := leanIdent("effects_" + f.alias + "_" + f.name)
		if fd == nil || fd.Body == nil {
			fmt.Fprintf(b, "def %s : Option (List String) := none\n", name)
			continue
		}
		var eff []string
		ast.Inspect(fd.Body, func(n ast.Node) bool {
			switch s := n.(type) {
			case *ast.AssignStmt:
				for i, l := range s.Lhs {
					switch l.(type) {
					case *ast.SelectorExpr, *ast.IndexExpr, *ast.StarExpr:
						rhs := ""
						if i < len(s.Rhs) {
							rhs = exprText(s.Rhs[i])
						}
						eff = append(eff, exprText(l)+" "+s.Tok.String()+" "+rhs)
					}
				}
			case *ast.ExprStmt:
				eff = append(eff, "call "+exprText(s.X))
			case *ast.IncDecStmt:
				eff = append(eff, exprText(s.X)+s.Tok.String())
			}
			return true
		})
		fmt.Fprintf(b, "def %s : Option (List String) := some [%s]\n", name, quoteJoin(eff))
	}
	// which bit fields the framing code reads, and whether as signed or unsigned
	for _, name := range []string{"Handler.getMessageLengthAndType", "Handler.GetMessage"} {
		_, fd := x.fn("handler", name)
		ln := leanIdent("bitreads_handler_" + name)
		if fd == nil || fd.Body == nil {
			fmt.Fprintf(b, "def %s : Option (List String) := none\n", ln)
			continue
		}
		var reads []string
		ast.Inspect(fd.Body, func(n ast.Node) bool {
			if ce, ok := n.(*ast.CallExpr); ok {
				if se, ok := ce.Fun.(*ast.SelectorExpr); ok && (se.Sel.Name == "GetBitsAsUint64" || se.Sel.Name == "GetBitsAsInt64") && len(ce.Args) == 3 {
					reads = append(reads, se.Sel.Name+" "+exprText(ce.Args[1])+" "+exprText(ce.Args[2]))
				}
			}
			return true
		})
		fmt.Fprintf(b, "def %s : Option (List String) := some [%s]\n", ln, quoteJoin(reads))
	}
	// the two accessors through which Handle reads its tolerance and its retry pause
	for _, name := range []string{"Config.TimeoutOnEOF", "Config.WaitTimeOnEOF"} {
		_, fd := x.fn("jsonconfig", name)
		ln := leanIdent("shape_jsonconfig_" + name)
		if fd == nil || fd.Body == nil {
			fmt.Fprintf(b, "def %s : Option String := none\n", ln)
			continue
		}
		var buf bytes.Buffer
		printer.Fprint(&buf, token.NewFileSet(), fd.Body)
		fmt.Fprintf(b, "def %s : Option String := some %s\n", ln, leanString(strings.Join(strings.Fields(buf.String()), " ")))
	}
	// receiver writes: for every method of the library packages, the assignments (and ++/--) whose
	// target is rooted at the receiver — the only way a method can change the object it is called on.
	// Display and accessor methods must not appear here; the queue's readers must not either.
	for _, alias := range []string{"header", "t1005", "t1006", "sat4", "sig4", "msg4", "sat7", "sig7", "msg7", "handler", "cq", "pushback"} {
		p := x.byAlias[alias]
		if p == nil {
			fmt.Fprintf(b, "def recv_writes_%s : Option (List String) := none\n", alias)
			continue
		}
		var names []string
		for name := range p.funcs {
			names = append(names, name)
		}
		sort.Strings(names)
		var out []string
		for _, name := range names {
			fd := p.funcs[name]
			if fd.Recv == nil || len(fd.Recv.List) == 0 || len(fd.Recv.List[0].Names) == 0 || fd.Body == nil {
				continue
			}
			recv := fd.Recv.List[0].Names[0].Name
			rooted := func(e ast.Expr) bool {
				for {
					switch v := e.(type) {
					case *ast.SelectorExpr:
						e = v.X
					case *ast.IndexExpr:
						e = v.X
					case *ast.StarExpr:
						e = v.X
					case *ast.ParenExpr:
						e = v.X
					case *ast.Ident:
						return v.Name == recv
					default:
						return false
					}
				}
			}
			ast.Inspect(fd.Body, func(n ast.Node) bool {
				switch s := n.(type) {
				case *ast.AssignStmt:
					if s.Tok == token.DEFINE {
						return true
					}
					for _, l := range s.Lhs {
						if _, isIdent := l.(*ast.Ident); !isIdent && rooted(l) {
							out = append(out, name+": "+exprText(l)+" "+s.Tok.String())
						}
					}
				case *ast.IncDecStmt:
					if _, isIdent := s.X.(*ast.Ident); !isIdent && rooted(s.X) {
						out = append(out, name+": "+exprText(s.X)+s.Tok.String())
					}
				case *ast.CallExpr:
					// delete(recv.m, k), append into a receiver field via copy(recv.x, …)
					if id, ok := s.Fun.(*ast.Ident); ok && (id.Name == "delete" || id.Name == "copy") && len(s.Args) > 0 && rooted(s.Args[0]) {
						out = append(out, name+": "+id.Name+"("+exprText(s.Args[0])+")")
					}
				}
				return true
			})
		}
		fmt.Fprintf(b, "def recv_writes_%s : Option (List String) := some [%s]\n", alias, quoteJoin(out))
	}
}
