package main

// A translator for the straight-line 64-bit integer functions of the library: parameters and
// results of type uint/uint64/int/int64 (64-bit platform), `x := e` definitions, `x = e` and
// `x += e` on locals, conversions between the four types, the operators << >> | & + - *, integer
// literals, calls of other translated functions, a final `return e`.  The output is a Lean
// definition over Ntrip.Go64 (wrapping arithmetic); anything else makes the function
// untranslatable, which is emitted as a comment and leaves the name undefined so that the proof
// obligation that mentions it no longer compiles.

import (
	"bytes"
	"fmt"
	"go/ast"
	"go/printer"
	"go/token"
	"strings"
)

// stmtText prints a statement or expression in gofmt form (no comments).
func stmtText(x *extractor, n ast.Node) string {
	var buf bytes.Buffer
	printer.Fprint(&buf, token.NewFileSet(), n)
	return strings.Join(strings.Fields(buf.String()), " ")
}

type tkind int

const (
	kU tkind = iota // unsigned 64
	kI              // signed 64
	kC              // untyped integer constant
	kB              // []byte
)

type trans struct {
	x     *extractor
	alias string
	env   map[string]tkind
	known map[string][]tkind // translated functions: result kind first, then parameter kinds
	err   string
}

func kindOfType(e ast.Expr) (tkind, bool) {
	if id, ok := e.(*ast.Ident); ok {
		switch id.Name {
		case "uint", "uint64":
			return kU, true
		case "int", "int64":
			return kI, true
		}
	}
	return kU, false
}

func (t *trans) fail(format string, a ...interface{}) (tkind, string) {
	if t.err == "" {
		t.err = fmt.Sprintf(format, a...)
	}
	return kU, "0"
}

func (t *trans) expr(e ast.Expr, want tkind) (tkind, string) {
	switch v := e.(type) {
	case *ast.ParenExpr:
		return t.expr(v.X, want)
	case *ast.BasicLit:
		if v.Kind != token.INT {
			return t.fail("literal %s", v.Value)
		}
		if want == kI {
			return kI, "(" + v.Value + " : Int)"
		}
		return kU, "(" + v.Value + " : Nat)"
	case *ast.Ident:
		if k, ok := t.env[v.Name]; ok {
			return k, v.Name
		}
		// a named integer constant of the package
		if p := t.x.byAlias[t.alias]; p != nil {
			if val, ok := t.x.constInt(t.alias, v.Name); ok {
				if want == kI {
					return kI, fmt.Sprintf("(%s : Int)", val)
				}
				return kU, fmt.Sprintf("(%s : Nat)", val)
			}
			_ = p
		}
		return t.fail("identifier %s", v.Name)
	case *ast.UnaryExpr:
		switch v.Op {
		case token.XOR:
			k, e := t.expr(v.X, kU)
			if k != kU {
				return t.fail("complement of a signed value")
			}
			return kU, "(Go64.notU " + e + ")"
		case token.SUB:
			if lit, ok := v.X.(*ast.BasicLit); ok && lit.Kind == token.INT && want == kI {
				return kI, "(-" + lit.Value + " : Int)"
			}
		}
		return t.fail("unary %s", v.Op)
	case *ast.IndexExpr:
		bk, bs := t.expr(v.X, kU)
		if bk != kB {
			return t.fail("index of something that is not a byte slice")
		}
		_, is := t.expr(v.Index, kU)
		return kU, "(Go64.idx " + bs + " " + is + ")"
	case *ast.CallExpr:
		if id, ok := v.Fun.(*ast.Ident); ok {
			if k, isConv := kindOfType(id); isConv && len(v.Args) == 1 {
				ak, as := t.expr(v.Args[0], k)
				switch {
				case ak == k:
					return k, as
				case k == kI:
					return kI, "(Go64.toI " + as + ")"
				default:
					return kU, "(Go64.ofI " + as + ")"
				}
			}
			if sig, ok := t.known[id.Name]; ok && len(sig) == len(v.Args)+1 {
				var args []string
				for i, a := range v.Args {
					ak, as := t.expr(a, sig[i+1])
					if ak != sig[i+1] {
						return t.fail("argument %d of %s has the wrong kind", i, id.Name)
					}
					args = append(args, as)
				}
				return sig[0], "(" + leanIdent("fn_"+t.alias+"_"+id.Name) + " " + strings.Join(args, " ") + ")"
			}
		}
		return t.fail("call %s", exprText(v.Fun))
	case *ast.BinaryExpr:
		if v.Op == token.SHL || v.Op == token.SHR {
			lk, ls := t.expr(v.X, want)
			_, rs := t.expr(v.Y, kU)
			if lk != kU {
				return t.fail("shift of a signed value")
			}
			if v.Op == token.SHL {
				return kU, "(Go64.shlU " + ls + " " + rs + ")"
			}
			return kU, "(Go64.shrU " + ls + " " + rs + ")"
		}
		// the kind is that of the typed operand
		lk, ls := t.expr(v.X, want)
		rk, rs := t.expr(v.Y, lk)
		if _, isLit := v.X.(*ast.BasicLit); isLit {
			lk, ls = t.expr(v.X, rk)
		}
		if lk != rk {
			return t.fail("operands of %s have different kinds", v.Op)
		}
		sfx := "U"
		if lk == kI {
			sfx = "I"
		}
		switch v.Op {
		case token.OR:
			if lk == kU {
				return kU, "(Go64.orU " + ls + " " + rs + ")"
			}
		case token.AND:
			if lk == kU {
				return kU, "(Go64.andU " + ls + " " + rs + ")"
			}
		case token.ADD:
			return lk, "(Go64.add" + sfx + " " + ls + " " + rs + ")"
		case token.SUB:
			return lk, "(Go64.sub" + sfx + " " + ls + " " + rs + ")"
		case token.MUL:
			return lk, "(Go64.mul" + sfx + " " + ls + " " + rs + ")"
		case token.QUO:
			if lk == kU {
				return kU, "(Go64.divU " + ls + " " + rs + ")"
			}
		case token.REM:
			if lk == kU {
				return kU, "(Go64.modU " + ls + " " + rs + ")"
			}
		}
		return t.fail("operator %s", v.Op)
	}
	return t.fail("expression %T", e)
}

// translateFunc returns the Lean definition of a function, or "" and the reason.
func (t *trans) translateFunc(name string, fd *ast.FuncDecl) (string, []tkind) {
	t.env = map[string]tkind{}
	t.err = ""
	if fd.Recv != nil || fd.Type.Results == nil || len(fd.Type.Results.List) != 1 {
		t.err = "not a plain function with one result"
		return "", nil
	}
	rk, ok := kindOfType(fd.Type.Results.List[0].Type)
	if !ok {
		t.err = "result type"
		return "", nil
	}
	sig := []tkind{rk}
	var params []string
	for _, f := range fd.Type.Params.List {
		k, ok := kindOfType(f.Type)
		if !ok {
			t.err = "parameter type " + exprText(f.Type)
			return "", nil
		}
		ty := "Nat"
		if k == kI {
			ty = "Int"
		}
		for _, n := range f.Names {
			t.env[n.Name] = k
			sig = append(sig, k)
			params = append(params, fmt.Sprintf("(%s : %s)", n.Name, ty))
		}
	}
	var body strings.Builder
	done := false
	for _, st := range fd.Body.List {
		if done {
			t.err = "statement after return"
			break
		}
		switch s := st.(type) {
		case *ast.AssignStmt:
			if len(s.Lhs) != 1 || len(s.Rhs) != 1 {
				t.err = "multiple assignment"
				break
			}
			id, ok := s.Lhs[0].(*ast.Ident)
			if !ok {
				t.err = "assignment to " + exprText(s.Lhs[0])
				break
			}
			switch s.Tok {
			case token.DEFINE:
				k, e := t.expr(s.Rhs[0], kI)
				if _, isLit := s.Rhs[0].(*ast.BasicLit); isLit {
					k, e = t.expr(s.Rhs[0], kI)
				}
				t.env[id.Name] = k
				fmt.Fprintf(&body, "  let %s := %s\n", id.Name, e)
			case token.ASSIGN:
				k0, ok := t.env[id.Name]
				if !ok {
					t.err = "assignment to unknown " + id.Name
					break
				}
				k, e := t.expr(s.Rhs[0], k0)
				if k != k0 {
					t.err = "assignment changes the kind of " + id.Name
				}
				fmt.Fprintf(&body, "  let %s := %s\n", id.Name, e)
			case token.ADD_ASSIGN:
				k0, ok := t.env[id.Name]
				if !ok {
					t.err = "assignment to unknown " + id.Name
					break
				}
				k, e := t.expr(s.Rhs[0], k0)
				if k != k0 {
					t.err = "+= changes the kind of " + id.Name
				}
				sfx := "U"
				if k0 == kI {
					sfx = "I"
				}
				fmt.Fprintf(&body, "  let %s := Go64.add%s %s %s\n", id.Name, sfx, id.Name, e)
			default:
				t.err = "assignment operator " + s.Tok.String()
			}
		case *ast.ReturnStmt:
			if len(s.Results) != 1 {
				t.err = "return with several results"
				break
			}
			k, e := t.expr(s.Results[0], rk)
			if k != rk {
				t.err = "returned kind differs from the result type"
			}
			fmt.Fprintf(&body, "  %s\n", e)
			done = true
		default:
			t.err = fmt.Sprintf("statement %T", st)
		}
		if t.err != "" {
			break
		}
	}
	if t.err == "" && !done {
		t.err = "no return"
	}
	if t.err != "" {
		return "", nil
	}
	rty := "Nat"
	if rk == kI {
		rty = "Int"
	}
	return fmt.Sprintf("def %s %s : %s :=\n%s", leanIdent("fn_"+t.alias+"_"+name), strings.Join(params, " "), rty, body.String()), sig
}

// genFuncs translates the scaled-range arithmetic of rtcm/utils.
func (x *extractor) genFuncs() string {
	var b strings.Builder
	b.WriteString("import Ntrip.Model.Go64\n/-! Generated by /verif/extract (translate.go) from the current source: do not edit. -/\nnamespace Ntrip.Gen\nopen Ntrip\n\n")
	t := &trans{x: x, alias: "utils", known: map[string][]tkind{}}
	for _, name := range []string{"getScaledValue", "GetScaledRange", "GetScaledPhaseRange", "GetScaledPhaseRangeRate"} {
		_, fd := x.fn("utils", name)
		if fd == nil || fd.Body == nil {
			x.problem("utils.%s not found", name)
			fmt.Fprintf(&b, "-- utils.%s: not found\n\n", name)
			continue
		}
		def, sig := t.translateFunc(name, fd)
		if def == "" {
			x.problem("utils.%s not translatable: %s", name, t.err)
			fmt.Fprintf(&b, "-- utils.%s: not translatable (%s)\n\n", name, t.err)
			continue
		}
		t.known[name] = sig
		b.WriteString(def + "\n")
	}
	// the body of the bit-extraction loop
	if _, fd := x.fn("utils", "GetBitsAsUint64"); fd != nil && fd.Body != nil {
		if def := t.translateLoopBody("GetBitsAsUint64", fd); def != "" {
			b.WriteString(def + "\n")
		} else {
			x.problem("utils.GetBitsAsUint64 loop body not translatable: %s", t.err)
			fmt.Fprintf(&b, "-- utils.GetBitsAsUint64 loop body: not translatable (%s)\n\n", t.err)
		}
	}
	// the two's-complement branch of the signed read
	if _, fd := x.fn("utils", "GetBitsAsInt64"); fd != nil && fd.Body != nil {
		if def := t.translateNegBranch("GetBitsAsInt64", fd); def != "" {
			b.WriteString(def + "\n")
		} else {
			x.problem("utils.GetBitsAsInt64 negative branch not translatable: %s", t.err)
			fmt.Fprintf(&b, "-- utils.GetBitsAsInt64 negative branch: not translatable (%s)\n\n", t.err)
		}
	}
	b.WriteString("end Ntrip.Gen\n")
	return b.String()
}

// translateNegBranch translates the body of `if negative { … }` of utils.GetBitsAsInt64 (the
// two's-complement arithmetic) as a function of `uval` and `len`, after checking that the
// statements around it are the two reads and the final conversion the model assumes.
func (t *trans) translateNegBranch(name string, fd *ast.FuncDecl) string {
	t.env = map[string]tkind{}
	t.err = ""
	var lenName string
	if ps := fd.Type.Params.List; len(ps) >= 1 {
		last := ps[len(ps)-1]
		if k, ok := kindOfType(last.Type); ok && k == kU && len(last.Names) >= 1 {
			lenName = last.Names[len(last.Names)-1].Name
		}
	}
	if lenName == "" {
		t.err = "no unsigned length parameter"
		return ""
	}
	var branch *ast.IfStmt
	var shape []string
	for _, st := range fd.Body.List {
		if is, ok := st.(*ast.IfStmt); ok && branch == nil && is.Else == nil && is.Init == nil {
			branch = is
			shape = append(shape, "if "+stmtText(t.x, is.Cond))
			continue
		}
		shape = append(shape, stmtText(t.x, st))
	}
	want := []string{
		"negative := GetBitsAsUint64(buff, pos, 1) == 1",
		"uval := GetBitsAsUint64(buff, pos, " + lenName + ")",
		"if negative",
		"return int64(uval)",
	}
	if strings.Join(shape, " ; ") != strings.Join(want, " ; ") {
		t.err = "statements around the branch are " + strings.Join(shape, " ; ")
		return ""
	}
	t.env["uval"] = kU
	t.env[lenName] = kU
	var body strings.Builder
	done := false
	for _, st := range branch.Body.List {
		if done {
			t.err = "statement after return"
			break
		}
		switch s := st.(type) {
		case *ast.DeclStmt:
			gd, ok := s.Decl.(*ast.GenDecl)
			if !ok || gd.Tok != token.VAR || len(gd.Specs) != 1 {
				t.err = "declaration"
				break
			}
			vs := gd.Specs[0].(*ast.ValueSpec)
			if len(vs.Names) != 1 || len(vs.Values) != 1 || vs.Type == nil {
				t.err = "declaration shape"
				break
			}
			k, ok := kindOfType(vs.Type)
			if !ok {
				t.err = "declared type " + exprText(vs.Type)
				break
			}
			kk, e := t.expr(vs.Values[0], k)
			if kk != k {
				t.err = "initialiser kind of " + vs.Names[0].Name
				break
			}
			t.env[vs.Names[0].Name] = k
			fmt.Fprintf(&body, "  let %s := %s\n", vs.Names[0].Name, e)
		case *ast.AssignStmt:
			id, ok := s.Lhs[0].(*ast.Ident)
			if !ok || len(s.Lhs) != 1 || len(s.Rhs) != 1 || s.Tok != token.DEFINE {
				t.err = "assignment shape"
				break
			}
			k, e := t.expr(s.Rhs[0], kI)
			t.env[id.Name] = k
			fmt.Fprintf(&body, "  let %s := %s\n", id.Name, e)
		case *ast.ReturnStmt:
			if len(s.Results) != 1 {
				t.err = "return with several results"
				break
			}
			k, e := t.expr(s.Results[0], kI)
			if k != kI {
				t.err = "returned kind"
			}
			fmt.Fprintf(&body, "  %s\n", e)
			done = true
		default:
			t.err = fmt.Sprintf("statement %T", st)
		}
		if t.err != "" {
			break
		}
	}
	if t.err == "" && !done {
		t.err = "no return in the branch"
	}
	if t.err != "" {
		return ""
	}
	return fmt.Sprintf("def %s (uval : Nat) (%s : Nat) : Int :=\n%s", leanIdent("fn_"+t.alias+"_"+name+"_neg"), lenName, body.String())
}

// constInt evaluates a package-level integer constant by name.
func (x *extractor) constInt(alias, name string) (string, bool) {
	p := x.byAlias[alias]
	if p == nil {
		return "", false
	}
	if _, ok := p.decls[name]; !ok {
		return "", false
	}
	v, ok := x.eval(p, nil, &ast.Ident{Name: name})
	if !ok {
		return "", false
	}
	s := v.ExactString()
	for _, c := range s {
		if (c < '0' || c > '9') && c != '-' {
			return "", false
		}
	}
	return s, true
}


// translateLoopBody translates the body of the single `for` loop of a function into a Lean step
// function: parameters = the function's parameters (byte slices as lists of byte values), the loop
// variable, and the one variable declared before the loop that the body assigns; result = the new
// value of that variable.  Local constants and `var x T = e` declarations are supported.
func (t *trans) translateLoopBody(name string, fd *ast.FuncDecl) string {
	t.env = map[string]tkind{}
	t.err = ""
	var params []string
	for _, f := range fd.Type.Params.List {
		k, ok := kindOfType(f.Type)
		ty := "Nat"
		if !ok {
			if at, isArr := f.Type.(*ast.ArrayType); isArr && at.Len == nil && exprText(at.Elt) == "byte" {
				k, ty = kB, "List Nat"
			} else {
				t.err = "parameter type " + exprText(f.Type)
				return ""
			}
		} else if k == kI {
			ty = "Int"
		}
		for _, n := range f.Names {
			t.env[n.Name] = k
			params = append(params, fmt.Sprintf("(%s : %s)", n.Name, ty))
		}
	}
	consts := map[string]string{}
	var loop *ast.ForStmt
	for _, st := range fd.Body.List {
		switch s := st.(type) {
		case *ast.DeclStmt:
			gd, ok := s.Decl.(*ast.GenDecl)
			if !ok {
				t.err = "declaration"
				return ""
			}
			for _, sp := range gd.Specs {
				vs := sp.(*ast.ValueSpec)
				if len(vs.Names) != 1 || len(vs.Values) != 1 {
					t.err = "declaration shape"
					return ""
				}
				k := kU
				if vs.Type != nil {
					kk, ok := kindOfType(vs.Type)
					if !ok {
						t.err = "declared type " + exprText(vs.Type)
						return ""
					}
					k = kk
				}
				if gd.Tok == token.CONST {
					_, e := t.expr(vs.Values[0], k)
					consts[vs.Names[0].Name] = e
					t.env[vs.Names[0].Name] = k
				} else {
					t.env[vs.Names[0].Name] = k // a variable declared before the loop: candidate carried variable
				}
			}
		case *ast.ForStmt:
			if loop != nil {
				t.err = "more than one loop"
				return ""
			}
			loop = s
		case *ast.ReturnStmt:
		default:
			t.err = fmt.Sprintf("statement %T before the loop", st)
			return ""
		}
	}
	if loop == nil {
		t.err = "no loop"
		return ""
	}
	init, ok := loop.Init.(*ast.AssignStmt)
	if !ok || len(init.Lhs) != 1 {
		t.err = "loop init"
		return ""
	}
	loopVar := init.Lhs[0].(*ast.Ident).Name
	t.env[loopVar] = kU
	carried := ""
	var body strings.Builder
	for name, e := range consts {
		fmt.Fprintf(&body, "  let %s := %s\n", name, e)
	}
	for _, st := range loop.Body.List {
		switch s := st.(type) {
		case *ast.DeclStmt:
			gd := s.Decl.(*ast.GenDecl)
			for _, sp := range gd.Specs {
				vs := sp.(*ast.ValueSpec)
				if len(vs.Names) != 1 || len(vs.Values) != 1 {
					t.err = "declaration shape in the loop"
					return ""
				}
				k := kU
				if vs.Type != nil {
					kk, ok := kindOfType(vs.Type)
					if !ok {
						t.err = "declared type " + exprText(vs.Type)
						return ""
					}
					k = kk
				}
				ek, e := t.expr(vs.Values[0], k)
				if ek != k {
					t.err = "declaration kind"
					return ""
				}
				t.env[vs.Names[0].Name] = k
				fmt.Fprintf(&body, "  let %s := %s\n", vs.Names[0].Name, e)
			}
		case *ast.AssignStmt:
			if len(s.Lhs) != 1 || len(s.Rhs) != 1 {
				t.err = "multiple assignment in the loop"
				return ""
			}
			id, ok := s.Lhs[0].(*ast.Ident)
			if !ok {
				t.err = "assignment target in the loop"
				return ""
			}
			if s.Tok == token.DEFINE {
				k, e := t.expr(s.Rhs[0], kU)
				t.env[id.Name] = k
				fmt.Fprintf(&body, "  let %s := %s\n", id.Name, e)
			} else if s.Tok == token.ASSIGN {
				k0, known := t.env[id.Name]
				if !known {
					t.err = "assignment to unknown " + id.Name
					return ""
				}
				if carried != "" && carried != id.Name {
					t.err = "more than one carried variable"
					return ""
				}
				carried = id.Name
				k, e := t.expr(s.Rhs[0], k0)
				if k != k0 {
					t.err = "assignment kind"
					return ""
				}
				fmt.Fprintf(&body, "  let %s := %s\n", id.Name, e)
			} else {
				t.err = "assignment operator in the loop"
				return ""
			}
		default:
			t.err = fmt.Sprintf("statement %T in the loop", st)
			return ""
		}
		if t.err != "" {
			return ""
		}
	}
	if carried == "" || t.err != "" {
		if t.err == "" {
			t.err = "no carried variable"
		}
		return ""
	}
	cty := "Nat"
	if t.env[carried] == kI {
		cty = "Int"
	}
	return fmt.Sprintf("def %s %s (%s : Nat) (%s : %s) : %s :=\n%s  %s\n", leanIdent("fn_"+t.alias+"_"+name+"_body"),
		strings.Join(params, " "), loopVar, carried, cty, cty, body.String(), carried)
}
