// extract reads the current working tree of goblimey/go-ntrip (syntax only: go/parser,
// go/ast, go/constant) and writes the facts the Lean development depends on into
// Ntrip/Generated/*.lean.  Files are rewritten only when their content changes, so that
// an unchanged tree costs no rebuild.  A shape the extractor does not understand is
// emitted as `none`, which breaks the dependent proof obligation instead of being ignored.
package main

import (
	"flag"
	"fmt"
	"os"
	"path/filepath"
)

func main() {
	repo := flag.String("repo", "/repo", "go-ntrip working tree")
	out := flag.String("out", "", "output directory (Ntrip/Generated)")
	flag.Parse()
	if *out == "" {
		fmt.Fprintln(os.Stderr, "extract: -out required")
		os.Exit(2)
	}
	x := newExtractor(*repo)
	files := map[string]string{}
	files["Consts.lean"] = x.genConsts()
	files["Tables.lean"] = x.genTables()
	files["Layouts.lean"] = x.genLayouts()
	files["Skeletons.lean"] = x.genSkeletons()
	files["Funcs.lean"] = x.genFuncs()
	changed := 0
	os.MkdirAll(*out, 0o755)
	for name, content := range files {
		p := filepath.Join(*out, name)
		old, err := os.ReadFile(p)
		if err == nil && string(old) == content {
			continue
		}
		if err := os.WriteFile(p, []byte(content), 0o644); err != nil {
			fmt.Fprintln(os.Stderr, "extract:", err)
			os.Exit(1)
		}
		changed++
	}
	fmt.Printf("extract: %d generated files, %d changed, %d unrecognised shapes\n", len(files), changed, len(x.problems))
	for _, p := range x.problems {
		fmt.Println("extract: unrecognised:", p)
	}
}
