package main

import (
	"fmt"
	"go/ast"
	"go/constant"
	"go/token"
	"sort"
	"strconv"
	"strings"
)

// ---- helpers ---------------------------------------------------------------------------

func (x *extractor) fn(alias, name string) (*pkg, *ast.FuncDecl) {
	p := x.byAlias[alias]
	if p == nil {
		return nil, nil
	}
	return p, p.funcs[name]
}

// intOf evaluates an expression to an integer constant.
func (x *extractor) intOf(p *pkg, local scope, e ast.Expr) (int64, bool) {
	v, ok := x.eval(p, local, e)
	if !ok {
		return 0, false
	}
	v = constant.ToInt(v)
	if v.Kind() != constant.Int {
		return 0, false
	}
	n, ok := constant.Int64Val(v)
	return n, ok
}

// findSwitch returns the first switch statement (with a tag) in a function body.
func findSwitch(fd *ast.FuncDecl) *ast.SwitchStmt {
	var sw *ast.SwitchStmt
	if fd == nil || fd.Body == nil {
		return nil
	}
	ast.Inspect(fd.Body, func(n ast.Node) bool {
		if sw != nil {
			return false
		}
		if s, ok := n.(*ast.SwitchStmt); ok {
			sw = s
			return false
		}
		return true
	})
	return sw
}

type caseRow struct {
	keys    []int64
	strKeys []string
	body    string
	deflt   bool
}

// switchRows summarises each clause of a switch with `summ`.
func (x *extractor) switchRows(p *pkg, fd *ast.FuncDecl, summ func(body []ast.Stmt) string) ([]caseRow, bool) {
	sw := findSwitch(fd)
	if sw == nil || sw.Tag == nil {
		return nil, false
	}
	var rows []caseRow
	for _, st := range sw.Body.List {
		cc := st.(*ast.CaseClause)
		row := caseRow{body: summ(cc.Body), deflt: cc.List == nil}
		for _, e := range cc.List {
			if n, ok := x.intOf(p, nil, e); ok {
				row.keys = append(row.keys, n)
			} else if bl, ok := e.(*ast.BasicLit); ok && bl.Kind == token.STRING {
				s, _ := strconv.Unquote(bl.Value)
				row.strKeys = append(row.strKeys, s)
			} else {
				return nil, false
			}
		}
		rows = append(rows, row)
	}
	return rows, true
}

func leanIntList(ns []int64) string {
	var parts []string
	for _, n := range ns {
		parts = append(parts, strconv.FormatInt(n, 10))
	}
	return "[" + strings.Join(parts, ", ") + "]"
}

// exprText renders simple expressions (identifiers, selectors, literals, calls by name).
func exprText(e ast.Expr) string {
	switch e := e.(type) {
	case *ast.Ident:
		return e.Name
	case *ast.SelectorExpr:
		return exprText(e.X) + "." + e.Sel.Name
	case *ast.BasicLit:
		if e.Kind == token.STRING {
			s, _ := strconv.Unquote(e.Value)
			return s
		}
		return e.Value
	case *ast.CallExpr:
		return exprText(e.Fun) + "()"
	case *ast.StarExpr:
		return "*" + exprText(e.X)
	case *ast.UnaryExpr:
		return e.Op.String() + exprText(e.X)
	case *ast.ParenExpr:
		return "(" + exprText(e.X) + ")"
	case *ast.IndexExpr:
		return exprText(e.X) + "[" + exprText(e.Index) + "]"
	case *ast.BinaryExpr:
		return exprText(e.X) + e.Op.String() + exprText(e.Y)
	case *ast.SliceExpr:
		lo, hi := "", ""
		if e.Low != nil {
			lo = exprText(e.Low)
		}
		if e.High != nil {
			hi = exprText(e.High)
		}
		return exprText(e.X) + "[" + lo + ":" + hi + "]"
	}
	return "?"
}

// ---- genTables -------------------------------------------------------------------------

func (x *extractor) genTables() string {
	var b strings.Builder
	b.WriteString(header)
	b.WriteString("namespace Ntrip.Gen\n\n")

	// MSM4MessageTypes / MSM7MessageTypes: keys assigned in utils.init
	up, initFn := x.fn("utils", "init")
	for _, mapName := range []string{"MSM4MessageTypes", "MSM7MessageTypes"} {
		var keys []int64
		ok := initFn != nil
		made := false
		if ok {
			ast.Inspect(initFn.Body, func(n ast.Node) bool {
				as, isAs := n.(*ast.AssignStmt)
				if !isAs || len(as.Lhs) != 1 {
					return true
				}
				if id, isId := as.Lhs[0].(*ast.Ident); isId && id.Name == mapName {
					made = true // the make(...)
					return true
				}
				ix, isIx := as.Lhs[0].(*ast.IndexExpr)
				if !isIx {
					return true
				}
				if id, isId := ix.X.(*ast.Ident); isId && id.Name == mapName {
					n, okk := x.intOf(up, nil, ix.Index)
					if !okk {
						ok = false
					}
					keys = append(keys, n)
				}
				return true
			})
		}
		// any other write to the map anywhere in the package (outside init) breaks the shape
		for name, fd := range up.funcs {
			if name == "init" || fd.Body == nil {
				continue
			}
			ast.Inspect(fd.Body, func(n ast.Node) bool {
				if as, isAs := n.(*ast.AssignStmt); isAs {
					for _, l := range as.Lhs {
						if strings.HasPrefix(exprText(l), mapName) {
							ok = false
						}
					}
				}
				if ce, isCall := n.(*ast.CallExpr); isCall {
					if id, isId := ce.Fun.(*ast.Ident); isId && id.Name == "delete" && len(ce.Args) > 0 && exprText(ce.Args[0]) == mapName {
						ok = false
					}
				}
				return true
			})
		}
		if ok && made {
			fmt.Fprintf(&b, "def utils_%s : Option (List Int) := some %s\n", mapName, leanIntList(keys))
		} else {
			x.problem("utils.%s: assignments in init not recognised", mapName)
			fmt.Fprintf(&b, "def utils_%s : Option (List Int) := none\n", mapName)
		}
	}
	// shape of MSM4 / MSM7 / MSM predicates
	for _, f := range []string{"MSM4", "MSM7", "MSM"} {
		_, fd := x.fn("utils", f)
		shape := "?"
		if fd != nil && fd.Body != nil {
			var parts []string
			for _, st := range fd.Body.List {
				switch s := st.(type) {
				case *ast.AssignStmt:
					parts = append(parts, exprText(s.Rhs[0]))
				case *ast.ReturnStmt:
					if len(s.Results) == 1 {
						parts = append(parts, "return "+exprText(s.Results[0]))
					}
				}
			}
			shape = strings.Join(parts, "; ")
		}
		fmt.Fprintf(&b, "def utils_%s_shape : String := %s\n", f, leanString(shape))
	}
	b.WriteString("\n")

	// GetConstellation
	{
		p, fd := x.fn("utils", "GetConstellation")
		rows, ok := x.switchRows(p, fd, func(body []ast.Stmt) string {
			if len(body) == 1 {
				if as, isAs := body[0].(*ast.AssignStmt); isAs && len(as.Rhs) == 1 {
					if bl, isLit := as.Rhs[0].(*ast.BasicLit); isLit && bl.Kind == token.STRING {
						s, _ := strconv.Unquote(bl.Value)
						return s
					}
				}
			}
			return "\x00"
		})
		x.emitIntStringTable(&b, "utils_GetConstellation", rows, ok)
	}
	// header.getMSMType accept list
	{
		p, fd := x.fn("header", "getMSMType")
		rows, ok := x.switchRows(p, fd, func(body []ast.Stmt) string {
			if len(body) == 1 {
				if _, isBr := body[0].(*ast.BranchStmt); isBr {
					return "accept"
				}
			}
			for _, st := range body {
				if _, isRet := st.(*ast.ReturnStmt); isRet {
					return "reject"
				}
			}
			return "\x00"
		})
		x.emitIntStringTable(&b, "header_getMSMType", rows, ok)
	}
	// handler.getTimeFromTimeStamp: type -> conversion method
	{
		p, fd := x.fn("handler", "Handler.getTimeFromTimeStamp")
		rows, ok := x.switchRows(p, fd, func(body []ast.Stmt) string {
			if len(body) >= 1 {
				if as, isAs := body[0].(*ast.AssignStmt); isAs && len(as.Rhs) == 1 {
					if ce, isCall := as.Rhs[0].(*ast.CallExpr); isCall {
						if se, isSel := ce.Fun.(*ast.SelectorExpr); isSel {
							return se.Sel.Name
						}
					}
				}
				if rs, isRet := body[len(body)-1].(*ast.ReturnStmt); isRet && len(rs.Results) == 2 {
					if ce, isCall := rs.Results[1].(*ast.CallExpr); isCall && strings.HasSuffix(exprText(ce.Fun), "errors.New") {
						return "error"
					}
				}
			}
			return "\x00"
		})
		x.emitIntStringTable(&b, "handler_getTimeFromTimeStamp", rows, ok)
		rp := fd != nil && recvIsPointer(fd)
		fmt.Fprintf(&b, "def handler_getTimeFromTimeStamp_ptrRecv : Bool := %v\n", rp)
	}
	// handler.getStartOfWeek: type -> field
	{
		p, fd := x.fn("handler", "Handler.getStartOfWeek")
		rows, ok := x.switchRows(p, fd, func(body []ast.Stmt) string {
			if len(body) >= 1 {
				if rs, isRet := body[len(body)-1].(*ast.ReturnStmt); isRet && len(rs.Results) == 2 {
					if se, isSel := rs.Results[0].(*ast.SelectorExpr); isSel {
						return se.Sel.Name
					}
					return "error"
				}
			}
			return "\x00"
		})
		x.emitIntStringTable(&b, "handler_getStartOfWeek", rows, ok)
	}
	// receivers through which the time state is updated
	{
		p := x.byAlias["handler"]
		for _, m := range []string{"getTimeDisplayFromTimestamp", "getStartTimeDisplay", "GetMessage", "getUTCFromGPSTime",
			"getUTCFromGalileoTime", "getUTCFromBeidouTime", "getUTCFromGlonassTime", "HandleMessages", "FetchNextMessageFrame"} {
			fd := p.funcs["Handler."+m]
			if fd == nil {
				x.problem("handler.Handler.%s not found", m)
				fmt.Fprintf(&b, "def handler_%s_ptrRecv : Option Bool := none\n", m)
				continue
			}
			fmt.Fprintf(&b, "def handler_%s_ptrRecv : Option Bool := some %v\n", m, recvIsPointer(fd))
		}
		// the arguments of getUTCFromTimestamp(...) in the three week-based conversions,
		// and the fields assigned afterwards
		for _, m := range []string{"getUTCFromGPSTime", "getUTCFromGalileoTime", "getUTCFromBeidouTime"} {
			fd := p.funcs["Handler."+m]
			var args []string
			var writes []string
			if fd != nil && fd.Body != nil {
				ast.Inspect(fd.Body, func(n ast.Node) bool {
					if ce, ok := n.(*ast.CallExpr); ok && exprText(ce.Fun) == "getUTCFromTimestamp" {
						for _, a := range ce.Args {
							t := exprText(a)
							if i := strings.LastIndex(t, "."); i >= 0 {
								t = t[i+1:]
							}
							args = append(args, t)
						}
					}
					if as, ok := n.(*ast.AssignStmt); ok && as.Tok == token.ASSIGN && len(as.Lhs) == 1 {
						if se, ok := as.Lhs[0].(*ast.SelectorExpr); ok {
							writes = append(writes, se.Sel.Name+"="+exprText(as.Rhs[0]))
						}
					}
					return true
				})
			}
			fmt.Fprintf(&b, "def handler_%s_args : List String := [%s]\n", m, quoteJoin(args))
			fmt.Fprintf(&b, "def handler_%s_writes : List String := [%s]\n", m, quoteJoin(writes))
		}
		// New: how the stored timestamps are initialised
		fd := p.funcs["New"]
		for _, v := range []string{"timestampFromPreviousGPSMessage", "timestampFromPreviousGalileoMessage", "timestampFromPreviousBeidouMessage"} {
			shape := "unknown"
			if fd != nil && fd.Body != nil {
				for _, st := range fd.Body.List {
					var rhs ast.Expr
					switch s := st.(type) {
					case *ast.AssignStmt:
						if len(s.Lhs) == 1 && exprText(s.Lhs[0]) == v && len(s.Rhs) == 1 {
							rhs = s.Rhs[0]
						}
					case *ast.DeclStmt:
						if gd, ok := s.Decl.(*ast.GenDecl); ok {
							for _, sp := range gd.Specs {
								if vs, ok := sp.(*ast.ValueSpec); ok && len(vs.Names) == 1 && vs.Names[0].Name == v {
									if len(vs.Values) == 1 {
										rhs = vs.Values[0]
									} else if len(vs.Values) == 0 {
										shape = "zero"
									}
								}
							}
						}
					}
					if rhs != nil {
						t := exprText(rhs)
						switch {
						case t == "0" || t == "uint()" && false:
							shape = "zero"
						case strings.Contains(t, "startTime.Sub") || strings.HasPrefix(t, "(uint()") || strings.HasPrefix(t, "uint()"):
							// uint(startTime.Sub(startOfXWeek).Milliseconds())
							shape = "fromStart:" + firstArgOfSub(rhs)
						case t == "timestampFromPreviousGPSMessage":
							shape = "sameAsGPS"
						default:
							if n, ok := x.intOf(p, nil, rhs); ok && n == 0 {
								shape = "zero"
							} else {
								shape = "unknown:" + t
							}
						}
					}
				}
			}
			fmt.Fprintf(&b, "def handler_New_%s : String := %s\n", v, leanString(shape))
		}
	}
	b.WriteString("\n")

	// frequency switches
	for _, c := range []string{"GPS", "Galileo", "Glonass", "Beidou"} {
		p, fd := x.fn("utils", "getSignalFrequency"+c)
		ok := fd != nil
		type fr struct {
			k   int64
			val string
		}
		var out []fr
		deflt := ""
		if ok {
			rows, ok2 := x.switchRows(p, fd, func(body []ast.Stmt) string {
				if len(body) == 1 {
					if rs, isRet := body[0].(*ast.ReturnStmt); isRet && len(rs.Results) == 1 {
						if v, okv := x.eval(p, nil, rs.Results[0]); okv {
							// frequencies are whole numbers of Hz: emitted as integers
							iv := constant.ToInt(v)
							if iv.Kind() == constant.Int {
								return iv.ExactString()
							}
						}
					}
				}
				return "\x00"
			})
			ok = ok2
			for _, r := range rows {
				if r.body == "\x00" {
					ok = false
				}
				if r.deflt {
					deflt = r.body
				}
				for _, k := range r.keys {
					out = append(out, fr{k, r.body})
				}
			}
		}
		if ok && deflt != "" {
			var parts []string
			for _, e := range out {
				parts = append(parts, fmt.Sprintf("(%d, %s)", e.k, e.val))
			}
			fmt.Fprintf(&b, "def utils_getSignalFrequency%s : Option (List (Nat × Int) × Int) := some ([%s], %s)\n", c, strings.Join(parts, ", "), deflt)
		} else {
			x.problem("utils.getSignalFrequency%s: switch not recognised", c)
			fmt.Fprintf(&b, "def utils_getSignalFrequency%s : Option (List (Nat × Int) × Int) := none\n", c)
		}
	}
	// GetSignalWavelength dispatch on the constellation name
	{
		p, fd := x.fn("utils", "GetSignalWavelength")
		rows, ok := x.switchRows(p, fd, func(body []ast.Stmt) string {
			if len(body) == 1 {
				if rs, isRet := body[0].(*ast.ReturnStmt); isRet && len(rs.Results) == 1 {
					return exprText(rs.Results[0])
				}
			}
			return "\x00"
		})
		var parts []string
		deflt := ""
		for _, r := range rows {
			if r.body == "\x00" {
				ok = false
			}
			if r.deflt {
				deflt = r.body
			}
			for _, k := range r.strKeys {
				parts = append(parts, fmt.Sprintf("(%s, %s)", leanString(k), leanString(r.body)))
			}
		}
		if ok {
			fmt.Fprintf(&b, "def utils_GetSignalWavelength : Option (List (String × String) × String) := some ([%s], %s)\n", strings.Join(parts, ", "), leanString(deflt))
		} else {
			x.problem("utils.GetSignalWavelength: switch not recognised")
			b.WriteString("def utils_GetSignalWavelength : Option (List (String × String) × String) := none\n")
		}
		// the wavelength helpers: SpeedOfLightMS / frequency, 0 when the frequency is 0
		for _, c := range []string{"GPS", "Galileo", "Glonass", "Beidou"} {
			_, fd := x.fn("utils", "getSignalWavelength"+c)
			shape := "?"
			if fd != nil && fd.Body != nil {
				var ss []string
				for _, st := range fd.Body.List {
					switch s := st.(type) {
					case *ast.AssignStmt:
						ss = append(ss, exprText(s.Lhs[0])+":="+exprText(s.Rhs[0]))
					case *ast.IfStmt:
						ss = append(ss, "if "+exprText(s.Cond)+" {"+stmtsText(s.Body.List)+"}")
					case *ast.ReturnStmt:
						ss = append(ss, "return "+exprText(s.Results[0]))
					}
				}
				shape = strings.Join(ss, "; ")
			}
			fmt.Fprintf(&b, "def utils_getSignalWavelength%s_shape : String := %s\n", c, leanString(shape))
		}
	}
	b.WriteString("\n")

	// Analyse: the shape of the dispatch
	{
		_, fd := x.fn("handler", "Analyse")
		var parts []string
		ok := false
		if fd != nil && fd.Body != nil {
			ast.Inspect(fd.Body, func(n ast.Node) bool {
				sw, isSw := n.(*ast.SwitchStmt)
				if !isSw || sw.Tag != nil {
					return true
				}
				ok = true
				for _, st := range sw.Body.List {
					cc := st.(*ast.CaseClause)
					cond := "default"
					if len(cc.List) == 1 {
						cond = exprText(cc.List[0])
					} else if len(cc.List) > 1 {
						ok = false
					}
					act := "?"
					if len(cc.Body) >= 1 {
						switch s := cc.Body[0].(type) {
						case *ast.ExprStmt:
							if ce, isCall := s.X.(*ast.CallExpr); isCall {
								act = "call " + exprText(ce.Fun)
							}
						case *ast.AssignStmt:
							act = "text"
						}
					}
					parts = append(parts, fmt.Sprintf("(%s, %s)", leanString(cond), leanString(act)))
				}
				return false
			})
		}
		if ok {
			fmt.Fprintf(&b, "def handler_Analyse : Option (List (String × String)) := some [%s]\n", strings.Join(parts, ", "))
		} else {
			x.problem("handler.Analyse: switch not recognised")
			b.WriteString("def handler_Analyse : Option (List (String × String)) := none\n")
		}
	}
	// msm4/msm7 message.GetMessage: which predicate gates the decoder family
	for _, a := range []string{"msg4", "msg7"} {
		_, fd := x.fn(a, "GetMessage")
		gate := "?"
		if fd != nil && fd.Body != nil {
			for _, st := range fd.Body.List {
				if is, ok := st.(*ast.IfStmt); ok {
					t := exprText(is.Cond)
					if strings.Contains(t, "utils.MSM") {
						gate = t
					}
				}
			}
		}
		fmt.Fprintf(&b, "def %s_GetMessage_gate : String := %s\n", a, leanString(gate))
	}
	// GetTitleAndComment: keys of the map literal and whether each title is non-empty
	{
		p, fd := x.fn("utils", "GetTitleAndComment")
		ok := false
		type tk struct {
			k        int64
			nonEmpty bool
		}
		var keys []tk
		if fd != nil && fd.Body != nil {
			ast.Inspect(fd.Body, func(n ast.Node) bool {
				cl, isCl := n.(*ast.CompositeLit)
				if !isCl {
					return true
				}
				if _, isMap := cl.Type.(*ast.MapType); !isMap {
					return true
				}
				ok = true
				for _, el := range cl.Elts {
					kv, isKv := el.(*ast.KeyValueExpr)
					if !isKv {
						ok = false
						continue
					}
					k, okk := x.intOf(p, nil, kv.Key)
					if !okk {
						ok = false
						continue
					}
					ne := false
					if v, isV := kv.Value.(*ast.CompositeLit); isV && len(v.Elts) >= 1 {
						first := v.Elts[0]
						if kv2, isKv2 := first.(*ast.KeyValueExpr); isKv2 {
							for _, e2 := range v.Elts {
								if kk, ok3 := e2.(*ast.KeyValueExpr); ok3 && exprText(kk.Key) == "Title" {
									first = kk.Value
								}
							}
							_ = kv2
						}
						if bl, isLit := first.(*ast.BasicLit); isLit && bl.Kind == token.STRING {
							s, _ := strconv.Unquote(bl.Value)
							ne = len(s) > 0
						}
					}
					keys = append(keys, tk{k, ne})
				}
				return false
			})
		}
		// the fallback for unknown types
		fallback := "?"
		if fd != nil && fd.Body != nil {
			for _, st := range fd.Body.List {
				if is, isIf := st.(*ast.IfStmt); isIf {
					fallback = "if " + exprText(is.Cond) + " {" + stmtsText(is.Body.List) + "}"
				}
			}
		}
		if ok {
			sort.Slice(keys, func(i, j int) bool { return keys[i].k < keys[j].k })
			var parts []string
			for _, k := range keys {
				parts = append(parts, fmt.Sprintf("(%d, %v)", k.k, k.nonEmpty))
			}
			fmt.Fprintf(&b, "def utils_titleKeys : Option (List (Int × Bool)) := some [%s]\n", strings.Join(parts, ", "))
		} else {
			x.problem("utils.GetTitleAndComment: map literal not recognised")
			b.WriteString("def utils_titleKeys : Option (List (Int × Bool)) := none\n")
		}
		fmt.Fprintf(&b, "def utils_title_fallback : String := %s\n", leanString(fallback))
	}
	b.WriteString("\nend Ntrip.Gen\n")
	return b.String()
}

func firstArgOfSub(e ast.Expr) string {
	res := "?"
	ast.Inspect(e, func(n ast.Node) bool {
		if ce, ok := n.(*ast.CallExpr); ok {
			if se, ok := ce.Fun.(*ast.SelectorExpr); ok && se.Sel.Name == "Sub" && len(ce.Args) == 1 {
				res = exprText(ce.Args[0])
			}
		}
		return true
	})
	return res
}

func stmtsText(ss []ast.Stmt) string {
	var parts []string
	for _, st := range ss {
		switch s := st.(type) {
		case *ast.AssignStmt:
			parts = append(parts, exprText(s.Lhs[0])+s.Tok.String()+exprText(s.Rhs[0]))
		case *ast.ReturnStmt:
			var rs []string
			for _, r := range s.Results {
				rs = append(rs, exprText(r))
			}
			parts = append(parts, "return "+strings.Join(rs, ","))
		case *ast.ExprStmt:
			parts = append(parts, exprText(s.X))
		default:
			parts = append(parts, "?")
		}
	}
	return strings.Join(parts, "; ")
}

func quoteJoin(ss []string) string {
	var parts []string
	for _, s := range ss {
		parts = append(parts, leanString(s))
	}
	return strings.Join(parts, ", ")
}

func (x *extractor) emitIntStringTable(b *strings.Builder, name string, rows []caseRow, ok bool) {
	var parts []string
	deflt := "\x00"
	for _, r := range rows {
		if r.body == "\x00" {
			ok = false
		}
		if r.deflt {
			deflt = r.body
		}
		for _, k := range r.keys {
			parts = append(parts, fmt.Sprintf("(%d, %s)", k, leanString(r.body)))
		}
	}
	if !ok || deflt == "\x00" {
		x.problem("%s: switch not recognised", name)
		fmt.Fprintf(b, "def %s : Option (List (Int × String) × String) := none\n", name)
		return
	}
	fmt.Fprintf(b, "def %s : Option (List (Int × String) × String) := some ([%s], %s)\n", name, strings.Join(parts, ", "), leanString(deflt))
}
