package main

import (
	"fmt"
	"go/ast"
	"strings"
)

type fieldRead struct {
	name   string // variable the value is assigned to
	signed bool
	width  int64
	inLoop bool
}

// bitReads lists, in source order, every utils.GetBitsAsUint64/Int64(bitStream, pos, W) call
// of a function together with the variable it is assigned to and whether it sits in a loop.
func (x *extractor) bitReads(p *pkg, fd *ast.FuncDecl) ([]fieldRead, bool) {
	if fd == nil || fd.Body == nil {
		return nil, false
	}
	local := localConsts(fd)
	var out []fieldRead
	ok := true
	var walk func(n ast.Node, inLoop bool)
	handleAssign := func(as *ast.AssignStmt, inLoop bool) {
		if len(as.Rhs) != 1 {
			return
		}
		var call *ast.CallExpr
		ast.Inspect(as.Rhs[0], func(n ast.Node) bool {
			if ce, isCall := n.(*ast.CallExpr); isCall {
				t := exprText(ce.Fun)
				if t == "utils.GetBitsAsUint64" || t == "utils.GetBitsAsInt64" {
					call = ce
					return false
				}
			}
			return true
		})
		if call == nil {
			return
		}
		if len(call.Args) != 3 {
			ok = false
			return
		}
		w, okw := x.intOf(p, local, call.Args[2])
		if !okw {
			// a width that is not a constant (the cell mask): recorded with width -1
			w = -1
		}
		name := exprText(as.Lhs[0])
		out = append(out, fieldRead{name: name, signed: exprText(call.Fun) == "utils.GetBitsAsInt64", width: w, inLoop: inLoop})
	}
	walk = func(n ast.Node, inLoop bool) {
		switch s := n.(type) {
		case *ast.BlockStmt:
			for _, st := range s.List {
				walk(st, inLoop)
			}
		case *ast.AssignStmt:
			handleAssign(s, inLoop)
		case *ast.ForStmt:
			walk(s.Body, true)
		case *ast.RangeStmt:
			walk(s.Body, true)
		case *ast.IfStmt:
			walk(s.Body, inLoop)
			if s.Else != nil {
				walk(s.Else, inLoop)
			}
		}
	}
	walk(fd.Body, false)
	return out, ok
}

func emitLayout(b *strings.Builder, name string, reads []fieldRead, ok bool, filter func(fieldRead) bool) {
	if !ok {
		fmt.Fprintf(b, "def %s : Option (List (String × Bool × Int)) := none\n", name)
		return
	}
	var parts []string
	for _, r := range reads {
		if filter != nil && !filter(r) {
			continue
		}
		parts = append(parts, fmt.Sprintf("(%s, %v, %d)", leanString(r.name), r.signed, r.width))
	}
	fmt.Fprintf(b, "def %s : Option (List (String × Bool × Int)) := some [%s]\n", name, strings.Join(parts, ", "))
}

// genLayouts writes the ordered field layouts of the decoders: (variable, signed, width).
func (x *extractor) genLayouts() string {
	var b strings.Builder
	b.WriteString(header)
	b.WriteString("namespace Ntrip.Gen\n\n")
	for _, a := range []string{"t1005", "t1006"} {
		p, fd := x.fn(a, "GetMessage")
		reads, ok := x.bitReads(p, fd)
		if fd == nil {
			x.problem("%s.GetMessage not found", a)
		}
		emitLayout(&b, a+"_layout", reads, ok && fd != nil, nil)
	}
	{
		p, fd := x.fn("header", "getMSMType")
		r1, ok1 := x.bitReads(p, fd)
		p2, fd2 := x.fn("header", "GetMSMHeader")
		r2, ok2 := x.bitReads(p2, fd2)
		emitLayout(&b, "header_layout", append(r1, r2...), ok1 && ok2 && fd != nil && fd2 != nil, nil)
	}
	for _, a := range []string{"sat4", "sat7"} {
		p, fd := x.fn(a, "GetSatelliteCells")
		reads, ok := x.bitReads(p, fd)
		emitLayout(&b, a+"_columns", reads, ok && fd != nil, func(r fieldRead) bool { return r.inLoop })
	}
	for _, a := range []string{"sig4", "sig7"} {
		p, fd := x.fn(a, "GetSignalCells")
		reads, ok := x.bitReads(p, fd)
		emitLayout(&b, a+"_columns", reads, ok && fd != nil, func(r fieldRead) bool { return r.inLoop })
	}
	// how the signal readers obtain the number of cells (the stride of the column arrays)
	for _, a := range []string{"sig4", "sig7"} {
		_, fd := x.fn(a, "GetSignalCells")
		src := "?"
		if fd != nil && fd.Body != nil {
			for _, st := range fd.Body.List {
				if as, ok := st.(*ast.AssignStmt); ok && len(as.Lhs) == 1 && exprText(as.Lhs[0]) == "numSignalCells" {
					src = exprText(as.Rhs[0])
				}
			}
		}
		fmt.Fprintf(&b, "def %s_numSignalCells_source : String := %s\n", a, leanString(src))
	}
	b.WriteString("\nend Ntrip.Gen\n")
	return b.String()
}
