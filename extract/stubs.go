package main

func (x *extractor) genSkeletons() string { return header + "namespace Ntrip.Gen\nend Ntrip.Gen\n" }
