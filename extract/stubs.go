package main

import "strings"

func (x *extractor) genSkeletons() string {
	var b strings.Builder
	b.WriteString(header)
	b.WriteString("namespace Ntrip.Gen\n\n")
	x.genSkeletonsDisplay(&b)
	b.WriteString("\n")
	x.genSkeletonsConc(&b)
	b.WriteString("\n")
	x.genGuards(&b)
	b.WriteString("\n")
	x.genGlobals(&b)
	b.WriteString("\nend Ntrip.Gen\n")
	return b.String()
}
