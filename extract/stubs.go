package main

func (x *extractor) genTables() string    { return header + "namespace Ntrip.Gen\nend Ntrip.Gen\n" }
func (x *extractor) genLayouts() string   { return header + "namespace Ntrip.Gen\nend Ntrip.Gen\n" }
func (x *extractor) genSkeletons() string { return header + "namespace Ntrip.Gen\nend Ntrip.Gen\n" }
