package main

func (x *extractor) genLayouts() string   { return header + "namespace Ntrip.Gen\nend Ntrip.Gen\n" }
func (x *extractor) genSkeletons() string { return header + "namespace Ntrip.Gen\nend Ntrip.Gen\n" }
