package main

import (
	"fmt"
	"go/ast"
	"go/token"
	"sort"
	"strings"
)

// concEvents lists, in source order, the concurrency-relevant statements of a function:
// channel creations (with capacity), go statements, sends, receives, closes, deferred closes,
// sync calls (Lock/Unlock/RLock/RUnlock/Wait/Add/Done), returns.
func concEvents(fd *ast.FuncDecl) []string {
	var ev []string
	if fd == nil || fd.Body == nil {
		return nil
	}
	var walk func(n ast.Node)
	call := func(ce *ast.CallExpr, deferred bool) {
		name := exprText(ce.Fun)
		pre := ""
		if deferred {
			pre = "defer "
		}
		switch {
		case name == "close()" || name == "close":
			ev = append(ev, pre+"close "+exprText(ce.Args[0]))
		case strings.HasSuffix(name, ".Lock") || strings.HasSuffix(name, ".Unlock") || strings.HasSuffix(name, ".RLock") ||
			strings.HasSuffix(name, ".RUnlock") || strings.HasSuffix(name, ".Wait") || strings.HasSuffix(name, ".Done") || strings.HasSuffix(name, ".Add") && strings.Contains(name, "riters"):
			ev = append(ev, pre+"sync "+name)
		}
	}
	walk = func(n ast.Node) {
		ast.Inspect(n, func(n ast.Node) bool {
			switch s := n.(type) {
			case *ast.FuncLit:
				ev = append(ev, "func{")
				walk(s.Body)
				ev = append(ev, "}")
				return false
			case *ast.GoStmt:
				if fl, ok := s.Call.Fun.(*ast.FuncLit); ok {
					ev = append(ev, "go func{")
					walk(fl.Body)
					ev = append(ev, "}")
				} else {
					ev = append(ev, "go "+exprText(s.Call.Fun))
				}
				return false
			case *ast.DeferStmt:
				if fl, ok := s.Call.Fun.(*ast.FuncLit); ok {
					ev = append(ev, "defer func{")
					walk(fl.Body)
					ev = append(ev, "}")
				} else {
					call(s.Call, true)
				}
				return false
			case *ast.SendStmt:
				ev = append(ev, "send "+exprText(s.Chan))
			case *ast.UnaryExpr:
				if s.Op == token.ARROW {
					ev = append(ev, "recv "+exprText(s.X))
				}
			case *ast.CallExpr:
				if id, ok := s.Fun.(*ast.Ident); ok && id.Name == "make" && len(s.Args) >= 1 {
					if _, isChan := s.Args[0].(*ast.ChanType); isChan {
						cp := "0"
						if len(s.Args) == 2 {
							cp = exprText(s.Args[1])
						}
						ev = append(ev, "makechan cap="+cp)
					}
				} else if id, ok := s.Fun.(*ast.Ident); ok && id.Name == "close" {
					ev = append(ev, "close "+exprText(s.Args[0]))
				} else {
					call(s, false)
				}
			case *ast.ReturnStmt:
				ev = append(ev, "return")
			case *ast.ForStmt:
				ev = append(ev, "for")
			case *ast.RangeStmt:
				ev = append(ev, "range "+exprText(s.X))
			}
			return true
		})
	}
	walk(fd.Body)
	return ev
}

func (x *extractor) genSkeletonsConc(b *strings.Builder) {
	type fn struct{ alias, name string }
	fns := []fn{
		{"handler", "Handler.HandleMessages"}, {"pushback", "ByteChannel.get"},
		{"fh", "Handler.Handle"}, {"appcore", "AppCore.HandleMessagesUntilEOF"},
		{"display", "HandleMessages"}, {"display", "DisplayMessages"},
		{"filter", "HandleMessages"}, {"filter", "writeRTCMMessages"}, {"filter", "writeReadableMessages"},
		{"logger", "start"}, {"logger", "readAndWrite"}, {"logger", "recorder"},
		{"proxy", "start"}, {"proxy", "handleMessages"}, {"proxy", "handleClientMessages"}, {"proxy", "handleServerMessages"}, {"proxy", "keepCircularQueueUpdated"},
		{"cq", "CircularQueue.Add"}, {"cq", "CircularQueue.GetMessages"}, {"cq", "CircularQueue.getKeysInAscendingOrder"}, {"cq", "NewCircularQueue"},
		{"rf", "ReportFeed.Status"}, {"rf", "ReportFeed.RecordClientBuffer"}, {"rf", "ReportFeed.RecordServerBuffer"},
	}
	for _, f := range fns {
		_, fd := x.fn(f.alias, f.name)
		name := leanIdent("skeleton_" + f.alias + "_" + f.name)
		if fd == nil {
			x.problem("%s.%s not found", f.alias, f.name)
			fmt.Fprintf(b, "def %s : Option (List String) := none\n", name)
			continue
		}
		fmt.Fprintf(b, "def %s : Option (List String) := some [%s]\n", name, quoteJoin(concEvents(fd)))
	}
	// what is handed over on channels (value semantics vs a shared buffer): for each send in the
	// functions whose model assumes a private copy / a single byte, the sent expression, how a sent
	// identifier was defined, and the copy() calls into it
	for _, f := range []fn{{"logger", "readAndWrite"}, {"proxy", "handleClientMessages"}, {"fh", "Handler.Handle"}, {"filter", "writeRTCMMessages"}} {
		_, fd := x.fn(f.alias, f.name)
		name := leanIdent("sent_" + f.alias + "_" + f.name)
		if fd == nil || fd.Body == nil {
			fmt.Fprintf(b, "def %s : Option (List String) := none\n", name)
			continue
		}
		fmt.Fprintf(b, "def %s : Option (List String) := some [%s]\n", name, quoteJoin(sentValues(fd)))
	}
	// which functions of the circular_queue package touch Items / NextIndex at all
	if p := x.byAlias["cq"]; p != nil {
		var users []string
		for name, fd := range p.funcs {
			if fd.Body == nil {
				continue
			}
			uses := false
			ast.Inspect(fd.Body, func(n ast.Node) bool {
				if se, ok := n.(*ast.SelectorExpr); ok && (se.Sel.Name == "Items" || se.Sel.Name == "NextIndex") {
					uses = true
				}
				return true
			})
			if uses {
				users = append(users, name)
			}
		}
		sort.Strings(users)
		fmt.Fprintf(b, "def cq_state_users : List String := [%s]\n", quoteJoin(users))
	}
	// Status: the arguments of the final Sprintf and how each was produced
	if p, fd := x.fn("rf", "ReportFeed.Status"); fd != nil && fd.Body != nil {
		_ = p
		assigns := map[string][]string{}
		var holes []string
		ast.Inspect(fd.Body, func(n ast.Node) bool {
			switch s := n.(type) {
			case *ast.AssignStmt:
				if len(s.Lhs) == 1 && len(s.Rhs) == 1 {
					v := exprText(s.Lhs[0])
					assigns[v] = append(assigns[v], s.Tok.String()+" "+exprText(s.Rhs[0]))
				}
			case *ast.CallExpr:
				if exprText(s.Fun) == "fmt.Sprintf" && len(s.Args) > 1 && exprText(s.Args[0]) == "reportFormat" {
					for _, a := range s.Args[1:] {
						holes = append(holes, exprText(a))
					}
				}
			}
			return true
		})
		fmt.Fprintf(b, "def rf_Status_holes : List String := [%s]\n", quoteJoin(holes))
		var keys []string
		for k := range assigns {
			keys = append(keys, k)
		}
		sort.Strings(keys)
		var parts []string
		for _, k := range keys {
			parts = append(parts, fmt.Sprintf("(%s, [%s])", leanString(k), quoteJoin(assigns[k])))
		}
		fmt.Fprintf(b, "def rf_Status_assigns : List (String × List String) := [%s]\n", strings.Join(parts, ", "))
	} else {
		b.WriteString("def rf_Status_holes : List String := []\ndef rf_Status_assigns : List (String × List String) := []\n")
	}
	// Sanitise: the replacements it performs
	if _, fd := x.fn("rf", "Sanitise"); fd != nil && fd.Body != nil {
		var reps []string
		ast.Inspect(fd.Body, func(n ast.Node) bool {
			if ce, ok := n.(*ast.CallExpr); ok && exprText(ce.Fun) == "strings.Replace" && len(ce.Args) == 4 {
				reps = append(reps, exprText(ce.Args[1])+"=>"+exprText(ce.Args[2])+" n="+exprText(ce.Args[3]))
			}
			return true
		})
		fmt.Fprintf(b, "def rf_Sanitise_replacements : List String := [%s]\n", quoteJoin(reps))
	}
	// reportFormat: the template text
	if p := x.byAlias["rf"]; p != nil {
		if e, ok := p.decls["reportFormat"]; ok {
			if bl, ok := e.(*ast.BasicLit); ok {
				txt := strings.Trim(bl.Value, "`")
				fmt.Fprintf(b, "def rf_reportFormat_lt : Nat := %d\ndef rf_reportFormat_gt : Nat := %d\ndef rf_reportFormat_holes : Nat := %d\n",
					strings.Count(txt, "<"), strings.Count(txt, ">"), strings.Count(txt, "%s"))
			}
		}
	}
}

// genGlobals lists the package-level variables of the library packages and every write to
// one of them outside init (hidden mutable state would show up here).
func (x *extractor) genGlobals(b *strings.Builder) {
	for _, alias := range []string{"utils", "header", "handler", "pushback", "t1005", "t1006", "sat4", "sig4", "msg4", "sat7", "sig7", "msg7", "appcore", "fh"} {
		p := x.byAlias[alias]
		if p == nil {
			continue
		}
		vars := map[string]bool{}
		for _, f := range p.files {
			for _, d := range f.Decls {
				if gd, ok := d.(*ast.GenDecl); ok && gd.Tok == token.VAR {
					for _, sp := range gd.Specs {
						for _, n := range sp.(*ast.ValueSpec).Names {
							if n.Name != "_" {
								vars[n.Name] = true
							}
						}
					}
				}
			}
		}
		var names []string
		for v := range vars {
			names = append(names, v)
		}
		sort.Strings(names)
		var writes []string
		var fnames []string
		for fn := range p.funcs {
			fnames = append(fnames, fn)
		}
		sort.Strings(fnames)
		for _, fn := range fnames {
			fd := p.funcs[fn]
			if fn == "init" || fd.Body == nil {
				continue
			}
			// names shadowed by parameters or local declarations are not the globals
			local := map[string]bool{}
			if fd.Type.Params != nil {
				for _, fl := range fd.Type.Params.List {
					for _, n := range fl.Names {
						local[n.Name] = true
					}
				}
			}
			ast.Inspect(fd.Body, func(n ast.Node) bool {
				switch s := n.(type) {
				case *ast.AssignStmt:
					for _, l := range s.Lhs {
						root := l
						for {
							switch e := root.(type) {
							case *ast.IndexExpr:
								root = e.X
								continue
							case *ast.SelectorExpr:
								root = e.X
								continue
							case *ast.StarExpr:
								root = e.X
								continue
							}
							break
						}
						if id, ok := root.(*ast.Ident); ok {
							if s.Tok == token.DEFINE {
								local[id.Name] = true
							} else if vars[id.Name] && !local[id.Name] {
								writes = append(writes, fn+":"+id.Name)
							}
						}
					}
				case *ast.IncDecStmt:
					if id, ok := s.X.(*ast.Ident); ok && vars[id.Name] && !local[id.Name] {
						writes = append(writes, fn+":"+id.Name)
					}
				}
				return true
			})
		}
		fmt.Fprintf(b, "def globals_%s : List String := [%s]\n", alias, quoteJoin(names))
		fmt.Fprintf(b, "def global_writes_%s : List String := [%s]\n", alias, quoteJoin(writes))
	}
}

// sentValues describes every channel send of a function and every Write call: the value
// expression, the definition of a sent identifier and the copy() calls that fill it.
func sentValues(fd *ast.FuncDecl) []string {
	defs := map[string]string{}
	copies := map[string][]string{}
	ast.Inspect(fd.Body, func(n ast.Node) bool {
		switch s := n.(type) {
		case *ast.AssignStmt:
			if s.Tok == token.DEFINE && len(s.Lhs) == len(s.Rhs) {
				for i, l := range s.Lhs {
					if id, ok := l.(*ast.Ident); ok {
						defs[id.Name] = exprText(s.Rhs[i])
					}
				}
			}
		case *ast.CallExpr:
			if exprText(s.Fun) == "copy" && len(s.Args) == 2 {
				copies[exprText(s.Args[0])] = append(copies[exprText(s.Args[0])], exprText(s.Args[1]))
			}
		}
		return true
	})
	var out []string
	ast.Inspect(fd.Body, func(n ast.Node) bool {
		switch s := n.(type) {
		case *ast.GoStmt:
			out = append(out, "go "+exprText(s.Call))
		case *ast.SendStmt:
			v := exprText(s.Value)
			line := exprText(s.Chan) + " <- " + v
			if d, ok := defs[v]; ok {
				line += " ; " + v + " := " + d
			}
			for _, c := range copies[v] {
				line += " ; copy(" + v + ", " + c + ")"
			}
			out = append(out, line)
		case *ast.CallExpr:
			if se, ok := s.Fun.(*ast.SelectorExpr); ok && se.Sel.Name == "Write" && len(s.Args) == 1 {
				out = append(out, exprText(s.Fun)+"("+exprText(s.Args[0])+")")
			}
		}
		return true
	})
	return out
}
