package main

import "strings"

func (x *extractor) genSkeletonsConc(b *strings.Builder) {}
